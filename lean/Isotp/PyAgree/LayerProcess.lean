import Isotp.PyAgree.Exec2Bridge
import Isotp.PyAgree.EvalLemmas
import Isotp.Process
/-!
  `TransportLayerLogic.process(rx_timeout, do_rx, do_tx)` (isotp/protocol.py): the rx/tx alternation loop - three nested `while`s with
  `break`s - interpreted in the SECOND (fuelled) semantics `run2` of `Isotp/Py/Exec2.lean`, against the model `State.process`
  (`Isotp/Process.lean`), RELATIVE TO ITS CALLEES (the style of `ResetCallees` in LayerQueues.lean).

  The callees are abstract: `ProcessCallees M R msgPV` says, one field per callee, that the `Meths` entry computes the MODEL function seen
  through a representation relation `R : Env → State → Prop` ("`env` shows `s`").  What the text of `process` itself reads is explicit:
  `self.rx_state` / `self.tx_state` and the enum / logging constants (`Reads`), the emptiness of `self.tx_queue`, the locals (`Loc`, `Kept`).
  The three effectful assignments are the statement-level procs of the dump: `"msg:=self.rxfn"`, `"rx_result:=self._process_rx"`,
  `"tx_result:=self._process_tx"` (they bind the local AND change the environment).  A `CanMessage` object is the VALUE `msgPV m`
  (never `None`): it is passed by value to `is_for_me`, `_process_rx`, `txfn`, and copied by `msg = tx_result.msg`.

  Main results (all: for every `M`, `R`, `msgPV` with `ProcessCallees M R msgPV`, every state, both flags)
  * `tx_loop_agrees`      : the inner tx loop = `State.txLoop f`  (runs on which the model neither runs out of fuel nor raises); fuel `≥ f + 13`;
  * `tx_loop_raises`      : ... and when `_process_tx` raises `e` (the model stops with `exc = some e`), the loop raises `e`;
  * `rx_loop_agrees`      : the inner rx loop = `State.rxLoop`, by induction on the inbox (the two `break`s); fuel `≥ |inbox| + 22`;
  * `outer_body`          : one pass through the body of the outer loop = `procStep` (= one unfolding of `State.processLoop`,
                            `processLoop_succ`); fuel `≥ iterFuel = |inbox| + txFuel (state the tx loop starts from) + 30`;
  * `process_loop_agrees` : the outer loop = `State.processLoop f`; fuel `≥ pyLoopFuel f ...` = 1 + Σ over the iterations of the model's run
                            of `(iterFuel + 1)`;
  * `process_agrees`      : `s.process doRx doTx = (s', st, false)`, `s'.exc = none`  ⟹  for every `n ≥ processPyFuel s doRx doTx`
                            (`= pyLoopFuel s.processFuel ... + 8`): `run2 n M env Src.TransportLayerLogic_process = .ok (.ret (encodeStats st) env')`
                            with `R env' s'`.  (Stated for every `n` above the bound directly; `exec2B_mono_le` is not needed.)
  * `process_loop_raises`, `process_raises` : a run of the model that ends with `exc = some e` (from `exc = none`) is a run of the source
                            that raises `e` (`Out.raised e.name _`): `process` has no handler, the exception propagates.
  * `ProcInst.instM_callees` : the hypotheses are satisfiable from EVERY initial state (an instance of `ProcessCallees`), with two
                            concrete runs (both loops and `start_with_tx` exercised; an `AttributeError` propagated).

  No disagreement between the source and the model was found: the order (`start_with_tx` test; rx loop; `start_with_tx = False`;
  `rate_limiter.update()`; tx loop), the three places where `run_process` is raised, the two `break`s of the rx loop (the time-driven one
  only under `if msg is not None`) and the one of the tx loop are those of `State.processLoop` / `rxLoop` / `txLoop`.
-/
namespace Isotp.PyAgree
open Isotp Isotp.Py

namespace Proc

/-! ## 0. infrastructure -/

theorem set_get (env : Env) (k : String) (v : PV) (k' : String) :
    (env.set k v) k' = if k' = k then some v else env k' := rfl

/-- the names the interpreter treats as builtins; every other call goes to `Meths` -/
def builtinNames : List String :=
  ["len", "int", "bool", "min", "max", "bytes", "isinstance_int", "isinstance_bool", "isinstance_float", "isinstance_int_float"]

theorem evalBuiltin_none (fn : String) (args : List PV) (h : fn ∉ builtinNames) : evalBuiltin fn args = none := by
  simp only [builtinNames, List.mem_cons, List.not_mem_nil, or_false, not_or] at h
  unfold evalBuiltin; split <;> simp_all

/-- a call statement without arguments -/
theorem proc0 (M : Meths) (env env' : Env) (fn : String) (hb : fn ∉ builtinNames) (hp : M.proc fn [] env = .ok env') :
    execStmt M env (.expr (.call fn .nil)) = .ok (.next env') := by
  simp [execStmt, evalArgs, evalBuiltin_none fn _ hb, hp]

/-- a call statement with one argument -/
theorem proc1 (M : Meths) (env env' : Env) (fn : String) (a : PExpr) (v : PV) (hb : fn ∉ builtinNames)
    (ha : eval M env a = .ok v) (hp : M.proc fn [v] env = .ok env') :
    execStmt M env (.expr (.call fn (.cons a .nil))) = .ok (.next env') := by
  simp [execStmt, evalArgs, ha, evalBuiltin_none fn _ hb, hp]

/-- a call statement without arguments that raises -/
theorem proc0_err (M : Meths) (env : Env) (fn : String) (er : PErr) (hb : fn ∉ builtinNames) (hp : M.proc fn [] env = .error er) :
    execStmt M env (.expr (.call fn .nil)) = .error er := by
  simp [execStmt, evalArgs, evalBuiltin_none fn _ hb, hp]

/-- a call without arguments in expression position -/
theorem fn0 (M : Meths) (env : Env) (fn : String) (r : PV) (hb : fn ∉ builtinNames) (hp : M.fn fn [] env = .ok r) :
    eval M env (.call fn .nil) = .ok r := by
  simp [eval, evalArgs, evalBuiltin_none fn _ hb, hp]

/-- a call with one argument in expression position -/
theorem fn1 (M : Meths) (env : Env) (fn : String) (a : PExpr) (v r : PV) (hb : fn ∉ builtinNames)
    (ha : eval M env a = .ok v) (hp : M.fn fn [v] env = .ok r) :
    eval M env (.call fn (.cons a .nil)) = .ok r := by
  simp [eval, evalArgs, ha, evalBuiltin_none fn _ hb, hp]

theorem eval_var (M : Meths) (env : Env) (k : String) (v : PV) (h : env k = some v) : eval M env (.var k) = .ok v := by
  simp [eval, h]

/-! ### stepping through a block in the fuelled semantics -/

/-- a simple statement that falls through -/
theorem b_next (n : Nat) (M : Meths) (env env1 : Env) (s : PStmt) (rest : PBlock) (hs : isSimple s = true)
    (h : execStmt M env s = .ok (.next env1)) :
    exec2B (n + 2) M env (.cons s rest) = exec2B (n + 1) M env1 rest := by
  rw [exec2B_cons, exec2S_simple _ _ _ _ hs]
  unfold simple2
  rw [h]
  rfl

/-- a simple statement that raises a builtin exception: the block raises it, in the environment of the statement -/
theorem b_raise (n : Nat) (M : Meths) (env : Env) (s : PStmt) (rest : PBlock) (e : PyExc) (hs : isSimple s = true)
    (h : execStmt M env s = .error (.exc e)) :
    exec2B (n + 2) M env (.cons s rest) = .ok (.raised e.name env) := by
  rw [exec2B_cons, exec2S_simple _ _ _ _ hs]
  unfold simple2
  rw [h]
  rfl

theorem b_assign (n : Nat) (M : Meths) (env : Env) (t : String) (e : PExpr) (v : PV) (rest : PBlock)
    (he : eval M env e = .ok v) :
    exec2B (n + 2) M env (.cons (.assign t e) rest) = exec2B (n + 1) M (env.set t v) rest :=
  b_next n M env _ _ rest rfl (by simp [execStmt, he])

theorem b_ite_true (n : Nat) (M : Meths) (env : Env) (c : PExpr) (t e rest : PBlock) (v : PV)
    (hc : eval M env c = .ok v) (ht : truthy v = .ok true) :
    exec2B (n + 2) M env (.cons (.ite c t e) rest) =
      (match exec2B n M env t with
       | .ok (.next env1) => exec2B (n + 1) M env1 rest
       | r => r) := by
  rw [exec2B_cons, exec2S_ite, hc]
  simp only [ht, if_true]
  cases exec2B n M env t with
  | error er => rfl
  | ok o => cases o <;> rfl

theorem b_ite_false (n : Nat) (M : Meths) (env : Env) (c : PExpr) (t e rest : PBlock) (v : PV)
    (hc : eval M env c = .ok v) (ht : truthy v = .ok false) :
    exec2B (n + 2) M env (.cons (.ite c t e) rest) =
      (match exec2B n M env e with
       | .ok (.next env1) => exec2B (n + 1) M env1 rest
       | r => r) := by
  rw [exec2B_cons, exec2S_ite, hc]
  simp only [ht, Bool.false_eq_true, if_false]
  cases exec2B n M env e with
  | error er => rfl
  | ok o => cases o <;> rfl

/-- an `if` without `else` whose test is false -/
theorem b_ite_skip (n : Nat) (M : Meths) (env : Env) (c : PExpr) (t rest : PBlock) (v : PV)
    (hc : eval M env c = .ok v) (ht : truthy v = .ok false) :
    exec2B (n + 3) M env (.cons (.ite c t .nil) rest) = exec2B (n + 2) M env rest := by
  rw [b_ite_false _ _ _ _ _ _ _ _ hc ht, exec2B_nil]

theorem b_break (n : Nat) (M : Meths) (env : Env) (rest : PBlock) :
    exec2B (n + 2) M env (.cons .break_ rest) = .ok (.brk env) := by
  rw [exec2B_cons, exec2S_break]

theorem w_false (n : Nat) (M : Meths) (env : Env) (c : PExpr) (body : PBlock) (v : PV)
    (hc : eval M env c = .ok v) (ht : truthy v = .ok false) :
    exec2S (n + 1) M env (.while_ c body) = .ok (.next env) := by
  rw [exec2S_while, hc]
  simp only [ht]

theorem w_true (n : Nat) (M : Meths) (env : Env) (c : PExpr) (body : PBlock) (v : PV)
    (hc : eval M env c = .ok v) (ht : truthy v = .ok true) :
    exec2S (n + 1) M env (.while_ c body) =
      (match exec2B n M env body with
       | .ok (.next env1) => exec2S n M env1 (.while_ c body)
       | .ok (.brk env1) => .ok (.next env1)
       | r => r) := by
  rw [exec2S_while, hc]
  simp only [ht]
  cases exec2B n M env body with
  | error er => rfl
  | ok o => cases o <;> rfl

end Proc
open Proc

/-! ## 1. what the environment shows -/

/-- the members of `TransportLayerLogic.RxState` / `TxState` (`enum.Enum` classes: a member is equal to itself only) -/
def pRxStPV : RxSt → PV
  | .idle => .sc (.enum "RxState" "IDLE") | .waitCf => .sc (.enum "RxState" "WAIT_CF")
def pTxStPV : TxSt → PV
  | .idle => .sc (.enum "TxState" "IDLE") | .waitFc => .sc (.enum "TxState" "WAIT_FC") | .transmitCf => .sc (.enum "TxState" "TRANSMIT_CF")
  | .sfStandby => .sc (.enum "TxState" "TRANSMIT_SF_STANDBY") | .ffStandby => .sc (.enum "TxState" "TRANSMIT_FF_STANDBY")

/-- the value `ProcessStats(received=, received_processed=, sent=, frame_received=)`: the four counters -/
def encodeStats (st : Stats) : PV :=
  .list [.py (.int st.received), .py (.int st.processed), .py (.int st.sent), .py (.int st.frames)]

theorem encodeStats_injective (a b : Stats) (h : encodeStats a = encodeStats b) : a = b := by
  cases a; cases b
  simp only [encodeStats, PV.list.injEq, List.cons.injEq, Sc.py.injEq, PyVal.int.injEq, Int.natCast_inj, and_true] at h
  obtain ⟨h1, h2, h3, h4⟩ := h
  subst h1 h2 h3 h4
  rfl

/-- `Optional[CanMessage]` -/
def optMsgPV (msgPV : CanMsg → PV) : Option CanMsg → PV
  | none => pnone
  | some m => msgPV m

/-- what the text of `process` reads of the object (apart from its calls): the two FSM states and the enum / logging constants -/
structure Reads (env : Env) (s : State) : Prop where
  rxState : env "self.rx_state" = some (pRxStPV s.rxState)
  txState : env "self.tx_state" = some (pTxStPV s.txState)
  rxIdle : env "self.RxState.IDLE" = some (pRxStPV .idle)
  txIdle : env "self.TxState.IDLE" = some (pTxStPV .idle)
  txCf : env "self.TxState.TRANSMIT_CF" = some (pTxStPV .transmitCf)
  txSf : env "self.TxState.TRANSMIT_SF_STANDBY" = some (pTxStPV .sfStandby)
  txFf : env "self.TxState.TRANSMIT_FF_STANDBY" = some (pTxStPV .ffStandby)
  debug : env "logging.DEBUG" = some (pint 10)

/-- the parameters and the locals that live across a call: every callee must leave them alone (except the one it binds) -/
def procLocals : List String :=
  ["do_rx", "do_tx", "rx_timeout", "run_process", "msg_received", "msg_received_processed", "msg_sent", "nb_frame_received",
   "first_loop", "msg", "tx_result.immediate_rx_required"]

/-- the names `process` assigns itself (locals, and the two `last_*_state` attributes, which nothing in the model reads) -/
def procWrites : List String :=
  ["run_process", "msg_received", "msg_received_processed", "msg_sent", "nb_frame_received", "msg", "start_with_tx", "first_loop",
   "for_me", "self.last_tx_state", "self.last_rx_state"]

/-- `env'` has the locals of `env`, except those in `ex` -/
def Kept (ex : List String) (env env' : Env) : Prop := ∀ k, k ∈ procLocals → k ∉ ex → env' k = env k

/-- The callees of `process`, given by the MODEL functions seen through the environment: `R env s` reads "`env` shows `s`".
    A `CanMessage` object is the value `msgPV m` (never `None`).
    Each callee is (or will be) tied to its own source by another leaf:
    * `self.rxfn(rx_timeout)`               : the user's function = the bus of the model (`State.inbox`: an entry `(dt, m)` is returned after
                                              blocking for `dt`; `None` when the inbox is empty); no source in /repo;
    * `self._check_timeouts_rx()`           : `check_timeouts_rx_agrees` (LayerRx.lean);
    * `self.address.is_for_me(msg)`         : `isForMe_agrees` (AddressFns.lean);
    * `self._process_rx(msg)`               : `process_rx_agrees` (LayerRx.lean; its invariant `RxBufOk` is to be put in `R`);
    * `self.rate_limiter.update()`          : the rate-limiter region of LayerTxHelpers.lean / MiscTimer.lean;
    * `self._process_tx()`                  : the regions of LayerTx.lean (being written);
    * `self.txfn(msg)`                      : the user's function = the event `.tx now m` of the model's log; no source in /repo;
    * `self.tx_queue.empty()`               : the `queue.Queue` primitive (`qEmpty "#tx_queue"` of LayerQueues.lean);
    * `self.logger.isEnabledFor(DEBUG)`     : logging is off (the model has no logging);
    * `self.ProcessStats(...)`              : the constructor of a record of four integers. -/
structure ProcessCallees (M : Meths) (R : Env → State → Prop) (msgPV : CanMsg → PV) : Prop where
  msg_ne : ∀ m, msgPV m ≠ pnone
  /-- the text of `process` reads these -/
  reads : ∀ env s, R env s → Reads env s
  /-- an assignment to a local (or to `self.last_*_state`) does not change what the environment shows -/
  R_set : ∀ env s k v, k ∈ procWrites → R env s → R (env.set k v) s
  tx_queue_empty : ∀ env s, R env s → M.fn "self.tx_queue.empty" [] env = .ok (pbool s.txQueue.isEmpty)
  log_off : ∀ env v, M.fn "self.logger.isEnabledFor" [v] env = .ok (pbool false)
  is_for_me : ∀ env s m, R env s → M.fn "self.address.is_for_me" [msgPV m] env = .ok (pbool (s.addr.rx.isForMe m))
  stats : ∀ env (a b c d : Nat),
    M.fn "self.ProcessStats#received#received_processed#sent#frame_received" [pint a, pint b, pint c, pint d] env =
      .ok (encodeStats ⟨a, b, c, d⟩)
  /-- `msg = self.rxfn(rx_timeout)`, a frame is there: the clock advances by the blocking delay, the frame leaves the inbox, is logged -/
  rxfn_some : ∀ env s v dt m rest, R env s → s.inbox = (dt, m) :: rest →
    ∃ env', M.proc "msg:=self.rxfn" [v] env = .ok env' ∧
      R env' (({ s with inbox := rest, now := s.now + dt } : State).emit (.rx (s.now + dt) m)) ∧
      env' "msg" = some (msgPV m) ∧ Kept ["msg"] env env'
  /-- `msg = self.rxfn(rx_timeout)`, nothing there: `None` -/
  rxfn_none : ∀ env s v, R env s → s.inbox = [] →
    ∃ env', M.proc "msg:=self.rxfn" [v] env = .ok env' ∧ R env' (({ s with inbox := [] } : State).emit (.rxNone s.now)) ∧
      env' "msg" = some pnone ∧ Kept ["msg"] env env'
  check_timeouts_rx : ∀ env s, R env s →
    ∃ env', M.proc "self._check_timeouts_rx" [] env = .ok env' ∧ R env' s.checkTimeoutsRx ∧ Kept [] env env'
  process_rx : ∀ env s m, R env s →
    ∃ env', M.proc "rx_result:=self._process_rx" [msgPV m] env = .ok env' ∧ R env' (s.processRx m).1 ∧
      env' "rx_result.immediate_tx_required" = some (pbool (s.processRx m).2.1) ∧
      env' "rx_result.frame_received" = some (pbool (s.processRx m).2.2) ∧ Kept [] env env'
  rl_update : ∀ env s, R env s →
    ∃ env', M.proc "self.rate_limiter.update" [] env = .ok env' ∧ R env' { s with rl := s.rl.update s.cfg.rlWindowNs s.now } ∧
      Kept [] env env'
  /-- `tx_result = self._process_tx()` when the model's `processTx` does not raise -/
  process_tx : ∀ env s, R env s → s.processTx.1.exc = none →
    ∃ env', M.proc "tx_result:=self._process_tx" [] env = .ok env' ∧ R env' s.processTx.1 ∧
      env' "tx_result.msg" = some (optMsgPV msgPV s.processTx.2.1) ∧
      env' "tx_result.immediate_rx_required" = some (pbool s.processTx.2.2) ∧ Kept ["tx_result.immediate_rx_required"] env env'
  /-- ... and when it does (the model records the exception in `exc` and its callers stop): the call raises it -/
  process_tx_raises : ∀ env s e, R env s → s.exc = none → s.processTx.1.exc = some e →
    M.proc "tx_result:=self._process_tx" [] env = .error (.exc e)
  txfn : ∀ env s m, R env s →
    ∃ env', M.proc "self.txfn" [msgPV m] env = .ok env' ∧ R env' (s.emit (.tx s.now m)) ∧ Kept [] env env'

/-- the parameters, `run_process` and the four counters -/
structure Loc (env : Env) (doRx doTx : Bool) (tmo : PV) (run : Bool) (st : Stats) : Prop where
  doRx : env "do_rx" = some (pbool doRx)
  doTx : env "do_tx" = some (pbool doTx)
  tmo : env "rx_timeout" = some tmo
  run : env "run_process" = some (pbool run)
  received : env "msg_received" = some (pint st.received)
  processed : env "msg_received_processed" = some (pint st.processed)
  sent : env "msg_sent" = some (pint st.sent)
  frames : env "nb_frame_received" = some (pint st.frames)

namespace Loc
variable {env env' : Env} {doRx doTx run : Bool} {tmo : PV} {st : Stats}

/-- a callee that keeps the locals -/
theorem kept {ex : List String} (h : Loc env doRx doTx tmo run st) (hk : Kept ex env env')
    (hex : ∀ k ∈ ex, k = "first_loop" ∨ k = "msg" ∨ k = "tx_result.immediate_rx_required") : Loc env' doRx doTx tmo run st := by
  have e : ∀ k, k ∈ procLocals → k ≠ "first_loop" → k ≠ "msg" → k ≠ "tx_result.immediate_rx_required" → env' k = env k := by
    intro k hk1 h1 h2 h3
    refine hk k hk1 (fun hin => ?_)
    rcases hex k hin with h | h | h
    · exact h1 h
    · exact h2 h
    · exact h3 h
  constructor
  · rw [e _ (by decide) (by decide) (by decide) (by decide)]; exact h.doRx
  · rw [e _ (by decide) (by decide) (by decide) (by decide)]; exact h.doTx
  · rw [e _ (by decide) (by decide) (by decide) (by decide)]; exact h.tmo
  · rw [e _ (by decide) (by decide) (by decide) (by decide)]; exact h.run
  · rw [e _ (by decide) (by decide) (by decide) (by decide)]; exact h.received
  · rw [e _ (by decide) (by decide) (by decide) (by decide)]; exact h.processed
  · rw [e _ (by decide) (by decide) (by decide) (by decide)]; exact h.sent
  · rw [e _ (by decide) (by decide) (by decide) (by decide)]; exact h.frames

/-- the keys `Loc` talks about -/
def keys : List String :=
  ["do_rx", "do_tx", "rx_timeout", "run_process", "msg_received", "msg_received_processed", "msg_sent", "nb_frame_received"]

theorem set_other (h : Loc env doRx doTx tmo run st) (k : String) (v : PV) (hk : k ∉ keys) : Loc (env.set k v) doRx doTx tmo run st := by
  simp only [keys, List.mem_cons, List.not_mem_nil, or_false, not_or] at hk
  obtain ⟨h1, h2, h3, h4, h5, h6, h7, h8⟩ := hk
  constructor
  · rw [set_get, if_neg (Ne.symm h1)]; exact h.doRx
  · rw [set_get, if_neg (Ne.symm h2)]; exact h.doTx
  · rw [set_get, if_neg (Ne.symm h3)]; exact h.tmo
  · rw [set_get, if_neg (Ne.symm h4)]; exact h.run
  · rw [set_get, if_neg (Ne.symm h5)]; exact h.received
  · rw [set_get, if_neg (Ne.symm h6)]; exact h.processed
  · rw [set_get, if_neg (Ne.symm h7)]; exact h.sent
  · rw [set_get, if_neg (Ne.symm h8)]; exact h.frames

theorem set_run (h : Loc env doRx doTx tmo run st) (b : Bool) : Loc (env.set "run_process" (pbool b)) doRx doTx tmo b st := by
  constructor <;> simp [set_get, h.doRx, h.doTx, h.tmo, h.received, h.processed, h.sent, h.frames]

theorem set_received (h : Loc env doRx doTx tmo run st) (n : Nat) :
    Loc (env.set "msg_received" (pint n)) doRx doTx tmo run { st with received := n } := by
  constructor <;> simp [set_get, h.doRx, h.doTx, h.tmo, h.run, h.processed, h.sent, h.frames]

theorem set_processed (h : Loc env doRx doTx tmo run st) (n : Nat) :
    Loc (env.set "msg_received_processed" (pint n)) doRx doTx tmo run { st with processed := n } := by
  constructor <;> simp [set_get, h.doRx, h.doTx, h.tmo, h.run, h.received, h.sent, h.frames]

theorem set_sent (h : Loc env doRx doTx tmo run st) (n : Nat) :
    Loc (env.set "msg_sent" (pint n)) doRx doTx tmo run { st with sent := n } := by
  constructor <;> simp [set_get, h.doRx, h.doTx, h.tmo, h.run, h.received, h.processed, h.frames]

theorem set_frames (h : Loc env doRx doTx tmo run st) (n : Nat) :
    Loc (env.set "nb_frame_received" (pint n)) doRx doTx tmo run { st with frames := n } := by
  constructor <;> simp [set_get, h.doRx, h.doTx, h.tmo, h.run, h.received, h.processed, h.sent]

end Loc

/-- `x += 1` on a counter -/
theorem eval_incr (M : Meths) (env : Env) (k : String) (n : Nat) (h : env k = some (pint n)) :
    eval M env (.binop .add (.var k) (.int 1)) = .ok (pint ((n + 1 : Nat) : Int)) := by
  simp [eval, h]

/-! ## 2. the text of `process`, cut into its blocks -/

/-- the test of both inner loops: `msg is not None or first_loop` -/
def loopCond : PExpr := .or_ (.isNotNone (.var "msg")) (.var "first_loop")

def logTest : PExpr := .call "self.logger.isEnabledFor" (.cons (.var "logging.DEBUG") .nil)

/-- `msg_sent += 1; if DEBUG: ...; self.txfn(msg)` -/
def txSendBlk : PBlock :=
  .cons (.assign "msg_sent" (.binop .add (.var "msg_sent") (.int 1)))
  (.cons (.ite logTest .nil .nil)
  (.cons (.expr (.call "self.txfn" (.cons (.var "msg") .nil)))
  .nil))

def runBreakBlk : PBlock := .cons (.assign "run_process" .tt) (.cons .break_ .nil)

/-- the body of the inner tx loop -/
def txBody : PBlock :=
  .cons (.assign "first_loop" .ff)
  (.cons (.expr (.call "tx_result:=self._process_tx" .nil))
  (.cons (.assign "msg" (.var "tx_result.msg"))
  (.cons (.ite (.isNotNone (.var "msg")) txSendBlk .nil)
  (.cons (.ite (.var "tx_result.immediate_rx_required") runBreakBlk .nil)
  .nil))))

/-- the dead logging block of the rx loop (never run: logging is off) -/
def rxLogBlk : PBlock :=
  .cons (.assign "addr" (.ifexp (.var "msg.is_extended_id") (.call "__format__" (.cons (.var "msg.arbitration_id") .nil))
    (.call "__format__" (.cons (.var "msg.arbitration_id") .nil))))
  (.cons (.assign "processed" (.ifexp (.var "for_me") (.strLit "p") (.strLit "i")))
  .nil)

/-- `msg_received_processed += 1; rx_result = self._process_rx(msg); ...` -/
def rxForMeBlk : PBlock :=
  .cons (.assign "msg_received_processed" (.binop .add (.var "msg_received_processed") (.int 1)))
  (.cons (.expr (.call "rx_result:=self._process_rx" (.cons (.var "msg") .nil)))
  (.cons (.ite (.var "rx_result.frame_received")
    (.cons (.assign "nb_frame_received" (.binop .add (.var "nb_frame_received") (.int 1))) .nil) .nil)
  (.cons (.ite (.var "rx_result.immediate_tx_required") (.cons .break_ .nil) .nil)
  .nil)))

/-- `do_tx and self.tx_state in (TRANSMIT_CF, TRANSMIT_SF_STANDBY, TRANSMIT_FF_STANDBY)` -/
def timeDrivenTest : PExpr :=
  .and_ (.var "do_tx") (.cmp .isIn (.var "self.tx_state")
    (.lst (.cons (.var "self.TxState.TRANSMIT_CF") (.cons (.var "self.TxState.TRANSMIT_SF_STANDBY")
      (.cons (.var "self.TxState.TRANSMIT_FF_STANDBY") .nil)))))

/-- the block under `if msg is not None:` in the rx loop -/
def rxMsgBlk : PBlock :=
  .cons (.assign "msg_received" (.binop .add (.var "msg_received") (.int 1)))
  (.cons (.assign "for_me" (.call "self.address.is_for_me" (.cons (.var "msg") .nil)))
  (.cons (.ite logTest rxLogBlk .nil)
  (.cons (.ite (.var "for_me") rxForMeBlk .nil)
  (.cons (.ite timeDrivenTest runBreakBlk .nil)
  .nil))))

/-- the body of the inner rx loop -/
def rxBody : PBlock :=
  .cons (.assign "first_loop" .ff)
  (.cons (.expr (.call "msg:=self.rxfn" (.cons (.var "rx_timeout") .nil)))
  (.cons (.expr (.call "self._check_timeouts_rx" .nil))
  (.cons (.ite (.isNotNone (.var "msg")) rxMsgBlk .nil)
  .nil)))

def startWithTxExpr : PExpr :=
  .and_ (.var "do_tx") (.and_ (.not_ (.call "self.tx_queue.empty" .nil))
    (.and_ (.cmp .eq (.var "self.rx_state") (.var "self.RxState.IDLE")) (.cmp .eq (.var "self.tx_state") (.var "self.TxState.IDLE"))))

def rxPart : PBlock := .cons (.assign "first_loop" .tt) (.cons (.while_ loopCond rxBody) .nil)
def txPart : PBlock := .cons (.assign "first_loop" .tt) (.cons (.assign "msg" .none) (.cons (.while_ loopCond txBody) .nil))

def logStateBlk : PBlock :=
  .cons (.ite (.or_ (.cmp .ne (.var "self.last_rx_state") (.var "self.rx_state")) (.cmp .ne (.var "self.last_tx_state") (.var "self.tx_state")))
    .nil .nil) .nil

def outerTail8 : PBlock :=
  .cons (.ite logTest logStateBlk .nil)
  (.cons (.assign "self.last_tx_state" (.var "self.tx_state"))
  (.cons (.assign "self.last_rx_state" (.var "self.rx_state"))
  .nil))

def outerTail5 : PBlock :=
  .cons (.assign "start_with_tx" .ff)
  (.cons (.expr (.call "self.rate_limiter.update" .nil))
  (.cons (.ite (.var "do_tx") txPart .nil)
  outerTail8))

def outerTail4 : PBlock :=
  .cons (.ite (.and_ (.var "do_rx") (.not_ (.var "start_with_tx"))) rxPart .nil) outerTail5

/-- the body of the outer loop -/
def outerBody : PBlock :=
  .cons (.assign "msg" .none)
  (.cons (.assign "run_process" .ff)
  (.cons (.assign "start_with_tx" startWithTxExpr)
  (.cons (.ite (.var "start_with_tx") (.cons (.assign "run_process" .tt) .nil) .nil)
  outerTail4)))

def retStats : PStmt :=
  .ret (.call "self.ProcessStats#received#received_processed#sent#frame_received"
    (.cons (.var "msg_received") (.cons (.var "msg_received_processed") (.cons (.var "msg_sent") (.cons (.var "nb_frame_received") .nil)))))

/-- the dumped source IS these blocks -/
theorem process_src : Src.TransportLayerLogic_process =
    .cons (.assign "run_process" .tt)
    (.cons (.assign "msg_received" (.int 0))
    (.cons (.assign "msg_received_processed" (.int 0))
    (.cons (.assign "msg_sent" (.int 0))
    (.cons (.assign "nb_frame_received" (.int 0))
    (.cons (.while_ (.var "run_process") outerBody)
    (.cons retStats
    .nil)))))) := rfl

/-! ## 3. the inner tx loop -/

section loops
variable {M : Meths} {R : Env → State → Prop} {msgPV : CanMsg → PV}

theorem eval_loopCond (M : Meths) (env : Env) (mv : PV) (fl : Bool) (hm : env "msg" = some mv) (hf : env "first_loop" = some (pbool fl)) :
    eval M env loopCond = .ok (pbool ((mv != pnone) || fl)) := by
  cases h : (mv != pnone) <;> simp [loopCond, eval, hm, hf, h]

theorem eval_cmp (M : Meths) (env : Env) (op : CmpOp) (a b : PExpr) (x y : PV) (ha : eval M env a = .ok x) (hb : eval M env b = .ok y) :
    eval M env (.cmp op a b) = evalCmp op x y := by
  simp [eval, ha, hb]

theorem eval_and_true (M : Meths) (env : Env) (a b : PExpr) (x : PV) (ha : eval M env a = .ok x) (ht : truthy x = .ok true) :
    eval M env (.and_ a b) = eval M env b := by
  simp [eval, ha, ht]

theorem eval_and_false (M : Meths) (env : Env) (a b : PExpr) (x : PV) (ha : eval M env a = .ok x) (ht : truthy x = .ok false) :
    eval M env (.and_ a b) = .ok x := by
  simp [eval, ha, ht]

theorem eval_not (M : Meths) (env : Env) (a : PExpr) (b : Bool) (ha : eval M env a = .ok (pbool b)) :
    eval M env (.not_ a) = .ok (pbool (!b)) := by
  simp [eval, ha]

theorem eval_isNotNone (M : Meths) (env : Env) (k : String) (v : PV) (h : env k = some v) :
    eval M env (.isNotNone (.var k)) = .ok (pbool (v != pnone)) := by
  simp [eval, h]

theorem eval_logTest (hM : ProcessCallees M R msgPV) (env : Env) (s : State) (hR : R env s) :
    eval M env logTest = .ok (pbool false) :=
  fn1 M env _ _ _ _ (by decide) (eval_var M env _ _ (hM.reads env s hR).debug) (hM.log_off env _)

theorem msgPV_bne (hM : ProcessCallees M R msgPV) (m : CanMsg) : (msgPV m != pnone) = true := by
  simpa using hM.msg_ne m

/-- `msg_sent += 1; if DEBUG: ...; self.txfn(msg)` -/
theorem txSend_run (hM : ProcessCallees M R msgPV) (env : Env) (s : State) (m : CanMsg) (doRx doTx run : Bool) (tmo : PV) (st : Stats)
    (hR : R env s) (hL : Loc env doRx doTx tmo run st) (hmsg : env "msg" = some (msgPV m))
    (hfl : env "first_loop" = some (pbool false)) (imm : Bool) (himm : env "tx_result.immediate_rx_required" = some (pbool imm)) :
    ∃ env', (∀ k, exec2B (k + 5) M env txSendBlk = .ok (.next env')) ∧ R env' (s.emit (.tx s.now m)) ∧
      Loc env' doRx doTx tmo run { st with sent := st.sent + 1 } ∧ env' "msg" = some (msgPV m) ∧
      env' "first_loop" = some (pbool false) ∧ env' "tx_result.immediate_rx_required" = some (pbool imm) := by
  have hR1 := hM.R_set env s "msg_sent" (pint ((st.sent + 1 : Nat) : Int)) (by decide) hR
  obtain ⟨e2, p2, r2, k2⟩ := hM.txfn _ s m hR1
  have hm1 : (env.set "msg_sent" (pint ((st.sent + 1 : Nat) : Int))) "msg" = some (msgPV m) := by simp [set_get, hmsg]
  refine ⟨e2, ?_, r2, (hL.set_sent (st.sent + 1)).kept k2 (by simp), ?_, ?_, ?_⟩
  · intro k
    rw [txSendBlk, b_assign _ _ _ _ _ _ _ (eval_incr M env "msg_sent" st.sent hL.sent),
      b_ite_skip _ _ _ _ _ _ _ (eval_logTest hM _ s hR1) rfl,
      b_next _ _ _ e2 _ _ rfl (proc1 M _ e2 _ _ _ (by decide) (eval_var M _ _ _ hm1) p2), exec2B_nil]
  · rw [k2 _ (by decide) (by simp)]; exact hm1
  · rw [k2 _ (by decide) (by simp)]; simp [set_get, hfl]
  · rw [k2 _ (by decide) (by simp)]; simp [set_get, himm]

/-- one pass through the body of the tx loop, `_process_tx` not raising -/
theorem tx_body (hM : ProcessCallees M R msgPV) (env : Env) (s s1 : State) (out : Option CanMsg) (imm : Bool)
    (doRx doTx run : Bool) (tmo : PV) (st : Stats)
    (hR : R env s) (hL : Loc env doRx doTx tmo run st) (hp : s.processTx = (s1, out, imm)) (hexc : s1.exc = none) :
    ∃ envF, (∀ n, 12 ≤ n → exec2B n M env txBody = .ok (if imm then .brk envF else .next envF)) ∧
      R envF (match (generalizing := false) out with | some m => s1.emit (.tx s1.now m) | none => s1) ∧
      Loc envF doRx doTx tmo (run || imm) { st with sent := match (generalizing := false) out with | some _ => st.sent + 1 | none => st.sent } ∧
      envF "msg" = some (optMsgPV msgPV out) ∧ envF "first_loop" = some (pbool false) := by
  have hR0 := hM.R_set env s "first_loop" (pbool false) (by decide) hR
  obtain ⟨e1, p1, r1, m1, i1, k1⟩ := hM.process_tx _ s hR0 (by rw [hp]; exact hexc)
  rw [hp] at r1 m1 i1
  simp only at r1 m1 i1
  have L1 : Loc e1 doRx doTx tmo run st := (hL.set_other "first_loop" (pbool false) (by decide)).kept k1 (by simp)
  have f1 : e1 "first_loop" = some (pbool false) := by rw [k1 _ (by decide) (by simp)]; simp [set_get]
  -- `msg = tx_result.msg`
  have hR2 := hM.R_set e1 s1 "msg" (optMsgPV msgPV out) (by decide) r1
  have L2 : Loc (e1.set "msg" (optMsgPV msgPV out)) doRx doTx tmo run st := L1.set_other "msg" _ (by decide)
  have f2 : (e1.set "msg" (optMsgPV msgPV out)) "first_loop" = some (pbool false) := by simp [set_get, f1]
  have i2 : (e1.set "msg" (optMsgPV msgPV out)) "tx_result.immediate_rx_required" = some (pbool imm) := by simp [set_get, i1]
  have m2 : (e1.set "msg" (optMsgPV msgPV out)) "msg" = some (optMsgPV msgPV out) := by simp [set_get]
  have head : ∀ j, exec2B (j + 12) M env txBody =
      exec2B (j + 9) M (e1.set "msg" (optMsgPV msgPV out))
        (.cons (.ite (.isNotNone (.var "msg")) txSendBlk .nil)
          (.cons (.ite (.var "tx_result.immediate_rx_required") runBreakBlk .nil) .nil)) := by
    intro j
    rw [txBody, b_assign _ _ _ _ _ _ _ (by simp [eval] : eval M env .ff = .ok (pbool false)),
      b_next _ _ _ e1 _ _ rfl (proc0 M _ e1 _ (by decide) p1),
      b_assign _ _ _ _ _ _ _ (eval_var M _ _ _ m1)]
  -- the last statement: `if tx_result.immediate_rx_required: run_process = True; break`
  have last : ∀ (e3 : Env) (s3 : State) (st3 : Stats), R e3 s3 → Loc e3 doRx doTx tmo run st3 →
      e3 "tx_result.immediate_rx_required" = some (pbool imm) → e3 "msg" = some (optMsgPV msgPV out) →
      e3 "first_loop" = some (pbool false) →
      ∃ envF, (∀ j, exec2B (j + 8) M e3 (.cons (.ite (.var "tx_result.immediate_rx_required") runBreakBlk .nil) .nil) =
          .ok (if imm then .brk envF else .next envF)) ∧
        R envF s3 ∧ Loc envF doRx doTx tmo (run || imm) st3 ∧ envF "msg" = some (optMsgPV msgPV out) ∧
        envF "first_loop" = some (pbool false) := by
    intro e3 s3 st3 r3 L3 i3 m3 f3
    cases imm with
    | false =>
      refine ⟨e3, ?_, r3, by simpa using L3, m3, f3⟩
      intro j
      rw [b_ite_skip _ _ _ _ _ _ _ (eval_var M _ _ _ i3) rfl, exec2B_nil]
      rfl
    | true =>
      refine ⟨e3.set "run_process" (pbool true), ?_, hM.R_set _ _ _ _ (by decide) r3, by simpa using L3.set_run true,
        by simp [set_get, m3], by simp [set_get, f3]⟩
      intro j
      rw [b_ite_true _ _ _ _ _ _ _ _ (eval_var M _ _ _ i3) rfl, runBreakBlk,
        b_assign _ _ _ _ _ _ _ (by simp [eval] : eval M e3 .tt = .ok (pbool true)), b_break]
      rfl
  cases out with
  | none =>
    obtain ⟨envF, hrun, rF, LF, mF, fF⟩ := last _ s1 st hR2 L2 i2 m2 f2
    refine ⟨envF, ?_, rF, LF, mF, fF⟩
    intro n hn
    obtain ⟨j, rfl⟩ : ∃ j, n = j + 12 := ⟨n - 12, by omega⟩
    rw [head, b_ite_skip _ _ _ _ _ _ _ (eval_isNotNone M _ _ _ m2) (by simp [optMsgPV]), hrun]
  | some m =>
    obtain ⟨e3, hsend, r3, L3, m3, f3, i3⟩ := txSend_run hM _ s1 m doRx doTx run tmo st hR2 L2 m2 f2 imm i2
    obtain ⟨envF, hrun, rF, LF, mF, fF⟩ := last e3 _ _ r3 L3 i3 m3 f3
    refine ⟨envF, ?_, rF, LF, mF, fF⟩
    intro n hn
    obtain ⟨j, rfl⟩ : ∃ j, n = j + 12 := ⟨n - 12, by omega⟩
    rw [head, b_ite_true _ _ _ _ _ _ _ _ (eval_isNotNone M _ _ _ m2) (by simp [optMsgPV, msgPV_bne hM]), hsend]
    simp only
    rw [hrun]

/-- one step of the model's tx loop, in the shape of `tx_body` -/
theorem txLoop_succ (f : Nat) (s s1 : State) (n : Nat) (out : Option CanMsg) (imm : Bool) (hp : s.processTx = (s1, out, imm)) :
    State.txLoop (f + 1) s n =
      if s1.exc.isSome then (s1, n, false, false) else
      if imm then ((match (generalizing := false) out with | some m => s1.emit (.tx s1.now m) | none => s1), (match (generalizing := false) out with | some _ => n + 1 | none => n), true, false)
      else if out.isSome then
        State.txLoop f (match (generalizing := false) out with | some m => s1.emit (.tx s1.now m) | none => s1) (match (generalizing := false) out with | some _ => n + 1 | none => n)
      else (s1, n, false, false) := by
  simp only [State.txLoop, hp]
  cases out <;> simp

/-- **the inner tx loop = `State.txLoop`**: a run of the model with fuel `f` that neither runs out of fuel nor ends with an exception is a run
    of the `while` (fuel `≥ f + 13`): same final state (through `R`), `msg_sent` = the model's count, `run_process` raised iff the model asks
    for another pass. -/
theorem tx_loop_agrees (hM : ProcessCallees M R msgPV) : ∀ (f : Nat) (env : Env) (s : State) (doRx doTx run : Bool) (tmo : PV) (st : Stats)
    (mv : PV) (fl : Bool) (s' : State) (cnt' : Nat) (run' : Bool),
    R env s → Loc env doRx doTx tmo run st → env "msg" = some mv → env "first_loop" = some (pbool fl) → ((mv != pnone) || fl) = true →
    State.txLoop f s st.sent = (s', cnt', run', false) → s'.exc = none →
    ∃ env', (∀ n, f + 13 ≤ n → exec2S n M env (.while_ loopCond txBody) = .ok (.next env')) ∧ R env' s' ∧
      Loc env' doRx doTx tmo (run || run') { st with sent := cnt' }
  | 0, env, s, doRx, doTx, run, tmo, st, mv, fl, s', cnt', run', _, _, _, _, _, h, _ => by
    simp [State.txLoop] at h
  | f + 1, env, s, doRx, doTx, run, tmo, st, mv, fl, s', cnt', run', hR, hL, hm, hf, hc, h, hexc => by
    rcases hp : s.processTx with ⟨s1, out, imm⟩
    rw [txLoop_succ f s s1 st.sent out imm hp] at h
    cases he : s1.exc with
    | some e =>
      rw [he] at h
      simp only [Option.isSome_some, if_true, Prod.mk.injEq] at h
      rw [← h.1, he] at hexc
      cases hexc
    | none =>
      rw [he] at h
      simp only [Option.isSome_none, Bool.false_eq_true, if_false] at h
      obtain ⟨envF, hbody, rF, LF, mF, fF⟩ := tx_body hM env s s1 out imm doRx doTx run tmo st hR hL hp he
      have hcond := eval_loopCond M env mv fl hm hf
      cases imm with
      | true =>
        simp only [if_true, Prod.mk.injEq] at h
        obtain ⟨h1, h2, h3, -⟩ := h
        subst h1 h2 h3
        refine ⟨envF, ?_, rF, LF⟩
        intro n hn
        obtain ⟨k, rfl⟩ : ∃ k, n = k + 1 := ⟨n - 1, by omega⟩
        rw [w_true _ _ _ _ _ _ hcond (by rw [hc]; rfl), hbody k (by omega)]
        rfl
      | false =>
        simp only [Bool.false_eq_true, if_false] at h
        cases out with
        | none =>
          simp only [Option.isSome_none, Bool.false_eq_true, if_false, Prod.mk.injEq] at h
          obtain ⟨h1, h2, h3, -⟩ := h
          subst h1 h2 h3
          refine ⟨envF, ?_, rF, LF⟩
          intro n hn
          obtain ⟨k, rfl⟩ : ∃ k, n = k + 2 := ⟨n - 2, by omega⟩
          rw [w_true _ _ _ _ _ _ hcond (by rw [hc]; rfl), hbody (k + 1) (by omega)]
          simp only [Bool.false_eq_true, if_false]
          rw [w_false _ _ _ _ _ _ (eval_loopCond M envF _ _ mF fF) (by simp [optMsgPV])]
        | some m =>
          simp only [Option.isSome_some, if_true] at h
          obtain ⟨env', hrun, r', L'⟩ := tx_loop_agrees hM f envF _ doRx doTx (run || false) tmo _ _ _ s' cnt' run' rF LF mF fF
            (by simp [optMsgPV, msgPV_bne hM]) h hexc
          refine ⟨env', ?_, r', by simpa using L'⟩
          intro n hn
          obtain ⟨k, rfl⟩ : ∃ k, n = k + 1 := ⟨n - 1, by omega⟩
          rw [w_true _ _ _ _ _ _ hcond (by rw [hc]; rfl), hbody k (by omega)]
          simp only [Bool.false_eq_true, if_false]
          exact hrun k (by omega)

/-! ## 4. the inner rx loop -/

/-- facts about the model: the receive side touches neither the bus nor the exception flag -/
theorem processRx_inbox_exc (s : State) (m : CanMsg) : (s.processRx m).1.inbox = s.inbox ∧ (s.processRx m).1.exc = s.exc := by
  unfold State.processRx State.startReception
  grind [State.deliver, State.stopReceiving, State.error, State.emit, State.requestFc, State.startRxCfTimer]

theorem checkTimeoutsRx_inbox_exc (s : State) : s.checkTimeoutsRx.inbox = s.inbox ∧ s.checkTimeoutsRx.exc = s.exc := by
  unfold State.checkTimeoutsRx
  grind [State.stopReceiving, State.error, State.emit]

/-- one iteration of the model's rx loop on a frame: (state, stats, the loop stops, `run_process` requested) -/
def rxStep (doTx : Bool) (s : State) (st : Stats) (dt : Nat) (m : CanMsg) (rest : List (Nat × CanMsg)) : State × Stats × Bool × Bool :=
  let s := { s with inbox := rest, now := s.now + dt }
  let s := (s.emit (.rx s.now m)).checkTimeoutsRx
  let st := { st with received := st.received + 1 }
  if s.addr.rx.isForMe m then
    let st := { st with processed := st.processed + 1 }
    let (s, imm, fr) := s.processRx m
    let st := if fr then { st with frames := st.frames + 1 } else st
    if imm then (s, st, true, false)
    else if doTx && s.txTimeDriven then (s, st, true, true)
    else (s, st, false, false)
  else if doTx && s.txTimeDriven then (s, st, true, true)
  else (s, st, false, false)

theorem rxLoop_cons (doTx : Bool) (s : State) (st : Stats) (dt : Nat) (m : CanMsg) (rest : List (Nat × CanMsg)) :
    s.rxLoop doTx st ((dt, m) :: rest) =
      if (rxStep doTx s st dt m rest).2.2.1 then ((rxStep doTx s st dt m rest).1, (rxStep doTx s st dt m rest).2.1, (rxStep doTx s st dt m rest).2.2.2)
      else (rxStep doTx s st dt m rest).1.rxLoop doTx (rxStep doTx s st dt m rest).2.1 rest := by
  simp only [State.rxLoop, rxStep]
  split
  · rcases (State.processRx _ m) with ⟨sC, imm, fr⟩
    simp only
    cases imm
    · simp only [Bool.false_eq_true, if_false]
      split <;> simp
    · simp
  · split <;> simp

theorem rxStep_inbox (doTx : Bool) (s : State) (st : Stats) (dt : Nat) (m : CanMsg) (rest : List (Nat × CanMsg)) :
    (rxStep doTx s st dt m rest).1.inbox = rest := by
  have h1 := fun s => (checkTimeoutsRx_inbox_exc s).1
  have h2 := fun s => (processRx_inbox_exc s m).1
  simp only [rxStep]
  split
  · rcases hp : (State.processRx _ m) with ⟨sC, imm, fr⟩
    have := h2 (State.checkTimeoutsRx (State.emit { s with inbox := rest, now := s.now + dt } (.rx (s.now + dt) m)))
    rw [hp, h1] at this
    simp only
    split
    · exact this
    · split <;> exact this
  · split <;> (rw [h1]; rfl)

theorem rxStep_exc (doTx : Bool) (s : State) (st : Stats) (dt : Nat) (m : CanMsg) (rest : List (Nat × CanMsg)) :
    (rxStep doTx s st dt m rest).1.exc = s.exc := by
  have h1 := fun s => (checkTimeoutsRx_inbox_exc s).2
  have h2 := fun s => (processRx_inbox_exc s m).2
  simp only [rxStep]
  split
  · rcases hp : (State.processRx _ m) with ⟨sC, imm, fr⟩
    have := h2 (State.checkTimeoutsRx (State.emit { s with inbox := rest, now := s.now + dt } (.rx (s.now + dt) m)))
    rw [hp, h1] at this
    simp only
    split
    · exact this
    · split <;> exact this
  · split <;> (rw [h1]; rfl)

theorem pvEq_pTxStPV (a b : TxSt) : pvEq (pTxStPV a) (pTxStPV b) = decide (a = b) := by
  cases a <;> cases b <;> simp [pTxStPV]
theorem pvEq_pRxStPV (a b : RxSt) : pvEq (pRxStPV a) (pRxStPV b) = decide (a = b) := by
  cases a <;> cases b <;> simp [pRxStPV]

/-- `do_tx and self.tx_state in (TRANSMIT_CF, TRANSMIT_SF_STANDBY, TRANSMIT_FF_STANDBY)` = `doTx && s.txTimeDriven` -/
theorem eval_timeDriven (M : Meths) (env : Env) (s : State) (doTx : Bool) (hRd : Reads env s) (hd : env "do_tx" = some (pbool doTx)) :
    eval M env timeDrivenTest = .ok (pbool (doTx && s.txTimeDriven)) := by
  cases doTx with
  | false => simp [timeDrivenTest, eval, hd]
  | true =>
    have hl : eval M env (.lst (.cons (.var "self.TxState.TRANSMIT_CF") (.cons (.var "self.TxState.TRANSMIT_SF_STANDBY")
        (.cons (.var "self.TxState.TRANSMIT_FF_STANDBY") .nil)))) =
        .ok (.list [.enum "TxState" "TRANSMIT_CF", .enum "TxState" "TRANSMIT_SF_STANDBY", .enum "TxState" "TRANSMIT_FF_STANDBY"]) := by
      simp [eval, evalArgs, hRd.txCf, hRd.txSf, hRd.txFf, pTxStPV]
    rw [timeDrivenTest, eval_and_true M env _ _ _ (eval_var M env _ _ hd) rfl,
      eval_cmp M env _ _ _ _ _ (eval_var M env _ _ hRd.txState) hl, evalCmp_isIn]
    simp only [State.txTimeDriven]
    cases s.txState <;> simp [pTxStPV]

/-- the last statement of the block under `if msg is not None:`: `if do_tx and self.tx_state in (...): run_process = True; break` -/
theorem rx_tail (hM : ProcessCallees M R msgPV) (env : Env) (s : State) (doRx doTx run : Bool) (tmo : PV) (st : Stats) (mv : PV)
    (hR : R env s) (hL : Loc env doRx doTx tmo run st) (hm : env "msg" = some mv) (hf : env "first_loop" = some (pbool false)) :
    ∃ envF, (∀ j, exec2B (j + 8) M env (.cons (.ite timeDrivenTest runBreakBlk .nil) .nil) =
        .ok (if doTx && s.txTimeDriven then .brk envF else .next envF)) ∧
      R envF s ∧ Loc envF doRx doTx tmo (run || (doTx && s.txTimeDriven)) st ∧ envF "msg" = some mv ∧
      envF "first_loop" = some (pbool false) := by
  have hc := eval_timeDriven M env s doTx (hM.reads env s hR) hL.doTx
  cases htd : (doTx && s.txTimeDriven) with
  | false =>
    rw [htd] at hc
    refine ⟨env, ?_, hR, by simpa using hL, hm, hf⟩
    intro j
    rw [b_ite_skip _ _ _ _ _ _ _ hc rfl, exec2B_nil]
    rfl
  | true =>
    rw [htd] at hc
    refine ⟨env.set "run_process" (pbool true), ?_, hM.R_set _ _ _ _ (by decide) hR, by simpa using hL.set_run true,
      by simp [set_get, hm], by simp [set_get, hf]⟩
    intro j
    rw [b_ite_true _ _ _ _ _ _ _ _ hc rfl, runBreakBlk,
      b_assign _ _ _ _ _ _ _ (by simp [eval] : eval M env .tt = .ok (pbool true)), b_break]
    rfl

/-- the block under `if for_me:` -/
theorem rx_forme (hM : ProcessCallees M R msgPV) (env : Env) (s sC : State) (m : CanMsg) (imm fr : Bool)
    (doRx doTx run : Bool) (tmo : PV) (st : Stats)
    (hR : R env s) (hL : Loc env doRx doTx tmo run st) (hm : env "msg" = some (msgPV m)) (hf : env "first_loop" = some (pbool false))
    (hp : s.processRx m = (sC, imm, fr)) :
    ∃ envF, (∀ j, exec2B (j + 8) M env rxForMeBlk = .ok (if imm then .brk envF else .next envF)) ∧
      R envF sC ∧
      Loc envF doRx doTx tmo run
        (if fr then { st with processed := st.processed + 1, frames := st.frames + 1 } else { st with processed := st.processed + 1 }) ∧
      envF "msg" = some (msgPV m) ∧ envF "first_loop" = some (pbool false) := by
  have hR1 := hM.R_set env s "msg_received_processed" (pint ((st.processed + 1 : Nat) : Int)) (by decide) hR
  have hm1 : (env.set "msg_received_processed" (pint ((st.processed + 1 : Nat) : Int))) "msg" = some (msgPV m) := by simp [set_get, hm]
  obtain ⟨e2, p2, r2, i2, f2, k2⟩ := hM.process_rx _ s m hR1
  rw [hp] at r2 i2 f2
  simp only at r2 i2 f2
  have L2 : Loc e2 doRx doTx tmo run { st with processed := st.processed + 1 } := (hL.set_processed (st.processed + 1)).kept k2 (by simp)
  have m2 : e2 "msg" = some (msgPV m) := by rw [k2 _ (by decide) (by simp)]; exact hm1
  have fl2 : e2 "first_loop" = some (pbool false) := by rw [k2 _ (by decide) (by simp)]; simp [set_get, hf]
  have head : ∀ j, exec2B (j + 8) M env rxForMeBlk =
      exec2B (j + 6) M e2
        (.cons (.ite (.var "rx_result.frame_received")
            (.cons (.assign "nb_frame_received" (.binop .add (.var "nb_frame_received") (.int 1))) .nil) .nil)
          (.cons (.ite (.var "rx_result.immediate_tx_required") (.cons .break_ .nil) .nil) .nil)) := by
    intro j
    rw [rxForMeBlk, b_assign _ _ _ _ _ _ _ (eval_incr M env "msg_received_processed" st.processed hL.processed),
      b_next _ _ _ e2 _ _ rfl (proc1 M _ e2 _ _ _ (by decide) (eval_var M _ _ _ hm1) p2)]
  -- `if rx_result.immediate_tx_required: break`
  have last : ∀ (e3 : Env), e3 "rx_result.immediate_tx_required" = some (pbool imm) →
      ∀ j, exec2B (j + 5) M e3 (.cons (.ite (.var "rx_result.immediate_tx_required") (.cons .break_ .nil) .nil) .nil) =
        .ok (if imm then .brk e3 else .next e3) := by
    intro e3 i3 j
    cases imm with
    | false => rw [b_ite_skip _ _ _ _ _ _ _ (eval_var M _ _ _ i3) rfl, exec2B_nil]; rfl
    | true => rw [b_ite_true _ _ _ _ _ _ _ _ (eval_var M _ _ _ i3) rfl, b_break]; rfl
  cases fr with
  | false =>
    refine ⟨e2, ?_, r2, by simpa using L2, m2, fl2⟩
    intro j
    rw [head, b_ite_skip _ _ _ _ _ _ _ (eval_var M _ _ _ f2) rfl, last e2 i2]
  | true =>
    refine ⟨e2.set "nb_frame_received" (pint ((st.frames + 1 : Nat) : Int)), ?_, hM.R_set _ _ _ _ (by decide) r2,
      by simpa using L2.set_frames (st.frames + 1), by simp [set_get, m2], by simp [set_get, fl2]⟩
    intro j
    rw [head, b_ite_true _ _ _ _ _ _ _ _ (eval_var M _ _ _ f2) rfl,
      b_assign _ _ _ _ _ _ _ (eval_incr M e2 "nb_frame_received" st.frames L2.frames), exec2B_nil]
    simp only
    rw [last _ (by simp [set_get, i2])]

/-- one pass through the body of the rx loop when `rxfn` returns a frame: the model's `rxStep` -/
theorem rx_body_some (hM : ProcessCallees M R msgPV) (env : Env) (s : State) (dt : Nat) (m : CanMsg) (rest : List (Nat × CanMsg))
    (doRx doTx run : Bool) (tmo : PV) (st : Stats)
    (hR : R env s) (hL : Loc env doRx doTx tmo run st) (hin : s.inbox = (dt, m) :: rest) :
    ∃ envF, (∀ n, 20 ≤ n → exec2B n M env rxBody =
        .ok (if (rxStep doTx s st dt m rest).2.2.1 then .brk envF else .next envF)) ∧
      R envF (rxStep doTx s st dt m rest).1 ∧
      Loc envF doRx doTx tmo (run || (rxStep doTx s st dt m rest).2.2.2) (rxStep doTx s st dt m rest).2.1 ∧
      envF "msg" = some (msgPV m) ∧ envF "first_loop" = some (pbool false) := by
  have hR0 := hM.R_set env s "first_loop" (pbool false) (by decide) hR
  have L0 : Loc (env.set "first_loop" (pbool false)) doRx doTx tmo run st := hL.set_other _ _ (by decide)
  obtain ⟨e1, p1, r1, m1, k1⟩ := hM.rxfn_some _ s tmo dt m rest hR0 hin
  have L1 : Loc e1 doRx doTx tmo run st := L0.kept k1 (by simp)
  have f1 : e1 "first_loop" = some (pbool false) := by rw [k1 _ (by decide) (by simp)]; simp [set_get]
  obtain ⟨e2, p2, r2, k2⟩ := hM.check_timeouts_rx e1 _ r1
  have L2 : Loc e2 doRx doTx tmo run st := L1.kept k2 (by simp)
  have f2 : e2 "first_loop" = some (pbool false) := by rw [k2 _ (by decide) (by simp)]; exact f1
  have m2 : e2 "msg" = some (msgPV m) := by rw [k2 _ (by decide) (by simp)]; exact m1
  have htmo : (env.set "first_loop" (pbool false)) "rx_timeout" = some tmo := L0.tmo
  have head : ∀ j, exec2B (j + 20) M env rxBody =
      exec2B (j + 17) M e2 (.cons (.ite (.isNotNone (.var "msg")) rxMsgBlk .nil) .nil) := by
    intro j
    rw [rxBody, b_assign _ _ _ _ _ _ _ (by simp [eval] : eval M env .ff = .ok (pbool false)),
      b_next _ _ _ e1 _ _ rfl (proc1 M _ e1 _ _ _ (by decide) (eval_var M _ _ _ htmo) p1),
      b_next _ _ _ e2 _ _ rfl (proc0 M _ e2 _ (by decide) p2)]
  -- the state after `rxfn` and `_check_timeouts_rx`
  generalize hsB : State.checkTimeoutsRx (State.emit { s with inbox := rest, now := s.now + dt } (.rx (s.now + dt) m)) = sB at r2
  -- `msg_received += 1; for_me = ...; if DEBUG: ...`
  have hR3 := hM.R_set e2 sB "msg_received" (pint ((st.received + 1 : Nat) : Int)) (by decide) r2
  have hfm := hM.is_for_me _ sB m hR3
  have hR4 := hM.R_set _ sB "for_me" (pbool (sB.addr.rx.isForMe m)) (by decide) hR3
  have L4 : Loc ((e2.set "msg_received" (pint ((st.received + 1 : Nat) : Int))).set "for_me" (pbool (sB.addr.rx.isForMe m)))
      doRx doTx tmo run { st with received := st.received + 1 } := (L2.set_received (st.received + 1)).set_other _ _ (by decide)
  have m3 : (e2.set "msg_received" (pint ((st.received + 1 : Nat) : Int))) "msg" = some (msgPV m) := by simp [set_get, m2]
  have m4 : ((e2.set "msg_received" (pint ((st.received + 1 : Nat) : Int))).set "for_me" (pbool (sB.addr.rx.isForMe m))) "msg" =
      some (msgPV m) := by simp [set_get, m2]
  have f4 : ((e2.set "msg_received" (pint ((st.received + 1 : Nat) : Int))).set "for_me" (pbool (sB.addr.rx.isForMe m))) "first_loop" =
      some (pbool false) := by simp [set_get, f2]
  have fm4 : ((e2.set "msg_received" (pint ((st.received + 1 : Nat) : Int))).set "for_me" (pbool (sB.addr.rx.isForMe m))) "for_me" =
      some (pbool (sB.addr.rx.isForMe m)) := by simp [set_get]
  have mid : ∀ j, exec2B (j + 13) M e2 rxMsgBlk =
      exec2B (j + 10) M ((e2.set "msg_received" (pint ((st.received + 1 : Nat) : Int))).set "for_me" (pbool (sB.addr.rx.isForMe m)))
        (.cons (.ite (.var "for_me") rxForMeBlk .nil) (.cons (.ite timeDrivenTest runBreakBlk .nil) .nil)) := by
    intro j
    rw [rxMsgBlk, b_assign _ _ _ _ _ _ _ (eval_incr M e2 "msg_received" st.received L2.received),
      b_assign _ _ _ _ _ _ _ (fn1 M _ _ _ _ _ (by decide) (eval_var M _ _ _ m3) hfm),
      b_ite_skip _ _ _ _ _ _ _ (eval_logTest hM _ sB hR4) rfl]
  have hstep : rxStep doTx s st dt m rest =
      (if sB.addr.rx.isForMe m then
        (if (sB.processRx m).2.1 then ((sB.processRx m).1,
            (if (sB.processRx m).2.2 then { st with received := st.received + 1, processed := st.processed + 1, frames := st.frames + 1 }
             else { st with received := st.received + 1, processed := st.processed + 1 }), true, false)
         else ((sB.processRx m).1,
            (if (sB.processRx m).2.2 then { st with received := st.received + 1, processed := st.processed + 1, frames := st.frames + 1 }
             else { st with received := st.received + 1, processed := st.processed + 1 }),
            (doTx && (sB.processRx m).1.txTimeDriven), (doTx && (sB.processRx m).1.txTimeDriven)))
       else (sB, { st with received := st.received + 1 }, (doTx && sB.txTimeDriven), (doTx && sB.txTimeDriven))) := by
    simp only [rxStep, hsB]
    split
    · rcases (State.processRx sB m) with ⟨sC, imm, fr⟩
      simp only
      cases imm <;> cases fr <;> simp <;> split <;> simp_all
    · split <;> simp_all
  cases hfor : sB.addr.rx.isForMe m with
  | false =>
    rw [hfor] at fm4 L4 m4 f4 hR4 mid
    obtain ⟨envF, hrun, rF, LF, mF, fF⟩ := rx_tail hM _ sB doRx doTx run tmo _ (msgPV m) hR4 L4 m4 f4
    rw [hstep, hfor]
    simp only [Bool.false_eq_true, if_false]
    refine ⟨envF, ?_, rF, LF, mF, fF⟩
    intro n hn
    obtain ⟨j, rfl⟩ : ∃ j, n = j + 20 := ⟨n - 20, by omega⟩
    rw [head, b_ite_true _ _ _ _ _ _ _ _ (eval_isNotNone M _ _ _ m2) (by simp [msgPV_bne hM]), mid,
      b_ite_skip _ _ _ _ _ _ _ (eval_var M _ _ _ fm4) rfl, hrun]
    cases (doTx && sB.txTimeDriven) <;> rfl
  | true =>
    rw [hfor] at fm4 L4 m4 f4 hR4 mid
    rcases hp : sB.processRx m with ⟨sC, imm, fr⟩
    obtain ⟨e5, hfmrun, r5, L5, m5, f5⟩ := rx_forme hM _ sB sC m imm fr doRx doTx run tmo _ hR4 L4 m4 f4 hp
    rw [hstep, hfor, hp]
    simp only [if_true]
    cases imm with
    | true =>
      simp only [if_true]
      refine ⟨e5, ?_, r5, by cases fr <;> simpa using L5, m5, f5⟩
      intro n hn
      obtain ⟨j, rfl⟩ : ∃ j, n = j + 20 := ⟨n - 20, by omega⟩
      rw [head, b_ite_true _ _ _ _ _ _ _ _ (eval_isNotNone M _ _ _ m2) (by simp [msgPV_bne hM]), mid,
        b_ite_true _ _ _ _ _ _ _ _ (eval_var M _ _ _ fm4) rfl, hfmrun]
      rfl
    | false =>
      simp only [Bool.false_eq_true, if_false]
      obtain ⟨envF, hrun, rF, LF, mF, fF⟩ := rx_tail hM e5 sC doRx doTx run tmo _ (msgPV m) r5 L5 m5 f5
      refine ⟨envF, ?_, rF, by cases fr <;> simpa using LF, mF, fF⟩
      intro n hn
      obtain ⟨j, rfl⟩ : ∃ j, n = j + 20 := ⟨n - 20, by omega⟩
      rw [head, b_ite_true _ _ _ _ _ _ _ _ (eval_isNotNone M _ _ _ m2) (by simp [msgPV_bne hM]), mid,
        b_ite_true _ _ _ _ _ _ _ _ (eval_var M _ _ _ fm4) rfl, hfmrun]
      simp only [Bool.false_eq_true, if_false]
      rw [hrun]
      cases (doTx && sC.txTimeDriven) <;> rfl

/-- one pass through the body of the rx loop when `rxfn` returns `None` -/
theorem rx_body_none (hM : ProcessCallees M R msgPV) (env : Env) (s : State) (doRx doTx run : Bool) (tmo : PV) (st : Stats)
    (hR : R env s) (hL : Loc env doRx doTx tmo run st) (hin : s.inbox = []) :
    ∃ envF, (∀ n, 20 ≤ n → exec2B n M env rxBody = .ok (.next envF)) ∧
      R envF ((({ s with inbox := [] } : State).emit (.rxNone s.now)).checkTimeoutsRx) ∧
      Loc envF doRx doTx tmo run st ∧ envF "msg" = some pnone ∧ envF "first_loop" = some (pbool false) := by
  have hR0 := hM.R_set env s "first_loop" (pbool false) (by decide) hR
  have L0 : Loc (env.set "first_loop" (pbool false)) doRx doTx tmo run st := hL.set_other _ _ (by decide)
  obtain ⟨e1, p1, r1, m1, k1⟩ := hM.rxfn_none _ s tmo hR0 hin
  have L1 : Loc e1 doRx doTx tmo run st := L0.kept k1 (by simp)
  have f1 : e1 "first_loop" = some (pbool false) := by rw [k1 _ (by decide) (by simp)]; simp [set_get]
  obtain ⟨e2, p2, r2, k2⟩ := hM.check_timeouts_rx e1 _ r1
  have L2 : Loc e2 doRx doTx tmo run st := L1.kept k2 (by simp)
  have f2 : e2 "first_loop" = some (pbool false) := by rw [k2 _ (by decide) (by simp)]; exact f1
  have m2 : e2 "msg" = some pnone := by rw [k2 _ (by decide) (by simp)]; exact m1
  have htmo : (env.set "first_loop" (pbool false)) "rx_timeout" = some tmo := L0.tmo
  refine ⟨e2, ?_, r2, L2, m2, f2⟩
  intro n hn
  obtain ⟨j, rfl⟩ : ∃ j, n = j + 20 := ⟨n - 20, by omega⟩
  rw [rxBody, b_assign _ _ _ _ _ _ _ (by simp [eval] : eval M env .ff = .ok (pbool false)),
    b_next _ _ _ e1 _ _ rfl (proc1 M _ e1 _ _ _ (by decide) (eval_var M _ _ _ htmo) p1),
    b_next _ _ _ e2 _ _ rfl (proc0 M _ e2 _ (by decide) p2),
    b_ite_skip _ _ _ _ _ _ _ (eval_isNotNone M _ _ _ m2) (by simp), exec2B_nil]

/-- **the inner rx loop = `State.rxLoop`**, by induction on the inbox: for every state whose bus input is `inbox`, the `while` (fuel
    `≥ |inbox| + 22`) ends in an environment that shows the model's final state, with the model's counters, and `run_process` raised iff
    the model asks for another pass (the time-driven transmit state, with `do_tx`).  The two `break`s are the two early exits of the model. -/
theorem rx_loop_agrees (hM : ProcessCallees M R msgPV) : ∀ (inbox : List (Nat × CanMsg)) (env : Env) (s : State)
    (doRx doTx run : Bool) (tmo : PV) (st : Stats) (mv : PV) (fl : Bool),
    s.inbox = inbox → R env s → Loc env doRx doTx tmo run st → env "msg" = some mv → env "first_loop" = some (pbool fl) →
    ((mv != pnone) || fl) = true →
    ∃ env', (∀ n, inbox.length + 22 ≤ n → exec2S n M env (.while_ loopCond rxBody) = .ok (.next env')) ∧
      R env' (s.rxLoop doTx st inbox).1 ∧ Loc env' doRx doTx tmo (run || (s.rxLoop doTx st inbox).2.2) (s.rxLoop doTx st inbox).2.1
  | [], env, s, doRx, doTx, run, tmo, st, mv, fl, hin, hR, hL, hm, hf, hc => by
    obtain ⟨envF, hbody, rF, LF, mF, fF⟩ := rx_body_none hM env s doRx doTx run tmo st hR hL hin
    refine ⟨envF, ?_, rF, by simpa [State.rxLoop] using LF⟩
    intro n hn
    obtain ⟨k, rfl⟩ : ∃ k, n = k + 2 := ⟨n - 2, by omega⟩
    rw [w_true _ _ _ _ _ _ (eval_loopCond M env mv fl hm hf) (by rw [hc]; rfl), hbody (k + 1) (by simp only [List.length_nil] at hn; omega)]
    simp only
    rw [w_false _ _ _ _ _ _ (eval_loopCond M envF _ _ mF fF) (by simp)]
  | (dt, m) :: rest, env, s, doRx, doTx, run, tmo, st, mv, fl, hin, hR, hL, hm, hf, hc => by
    obtain ⟨envF, hbody, rF, LF, mF, fF⟩ := rx_body_some hM env s dt m rest doRx doTx run tmo st hR hL hin
    rw [rxLoop_cons]
    cases hstop : (rxStep doTx s st dt m rest).2.2.1 with
    | true =>
      rw [hstop] at hbody
      simp only [if_true]
      refine ⟨envF, ?_, rF, LF⟩
      intro n hn
      obtain ⟨k, rfl⟩ : ∃ k, n = k + 1 := ⟨n - 1, by omega⟩
      rw [w_true _ _ _ _ _ _ (eval_loopCond M env mv fl hm hf) (by rw [hc]; rfl),
        hbody k (by simp only [List.length_cons] at hn; omega)]
      rfl
    | false =>
      rw [hstop] at hbody
      simp only [Bool.false_eq_true, if_false]
      -- a step that does not stop does not ask for another pass
      have hrun : (rxStep doTx s st dt m rest).2.2.2 = false := by
        have : (rxStep doTx s st dt m rest).2.2.2 = true → (rxStep doTx s st dt m rest).2.2.1 = true := by
          simp only [rxStep]
          split
          · rcases (State.processRx _ m) with ⟨sC, imm, fr⟩
            simp only
            split
            · simp
            · split <;> simp
          · split <;> simp
        cases h : (rxStep doTx s st dt m rest).2.2.2 with
        | false => rfl
        | true => rw [this h] at hstop; cases hstop
      rw [hrun, Bool.or_false] at LF
      obtain ⟨env', hloop, r', L'⟩ := rx_loop_agrees hM rest envF _ doRx doTx run tmo _ (msgPV m) false
        (rxStep_inbox doTx s st dt m rest) rF LF mF fF (by simp [msgPV_bne hM])
      refine ⟨env', ?_, r', L'⟩
      intro n hn
      obtain ⟨k, rfl⟩ : ∃ k, n = k + 1 := ⟨n - 1, by omega⟩
      rw [w_true _ _ _ _ _ _ (eval_loopCond M env mv fl hm hf) (by rw [hc]; rfl),
        hbody k (by simp only [List.length_cons] at hn; omega)]
      simp only [Bool.false_eq_true, if_false]
      exact hloop k (by simp only [List.length_cons] at hn; omega)

/-- the rx loop touches neither the exception flag ... -/
theorem rxLoop_exc (doTx : Bool) : ∀ (inbox : List (Nat × CanMsg)) (s : State) (st : Stats), (s.rxLoop doTx st inbox).1.exc = s.exc
  | [], s, st => by
    simp only [State.rxLoop]
    rw [(checkTimeoutsRx_inbox_exc _).2]
    rfl
  | (dt, m) :: rest, s, st => by
    rw [rxLoop_cons]
    split
    · exact rxStep_exc doTx s st dt m rest
    · rw [rxLoop_exc doTx rest]; exact rxStep_exc doTx s st dt m rest

/-! ## 5. the outer loop -/

/-- the model's `startWithTx` -/
def startWithTx (doTx : Bool) (s : State) : Bool :=
  doTx && !s.txQueue.isEmpty && decide (s.rxState = .idle) && decide (s.txState = .idle)

/-- the rx half of one iteration of the model's outer loop: (state, stats, `run_process` requested) -/
def afterRx (doRx doTx : Bool) (s : State) (st : Stats) : State × Stats × Bool :=
  if doRx && !startWithTx doTx s then s.rxLoop doTx st s.inbox else (s, st, false)

/-- `self.rate_limiter.update()` -/
def rlUpdated (s : State) : State := { s with rl := s.rl.update s.cfg.rlWindowNs s.now }

/-- the tx half: (state, stats, `run_process` requested, the model ran out of fuel) -/
def afterTx (doTx : Bool) (s : State) (st : Stats) : State × Stats × Bool × Bool :=
  if doTx then ((State.txLoop s.txFuel s st.sent).1, { st with sent := (State.txLoop s.txFuel s st.sent).2.1 },
    (State.txLoop s.txFuel s st.sent).2.2.1, (State.txLoop s.txFuel s st.sent).2.2.2)
  else (s, st, false, false)

/-- one iteration of the model's outer loop: (state, stats, `run_process`, out of fuel) -/
def procStep (doRx doTx : Bool) (s : State) (st : Stats) : State × Stats × Bool × Bool :=
  let a := afterRx doRx doTx s st
  let t := afterTx doTx (rlUpdated a.1) a.2.1
  (t.1, t.2.1, startWithTx doTx s || a.2.2 || t.2.2.1, t.2.2.2)

theorem processLoop_succ (f : Nat) (doRx doTx : Bool) (s : State) (st : Stats) :
    State.processLoop (f + 1) doRx doTx s st =
      if (procStep doRx doTx s st).1.exc.isSome then ((procStep doRx doTx s st).1, (procStep doRx doTx s st).2.1, false)
      else if (procStep doRx doTx s st).2.2.2 then ((procStep doRx doTx s st).1, (procStep doRx doTx s st).2.1, true)
      else if (procStep doRx doTx s st).2.2.1 then State.processLoop f doRx doTx (procStep doRx doTx s st).1 (procStep doRx doTx s st).2.1
      else ((procStep doRx doTx s st).1, (procStep doRx doTx s st).2.1, false) := by
  simp only [State.processLoop, procStep, afterRx, afterTx, rlUpdated, startWithTx]
  cases doTx <;> cases doRx <;> simp

/-- a compound statement that falls through -/
theorem b_stmt_next (n : Nat) (M : Meths) (env env1 : Env) (s : PStmt) (rest : PBlock) (h : exec2S n M env s = .ok (.next env1)) :
    exec2B (n + 1) M env (.cons s rest) = exec2B n M env1 rest := by
  rw [exec2B_cons, h]

/-- a statement that raises: so does the block -/
theorem b_stmt_raised (n : Nat) (M : Meths) (env env1 : Env) (s : PStmt) (rest : PBlock) (cls : String)
    (h : exec2S n M env s = .ok (.raised cls env1)) :
    exec2B (n + 1) M env (.cons s rest) = .ok (.raised cls env1) := by
  rw [exec2B_cons, h]

/-- `start_with_tx = do_tx and not self.tx_queue.empty() and self.rx_state == IDLE and self.tx_state == IDLE` -/
theorem eval_startWithTx (hM : ProcessCallees M R msgPV) (env : Env) (s : State) (doTx : Bool) (hR : R env s)
    (hd : env "do_tx" = some (pbool doTx)) :
    eval M env startWithTxExpr = .ok (pbool (startWithTx doTx s)) := by
  have hRd := hM.reads env s hR
  have hq : eval M env (.not_ (.call "self.tx_queue.empty" .nil)) = .ok (pbool (!s.txQueue.isEmpty)) :=
    eval_not M env _ _ (fn0 M env _ _ (by decide) (hM.tx_queue_empty env s hR))
  have hrx : eval M env (.cmp .eq (.var "self.rx_state") (.var "self.RxState.IDLE")) = .ok (pbool (decide (s.rxState = .idle))) := by
    rw [eval_cmp M env _ _ _ _ _ (eval_var _ _ _ _ hRd.rxState) (eval_var _ _ _ _ hRd.rxIdle), evalCmp_eq, pvEq_pRxStPV]
  have htx : eval M env (.cmp .eq (.var "self.tx_state") (.var "self.TxState.IDLE")) = .ok (pbool (decide (s.txState = .idle))) := by
    rw [eval_cmp M env _ _ _ _ _ (eval_var _ _ _ _ hRd.txState) (eval_var _ _ _ _ hRd.txIdle), evalCmp_eq, pvEq_pTxStPV]
  unfold startWithTxExpr startWithTx
  cases doTx with
  | false => rw [eval_and_false M env _ _ _ (eval_var M env _ _ hd) rfl]; simp
  | true =>
    rw [eval_and_true M env _ _ _ (eval_var M env _ _ hd) rfl]
    cases he : s.txQueue.isEmpty with
    | true => rw [he] at hq; rw [eval_and_false M env _ _ _ hq rfl]; simp
    | false =>
      rw [he] at hq
      rw [eval_and_true M env _ _ _ hq rfl]
      by_cases h1 : s.rxState = .idle
      · rw [eval_and_true M env _ _ _ hrx (by simp [h1]), htx]; simp [h1]
      · rw [eval_and_false M env _ _ _ hrx (by simp [h1])]; simp [h1]

/-- the first four statements of the outer body -/
theorem outer_head (hM : ProcessCallees M R msgPV) (env : Env) (s : State) (doRx doTx run : Bool) (tmo : PV) (st : Stats)
    (hR : R env s) (hL : Loc env doRx doTx tmo run st) :
    ∃ env3, (∀ j, exec2B (j + 30) M env outerBody = exec2B (j + 26) M env3 outerTail4) ∧ R env3 s ∧
      Loc env3 doRx doTx tmo (startWithTx doTx s) st ∧ env3 "msg" = some pnone ∧
      env3 "start_with_tx" = some (pbool (startWithTx doTx s)) := by
  have r0 := hM.R_set env s "msg" pnone (by decide) hR
  have L0 : Loc (env.set "msg" pnone) doRx doTx tmo run st := hL.set_other _ _ (by decide)
  have r1 := hM.R_set _ s "run_process" (pbool false) (by decide) r0
  have L1 := L0.set_run false
  have hsw := eval_startWithTx hM _ s doTx r1 L1.doTx
  have r2 := hM.R_set _ s "start_with_tx" (pbool (startWithTx doTx s)) (by decide) r1
  have L2 : Loc (((env.set "msg" pnone).set "run_process" (pbool false)).set "start_with_tx" (pbool (startWithTx doTx s)))
      doRx doTx tmo false st := L1.set_other _ _ (by decide)
  have head : ∀ j, exec2B (j + 30) M env outerBody =
      exec2B (j + 27) M (((env.set "msg" pnone).set "run_process" (pbool false)).set "start_with_tx" (pbool (startWithTx doTx s)))
        (.cons (.ite (.var "start_with_tx") (.cons (.assign "run_process" .tt) .nil) .nil) outerTail4) := by
    intro j
    rw [outerBody, b_assign _ _ _ _ _ _ _ (by simp [eval] : eval M env .none = .ok pnone),
      b_assign _ _ _ _ _ _ _ (by simp [eval] : eval M _ .ff = .ok (pbool false)),
      b_assign _ _ _ _ _ _ _ hsw]
  cases hs : startWithTx doTx s with
  | false =>
    rw [hs] at head r2 L2
    refine ⟨_, ?_, r2, L2, by simp [set_get], by simp [set_get]⟩
    intro j
    rw [head, b_ite_skip _ _ _ _ _ _ _ (eval_var M _ "start_with_tx" (pbool false) (by simp [set_get])) rfl]
  | true =>
    rw [hs] at head r2 L2
    refine ⟨_, ?_, hM.R_set _ s "run_process" (pbool true) (by decide) r2, L2.set_run true, by simp [set_get], by simp [set_get]⟩
    intro j
    rw [head, b_ite_true _ _ _ _ _ _ _ _ (eval_var M _ "start_with_tx" (pbool true) (by simp [set_get])) rfl,
      b_assign _ _ _ _ _ _ _ (by simp [eval] : eval M _ .tt = .ok (pbool true)), exec2B_nil]

/-- `if do_rx and not start_with_tx: first_loop = True; while ...` = the model's `afterRx` -/
theorem outer_rx (hM : ProcessCallees M R msgPV) (env : Env) (s : State) (doRx doTx run : Bool) (tmo : PV) (st : Stats)
    (hR : R env s) (hL : Loc env doRx doTx tmo run st) (hm : env "msg" = some pnone)
    (hsw : env "start_with_tx" = some (pbool (startWithTx doTx s))) :
    ∃ env4, (∀ j, s.inbox.length ≤ j → exec2B (j + 26) M env outerTail4 = exec2B (j + 25) M env4 outerTail5) ∧
      R env4 (afterRx doRx doTx s st).1 ∧ Loc env4 doRx doTx tmo (run || (afterRx doRx doTx s st).2.2) (afterRx doRx doTx s st).2.1 := by
  have hc : eval M env (.and_ (.var "do_rx") (.not_ (.var "start_with_tx"))) = .ok (pbool (doRx && !startWithTx doTx s)) := by
    cases doRx with
    | false => rw [eval_and_false M env _ _ _ (eval_var M env _ _ hL.doRx) rfl]; rfl
    | true => rw [eval_and_true M env _ _ _ (eval_var M env _ _ hL.doRx) rfl, eval_not M env _ _ (eval_var M env _ _ hsw)]; rfl
  cases hgo : (doRx && !startWithTx doTx s) with
  | false =>
    rw [hgo] at hc
    refine ⟨env, ?_, by simpa [afterRx, hgo] using hR, by simpa [afterRx, hgo] using hL⟩
    intro j _
    rw [outerTail4, b_ite_skip _ _ _ _ _ _ _ hc rfl]
  | true =>
    rw [hgo] at hc
    have r1 := hM.R_set env s "first_loop" (pbool true) (by decide) hR
    have L1 : Loc (env.set "first_loop" (pbool true)) doRx doTx tmo run st := hL.set_other _ _ (by decide)
    obtain ⟨env4, hloop, r4, L4⟩ := rx_loop_agrees hM s.inbox _ s doRx doTx run tmo st pnone true rfl r1 L1
      (by simp [set_get, hm]) (by simp [set_get]) (by simp)
    refine ⟨env4, ?_, by simpa [afterRx, hgo] using r4, by simpa [afterRx, hgo] using L4⟩
    intro j hj
    rw [outerTail4, b_ite_true _ _ _ _ _ _ _ _ hc rfl, rxPart,
      b_assign _ _ _ _ _ _ _ (by simp [eval] : eval M env .tt = .ok (pbool true)),
      b_stmt_next _ _ _ env4 _ _ (hloop (j + 22) (by omega)), exec2B_nil]

/-- the last three statements of the outer body: the (disabled) logging and `self.last_*_state = ...` -/
theorem outer_tail8 (hM : ProcessCallees M R msgPV) (env : Env) (s : State) (doRx doTx run : Bool) (tmo : PV) (st : Stats)
    (hR : R env s) (hL : Loc env doRx doTx tmo run st) :
    ∃ env', (∀ j, exec2B (j + 22) M env outerTail8 = .ok (.next env')) ∧ R env' s ∧ Loc env' doRx doTx tmo run st := by
  have hRd := hM.reads env s hR
  have r1 := hM.R_set env s "self.last_tx_state" (pTxStPV s.txState) (by decide) hR
  have hRd1 := hM.reads _ s r1
  have r2 := hM.R_set _ s "self.last_rx_state" (pRxStPV s.rxState) (by decide) r1
  refine ⟨_, ?_, r2, (hL.set_other "self.last_tx_state" _ (by decide)).set_other "self.last_rx_state" _ (by decide)⟩
  intro j
  rw [outerTail8, b_ite_skip _ _ _ _ _ _ _ (eval_logTest hM _ s hR) rfl,
    b_assign _ _ _ _ _ _ _ (eval_var M _ _ _ hRd.txState), b_assign _ _ _ _ _ _ _ (eval_var M _ _ _ hRd1.rxState), exec2B_nil]

/-- `start_with_tx = False; self.rate_limiter.update(); if do_tx: ...; ...` = the model's `rlUpdated` then `afterTx` -/
theorem outer_tail5 (hM : ProcessCallees M R msgPV) (env : Env) (s : State) (doRx doTx run : Bool) (tmo : PV) (st : Stats)
    (hR : R env s) (hL : Loc env doRx doTx tmo run st)
    (hoof : (afterTx doTx (rlUpdated s) st).2.2.2 = false) (hexc : (afterTx doTx (rlUpdated s) st).1.exc = none) :
    ∃ env', (∀ j, (rlUpdated s).txFuel ≤ j → exec2B (j + 25) M env outerTail5 = .ok (.next env')) ∧
      R env' (afterTx doTx (rlUpdated s) st).1 ∧
      Loc env' doRx doTx tmo (run || (afterTx doTx (rlUpdated s) st).2.2.1) (afterTx doTx (rlUpdated s) st).2.1 := by
  have r1 := hM.R_set env s "start_with_tx" (pbool false) (by decide) hR
  have L1 : Loc (env.set "start_with_tx" (pbool false)) doRx doTx tmo run st := hL.set_other _ _ (by decide)
  obtain ⟨e2, p2, r2, k2⟩ := hM.rl_update _ s r1
  have L2 : Loc e2 doRx doTx tmo run st := L1.kept k2 (by simp)
  have head : ∀ j, exec2B (j + 25) M env outerTail5 =
      exec2B (j + 23) M e2 (.cons (.ite (.var "do_tx") txPart .nil) outerTail8) := by
    intro j
    rw [outerTail5, b_assign _ _ _ _ _ _ _ (by simp [eval] : eval M env .ff = .ok (pbool false)),
      b_next _ _ _ e2 _ _ rfl (proc0 M _ e2 _ (by decide) p2)]
  cases doTx with
  | false =>
    obtain ⟨env', htl, r', L'⟩ := outer_tail8 hM e2 _ doRx false run tmo st r2 L2
    refine ⟨env', ?_, ?_, ?_⟩
    rotate_left
    · simp only [afterTx, Bool.false_eq_true, if_false]; exact r'
    · simp only [afterTx, Bool.false_eq_true, if_false, Bool.or_false]; exact L'
    intro j _
    rw [head, b_ite_skip _ _ _ _ _ _ _ (eval_var M _ _ _ L2.doTx) rfl, htl]
  | true =>
    rcases hr : State.txLoop (rlUpdated s).txFuel (rlUpdated s) st.sent with ⟨s', cnt', run', oof⟩
    simp only [afterTx, if_true, hr] at hoof hexc ⊢
    subst hoof
    have r3 := hM.R_set e2 _ "first_loop" (pbool true) (by decide) r2
    have r4 := hM.R_set _ _ "msg" pnone (by decide) r3
    have L4 : Loc ((e2.set "first_loop" (pbool true)).set "msg" pnone) doRx true tmo run st :=
      (L2.set_other _ _ (by decide)).set_other _ _ (by decide)
    obtain ⟨e5, hloop, r5, L5⟩ := tx_loop_agrees hM (rlUpdated s).txFuel _ (rlUpdated s) doRx true run tmo st pnone true s' cnt' run'
      r4 L4 (by simp [set_get]) (by simp [set_get]) (by simp) hr hexc
    obtain ⟨env', htl, r', L'⟩ := outer_tail8 hM e5 _ doRx true (run || run') tmo _ r5 L5
    refine ⟨env', ?_, r', L'⟩
    intro j hj
    rw [head, b_ite_true _ _ _ _ _ _ _ _ (eval_var M _ _ _ L2.doTx) rfl, txPart,
      b_assign _ _ _ _ _ _ _ (by simp [eval] : eval M e2 .tt = .ok (pbool true)),
      b_assign _ _ _ _ _ _ _ (by simp [eval] : eval M _ .none = .ok pnone),
      b_stmt_next _ _ _ e5 _ _ (hloop (j + 18) (by omega)), exec2B_nil]
    simp only
    rw [htl]

/-- interpreter fuel that is enough for one pass through the outer body: the inbox length (rx loop), the model's `txFuel` of the state
    the tx loop starts from, and the nesting depth -/
def iterFuel (doRx doTx : Bool) (s : State) (st : Stats) : Nat :=
  s.inbox.length + (rlUpdated (afterRx doRx doTx s st).1).txFuel + 30

/-- **one pass through the outer body = the model's `procStep`** (no exception, tx loop within its fuel) -/
theorem outer_body (hM : ProcessCallees M R msgPV) (env : Env) (s : State) (doRx doTx run : Bool) (tmo : PV) (st : Stats)
    (hR : R env s) (hL : Loc env doRx doTx tmo run st)
    (hoof : (procStep doRx doTx s st).2.2.2 = false) (hexc : (procStep doRx doTx s st).1.exc = none) :
    ∃ env', (∀ n, iterFuel doRx doTx s st ≤ n → exec2B n M env outerBody = .ok (.next env')) ∧
      R env' (procStep doRx doTx s st).1 ∧ Loc env' doRx doTx tmo (procStep doRx doTx s st).2.2.1 (procStep doRx doTx s st).2.1 := by
  obtain ⟨e3, h3, r3, L3, m3, sw3⟩ := outer_head hM env s doRx doTx run tmo st hR hL
  obtain ⟨e4, h4, r4, L4⟩ := outer_rx hM e3 s doRx doTx _ tmo st r3 L3 m3 sw3
  obtain ⟨e5, h5, r5, L5⟩ := outer_tail5 hM e4 _ doRx doTx _ tmo _ r4 L4 hoof hexc
  refine ⟨e5, ?_, r5, L5⟩
  intro n hn
  obtain ⟨j, rfl⟩ : ∃ j, n = j + 30 := ⟨n - 30, by unfold iterFuel at hn; omega⟩
  unfold iterFuel at hn
  rw [h3, h4 j (by omega), h5 j (by omega)]

/-- interpreter fuel that is enough for the outer `while`, along the model's run with fuel `f` -/
def pyLoopFuel : Nat → Bool → Bool → State → Stats → Nat
  | 0, _, _, _, _ => 1
  | f + 1, doRx, doTx, s, st =>
    iterFuel doRx doTx s st + 1 +
      (if (procStep doRx doTx s st).2.2.1 then pyLoopFuel f doRx doTx (procStep doRx doTx s st).1 (procStep doRx doTx s st).2.1 else 1)

/-- **the outer loop = `State.processLoop`**: a run of the model (fuel `f`) that neither runs out of fuel nor ends with an exception is a run
    of `while run_process: ...` (fuel `≥ pyLoopFuel f ...`): same final state through `R`, same four counters. -/
theorem process_loop_agrees (hM : ProcessCallees M R msgPV) : ∀ (f : Nat) (env : Env) (s : State) (doRx doTx : Bool) (tmo : PV) (st : Stats)
    (s' : State) (st' : Stats),
    R env s → Loc env doRx doTx tmo true st → State.processLoop f doRx doTx s st = (s', st', false) → s'.exc = none →
    ∃ env', (∀ n, pyLoopFuel f doRx doTx s st ≤ n → exec2S n M env (.while_ (.var "run_process") outerBody) = .ok (.next env')) ∧
      R env' s' ∧ Loc env' doRx doTx tmo false st'
  | 0, env, s, doRx, doTx, tmo, st, s', st', _, _, h, _ => by
    simp [State.processLoop] at h
  | f + 1, env, s, doRx, doTx, tmo, st, s', st', hR, hL, h, hexc => by
    rw [processLoop_succ] at h
    cases he : (procStep doRx doTx s st).1.exc with
    | some e =>
      rw [he] at h
      simp only [Option.isSome_some, if_true, Prod.mk.injEq] at h
      rw [← h.1, he] at hexc
      cases hexc
    | none =>
      rw [he] at h
      simp only [Option.isSome_none, Bool.false_eq_true, if_false] at h
      cases ho : (procStep doRx doTx s st).2.2.2 with
      | true => rw [ho] at h; simp at h
      | false =>
        rw [ho] at h
        simp only [Bool.false_eq_true, if_false] at h
        obtain ⟨e1, hbody, r1, L1⟩ := outer_body hM env s doRx doTx true tmo st hR hL ho he
        have hcond := eval_var M env _ _ hL.run
        cases hrun : (procStep doRx doTx s st).2.2.1 with
        | false =>
          rw [hrun] at h L1
          simp only [Bool.false_eq_true, if_false, Prod.mk.injEq] at h
          obtain ⟨h1, h2, -⟩ := h
          subst h1 h2
          refine ⟨e1, ?_, r1, L1⟩
          intro n hn
          simp only [pyLoopFuel, hrun, Bool.false_eq_true, if_false] at hn
          obtain ⟨k, rfl⟩ : ∃ k, n = k + 2 := ⟨n - 2, by omega⟩
          rw [w_true _ _ _ _ _ _ hcond rfl, hbody (k + 1) (by omega)]
          simp only
          rw [w_false _ _ _ _ _ _ (eval_var M e1 _ _ L1.run) rfl]
        | true =>
          rw [hrun] at h L1
          simp only [if_true] at h
          obtain ⟨env', hloop, r', L'⟩ := process_loop_agrees hM f e1 _ doRx doTx tmo _ s' st' r1 L1 h hexc
          refine ⟨env', ?_, r', L'⟩
          intro n hn
          simp only [pyLoopFuel, hrun, if_true] at hn
          obtain ⟨k, rfl⟩ : ∃ k, n = k + 1 := ⟨n - 1, by omega⟩
          rw [w_true _ _ _ _ _ _ hcond rfl, hbody k (by omega)]
          simp only
          exact hloop k (by omega)

/-! ## 6. the whole function -/

theorem b_ret (n : Nat) (M : Meths) (env : Env) (e : PExpr) (v : PV) (rest : PBlock) (he : eval M env e = .ok v) :
    exec2B (n + 2) M env (.cons (.ret e) rest) = .ok (.ret v env) := by
  rw [exec2B_cons, exec2S_simple _ _ _ _ rfl]
  unfold simple2
  simp only [execStmt, he, ok_bind]
  rfl

/-- `return self.ProcessStats(received=msg_received, ...)` -/
theorem eval_retStats (hM : ProcessCallees M R msgPV) (env : Env) (doRx doTx run : Bool) (tmo : PV) (st : Stats)
    (hL : Loc env doRx doTx tmo run st) :
    eval M env (.call "self.ProcessStats#received#received_processed#sent#frame_received"
      (.cons (.var "msg_received") (.cons (.var "msg_received_processed") (.cons (.var "msg_sent") (.cons (.var "nb_frame_received") .nil))))) =
      .ok (encodeStats st) := by
  simp only [eval, evalArgs, hL.received, hL.processed, hL.sent, hL.frames, ok_bind,
    evalBuiltin_none "self.ProcessStats#received#received_processed#sent#frame_received" _ (by decide), hM.stats]

/-- the five assignments before the outer loop -/
theorem process_init (hM : ProcessCallees M R msgPV) (env : Env) (s : State) (doRx doTx : Bool) (tmo : PV)
    (hR : R env s) (hrx : env "do_rx" = some (pbool doRx)) (htx : env "do_tx" = some (pbool doTx)) (htmo : env "rx_timeout" = some tmo) :
    ∃ env5, (∀ j, exec2B (j + 8) M env Src.TransportLayerLogic_process =
        exec2B (j + 3) M env5 (.cons (.while_ (.var "run_process") outerBody) (.cons retStats .nil))) ∧
      R env5 s ∧ Loc env5 doRx doTx tmo true {} := by
  refine ⟨((((env.set "run_process" (pbool true)).set "msg_received" (pint 0)).set "msg_received_processed" (pint 0)).set
    "msg_sent" (pint 0)).set "nb_frame_received" (pint 0), ?_, ?_, ?_⟩
  · intro j
    rw [process_src, b_assign _ _ _ _ _ _ _ (by simp [eval] : eval M env .tt = .ok (pbool true)),
      b_assign _ _ _ _ _ _ _ (by simp [eval] : eval M _ (.int 0) = .ok (pint 0)),
      b_assign _ _ _ _ _ _ _ (by simp [eval] : eval M _ (.int 0) = .ok (pint 0)),
      b_assign _ _ _ _ _ _ _ (by simp [eval] : eval M _ (.int 0) = .ok (pint 0)),
      b_assign _ _ _ _ _ _ _ (by simp [eval] : eval M _ (.int 0) = .ok (pint 0))]
  · exact hM.R_set _ s _ _ (by decide) (hM.R_set _ s _ _ (by decide) (hM.R_set _ s _ _ (by decide)
      (hM.R_set _ s _ _ (by decide) (hM.R_set _ s _ _ (by decide) hR))))
  · constructor <;> simp [set_get, hrx, htx, htmo]

/-- interpreter fuel that is enough for the whole call, along the model's run -/
def processPyFuel (s : State) (doRx doTx : Bool) : Nat := pyLoopFuel s.processFuel doRx doTx s {} + 8

/-- **`process(rx_timeout, do_rx, do_tx)` = `State.process`**, relative to its callees: if the model's run neither runs out of fuel nor ends
    with an exception, then for every interpreter fuel `n ≥ processPyFuel s doRx doTx` the interpreted source returns the `ProcessStats` of
    the model's four counters, in an environment that shows the model's final state. -/
theorem process_agrees (hM : ProcessCallees M R msgPV) (env : Env) (s : State) (doRx doTx : Bool) (tmo : PV) (s' : State) (st' : Stats)
    (hR : R env s) (hrx : env "do_rx" = some (pbool doRx)) (htx : env "do_tx" = some (pbool doTx)) (htmo : env "rx_timeout" = some tmo)
    (h : s.process doRx doTx = (s', st', false)) (hexc : s'.exc = none) :
    ∃ env', (∀ n, processPyFuel s doRx doTx ≤ n → run2 n M env Src.TransportLayerLogic_process = .ok (.ret (encodeStats st') env')) ∧
      R env' s' := by
  obtain ⟨e5, hinit, r5, L5⟩ := process_init hM env s doRx doTx tmo hR hrx htx htmo
  obtain ⟨e6, hloop, r6, L6⟩ := process_loop_agrees hM s.processFuel e5 s doRx doTx tmo {} s' st' r5 L5 h hexc
  refine ⟨e6, ?_, r6⟩
  intro n hn
  obtain ⟨j, rfl⟩ : ∃ j, n = j + 8 := ⟨n - 8, by unfold processPyFuel at hn; omega⟩
  unfold processPyFuel at hn
  have hj : 1 ≤ j := by
    have : 1 ≤ pyLoopFuel s.processFuel doRx doTx s {} := by
      cases s.processFuel <;> simp only [pyLoopFuel] <;> omega
    omega
  obtain ⟨i, rfl⟩ : ∃ i, j = i + 1 := ⟨j - 1, by omega⟩
  unfold run2
  rw [hinit, b_stmt_next _ _ _ e6 _ _ (hloop (i + 1 + 2) (by omega)), retStats, b_ret _ _ _ _ _ _ (eval_retStats hM e6 _ _ _ _ _ L6)]

/-! ## 7. exceptions: `_process_tx` raises, `process` propagates

  The model records an exception in `exc` and every caller stops (`txLoop`, `processLoop` test `exc.isSome`); in Python the exception
  propagates out of `process` (no handler in its text).  Presented here as the callee raising (`ProcessCallees.process_tx_raises`).
  What cannot be said with `Meths.proc : ... → Except PErr Env`: the state of the object AT the raise point (an error carries no environment),
  so the environment of `Out.raised` is the one before the call of `_process_tx`. -/

/-- one pass through the body of the tx loop, `_process_tx` raising -/
theorem tx_body_raises (hM : ProcessCallees M R msgPV) (env : Env) (s : State) (e : PyExc)
    (hR : R env s) (h0 : s.exc = none) (he : s.processTx.1.exc = some e) :
    ∀ n, 12 ≤ n → exec2B n M env txBody = .ok (.raised e.name (env.set "first_loop" (pbool false))) := by
  have hR0 := hM.R_set env s "first_loop" (pbool false) (by decide) hR
  have hp := hM.process_tx_raises _ s e hR0 h0 he
  intro n hn
  obtain ⟨j, rfl⟩ : ∃ j, n = j + 12 := ⟨n - 12, by omega⟩
  rw [txBody, b_assign _ _ _ _ _ _ _ (by simp [eval] : eval M env .ff = .ok (pbool false)),
    b_raise _ _ _ _ _ e rfl (proc0_err M _ _ _ (by decide) hp)]

/-- **the inner tx loop when the model ends with an exception**: the `while` raises it -/
theorem tx_loop_raises (hM : ProcessCallees M R msgPV) : ∀ (f : Nat) (env : Env) (s : State) (doRx doTx run : Bool) (tmo : PV) (st : Stats)
    (mv : PV) (fl : Bool) (s' : State) (cnt' : Nat) (run' oof : Bool) (e : PyExc),
    R env s → Loc env doRx doTx tmo run st → env "msg" = some mv → env "first_loop" = some (pbool fl) → ((mv != pnone) || fl) = true →
    s.exc = none → State.txLoop f s st.sent = (s', cnt', run', oof) → s'.exc = some e →
    ∃ env1, ∀ n, f + 13 ≤ n → exec2S n M env (.while_ loopCond txBody) = .ok (.raised e.name env1)
  | 0, env, s, doRx, doTx, run, tmo, st, mv, fl, s', cnt', run', oof, e, _, _, _, _, _, h0, h, hexc => by
    simp only [State.txLoop, Prod.mk.injEq] at h
    rw [← h.1, h0] at hexc
    cases hexc
  | f + 1, env, s, doRx, doTx, run, tmo, st, mv, fl, s', cnt', run', oof, e, hR, hL, hm, hf, hc, h0, h, hexc => by
    rcases hp : s.processTx with ⟨s1, out, imm⟩
    rw [txLoop_succ f s s1 st.sent out imm hp] at h
    have hcond := eval_loopCond M env mv fl hm hf
    cases he : s1.exc with
    | some e1 =>
      rw [he] at h
      simp only [Option.isSome_some, if_true, Prod.mk.injEq] at h
      rw [← h.1, he] at hexc
      cases hexc
      have hbody := tx_body_raises hM env s e hR h0 (by rw [hp]; exact he)
      refine ⟨env.set "first_loop" (pbool false), ?_⟩
      intro n hn
      obtain ⟨k, rfl⟩ : ∃ k, n = k + 1 := ⟨n - 1, by omega⟩
      rw [w_true _ _ _ _ _ _ hcond (by rw [hc]; rfl), hbody k (by omega)]
    | none =>
      rw [he] at h
      simp only [Option.isSome_none, Bool.false_eq_true, if_false] at h
      obtain ⟨envF, hbody, rF, LF, mF, fF⟩ := tx_body hM env s s1 out imm doRx doTx run tmo st hR hL hp he
      have hemit : (match (generalizing := false) out with | some m => s1.emit (.tx s1.now m) | none => s1).exc = none := by
        cases out <;> exact he
      cases imm with
      | true =>
        simp only [if_true, Prod.mk.injEq] at h
        rw [← h.1, hemit] at hexc
        cases hexc
      | false =>
        simp only [Bool.false_eq_true, if_false] at h
        cases out with
        | none =>
          simp only [Option.isSome_none, Bool.false_eq_true, if_false, Prod.mk.injEq] at h
          rw [← h.1, he] at hexc
          cases hexc
        | some m =>
          simp only [Option.isSome_some, if_true] at h
          obtain ⟨env1, hrun⟩ := tx_loop_raises hM f envF _ doRx doTx (run || false) tmo _ _ _ s' cnt' run' oof e rF LF mF fF
            (by simp [optMsgPV, msgPV_bne hM]) hemit h hexc
          refine ⟨env1, ?_⟩
          intro n hn
          obtain ⟨k, rfl⟩ : ∃ k, n = k + 1 := ⟨n - 1, by omega⟩
          rw [w_true _ _ _ _ _ _ hcond (by rw [hc]; rfl), hbody k (by omega)]
          simp only [Bool.false_eq_true, if_false]
          exact hrun k (by omega)

/-- `start_with_tx = False; self.rate_limiter.update(); if do_tx: ...` when the model's tx half ends with an exception -/
theorem outer_tail5_raises (hM : ProcessCallees M R msgPV) (env : Env) (s : State) (doRx doTx run : Bool) (tmo : PV) (st : Stats) (e : PyExc)
    (hR : R env s) (hL : Loc env doRx doTx tmo run st) (h0 : s.exc = none)
    (hexc : (afterTx doTx (rlUpdated s) st).1.exc = some e) :
    ∃ env1, ∀ j, (rlUpdated s).txFuel ≤ j → exec2B (j + 25) M env outerTail5 = .ok (.raised e.name env1) := by
  have r1 := hM.R_set env s "start_with_tx" (pbool false) (by decide) hR
  have L1 : Loc (env.set "start_with_tx" (pbool false)) doRx doTx tmo run st := hL.set_other _ _ (by decide)
  obtain ⟨e2, p2, r2, k2⟩ := hM.rl_update _ s r1
  have L2 : Loc e2 doRx doTx tmo run st := L1.kept k2 (by simp)
  have head : ∀ j, exec2B (j + 25) M env outerTail5 =
      exec2B (j + 23) M e2 (.cons (.ite (.var "do_tx") txPart .nil) outerTail8) := by
    intro j
    rw [outerTail5, b_assign _ _ _ _ _ _ _ (by simp [eval] : eval M env .ff = .ok (pbool false)),
      b_next _ _ _ e2 _ _ rfl (proc0 M _ e2 _ (by decide) p2)]
  cases doTx with
  | false =>
    simp only [afterTx, Bool.false_eq_true, if_false] at hexc
    have : (rlUpdated s).exc = s.exc := rfl
    rw [this, h0] at hexc
    cases hexc
  | true =>
    rcases hr : State.txLoop (rlUpdated s).txFuel (rlUpdated s) st.sent with ⟨s', cnt', run', oof⟩
    simp only [afterTx, if_true, hr] at hexc
    have r3 := hM.R_set e2 _ "first_loop" (pbool true) (by decide) r2
    have r4 := hM.R_set _ _ "msg" pnone (by decide) r3
    have L4 : Loc ((e2.set "first_loop" (pbool true)).set "msg" pnone) doRx true tmo run st :=
      (L2.set_other _ _ (by decide)).set_other _ _ (by decide)
    obtain ⟨env1, hloop⟩ := tx_loop_raises hM (rlUpdated s).txFuel _ (rlUpdated s) doRx true run tmo st pnone true s' cnt' run' oof e
      r4 L4 (by simp [set_get]) (by simp [set_get]) (by simp) h0 hr hexc
    refine ⟨env1, ?_⟩
    intro j hj
    rw [head, b_ite_true _ _ _ _ _ _ _ _ (eval_var M _ _ _ L2.doTx) rfl, txPart,
      b_assign _ _ _ _ _ _ _ (by simp [eval] : eval M e2 .tt = .ok (pbool true)),
      b_assign _ _ _ _ _ _ _ (by simp [eval] : eval M _ .none = .ok pnone),
      b_stmt_raised _ _ _ env1 _ _ _ (hloop (j + 18) (by omega))]

theorem afterRx_exc (doRx doTx : Bool) (s : State) (st : Stats) : (afterRx doRx doTx s st).1.exc = s.exc := by
  unfold afterRx
  split
  · exact rxLoop_exc doTx s.inbox s st
  · rfl

/-- one pass through the outer body when the model's iteration ends with an exception -/
theorem outer_body_raises (hM : ProcessCallees M R msgPV) (env : Env) (s : State) (doRx doTx run : Bool) (tmo : PV) (st : Stats) (e : PyExc)
    (hR : R env s) (hL : Loc env doRx doTx tmo run st) (h0 : s.exc = none) (hexc : (procStep doRx doTx s st).1.exc = some e) :
    ∃ env1, ∀ n, iterFuel doRx doTx s st ≤ n → exec2B n M env outerBody = .ok (.raised e.name env1) := by
  obtain ⟨e3, h3, r3, L3, m3, sw3⟩ := outer_head hM env s doRx doTx run tmo st hR hL
  obtain ⟨e4, h4, r4, L4⟩ := outer_rx hM e3 s doRx doTx _ tmo st r3 L3 m3 sw3
  obtain ⟨env1, h5⟩ := outer_tail5_raises hM e4 _ doRx doTx _ tmo _ e r4 L4 ((afterRx_exc doRx doTx s st).trans h0) hexc
  refine ⟨env1, ?_⟩
  intro n hn
  obtain ⟨j, rfl⟩ : ∃ j, n = j + 30 := ⟨n - 30, by unfold iterFuel at hn; omega⟩
  unfold iterFuel at hn
  rw [h3, h4 j (by omega), h5 j (by omega)]

/-- **the outer loop when the model ends with an exception**: the `while` raises it -/
theorem process_loop_raises (hM : ProcessCallees M R msgPV) : ∀ (f : Nat) (env : Env) (s : State) (doRx doTx : Bool) (tmo : PV) (st : Stats)
    (e : PyExc),
    R env s → Loc env doRx doTx tmo true st → s.exc = none → (State.processLoop f doRx doTx s st).1.exc = some e →
    ∃ env1, ∀ n, pyLoopFuel f doRx doTx s st ≤ n → exec2S n M env (.while_ (.var "run_process") outerBody) = .ok (.raised e.name env1)
  | 0, env, s, doRx, doTx, tmo, st, e, _, _, h0, h => by
    simp only [State.processLoop] at h
    rw [h0] at h
    cases h
  | f + 1, env, s, doRx, doTx, tmo, st, e, hR, hL, h0, h => by
    rw [processLoop_succ] at h
    have hcond := eval_var M env _ _ hL.run
    cases he : (procStep doRx doTx s st).1.exc with
    | some e1 =>
      rw [he] at h
      simp only [Option.isSome_some, if_true] at h
      rw [he] at h
      cases h
      obtain ⟨env1, hbody⟩ := outer_body_raises hM env s doRx doTx true tmo st e hR hL h0 he
      refine ⟨env1, ?_⟩
      intro n hn
      simp only [pyLoopFuel] at hn
      obtain ⟨k, rfl⟩ : ∃ k, n = k + 1 := ⟨n - 1, by omega⟩
      rw [w_true _ _ _ _ _ _ hcond rfl, hbody k (by omega)]
    | none =>
      rw [he] at h
      simp only [Option.isSome_none, Bool.false_eq_true, if_false] at h
      cases ho : (procStep doRx doTx s st).2.2.2 with
      | true => rw [ho] at h; simp only [if_true] at h; rw [he] at h; cases h
      | false =>
        rw [ho] at h
        simp only [Bool.false_eq_true, if_false] at h
        cases hrun : (procStep doRx doTx s st).2.2.1 with
        | false => rw [hrun] at h; simp only [Bool.false_eq_true, if_false] at h; rw [he] at h; cases h
        | true =>
          rw [hrun] at h
          simp only [if_true] at h
          obtain ⟨e1, hbody, r1, L1⟩ := outer_body hM env s doRx doTx true tmo st hR hL ho he
          rw [hrun] at L1
          obtain ⟨env1, hloop⟩ := process_loop_raises hM f e1 _ doRx doTx tmo _ e r1 L1 he h
          refine ⟨env1, ?_⟩
          intro n hn
          simp only [pyLoopFuel, hrun, if_true] at hn
          obtain ⟨k, rfl⟩ : ∃ k, n = k + 1 := ⟨n - 1, by omega⟩
          rw [w_true _ _ _ _ _ _ hcond rfl, hbody k (by omega)]
          simp only
          exact hloop k (by omega)

/-- **`process` propagates the exception of `_process_tx`**: if the model's run ends with `exc = some e` (from a state without a pending
    exception), then for every interpreter fuel `n ≥ processPyFuel s doRx doTx` the interpreted source raises `e`. -/
theorem process_raises (hM : ProcessCallees M R msgPV) (env : Env) (s : State) (doRx doTx : Bool) (tmo : PV) (e : PyExc)
    (hR : R env s) (hrx : env "do_rx" = some (pbool doRx)) (htx : env "do_tx" = some (pbool doTx)) (htmo : env "rx_timeout" = some tmo)
    (h0 : s.exc = none) (h : (s.process doRx doTx).1.exc = some e) :
    ∃ env1, ∀ n, processPyFuel s doRx doTx ≤ n → run2 n M env Src.TransportLayerLogic_process = .ok (.raised e.name env1) := by
  obtain ⟨e5, hinit, r5, L5⟩ := process_init hM env s doRx doTx tmo hR hrx htx htmo
  obtain ⟨env1, hloop⟩ := process_loop_raises hM s.processFuel e5 s doRx doTx tmo {} e r5 L5 h0 h
  refine ⟨env1, ?_⟩
  intro n hn
  obtain ⟨j, rfl⟩ : ∃ j, n = j + 8 := ⟨n - 8, by unfold processPyFuel at hn; omega⟩
  unfold processPyFuel at hn
  unfold run2
  rw [hinit, b_stmt_raised _ _ _ env1 _ _ _ (hloop (j + 2) (by omega))]

end loops

/-! ## 8. the hypotheses are satisfiable: an instance of `ProcessCallees` for EVERY initial state

  The environment keeps, under the history key `#ops`, the list of the callee calls made so far (with their message arguments), as
  scalars; it shows the state `runOps s0 ops` (the model functions applied in that order to `s0`), and `self.rx_state` / `self.tx_state`
  of that state.  The `Meths` read the list back (the encoding is injective) and append to it. -/
namespace ProcInst

inductive Op where
  | rxfn | check | rlUpdate | processTx | processRx (m : CanMsg) | txfn (m : CanMsg)

def applyOp (s : State) : Op → State
  | .rxfn => match s.inbox with
      | [] => ({ s with inbox := [] } : State).emit (.rxNone s.now)
      | (dt, m) :: rest => ({ s with inbox := rest, now := s.now + dt } : State).emit (.rx (s.now + dt) m)
  | .check => s.checkTimeoutsRx
  | .rlUpdate => { s with rl := s.rl.update s.cfg.rlWindowNs s.now }
  | .processTx => s.processTx.1
  | .processRx m => (s.processRx m).1
  | .txfn m => s.emit (.tx s.now m)

def runOps (s0 : State) (ops : List Op) : State := ops.foldl applyOp s0

theorem runOps_snoc (s0 : State) (ops : List Op) (o : Op) : runOps s0 (ops ++ [o]) = applyOp (runOps s0 ops) o := by
  simp [runOps]

def scN (n : Nat) : Sc := .py (.int n)
def scB (b : Bool) : Sc := .py (.bool b)

def encMsg (m : CanMsg) : List Sc :=
  [scN m.id, scB m.ext, scN m.dlc, scB m.fd, scB m.brs, scN m.data.length] ++ m.data.map (fun b => scN b.toNat)

theorem encMsg_inj (m m' : CanMsg) (r r' : List Sc) (h : encMsg m ++ r = encMsg m' ++ r') : m = m' ∧ r = r' := by
  simp only [encMsg, List.cons_append, List.nil_append, List.cons.injEq, scN, scB, Sc.py.injEq, PyVal.int.injEq,
    PyVal.bool.injEq, Int.natCast_inj] at h
  obtain ⟨h1, h2, h3, h4, h5, h6, h7⟩ := h
  obtain ⟨hd, hr⟩ := List.append_inj h7 (by simp [h6])
  have hdata : m.data = m'.data := by
    refine (List.map_inj_right ?_).mp hd
    intro a b hab
    simp only [Sc.py.injEq, PyVal.int.injEq, Int.natCast_inj] at hab
    exact UInt8.toNat_inj.mp hab
  refine ⟨?_, hr⟩
  cases m; cases m'; simp_all

def encOp : Op → List Sc
  | .rxfn => [scN 0] | .check => [scN 1] | .rlUpdate => [scN 2] | .processTx => [scN 3]
  | .processRx m => scN 4 :: encMsg m | .txfn m => scN 5 :: encMsg m

def encOps : List Op → List Sc
  | [] => []
  | o :: r => encOp o ++ encOps r

theorem encOp_inj (o o' : Op) (r r' : List Sc) (h : encOp o ++ r = encOp o' ++ r') : o = o' ∧ r = r' := by
  cases o <;> cases o' <;>
    simp only [encOp, List.cons_append, List.nil_append, List.cons.injEq, scN, Sc.py.injEq, PyVal.int.injEq] at h <;>
    first
    | exact ⟨rfl, h.2⟩
    | (exfalso; have := h.1; omega)
    | (obtain ⟨h1, h2⟩ := encMsg_inj _ _ _ _ h.2; exact ⟨by rw [h1], h2⟩)

theorem encOps_inj : ∀ a b : List Op, encOps a = encOps b → a = b
  | [], [], _ => rfl
  | [], o :: r, h => by cases o <;> simp [encOps, encOp] at h
  | o :: r, [], h => by cases o <;> simp [encOps, encOp] at h
  | o :: r, o' :: r', h => by
    obtain ⟨h1, h2⟩ := encOp_inj o o' _ _ h
    rw [h1, encOps_inj r r' h2]

/-- a `CanMessage` object: its fields as a list of scalars -/
def msgPV (m : CanMsg) : PV := .list (encMsg m)

theorem msgPV_inj (m m' : CanMsg) (h : msgPV m = msgPV m') : m = m' := by
  simp only [msgPV, PV.list.injEq] at h
  exact (encMsg_inj m m' [] [] (by simpa using h)).1

open Classical in
noncomputable def msgOf (v : PV) : Option CanMsg := if h : ∃ m, msgPV m = v then some (Classical.choose h) else none

theorem msgOf_msgPV (m : CanMsg) : msgOf (msgPV m) = some m := by
  have h : ∃ m', msgPV m' = msgPV m := ⟨m, rfl⟩
  simp only [msgOf, h, dite_true, Option.some.injEq]
  exact msgPV_inj _ _ (Classical.choose_spec h)

open Classical in
noncomputable def opsOf (env : Env) : Option (List Op) :=
  if h : ∃ ops, env "#ops" = some (.list (encOps ops)) then some (Classical.choose h) else none

theorem opsOf_eq (env : Env) (ops : List Op) (h : env "#ops" = some (.list (encOps ops))) : opsOf env = some ops := by
  have h' : ∃ ops, env "#ops" = some (.list (encOps ops)) := ⟨ops, h⟩
  simp only [opsOf, h', dite_true, Option.some.injEq]
  have := (Classical.choose_spec h').symm.trans h
  simp only [Option.some.injEq, PV.list.injEq] at this
  exact encOps_inj _ _ this

/-- the environment after a callee: the call is appended to `#ops`, the two FSM states are those of the new state -/
def envAfter (env : Env) (ops : List Op) (s : State) : Env :=
  ((env.set "#ops" (.list (encOps ops))).set "self.rx_state" (pRxStPV s.rxState)).set "self.tx_state" (pTxStPV s.txState)

/-- a callee that is the model function `applyOp · o`; `k` binds what the call returns -/
noncomputable def step (s0 : State) (env : Env) (o : Op) (k : State → Env → Except PErr Env) : Except PErr Env :=
  match opsOf env with
  | some ops => k (runOps s0 ops) (envAfter env (ops ++ [o]) (applyOp (runOps s0 ops) o))
  | none => .error (.unsupported "the environment shows no state")

noncomputable def withState (s0 : State) (env : Env) (k : State → Except PErr PV) : Except PErr PV :=
  match opsOf env with
  | some ops => k (runOps s0 ops)
  | none => .error (.unsupported "the environment shows no state")

noncomputable def instM (s0 : State) : Meths where
  fn := fun name args env =>
    match name, args with
    | "self.tx_queue.empty", [] => withState s0 env fun s => .ok (pbool s.txQueue.isEmpty)
    | "self.logger.isEnabledFor", [_] => .ok (pbool false)
    | "self.address.is_for_me", [v] =>
      (match msgOf v with
       | some m => withState s0 env fun s => .ok (pbool (s.addr.rx.isForMe m))
       | none => .error (.exc .TypeError))
    | "self.ProcessStats#received#received_processed#sent#frame_received", [.sc a, .sc b, .sc c, .sc d] => .ok (.list [a, b, c, d])
    | n, _ => .error (.unsupported ("call " ++ n))
  proc := fun name args env =>
    match name, args with
    | "msg:=self.rxfn", [_] =>
      step s0 env .rxfn fun s e => .ok (e.set "msg" (match s.inbox with | [] => pnone | (_, m) :: _ => msgPV m))
    | "self._check_timeouts_rx", [] => step s0 env .check fun _ e => .ok e
    | "rx_result:=self._process_rx", [v] =>
      (match msgOf v with
       | some m => step s0 env (.processRx m) fun s e =>
          .ok ((e.set "rx_result.immediate_tx_required" (pbool (s.processRx m).2.1)).set "rx_result.frame_received"
            (pbool (s.processRx m).2.2))
       | none => .error (.exc .TypeError))
    | "self.rate_limiter.update", [] => step s0 env .rlUpdate fun _ e => .ok e
    | "tx_result:=self._process_tx", [] =>
      step s0 env .processTx fun s e =>
        (match s.processTx.1.exc with
         | some ex => .error (.exc ex)
         | none => .ok ((e.set "tx_result.msg" (optMsgPV msgPV s.processTx.2.1)).set "tx_result.immediate_rx_required"
            (pbool s.processTx.2.2)))
    | "self.txfn", [v] =>
      (match msgOf v with
       | some m => step s0 env (.txfn m) fun _ e => .ok e
       | none => .error (.exc .TypeError))
    | n, _ => .error (.unsupported ("call " ++ n))

/-- "`env` shows `s`": `s` is `s0` after the calls listed under `#ops` -/
def Shows (s0 : State) (env : Env) (s : State) : Prop :=
  ∃ ops, env "#ops" = some (.list (encOps ops)) ∧ s = runOps s0 ops ∧ Reads env s

theorem kept_refl (ex : List String) (env : Env) : Kept ex env env := fun _ _ _ => rfl

theorem kept_set {ex : List String} {env env' : Env} (h : Kept ex env env') (k : String) (v : PV)
    (hk : k ∉ procLocals ∨ k ∈ ex) : Kept ex env (env'.set k v) := by
  intro k' hk' hne
  rw [set_get]
  split
  · next heq =>
    subst heq
    rcases hk with hk | hk
    · exact absurd hk' hk
    · exact absurd hk hne
  · exact h k' hk' hne

theorem kept_envAfter (ex : List String) (env : Env) (ops : List Op) (s : State) : Kept ex env (envAfter env ops s) :=
  kept_set (kept_set (kept_set (kept_refl ex env) "#ops" _ (.inl (by decide))) "self.rx_state" _ (.inl (by decide)))
    "self.tx_state" _ (.inl (by decide))

/-- the keys `Reads` talks about -/
def readKeys : List String :=
  ["self.rx_state", "self.tx_state", "self.RxState.IDLE", "self.TxState.IDLE", "self.TxState.TRANSMIT_CF",
   "self.TxState.TRANSMIT_SF_STANDBY", "self.TxState.TRANSMIT_FF_STANDBY", "logging.DEBUG"]

theorem reads_set_other {env : Env} {s : State} (h : Reads env s) (k : String) (v : PV) (hk : k ∉ readKeys) : Reads (env.set k v) s := by
  simp only [readKeys, List.mem_cons, List.not_mem_nil, or_false, not_or] at hk
  obtain ⟨h1, h2, h3, h4, h5, h6, h7, h8⟩ := hk
  constructor
  · rw [set_get, if_neg (Ne.symm h1)]; exact h.rxState
  · rw [set_get, if_neg (Ne.symm h2)]; exact h.txState
  · rw [set_get, if_neg (Ne.symm h3)]; exact h.rxIdle
  · rw [set_get, if_neg (Ne.symm h4)]; exact h.txIdle
  · rw [set_get, if_neg (Ne.symm h5)]; exact h.txCf
  · rw [set_get, if_neg (Ne.symm h6)]; exact h.txSf
  · rw [set_get, if_neg (Ne.symm h7)]; exact h.txFf
  · rw [set_get, if_neg (Ne.symm h8)]; exact h.debug

theorem reads_envAfter {env : Env} {s : State} (h : Reads env s) (ops : List Op) (s' : State) : Reads (envAfter env ops s') s' := by
  constructor <;> simp [envAfter, set_get, h.rxIdle, h.txIdle, h.txCf, h.txSf, h.txFf, h.debug]

theorem Shows.set_other {s0 : State} {env : Env} {s : State} (h : Shows s0 env s) (k : String) (v : PV) (hk1 : k ≠ "#ops")
    (hk : k ∉ readKeys) : Shows s0 (env.set k v) s := by
  obtain ⟨ops, h1, h2, h3⟩ := h
  exact ⟨ops, by rw [set_get, if_neg (Ne.symm hk1)]; exact h1, h2, reads_set_other h3 k v hk⟩

/-- after a callee `o`: the environment shows the model function applied to the state -/
theorem shows_envAfter {s0 : State} {env : Env} {ops : List Op} (h3 : Reads env (runOps s0 ops)) (o : Op) :
    Shows s0 (envAfter env (ops ++ [o]) (applyOp (runOps s0 ops) o)) (applyOp (runOps s0 ops) o) :=
  ⟨ops ++ [o], by simp [envAfter, set_get], (runOps_snoc s0 ops o).symm, reads_envAfter h3 _ _⟩

theorem step_eq (s0 : State) (env : Env) (ops : List Op) (o : Op) (k : State → Env → Except PErr Env)
    (h : env "#ops" = some (.list (encOps ops))) :
    step s0 env o k = k (runOps s0 ops) (envAfter env (ops ++ [o]) (applyOp (runOps s0 ops) o)) := by
  simp only [step, opsOf_eq env ops h]

theorem withState_eq (s0 : State) (env : Env) (ops : List Op) (k : State → Except PErr PV)
    (h : env "#ops" = some (.list (encOps ops))) : withState s0 env k = k (runOps s0 ops) := by
  simp only [withState, opsOf_eq env ops h]

theorem instM_lookups (s0 : State) (env : Env) (v : PV) (a b c d : Sc) :
    (instM s0).fn "self.tx_queue.empty" [] env = (withState s0 env fun s => .ok (pbool s.txQueue.isEmpty)) ∧
    (instM s0).fn "self.logger.isEnabledFor" [v] env = .ok (pbool false) ∧
    (instM s0).fn "self.address.is_for_me" [v] env =
      (match msgOf v with
       | some m => withState s0 env fun s => .ok (pbool (s.addr.rx.isForMe m))
       | none => .error (.exc .TypeError)) ∧
    (instM s0).fn "self.ProcessStats#received#received_processed#sent#frame_received" [.sc a, .sc b, .sc c, .sc d] env =
      .ok (.list [a, b, c, d]) ∧
    (instM s0).proc "msg:=self.rxfn" [v] env =
      (step s0 env .rxfn fun s e => .ok (e.set "msg" (match s.inbox with | [] => pnone | (_, m) :: _ => msgPV m))) ∧
    (instM s0).proc "self._check_timeouts_rx" [] env = (step s0 env .check fun _ e => .ok e) ∧
    (instM s0).proc "rx_result:=self._process_rx" [v] env =
      (match msgOf v with
       | some m => step s0 env (.processRx m) fun s e =>
          .ok ((e.set "rx_result.immediate_tx_required" (pbool (s.processRx m).2.1)).set "rx_result.frame_received"
            (pbool (s.processRx m).2.2))
       | none => .error (.exc .TypeError)) ∧
    (instM s0).proc "self.rate_limiter.update" [] env = (step s0 env .rlUpdate fun _ e => .ok e) ∧
    (instM s0).proc "tx_result:=self._process_tx" [] env =
      (step s0 env .processTx fun s e =>
        (match s.processTx.1.exc with
         | some ex => .error (.exc ex)
         | none => .ok ((e.set "tx_result.msg" (optMsgPV msgPV s.processTx.2.1)).set "tx_result.immediate_rx_required"
            (pbool s.processTx.2.2)))) ∧
    (instM s0).proc "self.txfn" [v] env =
      (match msgOf v with
       | some m => step s0 env (.txfn m) fun _ e => .ok e
       | none => .error (.exc .TypeError)) :=
  ⟨rfl, rfl, rfl, rfl, rfl, rfl, rfl, rfl, rfl, rfl⟩

/-- **the hypotheses of the agreement theorems are satisfiable**, from every initial state -/
theorem instM_callees (s0 : State) : ProcessCallees (instM s0) (Shows s0) msgPV where
  msg_ne := by intro m h; cases h
  reads := by intro env s h; obtain ⟨_, _, _, h3⟩ := h; exact h3
  R_set := by
    intro env s k v hk h
    simp only [procWrites, List.mem_cons, List.not_mem_nil, or_false] at hk
    rcases hk with rfl | rfl | rfl | rfl | rfl | rfl | rfl | rfl | rfl | rfl | rfl <;>
      exact h.set_other _ v (by decide) (by decide)
  tx_queue_empty := by
    intro env s h
    obtain ⟨ops, h1, h2, _⟩ := h
    rw [(instM_lookups s0 env pnone default default default default).1, withState_eq s0 env ops _ h1, h2]
  log_off := by intro env v; exact (instM_lookups s0 env v default default default default).2.1
  is_for_me := by
    intro env s m h
    obtain ⟨ops, h1, h2, _⟩ := h
    rw [(instM_lookups s0 env (msgPV m) default default default default).2.2.1, msgOf_msgPV]
    simp only
    rw [withState_eq s0 env ops _ h1, h2]
  stats := by
    intro env a b c d
    exact (instM_lookups s0 env pnone _ _ _ _).2.2.2.1
  rxfn_some := by
    intro env s v dt m rest h hin
    obtain ⟨ops, h1, h2, h3⟩ := h
    subst h2
    have hap : applyOp (runOps s0 ops) .rxfn =
        ({ runOps s0 ops with inbox := rest, now := (runOps s0 ops).now + dt } : State).emit (.rx ((runOps s0 ops).now + dt) m) := by
      simp only [applyOp, hin]
    refine ⟨(envAfter env (ops ++ [.rxfn]) (applyOp (runOps s0 ops) .rxfn)).set "msg" (msgPV m), ?_, ?_, by simp [set_get], ?_⟩
    · rw [(instM_lookups s0 env v default default default default).2.2.2.2.1, step_eq s0 env ops _ _ h1]
      simp only [hin]
    · rw [← hap]
      exact (shows_envAfter h3 .rxfn).set_other "msg" _ (by decide) (by decide)
    · exact kept_set (kept_envAfter _ env _ _) "msg" _ (.inr (by simp))
  rxfn_none := by
    intro env s v h hin
    obtain ⟨ops, h1, h2, h3⟩ := h
    subst h2
    have hap : applyOp (runOps s0 ops) .rxfn = ({ runOps s0 ops with inbox := [] } : State).emit (.rxNone (runOps s0 ops).now) := by
      simp only [applyOp, hin]
    refine ⟨(envAfter env (ops ++ [.rxfn]) (applyOp (runOps s0 ops) .rxfn)).set "msg" pnone, ?_, ?_, by simp [set_get], ?_⟩
    · rw [(instM_lookups s0 env v default default default default).2.2.2.2.1, step_eq s0 env ops _ _ h1]
      simp only [hin]
    · rw [← hap]
      exact (shows_envAfter h3 .rxfn).set_other "msg" _ (by decide) (by decide)
    · exact kept_set (kept_envAfter _ env _ _) "msg" _ (.inr (by simp))
  check_timeouts_rx := by
    intro env s h
    obtain ⟨ops, h1, h2, h3⟩ := h
    subst h2
    refine ⟨envAfter env (ops ++ [.check]) (applyOp (runOps s0 ops) .check), ?_, shows_envAfter h3 .check, kept_envAfter _ env _ _⟩
    rw [(instM_lookups s0 env pnone default default default default).2.2.2.2.2.1, step_eq s0 env ops _ _ h1]
  process_rx := by
    intro env s m h
    obtain ⟨ops, h1, h2, h3⟩ := h
    subst h2
    refine ⟨((envAfter env (ops ++ [.processRx m]) (applyOp (runOps s0 ops) (.processRx m))).set "rx_result.immediate_tx_required"
      (pbool ((runOps s0 ops).processRx m).2.1)).set "rx_result.frame_received" (pbool ((runOps s0 ops).processRx m).2.2),
      ?_, ?_, by simp [set_get], by simp [set_get], ?_⟩
    · rw [(instM_lookups s0 env (msgPV m) default default default default).2.2.2.2.2.2.1, msgOf_msgPV]
      simp only
      rw [step_eq s0 env ops _ _ h1]
    · exact ((shows_envAfter h3 (.processRx m)).set_other _ _ (by decide) (by decide)).set_other _ _ (by decide) (by decide)
    · exact kept_set (kept_set (kept_envAfter _ env _ _) _ _ (.inl (by decide))) _ _ (.inl (by decide))
  rl_update := by
    intro env s h
    obtain ⟨ops, h1, h2, h3⟩ := h
    subst h2
    refine ⟨envAfter env (ops ++ [.rlUpdate]) (applyOp (runOps s0 ops) .rlUpdate), ?_, shows_envAfter h3 .rlUpdate,
      kept_envAfter _ env _ _⟩
    rw [(instM_lookups s0 env pnone default default default default).2.2.2.2.2.2.2.1, step_eq s0 env ops _ _ h1]
  process_tx := by
    intro env s h hexc
    obtain ⟨ops, h1, h2, h3⟩ := h
    subst h2
    refine ⟨((envAfter env (ops ++ [.processTx]) (applyOp (runOps s0 ops) .processTx)).set "tx_result.msg"
      (optMsgPV msgPV (runOps s0 ops).processTx.2.1)).set "tx_result.immediate_rx_required" (pbool (runOps s0 ops).processTx.2.2),
      ?_, ?_, by simp [set_get], by simp [set_get], ?_⟩
    · rw [(instM_lookups s0 env pnone default default default default).2.2.2.2.2.2.2.2.1, step_eq s0 env ops _ _ h1]
      simp only [hexc]
    · exact ((shows_envAfter h3 .processTx).set_other _ _ (by decide) (by decide)).set_other _ _ (by decide) (by decide)
    · exact kept_set (kept_set (kept_envAfter _ env _ _) _ _ (.inl (by decide))) _ _ (.inr (by simp))
  process_tx_raises := by
    intro env s e h _ hexc
    obtain ⟨ops, h1, h2, h3⟩ := h
    subst h2
    rw [(instM_lookups s0 env pnone default default default default).2.2.2.2.2.2.2.2.1, step_eq s0 env ops _ _ h1]
    simp only [hexc]
  txfn := by
    intro env s m h
    obtain ⟨ops, h1, h2, h3⟩ := h
    subst h2
    refine ⟨envAfter env (ops ++ [.txfn m]) (applyOp (runOps s0 ops) (.txfn m)), ?_, shows_envAfter h3 (.txfn m),
      kept_envAfter _ env _ _⟩
    rw [(instM_lookups s0 env (msgPV m) default default default default).2.2.2.2.2.2.2.2.2, msgOf_msgPV]
    simp only
    rw [step_eq s0 env ops _ _ h1]

/-- an environment that shows `s0` (no callee called yet) and binds the three parameters -/
def env0 (s0 : State) (doRx doTx : Bool) (tmo : PV) : Env := fun k =>
  match k with
  | "#ops" => some (.list [])
  | "self.rx_state" => some (pRxStPV s0.rxState)
  | "self.tx_state" => some (pTxStPV s0.txState)
  | "self.RxState.IDLE" => some (pRxStPV .idle)
  | "self.TxState.IDLE" => some (pTxStPV .idle)
  | "self.TxState.TRANSMIT_CF" => some (pTxStPV .transmitCf)
  | "self.TxState.TRANSMIT_SF_STANDBY" => some (pTxStPV .sfStandby)
  | "self.TxState.TRANSMIT_FF_STANDBY" => some (pTxStPV .ffStandby)
  | "logging.DEBUG" => some (pint 10)
  | "do_rx" => some (pbool doRx)
  | "do_tx" => some (pbool doTx)
  | "rx_timeout" => some tmo
  | _ => none

theorem env0_shows (s0 : State) (doRx doTx : Bool) (tmo : PV) : Shows s0 (env0 s0 doRx doTx tmo) s0 :=
  ⟨[], rfl, rfl, ⟨rfl, rfl, rfl, rfl, rfl, rfl, rfl, rfl⟩⟩

/-- `process_agrees` with the callees of this section: for EVERY initial state and both flags, a run of the model that neither runs out of
    fuel nor raises is a run of the interpreted source -/
theorem process_agrees_inst (s0 : State) (doRx doTx : Bool) (tmo : PV) (s' : State) (st' : Stats)
    (h : s0.process doRx doTx = (s', st', false)) (hexc : s'.exc = none) :
    ∃ env', (∀ n, processPyFuel s0 doRx doTx ≤ n →
        run2 n (instM s0) (env0 s0 doRx doTx tmo) Src.TransportLayerLogic_process = .ok (.ret (encodeStats st') env')) ∧
      Shows s0 env' s' :=
  process_agrees (instM_callees s0) _ s0 doRx doTx tmo s' st' (env0_shows s0 doRx doTx tmo) rfl rfl rfl h hexc

/-- `process_raises` with the callees of this section -/
theorem process_raises_inst (s0 : State) (doRx doTx : Bool) (tmo : PV) (e : PyExc)
    (h0 : s0.exc = none) (h : (s0.process doRx doTx).1.exc = some e) :
    ∃ env1, ∀ n, processPyFuel s0 doRx doTx ≤ n →
      run2 n (instM s0) (env0 s0 doRx doTx tmo) Src.TransportLayerLogic_process = .ok (.raised e.name env1) :=
  process_raises (instM_callees s0) _ s0 doRx doTx tmo e (env0_shows s0 doRx doTx tmo) rfl rfl rfl h0 h

/-! ### two concrete runs -/

def exHalf : Half :=
  { mode := .n11, txid := some 0x123, rxid := some 0x456, ta := none, sa := none, ae := none,
    physId := 0x123, funcId := 0x123, rxOnly := false, txOnly := false }

/-- a 10-byte payload queued; on the bus: a Single Frame for us (after 5 ns), a frame for somebody else (after 3 ns) -/
def exS : State :=
  { State.init {} { tx := exHalf, rx := exHalf } with
    inbox := [(5, { id := 0x456, ext := false, data := [0x02, 0xAA, 0xBB] }), (3, { id := 0x999, ext := false, data := [0x01, 0x01] })],
    txQueue := [{ id := 1, size := 10, src := [1, 2, 3, 4, 5, 6, 7, 8, 9, 10] }] }

/-- the outer loop runs twice (`start_with_tx`: the First Frame goes out first; then the rx loop takes both frames and `None`): the
    interpreted source returns `ProcessStats(received=2, received_processed=1, sent=1, frame_received=1)`, as the model does -/
example : ∃ env', (∀ n, processPyFuel exS true true ≤ n →
      run2 n (instM exS) (env0 exS true true (pint 0)) Src.TransportLayerLogic_process =
        .ok (.ret (encodeStats { received := 2, processed := 1, sent := 1, frames := 1 }) env')) ∧
    Shows exS env' (exS.process true true).1 := by
  have h2 : (exS.process true true).2 = ({ received := 2, processed := 1, sent := 1, frames := 1 }, false) := by decide
  have he : (exS.process true true).1.exc = none := by decide
  exact process_agrees_inst exS true true (pint 0) _ _ (by rw [← h2]) he

/-- a Flow Control was requested but its status never stored (`pendingFcStatus = none`): `_process_tx` raises `AttributeError`, and so does
    the interpreted `process` -/
def exR : State := { State.init {} { tx := exHalf, rx := exHalf } with pendingFc := true }

example : ∃ env1, ∀ n, processPyFuel exR true true ≤ n →
    run2 n (instM exR) (env0 exR true true (pint 0)) Src.TransportLayerLogic_process = .ok (.raised "AttributeError" env1) :=
  process_raises_inst exR true true (pint 0) .AttributeError rfl (by decide)

end ProcInst

end Isotp.PyAgree

#print axioms Isotp.PyAgree.tx_loop_agrees
#print axioms Isotp.PyAgree.tx_loop_raises
#print axioms Isotp.PyAgree.rx_loop_agrees
#print axioms Isotp.PyAgree.outer_body
#print axioms Isotp.PyAgree.process_loop_agrees
#print axioms Isotp.PyAgree.process_loop_raises
#print axioms Isotp.PyAgree.process_agrees
#print axioms Isotp.PyAgree.process_raises
#print axioms Isotp.PyAgree.encodeStats_injective
#print axioms Isotp.PyAgree.ProcInst.instM_callees
#print axioms Isotp.PyAgree.ProcInst.process_agrees_inst
#print axioms Isotp.PyAgree.ProcInst.process_raises_inst
