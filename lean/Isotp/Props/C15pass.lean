import Isotp.Proofs.C15Pass
import Isotp.Props.C15
/-
  C15 (rate limiter), PASS level — "throttling never stalls a transfer", stated about whole
  `process(do_rx, do_tx)` calls, in particular the transmit-only pass `process false true` that the
  threaded layer uses to drive a throttled transmission.

  `processLoop` calls `RateLimiter.update()` in EVERY iteration, between the (optional) rx loop and
  the (optional) tx loop. The theorems below depend on exactly that: a variant of the code that
  slides the window only on passes that read the bus contradicts `pass_slides_window` (with
  `doRx = false`), `txonly_pass_releases_parked_partial` and `window_slides_without_rx`.

  Notation: W = `cfg.rlWindowNs`, M = `cfg.rlBitMax`. Helper lemmas: Isotp/Proofs/C15Pass.lean.

  Invariants used (all hold in every state of a reset-free session of a validly configured layer:
  `C15.limInv_session`, `parkInv_session`, `txWf_session`):
  * `LimInv s.rl`  — `bitTotal` is the sum of the slots, slots sorted and > 5 ms apart;
  * `ParkInv s`    — a parked frame sits in SF/FF standby state and fits `tx_data_length`;
  * `Fc.TxWf s`    — non-idle transmit states have their request; N_Bs timer runs only in WAIT_FC.
  `StandbyOk` is not needed.

  Findings:
  * target 1 holds at full strength and unconditionally (no `oof = false`, no `exc = none`, limiter
    enabled or not): only `LimInv s.rl` is needed, and it is needed (`pass_slides_window_needs_sorted`);
  * target 2 as literally stated is FALSE of the model (`txonly_pass_releases_parked_false`): a
    Flow Control "overflow" received while the frame was parked makes the pass abort the
    transmission instead of sending the frame. `txonly_pass_releases_parked_partial` spells out the
    missing hypotheses; they reduce to "no Flow Control pending in either direction" for states of
    a session (`pass_releases_parked_session`). The clause "afterwards `standby` is not `some msg`"
    is false even then (`standby_same_again`): the same pass goes on with the next queued
    request, whose frame may be identical and is parked in turn; what holds is that the frame is
    the FIRST thing handed to `txfn` by the pass;
  * target 3 holds with `LimInv`, `ParkInv` and a valid configuration.
-/
namespace Isotp.C15pass
open Isotp State Isotp.C15

/-! ## 1. Every pass slides the window -/

/-- **Every `process(do_rx, do_tx)` call slides the limiter window**, whatever the flags, whether or
    not it raised or ran out of fuel: every slot still accounted afterwards starts inside the window
    that ends at the pass's final instant (frames emitted by the tx loop are accounted at that very
    instant), and the conservation law `bit_total = Σ slot bits` still holds. -/
theorem pass_slides_window (s : State) (doRx doTx : Bool) (hinv : LimInv s.rl) :
    (∀ e ∈ (s.process doRx doTx).1.rl.slots,
      (s.process doRx doTx).1.now - e.1 ≤ (s.process doRx doTx).1.cfg.rlWindowNs) ∧
    (s.process doRx doTx).1.rl.bitTotal = ((s.process doRx doTx).1.rl.slots.map (·.2)).sum ∧
    LimInv (s.process doRx doTx).1.rl :=
  have h := process_pass s doRx doTx
  ⟨h.2 hinv, (h.1.lim hinv).total, h.1.lim hinv⟩

/-- in particular for every state of a session -/
theorem pass_slides_window_session {c : Cfg} {ad : Addr} {s : State} {F : List (Nat × CanMsg × Bool)}
    (h : Session c ad s F) (doRx doTx : Bool) :
    ∀ e ∈ (s.process doRx doTx).1.rl.slots,
      (s.process doRx doTx).1.now - e.1 ≤ (s.process doRx doTx).1.cfg.rlWindowNs :=
  (pass_slides_window s doRx doTx (limInv_session h)).1

/-- the pass that neither reads the bus nor transmits still slides the window: after the 100 ms
    window has passed, `process false false` forgets the 64 bits of `ex3`; the transmit-only pass
    forgets them and accounts the frame it releases at the new instant -/
example : LimInv ex3.rl ∧ ex3.rl.slots = [(0, 64)] ∧
    ((ex3.advance 100000001).process false false).1.rl.slots = [] ∧
    ((ex3.advance 100000001).process false true).1.rl.slots = [(100000001, 64)] ∧
    ((ex3.advance 50000000).process false true).1.rl.slots = [(0, 64)] :=
  ⟨limInv_session (.process true true (.send _ (.send _ .init))), by decide +kernel, by decide +kernel,
   by decide +kernel, by decide +kernel⟩

/-- a limiter whose slot list is not sorted (impossible in a session) -/
def exUnsorted : State :=
  { ex0 with now := 100000050, rl := { enabled := true, slots := [(100, 8), (0, 8)], bitTotal := 16 } }

/-- `LimInv` (sortedness) cannot be dropped: `update` stops at the first live slot -/
theorem pass_slides_window_needs_sorted :
    ¬ ∀ e ∈ (exUnsorted.process false true).1.rl.slots,
      (exUnsorted.process false true).1.now - e.1 ≤ (exUnsorted.process false true).1.cfg.rlWindowNs := by
  decide +kernel

/-! ## 2. A transmitting pass releases the parked frame once the window is free -/

/-- target 2 as literally stated -/
def C15pass_txonly_pass_releases_parked_statement : Prop :=
  ∀ (s : State) (msg : CanMsg), s.standby = some msg → s.rl.enabled = true → s.cfg.valid = true →
    s.exc = none → (∀ e ∈ s.rl.slots, s.now - e.1 > s.cfg.rlWindowNs) →
    Ev.tx s.now msg ∈ (s.process false true).1.log ∧ (s.process false true).1.standby ≠ some msg

/-- a Flow Control frame with status 2 (overflow) from the peer -/
def exFcOvf : CanMsg := { id := 0x456, ext := false, data := [0x32, 0, 0], dlc := 3 }
/-- the frame of the second request of the example session (parked in `ex3`) -/
def exMsg : CanMsg := { id := 0x123, ext := false, data := [7, 8, 9, 10, 11, 12, 13, 14], dlc := 8 }

/-- `ex3` (second Single Frame parked), then the peer's overflow Flow Control is read by an rx-only
    pass, then the window passes -/
def exOvf : State := ((ex3.pushFrame 0 exFcOvf).process true false).1.advance 100000001

/-- **Target 2 is false as literally stated**: in `exOvf` (a state of a session) the frame is parked,
    the limiter enabled, the configuration valid, no exception, every slot expired — but the
    transmit-only pass handles the stored overflow Flow Control first, aborts the transmission
    (`Err.Overflow`, request completed with failure) and the parked frame is never sent. -/
theorem txonly_pass_releases_parked_false : ¬ C15pass_txonly_pass_releases_parked_statement := by
  intro h
  have := (h exOvf exMsg (by decide +kernel) (by decide +kernel) (by decide +kernel) (by decide +kernel)
    (by decide +kernel)).1
  revert this
  decide +kernel

example : (∃ F, Session exCfg exAddr exOvf F) ∧ exOvf.lastFc = some ⟨2, 0, 0⟩ ∧
    Ev.err 100000001 .Overflow ∈ (exOvf.process false true).1.log ∧
    Ev.done 2 false ∈ (exOvf.process false true).1.log :=
  ⟨⟨_, .advance _ (.process true false (.push 0 exFcOvf (.process true true (.send _ (.send _ .init)))))⟩,
   by decide +kernel, by decide +kernel, by decide +kernel⟩

/-- **Transmit-only pass releases the parked frame** (`_partial`: the literal statement plus the
    hypotheses it lacks, minus `rl.enabled`, which is not needed).
    Missing in the literal statement: the bookkeeping invariant `LimInv` (otherwise `bit_total`
    need not return to 0), the FSM really is in a standby state with its request (`hst`, `hact`),
    the frame fits `tx_data_length` (`hfit`; `ParkInv`), the N_Bs timer is not expired (`hto`), and —
    the genuine environment condition — no Flow Control is pending to be sent (`hpf`) or has been
    received (`hfc`) since the frame was parked.
    Conclusion: the frames handed to `txfn` by the pass BEGIN with `msg` at `s.now` (`txEvents` is
    newest first), in particular the event is in the log. -/
theorem txonly_pass_releases_parked_partial (s : State) (msg : CanMsg)
    (hsb : s.standby = some msg) (hv : s.cfg.valid = true) (hexc : s.exc = none)
    (hexp : ∀ e ∈ s.rl.slots, s.now - e.1 > s.cfg.rlWindowNs)
    (hinv : LimInv s.rl) (hst : s.txState = .sfStandby ∨ s.txState = .ffStandby)
    (hfit : msg.data.length ≤ s.cfg.txDl) (hact : s.active.isSome = true)
    (hto : s.timerFc.timedOut s.now = false) (hpf : s.pendingFc = false) (hfc : s.lastFc = none) :
    (∃ later, txEvents (s.process false true).1.log = later ++ (s.now, msg) :: txEvents s.log) ∧
    Ev.tx s.now msg ∈ (s.process false true).1.log :=
  have h := process_release false s msg (by intro h; cases h) ⟨hst, hsb, hfit, hpf, hfc, hto, hact, hexc⟩
    hv hinv hexp
  ⟨h, h.mem List.mem_cons_self⟩

/-- the same for any transmitting pass whose rx part (if any) finds the bus empty
    (`process true true` with an empty inbox) -/
theorem pass_releases_parked_partial (s : State) (msg : CanMsg) (doRx : Bool)
    (hrx : doRx = true → s.inbox = [])
    (hsb : s.standby = some msg) (hv : s.cfg.valid = true) (hexc : s.exc = none)
    (hexp : ∀ e ∈ s.rl.slots, s.now - e.1 > s.cfg.rlWindowNs)
    (hinv : LimInv s.rl) (hst : s.txState = .sfStandby ∨ s.txState = .ffStandby)
    (hfit : msg.data.length ≤ s.cfg.txDl) (hact : s.active.isSome = true)
    (hto : s.timerFc.timedOut s.now = false) (hpf : s.pendingFc = false) (hfc : s.lastFc = none) :
    (∃ later, txEvents (s.process doRx true).1.log = later ++ (s.now, msg) :: txEvents s.log) ∧
    Ev.tx s.now msg ∈ (s.process doRx true).1.log :=
  have h := process_release doRx s msg hrx ⟨hst, hsb, hfit, hpf, hfc, hto, hact, hexc⟩ hv hinv hexp
  ⟨h, h.mem List.mem_cons_self⟩

/-- with the transmit-side invariants of reachable states only the environment conditions remain -/
theorem pass_releases_parked_inv (s : State) (msg : CanMsg) (doRx : Bool)
    (hrx : doRx = true → s.inbox = []) (hinv : LimInv s.rl) (hp : ParkInv s) (hw : Fc.TxWf s)
    (hsb : s.standby = some msg) (hv : s.cfg.valid = true) (hexc : s.exc = none)
    (hexp : ∀ e ∈ s.rl.slots, s.now - e.1 > s.cfg.rlWindowNs)
    (hpf : s.pendingFc = false) (hfc : s.lastFc = none) :
    (∃ later, txEvents (s.process doRx true).1.log = later ++ (s.now, msg) :: txEvents s.log) ∧
    Ev.tx s.now msg ∈ (s.process doRx true).1.log :=
  have h := process_release doRx s msg hrx (ready_of_inv s msg hw hp hsb hpf hfc hexc) hv hinv hexp
  ⟨h, h.mem List.mem_cons_self⟩

/-- **In every state of a reset-free session** of a validly configured layer: a frame is parked, no
    exception, no Flow Control pending to be sent or received, every limiter slot older than the
    window; then a transmitting pass that finds the bus empty — in particular the transmit-only pass
    — hands the parked frame to `txfn` first, at the current instant. -/
theorem pass_releases_parked_session {c : Cfg} {ad : Addr} {s : State} {F : List (Nat × CanMsg × Bool)}
    (h : Session c ad s F) (hv : c.valid = true) (msg : CanMsg) (doRx : Bool)
    (hrx : doRx = true → s.inbox = [])
    (hsb : s.standby = some msg) (hexc : s.exc = none)
    (hexp : ∀ e ∈ s.rl.slots, s.now - e.1 > s.cfg.rlWindowNs)
    (hpf : s.pendingFc = false) (hfc : s.lastFc = none) :
    (∃ later, txEvents (s.process doRx true).1.log = later ++ (s.now, msg) :: txEvents s.log) ∧
    Ev.tx s.now msg ∈ (s.process doRx true).1.log :=
  pass_releases_parked_inv s msg doRx hrx (limInv_session h) (parkInv_session h hv) (txWf_session h) hsb
    (by rw [(session_loopSpec h).cfg]; exact hv) hexc hexp hpf hfc

/-- three requests, the last two with identical payload; first pass; window passes -/
def exTwin : State :=
  ((ex2.send { id := 3, size := 7, src := [8, 9, 10, 11, 12, 13, 14] }).1.process true true).1.advance 100000001

/-- **The clause "afterwards `standby` is not `some msg`" is false** even under all hypotheses of
    `pass_releases_parked_session`: the pass releases the parked frame of request 2 (it is in the
    log, request 2 is completed), goes on with request 3, builds the identical frame and parks it
    — the window is in use again (cf. `window_slides_without_rx`). -/
theorem standby_same_again :
    (∃ F, Session exCfg exAddr exTwin F) ∧ exTwin.standby = some exMsg ∧ exTwin.exc = none ∧
    exTwin.pendingFc = false ∧ exTwin.lastFc = none ∧
    (∀ e ∈ exTwin.rl.slots, exTwin.now - e.1 > exTwin.cfg.rlWindowNs) ∧
    Ev.tx exTwin.now exMsg ∈ (exTwin.process false true).1.log ∧
    Ev.done 2 true ∈ (exTwin.process false true).1.log ∧
    (exTwin.process false true).1.standby = some exMsg ∧
    (exTwin.process false true).1.rl.slots = [(100000001, 64)] :=
  ⟨⟨_, .advance _ (.process true true (.send _ (.send _ (.send _ .init))))⟩, by decide +kernel,
   by decide +kernel, by decide +kernel, by decide +kernel, by decide +kernel, by decide +kernel,
   by decide +kernel, by decide +kernel, by decide +kernel⟩

/-! ### non-vacuity: `ex3` (frame parked after the window was used up), clock advanced past the window -/

/-- the hypotheses of `txonly_pass_releases_parked_partial` / `pass_releases_parked_session` hold in
    `ex3.advance 100000001` … -/
example :
    let s := ex3.advance 100000001
    (∃ F, Session exCfg exAddr s F) ∧ exCfg.valid = true ∧ s.standby = some exMsg ∧ s.cfg.valid = true ∧
    s.exc = none ∧ (∀ e ∈ s.rl.slots, s.now - e.1 > s.cfg.rlWindowNs) ∧ s.rl.slots = [(0, 64)] ∧
    s.txState = .sfStandby ∧ exMsg.data.length ≤ s.cfg.txDl ∧ s.active.isSome = true ∧
    s.timerFc.timedOut s.now = false ∧ s.pendingFc = false ∧ s.lastFc = none ∧ s.inbox = [] :=
  ⟨⟨_, .advance _ (.process true true (.send _ (.send _ .init)))⟩, by decide, by decide +kernel,
   by decide +kernel, by decide +kernel, by decide +kernel, by decide +kernel, by decide +kernel,
   by decide +kernel, by decide +kernel, by decide +kernel, by decide +kernel, by decide +kernel,
   by decide +kernel⟩

/-- … and the transmit-only pass emits the parked frame (computed, and by the theorem) -/
example :
    (txEvents ((ex3.advance 100000001).process false true).1.log).map (fun x => (x.1, x.2.data)) =
      [(100000001, [7, 8, 9, 10, 11, 12, 13, 14]), (0, [7, 1, 2, 3, 4, 5, 6, 7])] ∧
    ((ex3.advance 100000001).process false true).1.standby = none ∧
    ((ex3.advance 100000001).process false true).1.isTxThrottled = false := by decide +kernel

example : Ev.tx 100000001 exMsg ∈ ((ex3.advance 100000001).process false true).1.log :=
  (pass_releases_parked_session (s := ex3.advance 100000001)
    (.advance _ (.process true true (.send _ (.send _ .init)))) (by decide) exMsg false (by intro h; cases h)
    (by decide +kernel) (by decide +kernel) (by decide +kernel) (by decide +kernel) (by decide +kernel)).2

/-- the same with `process true true` and an empty inbox: this is `ex4` of Isotp/Props/C15.lean -/
example : (ex3.advance 100000001).inbox = [] ∧ Ev.tx 100000001 exMsg ∈ ex4.log := by decide +kernel

/-- before the window has passed the same pass leaves the frame parked -/
example : ((ex3.advance 50000000).process false true).1.standby = some exMsg ∧
    (txEvents ((ex3.advance 50000000).process false true).1.log).length = 1 := by decide +kernel

/-! ## 3. A parked frame cannot survive a transmitting pass with a free window -/

/-- **Contrapositive used by the test oracle.** After a transmitting pass (`doTx = true`, any
    `doRx`) that neither raised nor ran out of fuel, if a frame is still parked then some limiter
    slot is still inside the window ending at the pass's final instant — something WAS handed over
    during the last window — and the limiter really is short of a full frame: more than
    `M − 8·tx_data_length` bits are accounted.
    Invariants on `s`: valid configuration, `LimInv s.rl`, `ParkInv s`. -/
theorem window_slides_without_rx (s : State) (doRx : Bool) (hv : s.cfg.valid = true)
    (hinv : LimInv s.rl) (hp : ParkInv s)
    (hoof : (s.process doRx true).2.2 = false) (hexc : (s.process doRx true).1.exc = none)
    (hpark : (s.process doRx true).1.standby.isSome = true) :
    (∃ e ∈ (s.process doRx true).1.rl.slots,
      (s.process doRx true).1.now - e.1 ≤ (s.process doRx true).1.cfg.rlWindowNs) ∧
    (s.process doRx true).1.rl.enabled = true ∧
    (s.process doRx true).1.cfg.rlBitMax <
      (s.process doRx true).1.rl.bitTotal + 8 * (s.process doRx true).1.cfg.txDl := by
  have h := process_pass s doRx true
  obtain ⟨msg, hm⟩ := Option.isSome_iff_exists.mp hpark
  have hb : Blocked (s.process doRx true).1 := h.1.blocked rfl hv hp hoof hexc msg hm
  have hv' : (s.process doRx true).1.cfg.valid = true := by rw [h.1.cfg]; exact hv
  have hne := blocked_slot _ _ hv' (h.1.lim hinv) hb
  have hbits := blocked_bits _ _ hv' hb
  refine ⟨?_, hbits.1, hbits.2⟩
  cases hs : (s.process doRx true).1.rl.slots with
  | nil => exact absurd hs hne
  | cons e rest =>
    have := h.2 hinv e (by rw [hs]; exact List.mem_cons_self)
    exact ⟨e, List.mem_cons_self, this⟩

/-- for every state of a reset-free session of a validly configured layer -/
theorem window_slides_without_rx_session {c : Cfg} {ad : Addr} {s : State} {F : List (Nat × CanMsg × Bool)}
    (h : Session c ad s F) (hv : c.valid = true) (doRx : Bool)
    (hoof : (s.process doRx true).2.2 = false) (hexc : (s.process doRx true).1.exc = none)
    (hpark : (s.process doRx true).1.standby.isSome = true) :
    ∃ e ∈ (s.process doRx true).1.rl.slots,
      (s.process doRx true).1.now - e.1 ≤ (s.process doRx true).1.cfg.rlWindowNs :=
  (window_slides_without_rx s doRx (by rw [(session_loopSpec h).cfg]; exact hv) (limInv_session h)
    (parkInv_session h hv) hoof hexc hpark).1

/-- progress form: after such a pass an empty limiter means nothing is parked -/
theorem free_window_nothing_parked (s : State) (doRx : Bool) (hv : s.cfg.valid = true)
    (hinv : LimInv s.rl) (hp : ParkInv s)
    (hoof : (s.process doRx true).2.2 = false) (hexc : (s.process doRx true).1.exc = none)
    (hfree : (s.process doRx true).1.rl.slots = []) : (s.process doRx true).1.standby = none := by
  cases hs : (s.process doRx true).1.standby with
  | none => rfl
  | some m =>
    obtain ⟨⟨e, he, _⟩, _⟩ := window_slides_without_rx s doRx hv hinv hp hoof hexc (by rw [hs]; rfl)
    rw [hfree] at he
    cases he

/-- non-vacuity: the pass that releases the parked frame of `ex3` one full window after it was itself
    sent … has an in-window slot; a pass with nothing to send on a fresh layer has none -/
example : ex0.cfg.valid = true ∧ LimInv ex0.rl ∧ ParkInv ex0 ∧ (ex0.process false true).2.2 = false ∧
    (ex0.process false true).1.exc = none ∧ (ex0.process false true).1.rl.slots = [] :=
  ⟨by decide, limInv_session .init, parkInv_init _ _, by decide +kernel, by decide +kernel, by decide +kernel⟩

/-- `ParkInv` is an invariant of sessions; it is what makes a parked frame releasable -/
theorem parkInv_invariant :
    (∀ c a, ParkInv (State.init c a)) ∧
    (∀ s doRx doTx, s.cfg.valid = true → ParkInv s → ParkInv (s.process doRx doTx).1) ∧
    (∀ {c ad s F}, Session c ad s F → c.valid = true → ParkInv s) :=
  ⟨parkInv_init, fun s doRx doTx hv hp => (process_pass s doRx doTx).1.park hv hp,
   fun h hv => parkInv_session h hv⟩

/-- non-vacuity: `ex2.process true true` (= `ex3`) ends with a parked frame, within fuel, without
    exception; the slot (0, 64) is inside the window, and 100 < 64 + 8·8 -/
example : ex2.cfg.valid = true ∧ LimInv ex2.rl ∧ ParkInv ex2 ∧ (ex2.process true true).2.2 = false ∧
    (ex2.process true true).1.exc = none ∧ (ex2.process true true).1.standby.isSome = true ∧
    (ex2.process true true).1.rl.slots = [(0, 64)] :=
  ⟨by decide +kernel, limInv_session (.send _ (.send _ .init)), parkInv_of_none _ (by decide +kernel),
   by decide +kernel, by decide +kernel, by decide +kernel, by decide +kernel⟩

/-- the transmit-only pass half-way through the window: still parked, slot still live -/
example :
    let s := ex3.advance 50000000
    ParkInv s ∧ (s.process false true).2.2 = false ∧ (s.process false true).1.exc = none ∧
    (s.process false true).1.standby.isSome = true ∧ (s.process false true).1.rl.slots = [(0, 64)] ∧
    (s.process false true).1.now = 50000000 :=
  ⟨parkInv_session (.advance _ (.process true true (.send _ (.send _ .init)))) (by decide),
   by decide +kernel, by decide +kernel, by decide +kernel, by decide +kernel, by decide +kernel⟩

end Isotp.C15pass

#print axioms Isotp.C15pass.pass_slides_window
#print axioms Isotp.C15pass.pass_slides_window_session
#print axioms Isotp.C15pass.pass_slides_window_needs_sorted
#print axioms Isotp.C15pass.txonly_pass_releases_parked_false
#print axioms Isotp.C15pass.txonly_pass_releases_parked_partial
#print axioms Isotp.C15pass.pass_releases_parked_partial
#print axioms Isotp.C15pass.pass_releases_parked_inv
#print axioms Isotp.C15pass.pass_releases_parked_session
#print axioms Isotp.C15pass.standby_same_again
#print axioms Isotp.C15pass.window_slides_without_rx
#print axioms Isotp.C15pass.window_slides_without_rx_session
#print axioms Isotp.C15pass.free_window_nothing_parked
#print axioms Isotp.C15pass.parkInv_invariant
