import Isotp.Proofs.Threaded
/-
  C13 — threaded layer: the glue between user threads, the relay thread, the worker thread and the bus
  neither loses, duplicates, modifies nor reorders anything, under every scheduling.

  Model: `Isotp/Threaded.lean`.  A run of the system is a `List TL.Step` (`Proofs/Threaded.lean`): calls of
  user threads (`send`, `recv`, …), iterations of the relay thread (`relayStep`) and of the worker
  (`workerStep`), and frames appearing on the bus (`busPut`), interleaved arbitrarily.  "Regardless of thread
  scheduling, callback latency and read_timeout" is the universal quantification over that list: latency and
  time-outs only decide *when* a thread makes its next step (an `rxfn` that returns `None` after its
  time-out is a `relayStep` with an empty bus; a `Queue.get` that times out is a `workerStep` with an empty
  relay queue).  Error and remote frames never reach the layer (`adapter_rx`); frames with a foreign
  identifier are read and dropped by `process` (`rxLoop`, `isForMe`) without touching the FSM.

  What is proved here is the threaded part of the property; that the frame sequence handed to `process`
  and the request sequence in the tx queue are turned into the right payloads is the single-threaded
  transfer correctness (C01–C08).
-/
namespace Isotp.C13
open Isotp TL

/-! ### 1. python-can adapters -/

/-- `_python_can_to_isotp_message` returns `None` exactly for "no message", error frames and remote frames -/
theorem adapter_rx_none (m : Option PyCanMsg) :
    pyCanToIsotp m = none ↔ m = none ∨ ∃ p, m = some p ∧ (p.isError = true ∨ p.isRemote = true) := by
  cases m with
  | none => simp [pyCanToIsotp]
  | some p => cases h : p.isError <;> simp [pyCanToIsotp, h]

/-- …and otherwise copies identifier, extended flag, data, FD flag and BRS flag unchanged
    (`dlc` is not copied: `CanMessage` gets its default `dlc = 0`, the layer never reads it on reception) -/
theorem adapter_rx (p : PyCanMsg) (he : p.isError = false) (hr : p.isRemote = false) :
    pyCanToIsotp (some p) = some { id := p.id, ext := p.ext, data := p.data, fd := p.fd, brs := p.brs } := by
  simp [pyCanToIsotp, he, hr]

/-- `python_can_tx_canbus_3plus` copies the same five fields and builds a data frame -/
theorem adapter_tx (m : CanMsg) :
    (isotpToPyCan m).id = m.id ∧ (isotpToPyCan m).ext = m.ext ∧ (isotpToPyCan m).data = m.data ∧
    (isotpToPyCan m).fd = m.fd ∧ (isotpToPyCan m).brs = m.brs ∧
    (isotpToPyCan m).isError = false ∧ (isotpToPyCan m).isRemote = false :=
  ⟨rfl, rfl, rfl, rfl, rfl, rfl, rfl⟩

/-- what one stack transmits is what the peer stack receives, unmodified, except that `dlc` is dropped
    on the way (python-can recomputes it from the data length; the receiving side does not use it) -/
theorem adapter_round_trip (m : CanMsg) : pyCanToIsotp (some (isotpToPyCan m)) = some { m with dlc := 0 } := rfl

/-! ### 2. bus → relay thread → relay queue → worker → logic layer -/

/-- the queue primitive: the frames are preserved in order, only `None` tokens are dropped -/
theorem takeUntilNone_filterMap (q : List (Option CanMsg)) (ms : List CanMsg) (rest : List (Option CanMsg))
    (h : takeUntilNone q = (ms, rest)) : q.filterMap id = ms ++ rest.filterMap id :=
  TL.takeUntilNone_filterMap q ms rest h

/-- one worker iteration, as an equation: the frames it takes (`moved`) are appended to the logic
    layer's input, then `process` runs -/
theorem workerStep_eq (t : TL) (h : t.workerLive = true) :
    t.workerStep =
      { t with core := ((feed t.core (moved t .workerStep)).process true true).1,
               relayQ := (takeUntilNone t.relayQ).2 } := TL.workerStep_eq t h

/-- **relay_order.**  In any transfer phase (any interleaving of `busPut`, `relayStep`, `workerStep`, `send`,
    `recv`, `stop_sending`, `stop_receiving`), the frames the worker has handed to the logic layer
    (`delivered`, ghost), followed by the frames still in the relay queue, followed by the frames still
    on the bus, are exactly the old ones followed by all `busPut` frames, in order. -/
theorem relay_order (t : TL) (sched : List Step) (hs : ∀ s ∈ sched, s.isTransfer = true) :
    delivered t sched ++ somes (t.run sched).relayQ ++ (t.run sched).bus
      = somes t.relayQ ++ t.bus ++ puts sched := TL.relay_order t sched hs

/-- from a freshly started layer: equal to the sequence of all `busPut` frames -/
theorem relay_order_started (c : Cfg) (a : Addr) (sched : List Step) (hs : ∀ s ∈ sched, s.isTransfer = true) :
    let t0 := (TL.init c a).start.1
    delivered t0 sched ++ somes (t0.run sched).relayQ ++ (t0.run sched).bus = puts sched := by
  have := TL.relay_order (TL.init c a).start.1 sched hs
  simpa [start, init] using this

/-- **no loss inside `process` either.**  The frames the logic layer has *read* (`rx` events of its
    history, i.e. `rxfn` returned them to `process`, which hands them to `_process_rx`), followed by
    everything still on the way (unread input, relay queue, bus) are the old ones plus the `busPut` frames,
    in order: each frame put on the bus is read exactly once, in bus order, or is still on its way. -/
theorem frames_read_in_order (t : TL) (sched : List Step) (hs : ∀ s ∈ sched, s.isTransfer = true) :
    seen (t.run sched) ++ pending (t.run sched) = seen t ++ pending t ++ puts sched :=
  (run_flow t sched hs).2.2.2

theorem frames_read_in_order_started (c : Cfg) (a : Addr) (sched : List Step)
    (hs : ∀ s ∈ sched, s.isTransfer = true) :
    let t := (TL.init c a).start.1.run sched
    seen t ++ (t.core.inbox.map (·.2) ++ somes t.relayQ ++ t.bus) = puts sched := by
  have := frames_read_in_order (TL.init c a).start.1 sched hs
  simpa [start, init, seen, pending, State.init, rxOf] using this

/-- the ghost `delivered` of `relay_order` is real: the frames read so far followed by the unread input of
    the logic layer are the old ones followed by exactly the `delivered` frames -/
theorem delivered_is_read (t : TL) (sched : List Step) (hs : ∀ s ∈ sched, s.isTransfer = true) :
    seen (t.run sched) ++ (t.run sched).core.inbox.map (·.2)
      = seen t ++ t.core.inbox.map (·.2) ++ delivered t sched := by
  have h1 := frames_read_in_order t sched hs
  have h2 := relay_order t sched hs
  apply List.append_cancel_right (bs := somes (t.run sched).relayQ ++ (t.run sched).bus)
  simp only [pending, List.append_assoc] at h1 h2 ⊢
  rw [h1, h2]

/-! ### 3. user threads → tx queue -/

/-- `send()` is atomic and appends: rejected (`ValueError`) leaves the layer untouched; accepted
    (normal return, or `BlockingSendTimeout` with `blocking_send`) appends exactly the new request at
    the END of the tx queue and one wake-up token at the end of the relay queue -/
theorem send_appends (t : TL) (a : State.SendArgs) :
    ((t.send a).2 = some .ValueError → (t.send a).1 = t) ∧
    ((t.send a).2 ≠ some .ValueError →
      (t.send a).1.core.txQueue = t.core.txQueue ++ [t.core.sendReq a] ∧
      (t.send a).1.relayQ = t.relayQ ++ [none] ∧
      (t.core.sendReq a).id = a.id ∧ (t.core.sendReq a).src = a.src ∧ (t.core.sendReq a).size = a.size.toNat ∧
      (t.core.sendReq a).consumed = 0) := by
  refine ⟨send_rejected t a, fun h => ?_⟩
  obtain ⟨h1, h2, _⟩ := send_accepted t a h
  exact ⟨h1, h2, rfl, rfl, rfl, rfl⟩

/-- only `ValueError` / `BlockingSendTimeout` come out of `send`, decided by the arguments and the
    configuration alone (not by what other threads are doing) -/
theorem send_exc (t : TL) (a : State.SendArgs) :
    (t.send a).2 = if t.core.sendBad a then some .ValueError
                   else if t.core.cfg.blocking then some .BlockingSendTimeout else none := TL.send_exc t a

/-- the relay thread, the bus and `recv` do not touch the tx queue -/
theorem txQueue_untouched (t : TL) (m : CanMsg) :
    t.relayStep.core.txQueue = t.core.txQueue ∧ (t.busPut m).core.txQueue = t.core.txQueue ∧
    t.recv.1.core.txQueue = t.core.txQueue := by
  refine ⟨?_, rfl, ?_⟩
  · simp only [relayStep]; split
    · rfl
    · split
      · rfl
      · split <;> rfl
  · exact (recv_keeps t.core).2.2.1

/-- **send_linearised.**  In any transfer phase, under any scheduling: the requests the worker has already
    taken for transmission (`taken`) followed by the tx queue are the old queue followed by the
    requests of all accepted `send` calls in schedule order.  The worker only ever takes from the
    front, so requests are transmitted in the order in which their `send` calls took effect. -/
theorem send_linearised (t : TL) (sched : List Step) (hs : ∀ s ∈ sched, s.isTransfer = true) :
    ∃ taken, taken ++ (t.run sched).core.txQueue = t.core.txQueue ++ accepted t.core sched :=
  (run_flow t sched hs).2.2.1

/-- without worker iterations nothing is taken: the queue is exactly the accepted requests in order -/
theorem send_fifo (t : TL) (sched : List Step) (hs : ∀ s ∈ sched, s.isTransfer = true)
    (hw : Step.workerStep ∉ sched) (hss : Step.stopSending ∉ sched) :
    (t.run sched).core.txQueue = t.core.txQueue ++ accepted t.core sched := by
  induction sched generalizing t with
  | nil => simp [accepted]
  | cons s ss ih =>
    have hf := step_flow t s (hs s (by simp))
    have h2 := ih (t.step s).1 (fun x hx => hs x (by simp [hx])) (fun h => hw (by simp [h]))
      (fun h => hss (by simp [h]))
    rw [accepted_congr t.core _ hf.1 hf.2.1] at h2
    have e : accepted t.core (s :: ss) = accepted t.core [s] ++ accepted t.core ss := by
      simp [accepted, List.filterMap_cons]; cases accept? t.core s <;> simp
    have h1 : (t.step s).1.core.txQueue = t.core.txQueue ++ accepted t.core [s] := by
      cases s <;> simp [Step.isTransfer] at hs hw hss
      case send a =>
        by_cases hb : t.core.sendBad a = true <;> simp [step, send_eq, accepted, accept?, hb]
      case recv =>
        show t.recv.1.core.txQueue = t.core.txQueue ++ []
        rw [List.append_nil]; exact (recv_keeps t.core).2.2.1
      case stopReceiving =>
        simp only [step, stopReceiving, accepted, List.filterMap_cons, accept?, List.filterMap_nil, List.append_nil]
        split
        · split <;> rfl
        · rfl
      case relayStep =>
        show t.relayStep.core.txQueue = t.core.txQueue ++ []
        rw [List.append_nil]; exact (txQueue_untouched t default).1
      case busPut m => simp [accepted, accept?, step, busPut]
    rw [run_cons, h2, h1, e, List.append_assoc]

/-- the order in which ONE user thread issued its calls (a sub-sequence of the schedule) is kept -/
theorem per_thread_order (s : State) (thread sched : List Step) (h : thread.Sublist sched) :
    (accepted s thread).Sublist (accepted s sched) := accepted_sublist s thread sched h

/-- configuration and address are never changed by a transfer phase (so acceptance of a `send` does not
    depend on the schedule) -/
theorem cfg_stable (t : TL) (sched : List Step) (hs : ∀ s ∈ sched, s.isTransfer = true) :
    (t.run sched).core.cfg = t.core.cfg ∧ (t.run sched).core.addr = t.core.addr :=
  ⟨(run_flow t sched hs).1, (run_flow t sched hs).2.1⟩

/-! ### 4. wake-up -/

/-- after an accepted `send` the relay queue ends with a wake-up token -/
theorem wakeup_token (t : TL) (a : State.SendArgs) (h : (t.send a).2 ≠ some .ValueError) :
    (t.send a).1.relayQ.getLast? = some none := send_wakeup t a h

/-- **wakeup.**  The worker iteration that follows an accepted `send` stops reading at the first token (this
    send's at the latest), hands the frames in front of it to the logic layer, and runs one
    `process(do_rx=True, do_tx=True)` pass in which the new request is at the end of the tx queue. -/
theorem wakeup (t : TL) (a : State.SendArgs) (h : (t.send a).2 ≠ some .ValueError)
    (hl : t.workerLive = true) :
    ∃ (ms : List CanMsg) (rest : List (Option CanMsg)),
      t.relayQ ++ [none] = ms.map some ++ none :: rest ∧
      (t.send a).1.workerStep =
        { (t.send a).1 with
            core := ((feed { t.core with txQueue := t.core.txQueue ++ [t.core.sendReq a] } ms).process true true).1,
            relayQ := rest } := workerStep_after_send t a h hl

/-- a token always makes the worker's blocking read return: strictly fewer entries remain -/
theorem token_consumed (q : List (Option CanMsg)) (h : none ∈ q) :
    (takeUntilNone q).2.length < q.length := takeUntilNone_length_lt q h

/-- on a started layer (any reachable started state) the worker is live -/
theorem started_worker_live (c : Cfg) (a : Addr) (sched : List Step)
    (h : ((TL.init c a).run sched).started = true) : ((TL.init c a).run sched).workerLive = true := by
  have hw := run_wf (TL.init c a) sched (init_wf c a)
  have h2 := hw.threads
  simp only [h, if_true] at h2
  simp [workerLive, h2.1, hw.noStopReq]

/-! ### non-vacuity: concrete values -/

def h11 : Half := { mode := .n11, txid := some 0x123, rxid := some 0x456, ta := none, sa := none, ae := none,
                    physId := 0, funcId := 0, rxOnly := false, txOnly := false }
def addr : Addr := { tx := h11, rx := h11 }
def cfg : Cfg := {}
def sfA : CanMsg := { id := 0x456, ext := false, data := [3, 1, 2, 3] }
def sfB : CanMsg := { id := 0x456, ext := false, data := [2, 0xAA, 0xBB] }
/-- an unrelated frame (foreign identifier) -/
def other : CanMsg := { id := 0x7FF, ext := false, data := [1, 0] }
def args (n : Nat) (p : Bytes) : State.SendArgs := { id := n, size := p.length, src := p }

/-- adapters: an error frame and a remote frame are dropped, a data frame is converted -/
example : pyCanToIsotp (some { id := 1, ext := false, data := [], fd := false, brs := false, isError := true }) = none ∧
    pyCanToIsotp (some { id := 1, ext := false, data := [], fd := false, brs := false, isRemote := true }) = none ∧
    pyCanToIsotp (some { id := 0x456, ext := false, data := [3, 1, 2, 3], fd := false, brs := false }) = some sfA := by
  decide

/-- a schedule with two user threads sending, frames (one unrelated) arriving, both internal threads
    running, `recv` in between; it satisfies the hypothesis of the schedule theorems -/
def sched : List Step :=
  [.send (args 1 [7, 8, 9]), .busPut sfA, .send (args 2 [4, 5]), .relayStep, .busPut other, .workerStep,
   .busPut sfB, .relayStep, .send { id := 3, size := -1, src := [] }, .workerStep, .relayStep, .recv,
   .workerStep, .workerStep]

example : ∀ s ∈ sched, s.isTransfer = true := by decide

/-- in that run: both payloads are delivered once, in bus order (the early `recv` found nothing yet); the unrelated frame is read and ignored;
    requests 1 and 2 are transmitted in `send` order and completed; request 3 was rejected; no error is
    reported and no exception recorded -/
example :
    let t := (TL.init cfg addr).start.1.run sched
    t.core.rxQueue = [[1, 2, 3], [0xAA, 0xBB]] ∧ t.recv.2 = some [1, 2, 3] ∧ t.recv.1.recv.2 = some [0xAA, 0xBB] ∧
    seen t = [sfA, other, sfB] ∧ pending t = [] ∧ puts sched = [sfA, other, sfB] ∧
    delivered (TL.init cfg addr).start.1 sched = [sfA, other, sfB] ∧
    (accepted (TL.init cfg addr).core sched).map (·.id) = [1, 2] ∧
    (t.core.log.reverse.filterMap fun | .tx _ m => some m.data | _ => none) = [[3, 7, 8, 9], [2, 4, 5]] ∧
    (t.core.log.reverse.filterMap fun | .done i ok => some (i, ok) | _ => none) = [(1, true), (2, true)] ∧
    (t.core.log.filterMap fun | .err _ e => some e | _ => none) = [] ∧ t.core.exc = none := by
  decide +kernel

/-- hypotheses of `wakeup` on a concrete started layer with frames waiting in the relay queue -/
example :
    let t := (TL.init cfg addr).start.1.run [.busPut sfA, .relayStep]
    (t.send (args 1 [7, 8, 9])).2 ≠ some .ValueError ∧ t.workerLive = true ∧
    (t.send (args 1 [7, 8, 9])).1.relayQ = [some sfA, none] := by decide +kernel

/-- a rejected `send` -/
example : ((TL.init cfg addr).start.1.send { id := 3, size := -1, src := [] }).2 = some .ValueError := by
  decide +kernel

/-- `takeUntilNone` on a concrete queue -/
example : takeUntilNone [some sfA, none, some sfB, none] = ([sfA], [some sfB, none]) := by decide

end Isotp.C13

#print axioms Isotp.C13.adapter_rx_none
#print axioms Isotp.C13.adapter_rx
#print axioms Isotp.C13.adapter_tx
#print axioms Isotp.C13.adapter_round_trip
#print axioms Isotp.C13.takeUntilNone_filterMap
#print axioms Isotp.C13.workerStep_eq
#print axioms Isotp.C13.relay_order
#print axioms Isotp.C13.relay_order_started
#print axioms Isotp.C13.frames_read_in_order
#print axioms Isotp.C13.frames_read_in_order_started
#print axioms Isotp.C13.delivered_is_read
#print axioms Isotp.C13.send_appends
#print axioms Isotp.C13.send_exc
#print axioms Isotp.C13.txQueue_untouched
#print axioms Isotp.C13.send_linearised
#print axioms Isotp.C13.send_fifo
#print axioms Isotp.C13.per_thread_order
#print axioms Isotp.C13.cfg_stable
#print axioms Isotp.C13.wakeup_token
#print axioms Isotp.C13.wakeup
#print axioms Isotp.C13.token_consumed
#print axioms Isotp.C13.started_worker_live
