import Isotp.PyAgree.EvalLemmas
/-!
  `Address.validate` (interpreted source, `Src.Address_validate`) = the model's `validateAddr`, for ALL constructor arguments,
  wrong-typed ones included (every `PyVal`).

  The body is cut into its eight top-level statements (`stmtAt Src.Address_validate i`; the five value checks are instances of the
  two shapes `byteCheck` / `idCheck`, which `body_eq` checks against the dumped source by `rfl`).  One lemma per statement:
  "raises `ValueError` under this exact condition, otherwise falls through with the environment unchanged"; `validate_exec` chains them.
-/
namespace Isotp.PyAgree
open Isotp Isotp.Py

/-- what the constructor has stored in the object when it calls `self.validate()` -/
def argsEnv (a : AddrArgs) (modeVal : PV) (is29 : Bool) : Env := fun k =>
  match k with
  | "self._addressing_mode" => some modeVal
  | "self._is_29bits" => some (pbool is29)
  | "self._txid" => some (.sc (.py a.txid))
  | "self._rxid" => some (.sc (.py a.rxid))
  | "self._target_address" => some (.sc (.py a.ta))
  | "self._source_address" => some (.sc (.py a.sa))
  | "self._address_extension" => some (.sc (.py a.ae))
  | "self._rx_only" => some (pbool a.rxOnly)
  | "self._tx_only" => some (pbool a.txOnly)
  | _ => constEnv k

section lookups
variable (a : AddrArgs) (mv : PV) (b : Bool)
@[simp] theorem argsEnv_mode : argsEnv a mv b "self._addressing_mode" = some mv := rfl
@[simp] theorem argsEnv_is29 : argsEnv a mv b "self._is_29bits" = some (pbool b) := rfl
@[simp] theorem argsEnv_txid : argsEnv a mv b "self._txid" = some (.sc (.py a.txid)) := rfl
@[simp] theorem argsEnv_rxid : argsEnv a mv b "self._rxid" = some (.sc (.py a.rxid)) := rfl
@[simp] theorem argsEnv_ta : argsEnv a mv b "self._target_address" = some (.sc (.py a.ta)) := rfl
@[simp] theorem argsEnv_sa : argsEnv a mv b "self._source_address" = some (.sc (.py a.sa)) := rfl
@[simp] theorem argsEnv_ae : argsEnv a mv b "self._address_extension" = some (.sc (.py a.ae)) := rfl
@[simp] theorem argsEnv_rxOnly : argsEnv a mv b "self._rx_only" = some (pbool a.rxOnly) := rfl
@[simp] theorem argsEnv_txOnly : argsEnv a mv b "self._tx_only" = some (pbool a.txOnly) := rfl
@[simp] theorem argsEnv_n11 : argsEnv a mv b "AddressingMode.Normal_11bits" = some (modePV .n11) := rfl
@[simp] theorem argsEnv_n29 : argsEnv a mv b "AddressingMode.Normal_29bits" = some (modePV .n29) := rfl
@[simp] theorem argsEnv_nf29 : argsEnv a mv b "AddressingMode.NormalFixed_29bits" = some (modePV .nf29) := rfl
@[simp] theorem argsEnv_e11 : argsEnv a mv b "AddressingMode.Extended_11bits" = some (modePV .e11) := rfl
@[simp] theorem argsEnv_e29 : argsEnv a mv b "AddressingMode.Extended_29bits" = some (modePV .e29) := rfl
@[simp] theorem argsEnv_m11 : argsEnv a mv b "AddressingMode.Mixed_11bits" = some (modePV .m11) := rfl
@[simp] theorem argsEnv_m29 : argsEnv a mv b "AddressingMode.Mixed_29bits" = some (modePV .m29) := rfl
end lookups

/-! value-level lemmas -/

theorem sc_py_beq_pnone (v : PyVal) : ((PV.sc (.py v)) == pnone) = v.isNone := by
  cases v <;> simp [PyVal.isNone]
theorem sc_py_bne_pnone (v : PyVal) : ((PV.sc (.py v)) != pnone) = !v.isNone := by
  cases v <;> simp [PyVal.isNone]

/-- `self._rxid == self._txid` on two constructor arguments (deliberately not a `rfl`-lemma: `dsimp` would leave stale
    `Decidable` instances behind) -/
theorem pvEq_sc_py (x y : PyVal) : pvEq (.sc (.py x)) (.sc (.py y)) = x.pyEq y := by
  simp only [pvEq, Sc.eq]

theorem isinstance_int_py (v : PyVal) :
    evalBuiltin "isinstance_int" [.sc (.py v)] = some (.ok (pbool v.isInt)) := rfl

theorem evalCmp_lt_int (v : PyVal) (h : v.isInt = true) (k : Int) :
    evalCmp .lt (.sc (.py v)) (pint k) = .ok (pbool (decide (v.intVal < k))) := by
  cases v <;> simp_all [PyVal.isInt, evalCmp, isNumber, numLt, PyVal.intVal] <;> congr

theorem evalCmp_gt_int (v : PyVal) (h : v.isInt = true) (k : Int) :
    evalCmp .gt (.sc (.py v)) (pint k) = .ok (pbool (decide (k < v.intVal))) := by
  cases v <;> simp_all [PyVal.isInt, evalCmp, isNumber, numLt, PyVal.intVal] <;> congr


/-- the n-th top-level statement of a block -/
def stmtAt : PBlock → Nat → PStmt
  | .nil, _ => .pass
  | .cons s _, 0 => s
  | .cons _ r, n + 1 => stmtAt r n

def raiseVE : PBlock := .cons (.raise "ValueError") .nil

/-- shape of the three address-byte checks -/
def byteCheck (nm : String) : PStmt :=
  .ite (.isNotNone (.var nm))
    (.cons (.ite (.not_ (.call "isinstance_int" (.cons (.var nm) .nil))) raiseVE .nil)
    (.cons (.ite (.or_ (.cmp .lt (.var nm) (.int 0)) (.cmp .gt (.var nm) (.int 255))) raiseVE .nil)
    .nil)) .nil

theorem byteCheck_exec (env : Env) (nm : String) (v : PyVal) (h : env nm = some (.sc (.py v))) :
    execStmt noMeths env (byteCheck nm) = if byteOk v then .ok (.next env) else .error (.exc .ValueError) := by
  cases hn : v.isNone
  · cases hi : v.isInt
    · simp [byteCheck, raiseVE, execStmt, execBlock, eval, evalArgs, h, sc_py_bne_pnone, isinstance_int_py, hn, hi, byteOk]
    · simp [byteCheck, raiseVE, execStmt, execBlock, eval, evalArgs, h, sc_py_bne_pnone, isinstance_int_py, hn, hi, byteOk,
        evalCmp_lt_int, evalCmp_gt_int]
      by_cases h1 : 0 ≤ v.intVal <;> by_cases h2 : 255 < v.intVal <;> simp [h1, h2, Int.not_le.mpr, Int.not_lt.mp]
  · simp [byteCheck, execStmt, execBlock, eval, h, sc_py_bne_pnone, hn, byteOk]


/-- shape of the two identifier checks -/
def idCheck (nm : String) : PStmt :=
  .ite (.isNotNone (.var nm))
    (.cons (.ite (.not_ (.call "isinstance_int" (.cons (.var nm) .nil))) raiseVE .nil)
    (.cons (.ite (.cmp .lt (.var nm) (.int 0)) raiseVE .nil)
    (.cons (.ite (.not_ (.var "self._is_29bits")) (.cons (.ite (.cmp .gt (.var nm) (.int 2047)) raiseVE .nil) .nil) .nil)
    .nil))) .nil

theorem idCheck_exec (env : Env) (nm : String) (v : PyVal) (is29 : Bool) (h : env nm = some (.sc (.py v)))
    (h29 : env "self._is_29bits" = some (pbool is29)) :
    execStmt noMeths env (idCheck nm) = if idOk is29 v then .ok (.next env) else .error (.exc .ValueError) := by
  cases hn : v.isNone
  · cases hi : v.isInt
    · simp [idCheck, raiseVE, execStmt, execBlock, eval, evalArgs, h, sc_py_bne_pnone, isinstance_int_py, hn, hi, idOk]
    · by_cases h1 : v.intVal < 0
      · have h1' : ¬ 0 ≤ v.intVal := by omega
        simp [idCheck, raiseVE, execStmt, execBlock, eval, evalArgs, h, sc_py_bne_pnone, isinstance_int_py, hn, hi, idOk,
          evalCmp_lt_int, h1, h1']
      · have h1' : 0 ≤ v.intVal := by omega
        cases is29
        · by_cases h2 : 2047 < v.intVal
          · have h2' : ¬ v.intVal ≤ 2047 := by omega
            simp [idCheck, raiseVE, execStmt, execBlock, eval, evalArgs, h, h29, sc_py_bne_pnone, isinstance_int_py, hn, hi, idOk,
              evalCmp_lt_int, evalCmp_gt_int, h1, h1', h2, h2']
          · have h2' : v.intVal ≤ 2047 := by omega
            simp [idCheck, raiseVE, execStmt, execBlock, eval, evalArgs, h, h29, sc_py_bne_pnone, isinstance_int_py, hn, hi, idOk,
              evalCmp_lt_int, evalCmp_gt_int, h1, h1', h2, h2']
        · simp [idCheck, raiseVE, execStmt, execBlock, eval, evalArgs, h, h29, sc_py_bne_pnone, isinstance_int_py, hn, hi, idOk,
            evalCmp_lt_int, h1, h1']
  · simp [idCheck, execStmt, execBlock, eval, h, sc_py_bne_pnone, hn, idOk]

theorem ite_bind_except {ε α β : Type} (c : Prop) [Decidable c] (x y : Except ε α) (f : α → Except ε β) :
    ((if c then x else y) >>= f) = if c then x >>= f else y >>= f := by split <;> rfl

theorem eq_none_iff (v : PyVal) : v = PyVal.none ↔ v.isNone = true := by cases v <;> simp [PyVal.isNone]

theorem stmt3_exec (a : AddrArgs) (m : Mode) (b : Bool) :
    execStmt noMeths (argsEnv a (modePV m) b) (stmtAt Src.Address_validate 2) =
      if presenceOk a m then .ok (.next (argsEnv a (modePV m) b)) else .error (.exc .ValueError) := by
  cases m <;>
    simp [stmtAt, Src.Address_validate, execStmt, execBlock, eval, evalArgs, presenceOk, modePV, modeName, ite_bind_except,
      sc_py_beq_pnone, pvEq_sc_py, eq_none_iff] <;> grind


theorem stmt1_exec (a : AddrArgs) (mv : PV) (b : Bool) :
    execStmt noMeths (argsEnv a mv b) (stmtAt Src.Address_validate 0) =
      if !(a.rxOnly && a.txOnly) then .ok (.next (argsEnv a mv b)) else .error (.exc .ValueError) := by
  cases h1 : a.rxOnly <;> cases h2 : a.txOnly <;> simp [stmtAt, Src.Address_validate, execStmt, execBlock, eval, h1, h2]

/-- the membership test passes for the seven members ... -/
theorem stmt2_exec_member (a : AddrArgs) (m : Mode) (b : Bool) :
    execStmt noMeths (argsEnv a (modePV m) b) (stmtAt Src.Address_validate 1) = .ok (.next (argsEnv a (modePV m) b)) := by
  cases m <;> simp [stmtAt, Src.Address_validate, execStmt, execBlock, eval, evalArgs, modePV, modeName]

/-- ... and raises for any other value -/
theorem stmt2_exec_nonmember (a : AddrArgs) (mv : PV) (b : Bool) (h : ∀ m, mv ≠ modePV m) :
    execStmt noMeths (argsEnv a mv b) (stmtAt Src.Address_validate 1) = .error (.exc .ValueError) := by
  have hp : ∀ m, pvEq mv (modePV m) = false := by
    intro m
    cases mv with
    | sc s =>
      cases s with
      | py v => rfl
      | enum c n => have := h m; simp [modePV] at this ⊢; grind
    | _ => rfl
  have h1 := hp .n11; have h2 := hp .n29; have h3 := hp .nf29; have h4 := hp .e11
  have h5 := hp .e29; have h6 := hp .m11; have h7 := hp .m29
  simp only [modePV, modeName] at h1 h2 h3 h4 h5 h6 h7
  simp [stmtAt, Src.Address_validate, execStmt, execBlock, eval, evalArgs, modePV, modeName, h1, h2, h3, h4, h5, h6, h7]

theorem body_eq : Src.Address_validate =
    .cons (stmtAt Src.Address_validate 0) (.cons (stmtAt Src.Address_validate 1) (.cons (stmtAt Src.Address_validate 2)
    (.cons (byteCheck "self._target_address") (.cons (byteCheck "self._source_address") (.cons (byteCheck "self._address_extension")
    (.cons (idCheck "self._txid") (.cons (idCheck "self._rxid") .nil))))))) := rfl

theorem execBlock_cons_check (M : Meths) (env : Env) (s : PStmt) (rest : PBlock) (c : Bool) (e : PErr)
    (h : execStmt M env s = if c then .ok (.next env) else .error e) :
    execBlock M env (.cons s rest) = if c then execBlock M env rest else .error e := by
  cases c <;> simp [execBlock, h]

theorem execBlock_cons_next (M : Meths) (env : Env) (s : PStmt) (rest : PBlock)
    (h : execStmt M env s = .ok (.next env)) :
    execBlock M env (.cons s rest) = execBlock M env rest := by
  simp [execBlock, h]


/-- the whole body, for a member mode: falls through with the object unchanged iff the model accepts, `ValueError` otherwise -/
theorem validate_exec (a : AddrArgs) (m : Mode) (hm : a.mode = some m) :
    execBlock noMeths (argsEnv a (modePV m) m.is29) Src.Address_validate =
      if validateAddr a then .ok (.next (argsEnv a (modePV m) m.is29)) else .error (.exc .ValueError) := by
  rw [body_eq,
    execBlock_cons_check _ _ _ _ _ _ (stmt1_exec a _ _),
    execBlock_cons_next _ _ _ _ (stmt2_exec_member a m _),
    execBlock_cons_check _ _ _ _ _ _ (stmt3_exec a m _),
    execBlock_cons_check _ _ _ _ _ _ (byteCheck_exec _ _ _ (argsEnv_ta a _ _)),
    execBlock_cons_check _ _ _ _ _ _ (byteCheck_exec _ _ _ (argsEnv_sa a _ _)),
    execBlock_cons_check _ _ _ _ _ _ (byteCheck_exec _ _ _ (argsEnv_ae a _ _)),
    execBlock_cons_check _ _ _ _ _ _ (idCheck_exec _ _ _ _ (argsEnv_txid a _ _) (argsEnv_is29 a _ _)),
    execBlock_cons_check _ _ _ _ _ _ (idCheck_exec _ _ _ _ (argsEnv_rxid a _ _) (argsEnv_is29 a _ _)),
    execBlock]
  simp only [validateAddr, hm]
  cases a.rxOnly && a.txOnly <;> cases presenceOk a m <;> cases byteOk a.ta <;> cases byteOk a.sa <;> cases byteOk a.ae <;>
    cases idOk m.is29 a.txid <;> cases idOk m.is29 a.rxid <;> rfl

/-- **`Address.validate` = `validateAddr`** (arguments of any type, mode an `AddressingMode` member). -/
theorem validate_agrees (a : AddrArgs) (m : Mode) (hm : a.mode = some m) :
    retOf (argsEnv a (modePV m) m.is29) Src.Address_validate =
      if validateAddr a then .ok pnone else .error (.exc .ValueError) := by
  simp only [retOf, runFn, validate_exec a m hm]
  cases validateAddr a <;> rfl

theorem validate_agrees_ok (a : AddrArgs) (m : Mode) (hm : a.mode = some m) (hv : validateAddr a = true) :
    retOf (argsEnv a (modePV m) m.is29) Src.Address_validate = .ok pnone := by
  rw [validate_agrees a m hm, hv]; rfl

theorem validate_agrees_err (a : AddrArgs) (m : Mode) (hm : a.mode = some m) (hv : validateAddr a = false) :
    retOf (argsEnv a (modePV m) m.is29) Src.Address_validate = .error (.exc .ValueError) := by
  rw [validate_agrees a m hm, hv]; rfl

/-- `validate` does not modify the object -/
theorem validate_env_unchanged (a : AddrArgs) (m : Mode) (hm : a.mode = some m) (hv : validateAddr a = true) :
    runFn noMeths (argsEnv a (modePV m) m.is29) Src.Address_validate = .ok (pnone, argsEnv a (modePV m) m.is29) := by
  simp only [runFn, validate_exec a m hm, hv]; rfl

/-- a mode value that is not one of the seven members: `ValueError`, whatever the other arguments
    (`a.mode = none` in the model, where `validateAddr a = false`). -/
theorem validate_nonmember (a : AddrArgs) (mv : PV) (b : Bool) (h : ∀ m, mv ≠ modePV m) :
    retOf (argsEnv a mv b) Src.Address_validate = .error (.exc .ValueError) := by
  have e : execBlock noMeths (argsEnv a mv b) Src.Address_validate = .error (.exc .ValueError) := by
    rw [body_eq, execBlock_cons_check _ _ _ _ _ _ (stmt1_exec a _ _)]
    cases (!(a.rxOnly && a.txOnly))
    · rfl
    · simp only [if_true, execBlock, stmt2_exec_nonmember a mv b h, error_bind]
  simp only [retOf, runFn, e]; rfl

theorem validate_nonmember_py (a : AddrArgs) (v : PyVal) (b : Bool) :
    retOf (argsEnv a (.sc (.py v)) b) Src.Address_validate = .error (.exc .ValueError) :=
  validate_nonmember a _ b (fun m => by simp [modePV])

theorem validate_nonmember_enum (a : AddrArgs) (c n : String) (b : Bool) (hc : c ≠ "AddressingMode") :
    retOf (argsEnv a (.sc (.enum c n)) b) Src.Address_validate = .error (.exc .ValueError) :=
  validate_nonmember a _ b (fun m => by simp [modePV, hc])

theorem validate_nonmember_model (a : AddrArgs) (h : a.mode = none) : validateAddr a = false := by
  simp [validateAddr, h]

/-! non-vacuity -/
example : ∃ a m, a.mode = some m ∧ validateAddr a = true :=
  ⟨{ mode := some .n11, txid := .int 1, rxid := .int 2 }, .n11, rfl, by decide⟩
example : ∃ a m, a.mode = some m ∧ validateAddr a = false :=
  ⟨{ mode := some .n11, txid := .float 1 1, rxid := .int 2 }, .n11, rfl, by decide⟩
example : ∀ m, (PV.sc (.py (.int 3))) ≠ modePV m := fun m => by simp [modePV]

end Isotp.PyAgree

#print axioms Isotp.PyAgree.validate_agrees
#print axioms Isotp.PyAgree.validate_agrees_ok
#print axioms Isotp.PyAgree.validate_agrees_err
#print axioms Isotp.PyAgree.validate_env_unchanged
#print axioms Isotp.PyAgree.validate_nonmember
#print axioms Isotp.PyAgree.validate_nonmember_py
#print axioms Isotp.PyAgree.validate_nonmember_enum
