import Isotp.Process
import Isotp.Proofs.Req
/-
  Helper definitions and lemmas for C04 (flow control obeyed, sender terminates) and
  C08 (STmin honoured): a phase decomposition of `processTx` (`_process_tx`), facts about
  `handleFc`, `transmitCf`, the timers, the transmit-side invariants (`TxWf`, `Coupled`, `SepInv`),
  the block-size monitor, and stability of invariants under the loops of `process()`.
  Everything lives in namespace `Isotp.Fc` (function-call notation `txView s`, `allowedNow s`).
  `Isotp.Proofs.Req` (namespace `Isotp.C12`) is imported for `makeTxMsg_isSome` / `txPrefix_le`.
-/
namespace Isotp.Fc
open Isotp State

/-! ### Phase decomposition of `processTx` -/

/-- Phase 1: the mailbox `last_flow_control_frame` is consumed.
    Second component `true` = the Overflow branch (the function returns at once). -/
def afterFc (s : State) : State × Bool :=
  let s0 := { s with lastFc := none }
  match s.lastFc with
  | some f => if f.status = 2 then (((s0.stopSending false).error .Overflow), true) else (s0.handleFc f, false)
  | none => (s0, false)

/-- Phase 2: the N_Bs (`rx_flowcontrol_timeout`) check. -/
def afterTimeout (s : State) : State :=
  if s.timerFc.timedOut s.now then (s.error .FlowControlTimeout).stopSending false else s

/-- Phase 3: "generator depleted and nothing in standby" ends the request with success. -/
def afterDepleted (s : State) : State :=
  if s.txState ≠ .idle && (match s.active with | some r => r.depleted | none => false) && s.standby.isNone
  then s.stopSending true else s

/-- Phase 4: the state machine proper. -/
def fsm (s : State) (allowed : Nat) : State × Option CanMsg × Bool :=
  match s.txState with
  | .idle =>
    let (s, out) := s.readTxQueue allowed s.txQueue
    (s, out, false)
  | .sfStandby | .ffStandby =>
    match s.standby with
    | some msg =>
      if msg.data.length ≤ allowed then
        let s := { s with standby := none }
        if s.txState = .ffStandby then
          (({ s.startRxFcTimer with txState := .waitFc }), some msg, false)
        else (s.stopSending true, some msg, false)
      else (s, none, false)
    | none => (s, none, false)
  | .waitFc => (s, none, false)
  | .transmitCf => s.transmitCf allowed

/-- Phase 5: exception check and rate-limiter accounting. -/
def finish (r : State × Option CanMsg × Bool) : State × Option CanMsg × Bool :=
  if r.1.exc.isSome then (r.1, none, false) else
  match r.2.1 with
  | some msg => ({ r.1 with rl := r.1.rl.inform r.1.now msg.data.length }, some msg, r.2.2)
  | none => (r.1, none, r.2.2)

/-- the byte budget handed to the state machine by `processTx` -/
def allowedNow (s : State) : Nat := s.rl.allowedBytes s.cfg.rlBitMax

/-- Phase 0: a Flow Control frame requested by the receive side is sent first.
    `some none` = exception, `some (some m)` = `m` is sent and the call returns,
    `none` = nothing to send (or listen mode): the call goes on. -/
def fcSendPhase (s : State) : State × Option (Option CanMsg) :=
  if s.pendingFc then
    let s := { s with pendingFc := false }
    match s.pendingFcStatus with
    | none => (s.raise .AttributeError, some none)
    | some st =>
      let s := if st = 0 then s.startRxCfTimer else s
      if !s.cfg.listen then
        match makeFlowControl s.cfg s.addr st with
        | none => (s.raise .ValueError, some none)
        | some msg => (s, some (some msg))
      else (s, none)
  else (s, none)

/-- Phases 1–5 on the state left by phase 0. -/
def txPhases (s : State) (allowed : Nat) : State × Option CanMsg × Bool :=
  if (afterFc s).2 then ((afterFc s).1, none, false) else
  let s2 := afterTimeout (afterFc s).1
  if s2.txState ≠ .idle && s2.active.isNone then (s2.raise .AssertionError, none, false) else
  finish (fsm (afterDepleted s2) allowed)

theorem processTx_eq (s : State) :
    s.processTx =
      match fcSendPhase s with
      | (s1, some none) => (s1, none, false)
      | (s1, some (some msg)) => (s1, some msg, true)
      | (s1, none) => txPhases s1 (allowedNow s) := by
  set_option linter.unusedSimpArgs false in
  cases hfc : s.lastFc with
  | none =>
    cases hp : s.pendingFc with
    | false =>
      simp only [processTx, fcSendPhase, txPhases, afterFc, allowedNow, hp, hfc, Bool.false_eq_true, if_false, if_true]
      try rfl
    | true =>
      cases hst : s.pendingFcStatus with
      | none => simp only [processTx, fcSendPhase, hp, hst, if_true]
      | some st =>
        cases hl : s.cfg.listen with
        | true =>
          by_cases h0 : st = 0
          · subst h0
            simp only [processTx, fcSendPhase, txPhases, afterFc, allowedNow, hp, hfc, hst, hl, if_true, startRxCfTimer, Bool.not_true, Bool.false_eq_true, if_false]
            try rfl
          · simp only [processTx, fcSendPhase, txPhases, afterFc, allowedNow, hp, hfc, hst, hl, h0, if_true, Bool.not_true, Bool.false_eq_true, if_false]
            try rfl
        | false =>
          by_cases h0 : st = 0
          · subst h0
            cases hm : makeFlowControl s.cfg s.addr 0 <;>
              simp only [processTx, fcSendPhase, allowedNow, hp, hst, hl, hm, if_true, startRxCfTimer, Bool.not_false]
          · cases hm : makeFlowControl s.cfg s.addr st <;>
              simp only [processTx, fcSendPhase, allowedNow, hp, hst, hl, h0, hm, if_true, Bool.not_false, if_false]
  | some f =>
    by_cases h2 : f.status = 2
    ·
      cases hp : s.pendingFc with
      | false =>
        simp only [processTx, fcSendPhase, txPhases, afterFc, allowedNow, hp, hfc, h2, Bool.false_eq_true, if_false, if_true]
        try rfl
      | true =>
        cases hst : s.pendingFcStatus with
        | none => simp only [processTx, fcSendPhase, hp, hst, if_true]
        | some st =>
          cases hl : s.cfg.listen with
          | true =>
            by_cases h0 : st = 0
            · subst h0
              simp only [processTx, fcSendPhase, txPhases, afterFc, allowedNow, hp, hfc, h2, hst, hl, if_true, startRxCfTimer, Bool.not_true, Bool.false_eq_true, if_false]
              try rfl
            · simp only [processTx, fcSendPhase, txPhases, afterFc, allowedNow, hp, hfc, h2, hst, hl, h0, if_true, Bool.not_true, Bool.false_eq_true, if_false]
              try rfl
          | false =>
            by_cases h0 : st = 0
            · subst h0
              cases hm : makeFlowControl s.cfg s.addr 0 <;>
                simp only [processTx, fcSendPhase, allowedNow, hp, hst, hl, hm, if_true, startRxCfTimer, Bool.not_false]
            · cases hm : makeFlowControl s.cfg s.addr st <;>
                simp only [processTx, fcSendPhase, allowedNow, hp, hst, hl, h0, hm, if_true, Bool.not_false, if_false]
    ·
      cases hp : s.pendingFc with
      | false =>
        simp only [processTx, fcSendPhase, txPhases, afterFc, allowedNow, hp, hfc, h2, Bool.false_eq_true, if_false, if_true]
        try rfl
      | true =>
        cases hst : s.pendingFcStatus with
        | none => simp only [processTx, fcSendPhase, hp, hst, if_true]
        | some st =>
          cases hl : s.cfg.listen with
          | true =>
            by_cases h0 : st = 0
            · subst h0
              simp only [processTx, fcSendPhase, txPhases, afterFc, allowedNow, hp, hfc, h2, hst, hl, if_true, startRxCfTimer, Bool.not_true, Bool.false_eq_true, if_false]
              try rfl
            · simp only [processTx, fcSendPhase, txPhases, afterFc, allowedNow, hp, hfc, h2, hst, hl, h0, if_true, Bool.not_true, Bool.false_eq_true, if_false]
              try rfl
          | false =>
            by_cases h0 : st = 0
            · subst h0
              cases hm : makeFlowControl s.cfg s.addr 0 <;>
                simp only [processTx, fcSendPhase, allowedNow, hp, hst, hl, hm, if_true, startRxCfTimer, Bool.not_false]
            · cases hm : makeFlowControl s.cfg s.addr st <;>
                simp only [processTx, fcSendPhase, allowedNow, hp, hst, hl, h0, hm, if_true, Bool.not_false, if_false]

theorem fcSendPhase_not_pending {s : State} (h : s.pendingFc = false) : fcSendPhase s = (s, none) := by
  simp [fcSendPhase, h]

theorem processTx_eq_of_not_pending (s : State) (h : s.pendingFc = false) :
    s.processTx = txPhases s (allowedNow s) := by
  rw [processTx_eq, fcSendPhase_not_pending h]

/-- The state on which the state machine of `_process_tx` runs in this call; `none` when the call
    returns before reaching it (Flow Control sent, Overflow received, "no transmission in
    progress" assertion). -/
def preFsm (s : State) : Option State :=
  match fcSendPhase s with
  | (s1, none) =>
    if (afterFc s1).2 then none
    else
      let s2 := afterTimeout (afterFc s1).1
      if s2.txState ≠ .idle && s2.active.isNone then none else some (afterDepleted s2)
  | _ => none

/-- This call of `processTx` runs the TRANSMIT_CF branch (the only place that builds a
    Consecutive Frame). -/
def cfBranch (s : State) : Bool :=
  match preFsm s with
  | some s3 => s3.txState = .transmitCf
  | none => false

/-- `processTx s` hands the Consecutive Frame `msg` to the CAN layer. -/
def EmitsCf (s : State) (msg : CanMsg) : Prop :=
  cfBranch s = true ∧ s.processTx.2.1 = some msg

theorem processTx_of_preFsm {s s3 : State} (h : preFsm s = some s3) :
    s.processTx = finish (fsm s3 (allowedNow s)) := by
  rw [processTx_eq]
  unfold preFsm at h
  unfold txPhases
  grind

theorem preFsm_of_not_pending {s : State} (h : s.pendingFc = false) :
    preFsm s =
      if (afterFc s).2 then none
      else if (afterTimeout (afterFc s).1).txState ≠ .idle && (afterTimeout (afterFc s).1).active.isNone then none
      else some (afterDepleted (afterTimeout (afterFc s).1)) := by
  simp [preFsm, fcSendPhase_not_pending h]

/-! ### Flow Control decoding (STmin byte) -/


theorem validStmin_iff (b : Nat) : validStmin b = true ↔ b ≤ 0x7F ∨ (0xF1 ≤ b ∧ b ≤ 0xF9) := by
  simp [validStmin]

theorem stminNs_ms (b : Nat) (h : b ≤ 0x7F) : stminNs b = b * 1000000 := by simp [stminNs, h]

theorem stminNs_us (b : Nat) (h1 : 0xF1 ≤ b) (h2 : b ≤ 0xF9) : stminNs b = (b - 0xF0) * 100000 := by
  have : ¬ b ≤ 0x7F := by omega
  simp [stminNs, this]

theorem decodeBody_fc {d : Bytes} {st bs stm : Nat} (h : decodeBody d = some (.fc st bs stm)) :
    validStmin stm = true ∧ st < 3 ∧ d.length ≥ 3 ∧ byteAt d 0 / 16 = 3 ∧
      st = byteAt d 0 % 16 ∧ bs = byteAt d 1 ∧ stm = byteAt d 2 := by
  simp only [decodeBody] at h
  repeat' split at h
  all_goals first | (cases h; done) | skip
  injection h with h
  injection h with h1 h2 h3
  subst h1 h2 h3
  refine ⟨by assumption, ?_, ?_, by assumption, rfl, rfl, rfl⟩ <;> omega

/-- a Flow Control whose STmin byte is reserved (0x80–0xF0, 0xFA–0xFF) is not decoded at all -/
theorem decodeBody_reserved_stmin (d : Bytes) (h0 : byteAt d 0 / 16 = 3)
    (h : validStmin (byteAt d 2) = false) : decodeBody d = none := by
  cases hd : decodeBody d with
  | none => rfl
  | some p =>
    exfalso
    simp only [decodeBody] at hd
    repeat' split at hd
    all_goals first | (cases hd; done) | omega | skip
    simp_all

theorem decode_fc {data : Bytes} {n : Nat} {d : Decoded} {st bs stm : Nat}
    (h : decode data n = some d) (hp : d.pdu = .fc st bs stm) : validStmin stm = true ∧ st < 3 := by
  unfold decode at h
  split at h
  · cases h
  · split at h
    · cases h
    · rename_i p hp'
      injection h with h
      subst h
      simp at hp
      subst hp
      exact ⟨(decodeBody_fc hp').1, (decodeBody_fc hp').2.1⟩



/-! ### `_process_rx` and the transmit side -/

/-- the transmit-side view of a state: everything the transmit path reads or writes except the
    mailbox, the pending-FC flags and the log -/
def txView (s : State) :=
  (s.txState, s.active, s.standby, s.timerFc, s.timerStmin, s.remoteBs, s.txBlockCnt, s.now, s.cfg,
   s.txQueue, s.wftCnt, s.addr, s.rl, s.txSeq, s.txFrameLen)

theorem processRx_txView (s : State) (m : CanMsg) : txView (s.processRx m).1 = txView s := by
  unfold processRx startReception txView
  grind (splits := 40) [deliver, stopReceiving, State.error, emit, requestFc, startRxCfTimer]

/-- phase 0 (sending a Flow Control) leaves the transmit side and the mailbox alone -/
theorem fcSendPhase_txView (s : State) :
    txView (fcSendPhase s).1 = txView s ∧ (fcSendPhase s).1.lastFc = s.lastFc ∧
    (fcSendPhase s).1.pendingFc = false := by
  unfold fcSendPhase txView
  grind [State.raise, startRxCfTimer]

/-- the mailbox after `_process_rx` holds the old frame, nothing, or a *valid* Flow Control -/
theorem processRx_lastFc (s : State) (m : CanMsg) (fc : FcFrame)
    (h : (s.processRx m).1.lastFc = some fc) :
    s.lastFc = some fc ∨ (validStmin fc.stmin = true ∧ fc.status < 3) := by
  unfold processRx startReception at h
  split at h
  · simp [stopReceiving] at h
  · rename_i d hd
    split at h
    · rename_i st bs stm hp
      simp at h
      subst h
      right
      exact decode_fc hd hp
    all_goals (left; grind [deliver, stopReceiving, State.error, emit, requestFc, startRxCfTimer])

/-! ### `handleFc` case by case -/

/-- separation time put in force by a ContinueToSend (`override_receiver_stmin` wins) -/
def sepOf (c : Cfg) (fc : FcFrame) : Nat :=
  match c.overrideStminNs with | some o => o | none => stminNs fc.stmin

/-- the guard under which `handleFc` honours a ContinueToSend -/
def ctsHonoured (s : State) (fc : FcFrame) : Bool :=
  fc.status = 0 && !(s.timerFc.timedOut s.now) && (s.txState = .waitFc || s.txState = .transmitCf)

theorem handleFc_cts (s : State) (fc : FcFrame) (h : ctsHonoured s fc = true) :
    s.handleFc fc =
      { s with wftCnt := 0, timerFc := s.timerFc.stop, remoteBs := some fc.bs, txState := .transmitCf,
               txBlockCnt := if s.txState = .waitFc then 0 else s.txBlockCnt,
               timerStmin := if s.txState = .waitFc then { start := some s.now, timeout := sepOf s.cfg fc }
                             else { s.timerStmin with timeout := sepOf s.cfg fc } } := by
  simp only [ctsHonoured, Bool.and_eq_true, Bool.or_eq_true, decide_eq_true_eq, Bool.not_eq_true'] at h
  obtain ⟨⟨h0, h1⟩, h2⟩ := h
  rcases h2 with h2 | h2 <;> cases ho : s.cfg.overrideStminNs <;>
    simp [handleFc, h0, h1, h2, sepOf, Timer.startAt, Timer.stop, ho]

theorem handleFc_idle (s : State) (fc : FcFrame) (h : s.txState = .idle) :
    s.handleFc fc = s.error .UnexpectedFlowControl := by
  simp [handleFc, h]

theorem handleFc_wait_unsupported (s : State) (fc : FcFrame) (hs : s.txState ≠ .idle) (h1 : fc.status = 1)
    (ht : s.timerFc.timedOut s.now = false) (hw : s.cfg.wftmax = 0) :
    s.handleFc fc = s.error .UnsupportedWaitFrame := by
  simp [handleFc, hs, h1, ht, hw]

theorem handleFc_wait_max (s : State) (fc : FcFrame) (hs : s.txState ≠ .idle) (h1 : fc.status = 1)
    (ht : s.timerFc.timedOut s.now = false) (hw : s.cfg.wftmax ≠ 0) (hc : s.wftCnt ≥ s.cfg.wftmax) :
    s.handleFc fc = (s.error .MaximumWaitFrameReached).stopSending false := by
  simp [handleFc, hs, h1, ht, hw, hc]

theorem handleFc_wait_ok (s : State) (fc : FcFrame) (hs : s.txState = .waitFc ∨ s.txState = .transmitCf)
    (h1 : fc.status = 1) (ht : s.timerFc.timedOut s.now = false) (hc : s.wftCnt < s.cfg.wftmax) :
    s.handleFc fc =
      { s with wftCnt := s.wftCnt + 1, txState := .waitFc,
               timerFc := { start := some s.now, timeout := s.cfg.tFc } } := by
  have hw : s.cfg.wftmax ≠ 0 := by omega
  have hc' : ¬ s.wftCnt ≥ s.cfg.wftmax := by omega
  rcases hs with hs | hs <;> simp [handleFc, hs, h1, ht, hw, hc', startRxFcTimer]

/-- a Flow Control read after the N_Bs deadline is not honoured, whatever its status -/
theorem handleFc_late (s : State) (fc : FcFrame) (hs : s.txState ≠ .idle)
    (ht : s.timerFc.timedOut s.now = true) : s.handleFc fc = s := by
  simp [handleFc, hs, ht]

/-- D5: in the standby states (First/Single Frame not yet sent) a ContinueToSend changes nothing -/
theorem handleFc_cts_standby (s : State) (fc : FcFrame) (h0 : fc.status = 0)
    (hs : s.txState = .sfStandby ∨ s.txState = .ffStandby) : s.handleFc fc = s := by
  rcases hs with hs | hs <;> simp [handleFc, hs, h0]

/-- a ContinueToSend that is not honoured leaves the state as it is (outside idle) -/
theorem handleFc_cts_ignored (s : State) (fc : FcFrame) (h0 : fc.status = 0) (hs : s.txState ≠ .idle)
    (h : ctsHonoured s fc = false) : s.handleFc fc = s := by
  unfold ctsHonoured at h
  unfold handleFc
  grind

/-- the STmin timeout after `handleFc` -/
theorem handleFc_stmin_timeout (s : State) (fc : FcFrame) :
    (s.handleFc fc).timerStmin.timeout =
      if ctsHonoured s fc then sepOf s.cfg fc else s.timerStmin.timeout := by
  by_cases h : ctsHonoured s fc = true
  · rw [handleFc_cts s fc h]; simp only [h, if_true]; split <;> rfl
  · simp only [h]
    unfold ctsHonoured at h
    unfold handleFc
    grind [stopSending, State.error, emit, startRxFcTimer, Timer.stop]

/-! ### `transmitCf` in pieces -/

theorem consumeActive_fst (s : State) (r : Req) (n : Nat) (e : Bool) :
    (s.consumeActive r n e).1 =
      { s with active := some (r.consume n e).1, log := (s.consumeActive r n e).1.log } := by
  unfold consumeActive
  simp only [emit]
  split <;> rfl

theorem consumeActive_snd (s : State) (r : Req) (n : Nat) (e : Bool) :
    (s.consumeActive r n e).2 = r.consume n e := by
  simp [consumeActive]

/-- builds and "sends" one Consecutive Frame carrying `payload` (third component: ValueError) -/
def cfSend (s : State) (payload : Bytes) : State × Option CanMsg × Bool :=
  if payload.length > 0 then
    let msgData := s.addr.tx.txPrefix ++ [u8 (0x20 + s.txSeq)] ++ payload
    match makeTxMsg s.cfg s.addr (s.addr.tx.txId .physical) msgData with
    | none => (s.raise .ValueError, none, true)
    | some msg =>
      ({ s with txSeq := (s.txSeq + 1) % 16, timerStmin := s.timerStmin.startAt s.now,
                txBlockCnt := s.txBlockCnt + 1 }, some msg, false)
  else (s, none, false)

/-- what follows the frame: end of message, end of block, or stay in TRANSMIT_CF -/
def cfTail (rbs : Nat) (r' : Req) (x : State × Option CanMsg × Bool) : State × Option CanMsg × Bool :=
  if x.2.2 then (x.1, none, false) else
  if r'.depleted then
    if r'.remaining > 0 then ((x.1.error .BadGenerator).stopSending false, x.2.1, false)
    else (x.1.stopSending true, x.2.1, false)
  else if rbs ≠ 0 && x.1.txBlockCnt ≥ rbs then
    (({ x.1 with txState := .waitFc }).startRxFcTimer, x.2.1, true)
  else (x.1, x.2.1, false)

/-- payload size of the next Consecutive Frame -/
def cfPayloadLen (s : State) (r : Req) : Nat := min (s.cfg.txDl - 1 - s.txPrefixLen) r.remaining

theorem transmitCf_eq (s : State) (allowed rbs : Nat) (r : Req)
    (hb : s.remoteBs = some rbs) (ha : s.active = some r) :
    s.transmitCf allowed =
      if s.timerStmin.timedOut s.now = true ∧ cfPayloadLen s r ≤ allowed then
        match (r.consume (cfPayloadLen s r) false).2 with
        | none => ((s.consumeActive r (cfPayloadLen s r) false).1.raise .AssertionError, none, false)
        | some payload =>
          cfTail rbs (r.consume (cfPayloadLen s r) false).1
            (cfSend (s.consumeActive r (cfPayloadLen s r) false).1 payload)
      else (s, none, false) := by
  have hc : ∀ n, s.consumeActive r n false =
      ((s.consumeActive r n false).1, (r.consume n false).1, (r.consume n false).2) := by
    intro n
    rw [← consumeActive_snd]
  unfold transmitCf
  simp only [hb, ha]
  by_cases ht : s.timerStmin.timedOut s.now = true
  · by_cases hp : cfPayloadLen s r ≤ allowed
    · have hp' := hp
      unfold cfPayloadLen at hp'
      simp only [ht, hp, hp', and_self, if_true]
      rw [hc]
      unfold cfPayloadLen
      cases (r.consume (min (s.cfg.txDl - 1 - s.txPrefixLen) r.remaining) false).2 with
      | none => rfl
      | some payload => rfl
    · have hp' := hp
      unfold cfPayloadLen at hp'
      simp [ht, hp, hp']
  · simp [ht]

theorem transmitCf_not_ready (s : State) (allowed : Nat)
    (h : s.remoteBs = none ∨ s.active = none) :
    s.transmitCf allowed = (s.raise .AssertionError, none, false) := by
  unfold transmitCf
  rcases h with h | h
  · simp [h]
  · cases hb : s.remoteBs <;> simp [h]

/-- what is known when `transmitCf` hands a frame out -/
theorem transmitCf_some {s s' : State} {allowed : Nat} {msg : CanMsg} {imm : Bool}
    (h : s.transmitCf allowed = (s', some msg, imm)) :
    s.timerStmin.timedOut s.now = true ∧ s.remoteBs.isSome ∧ s.active.isSome ∧
    s'.timerStmin.timeout = s.timerStmin.timeout ∧ s'.now = s.now ∧
    (s'.txState = .idle ∨
      (s'.timerStmin.start = some s.now ∧ s'.txBlockCnt = s.txBlockCnt + 1 ∧ s'.remoteBs = s.remoteBs)) := by
  unfold transmitCf at h
  grind (splits := 30) [consumeActive_fst, stopSending, State.error, emit, State.raise, startRxFcTimer,
    Timer.startAt, Timer.stop]

/-! ### Transmit-side well-formedness (`TxWf`) and liveness of timers (`TxLive`) -/

/-- transmit-side well-formedness: every non-idle state has its timer / frame / request;
    the N_Bs timer runs exactly in WAIT_FC; the wait-frame counter never exceeds `wftmax`. -/
def TxWf (s : State) : Prop :=
  (s.txState = .waitFc → s.timerFc.start.isSome ∧ s.timerFc.timeout = s.cfg.tFc) ∧
  (s.txState ≠ .waitFc → s.timerFc.start = none) ∧
  (s.txState = .transmitCf → s.timerStmin.start.isSome ∧ s.remoteBs.isSome) ∧
  (s.txState = .sfStandby ∨ s.txState = .ffStandby → s.standby.isSome) ∧
  (s.txState ≠ .idle → s.active.isSome) ∧
  s.wftCnt ≤ s.cfg.wftmax

/-- "no wedged state": a message in progress always has a running timer or a frame in standby -/
def TxLive (s : State) : Prop :=
  s.txState ≠ .idle → s.timerFc.start.isSome ∨ s.timerStmin.start.isSome ∨ s.standby.isSome

theorem TxLive_of_TxWf {s : State} (h : TxWf s) : TxLive s := by
  unfold TxWf at h
  unfold TxLive
  cases hs : s.txState <;> simp_all

theorem TxWf_init (c : Cfg) (a : Addr) : TxWf (State.init c a) := by
  simp [TxWf, State.init]

theorem TxWf_stopSending (s : State) (b : Bool) : TxWf (s.stopSending b) := by
  unfold stopSending TxWf
  cases s.active <;> simp [Timer.stop, emit]

theorem TxWf_of_txView {s s' : State} (hv : txView s' = txView s) (h : TxWf s) : TxWf s' := by
  simp only [txView, Prod.mk.injEq] at hv
  unfold TxWf at *
  grind

theorem TxWf_error (s : State) (e : Err) (h : TxWf s) : TxWf (s.error e) := h
theorem TxWf_emit (s : State) (e : Ev) (h : TxWf s) : TxWf (s.emit e) := h
theorem TxWf_raise (s : State) (e : PyExc) (h : TxWf s) : TxWf (s.raise e) := h

theorem TxWf_handleFc (s : State) (fc : FcFrame) (h : TxWf s) : TxWf (s.handleFc fc) := by
  unfold handleFc
  split
  · exact h
  · split
    · split
      · exact h
      · split
        · exact TxWf_stopSending _ _
        · unfold TxWf at *
          grind [startRxFcTimer]
    · split
      · unfold TxWf at *
        grind [Timer.stop, Timer.startAt]
      · exact h

theorem TxWf_startTx (s : State) (r : Req) (allowed : Nat) (h : TxWf s) (hi : s.txState = .idle) :
    TxWf (s.startTx r allowed).1 := by
  unfold startTx TxWf
  unfold TxWf at h
  grind (splits := 30) [consumeActive_fst, stopSending, State.error, emit, State.raise, startRxFcTimer, Timer.stop]

theorem TxWf_readTxQueue (s : State) (allowed : Nat) (q : List Req) (h : TxWf s) (hi : s.txState = .idle) :
    TxWf (s.readTxQueue allowed q).1 := by
  induction q generalizing s with
  | nil => exact h
  | cons r rest ih =>
    unfold readTxQueue
    simp only []
    split
    · apply ih
      · unfold TxWf at *; simp_all [emit]
      · simpa [emit] using hi
    · apply TxWf_startTx
      · unfold TxWf at *; simp_all
      · simpa using hi

theorem TxWf_transmitCf (s : State) (allowed : Nat) (h : TxWf s) (hs : s.txState = .transmitCf) :
    TxWf (s.transmitCf allowed).1 := by
  unfold transmitCf TxWf
  unfold TxWf at h
  grind (splits := 30) [consumeActive_fst, stopSending, State.error, emit, State.raise, startRxFcTimer,
    Timer.startAt, Timer.stop]

theorem TxWf_afterFc (s : State) (h : TxWf s) : TxWf (afterFc s).1 := by
  unfold afterFc
  simp only []
  split
  · split
    · exact TxWf_error _ _ (TxWf_stopSending _ _)
    · exact TxWf_handleFc _ _ h
  · exact h

theorem TxWf_afterTimeout (s : State) (h : TxWf s) : TxWf (afterTimeout s) := by
  unfold afterTimeout
  split
  · exact TxWf_stopSending _ _
  · exact h

theorem TxWf_ite {c : Prop} [Decidable c] {a b : State} (ha : TxWf a) (hb : TxWf b) :
    TxWf (if c then a else b) := by
  split <;> assumption

theorem TxWf_afterDepleted (s : State) (h : TxWf s) : TxWf (afterDepleted s) :=
  TxWf_ite (TxWf_stopSending _ _) h

theorem TxWf_fsm (s : State) (allowed : Nat) (h : TxWf s) : TxWf (fsm s allowed).1 := by
  unfold fsm
  split
  · exact TxWf_readTxQueue _ _ _ h (by assumption)
  · split
    · split
      · simp only []
        split <;> first | exact TxWf_stopSending _ _ | (unfold TxWf at *; grind [startRxFcTimer])
      · exact h
    · exact h
  · split
    · split
      · simp only []
        split <;> first | exact TxWf_stopSending _ _ | (unfold TxWf at *; grind [startRxFcTimer])
      · exact h
    · exact h
  · exact h
  · exact TxWf_transmitCf _ _ h (by assumption)

theorem TxWf_finish (r : State × Option CanMsg × Bool) (h : TxWf r.1) : TxWf (finish r).1 := by
  unfold finish
  split
  · exact h
  · split <;> exact h

theorem TxWf_txPhases (s : State) (a : Nat) (h : TxWf s) : TxWf (txPhases s a).1 := by
  unfold txPhases
  split
  · exact TxWf_afterFc s h
  · simp only []
    split
    · exact TxWf_raise _ _ (TxWf_afterTimeout _ (TxWf_afterFc s h))
    · exact TxWf_finish _ (TxWf_fsm _ _ (TxWf_afterDepleted _ (TxWf_afterTimeout _ (TxWf_afterFc s h))))

/-- `_process_tx` keeps the transmit side well-formed -/
theorem TxWf_processTx (s : State) (h : TxWf s) : TxWf s.processTx.1 := by
  rw [processTx_eq]
  have hv := TxWf_of_txView (fcSendPhase_txView s).1 h
  generalize fcSendPhase s = x at hv ⊢
  obtain ⟨s1, o⟩ := x
  rcases o with _ | _ | _
  · exact TxWf_txPhases _ _ hv
  · exact hv
  · exact hv

theorem TxWf_processRx (s : State) (m : CanMsg) (h : TxWf s) : TxWf (s.processRx m).1 :=
  TxWf_of_txView (processRx_txView s m) h

theorem TxWf_stopReceiving (s : State) (h : TxWf s) : TxWf s.stopReceiving := h

theorem TxWf_checkTimeoutsRx (s : State) (h : TxWf s) : TxWf s.checkTimeoutsRx := by
  unfold checkTimeoutsRx
  split
  · exact h
  · exact h

theorem TxWf_advance (s : State) (dt : Nat) (h : TxWf s) : TxWf (s.advance dt) := h

theorem TxWf_send (s : State) (a : SendArgs) (h : TxWf s) : TxWf (s.send a).1 := by
  unfold send
  simp only []
  repeat' split
  all_goals exact h

theorem TxWf_reset (s : State) : TxWf s.reset := by
  unfold reset
  exact TxWf_stopSending _ _

/-! ### Block-size budget monitor -/

/-- what one call of `processTx` does, as seen by the block-size monitor -/
inductive TxEv where
  /-- a Single Frame or First Frame was handed out: a new message starts -/
  | startSent
  /-- a ContinueToSend with block size `bs` was read from the mailbox -/
  | fcRead (bs : Nat)
  /-- a Consecutive Frame was handed out -/
  | cfSent
  deriving DecidableEq, Repr

/-- number of Consecutive Frames the sender may still emit; `none` = unlimited (BS = 0) -/
abbrev Budget := Option Nat

def grant (bs : Nat) : Budget := if bs = 0 then none else some bs

def Budget.sup : Budget → Budget → Budget
  | some a, some b => some (max a b)
  | _, _ => none

def Budget.ge (b : Budget) (n : Nat) : Prop :=
  match b with
  | none => True
  | some m => n ≤ m

/-- the monitor of the property text: FF/SF → 0; CTS(BS) → max; CF → violation at 0, else −1 -/
def monStep (b : Budget) : TxEv → Option Budget
  | .startSent => some (some 0)
  | .fcRead bs => some (Budget.sup b (grant bs))
  | .cfSent =>
    match b with
    | none => some none
    | some 0 => none
    | some (n + 1) => some (some n)

def monRun : Budget → List TxEv → Option Budget
  | b, [] => some b
  | b, e :: es =>
    match monStep b e with
    | none => none
    | some b' => monRun b' es

/-- coupling between the model state and the monitor budget -/
def Coupled (s : State) (b : Budget) : Prop :=
  s.txState = .transmitCf →
    ∃ bs, s.remoteBs = some bs ∧ b.ge 1 ∧ (bs = 0 → b = none) ∧ (s.txBlockCnt < bs → b.ge (bs - s.txBlockCnt))

theorem Budget.ge_mono {b : Budget} {n m : Nat} (h : b.ge n) (hm : m ≤ n) : b.ge m := by
  cases b with
  | none => trivial
  | some k => simp only [Budget.ge] at *; omega

theorem Budget.sup_ge_left {a b : Budget} {n : Nat} (h : a.ge n) : (a.sup b).ge n := by
  cases a <;> cases b <;> simp only [Budget.sup, Budget.ge] at * <;> omega

theorem Budget.sup_none_left (b : Budget) : Budget.sup none b = none := by cases b <;> rfl
theorem Budget.sup_none_right (b : Budget) : Budget.sup b none = none := by cases b <;> rfl

theorem Budget.sup_grant_ge (a : Budget) {bs : Nat} : (a.sup (grant bs)).ge bs := by
  unfold grant
  cases a <;> by_cases h : bs = 0 <;> simp [Budget.sup, Budget.ge, h] <;> omega

theorem Coupled_sup {s : State} {b : Budget} (c : Budget) (h : Coupled s b) : Coupled s (b.sup c) := by
  intro hs
  obtain ⟨bs, h1, h2, h3, h4⟩ := h hs
  refine ⟨bs, h1, Budget.sup_ge_left h2, ?_, fun hlt => Budget.sup_ge_left (h4 hlt)⟩
  intro h0
  rw [h3 h0, Budget.sup_none_left]

theorem Coupled_of_not_cf {s : State} (b : Budget) (h : s.txState ≠ .transmitCf) : Coupled s b :=
  fun hs => absurd hs h

/-- numeric content of one TRANSMIT_CF pass -/
theorem transmitCf_block (s : State) (allowed bs : Nat) (hb : s.remoteBs = some bs) :
    let r := s.transmitCf allowed
    (r.1.txState = .transmitCf ∨ r.1.txState = s.txState ∨ r.1.txState = .idle ∨ r.1.txState = .waitFc) ∧
    (r.1.txState = .transmitCf →
      r.1.remoteBs = some bs ∧ (r.2.1 = none → r.1.txBlockCnt = s.txBlockCnt) ∧
      (r.2.1.isSome → r.1.txBlockCnt = s.txBlockCnt + 1 ∧ (bs = 0 ∨ s.txBlockCnt + 1 < bs))) := by
  unfold transmitCf
  grind (splits := 30) [consumeActive_fst, stopSending, State.error, emit, State.raise, startRxFcTimer,
    Timer.startAt, Timer.stop]


theorem Coupled_congr {s s' : State} {b : Budget} (h1 : s'.txState = s.txState)
    (h2 : s'.remoteBs = s.remoteBs) (h3 : s'.txBlockCnt = s.txBlockCnt) (h : Coupled s b) : Coupled s' b := by
  unfold Coupled at *
  rw [h1, h2, h3]; exact h

theorem Coupled_transmitCf (s : State) (a : Nat) (b : Budget) (h : Coupled s b) (hs : s.txState = .transmitCf) :
    Coupled (s.transmitCf a).1 b ∧
    ((s.transmitCf a).2.1.isSome → ∃ b', monStep b .cfSent = some b' ∧ Coupled (s.transmitCf a).1 b') := by
  obtain ⟨bs, h1, h2, h3, h4⟩ := h hs
  have k := (transmitCf_block s a bs h1).2
  constructor
  · intro hs'
    obtain ⟨k1, k2, k3⟩ := k hs'
    refine ⟨bs, k1, h2, h3, ?_⟩
    intro hlt
    cases ho : (s.transmitCf a).2.1 with
    | none => rw [k2 ho] at hlt ⊢; exact h4 hlt
    | some m =>
      have := (k3 (by simp [ho])).1
      rw [this] at hlt ⊢
      exact Budget.ge_mono (h4 (by omega)) (by omega)
  · intro ho
    cases b with
    | none =>
      refine ⟨none, rfl, ?_⟩
      intro hs'
      obtain ⟨k1, _, _⟩ := k hs'
      exact ⟨bs, k1, trivial, fun _ => rfl, fun _ => trivial⟩
    | some m =>
      simp only [Budget.ge] at h2
      obtain ⟨n, rfl⟩ : ∃ n, m = n + 1 := ⟨m - 1, by omega⟩
      refine ⟨some n, rfl, ?_⟩
      intro hs'
      obtain ⟨k1, _, k3⟩ := k hs'
      obtain ⟨k4, k5⟩ := k3 ho
      have hbs : bs ≠ 0 := fun h0 => by simpa using h3 h0
      have hlt : s.txBlockCnt + 1 < bs := by omega
      have := h4 (by omega)
      simp only [Budget.ge] at this
      refine ⟨bs, k1, ?_, fun h0 => absurd h0 hbs, ?_⟩
      · simp only [Budget.ge]; omega
      · intro _; simp only [Budget.ge]; omega

/-- budget after the mailbox was read: a ContinueToSend(BS) raises it to at least BS -/
def fcBudget (fc : Option FcFrame) (b : Budget) : Budget :=
  match fc with
  | some fc => if fc.status = 0 then b.sup (grant fc.bs) else b
  | none => b

theorem handleFc_not_cts (s : State) (fc : FcFrame) (h0 : fc.status ≠ 0)
    (h : (s.handleFc fc).txState = .transmitCf) :
    s.txState = .transmitCf ∧ (s.handleFc fc).remoteBs = s.remoteBs ∧ (s.handleFc fc).txBlockCnt = s.txBlockCnt := by
  unfold handleFc at *
  grind [stopSending, State.error, emit, startRxFcTimer]

theorem Coupled_stopSending (s : State) (ok : Bool) (b : Budget) : Coupled (s.stopSending ok) b := by
  apply Coupled_of_not_cf
  unfold stopSending
  cases s.active <;> simp

theorem Coupled_afterFc (s : State) (b : Budget) (h : Coupled s b) :
    Coupled (afterFc s).1 (fcBudget s.lastFc b) := by
  unfold afterFc fcBudget
  cases hfc : s.lastFc with
  | none => exact Coupled_congr rfl rfl rfl h
  | some fc =>
    simp only []
    have h0 : Coupled ({ s with lastFc := none } : State) b := Coupled_congr rfl rfl rfl h
    generalize ({ s with lastFc := none } : State) = s0 at h0 ⊢
    by_cases h2 : fc.status = 2
    · simp only [h2, if_true]
      have : ¬ (2 = 0) := by omega
      simp only [this, if_false]
      exact Coupled_congr (s := s0.stopSending false) rfl rfl rfl (Coupled_stopSending _ _ _)
    · simp only [h2, if_false]
      by_cases hst : fc.status = 0
      · simp only [hst, if_true]
        by_cases hh : ctsHonoured s0 fc = true
        · rw [handleFc_cts s0 fc hh]
          intro _
          refine ⟨fc.bs, rfl, ?_, ?_, ?_⟩
          · by_cases hz : fc.bs = 0
            · simp [grant, hz, Budget.sup_none_right, Budget.ge]
            · exact Budget.ge_mono (Budget.sup_grant_ge b) (by omega)
          · intro hz; simp [grant, hz, Budget.sup_none_right]
          · intro _; exact Budget.ge_mono (Budget.sup_grant_ge b) (by omega)
        · by_cases hi : s0.txState = .idle
          · rw [handleFc_idle s0 fc hi]
            exact Coupled_of_not_cf _ (by simp [State.error, emit, hi])
          · rw [handleFc_cts_ignored s0 fc hst hi (by simpa using hh)]
            exact Coupled_sup _ h0
      · simp only [hst, if_false]
        intro hs'
        obtain ⟨k1, k2, k3⟩ := handleFc_not_cts s0 fc hst hs'
        unfold Coupled at h0
        rw [k2, k3]
        exact h0 k1

theorem Coupled_afterTimeout (s : State) (b : Budget) (h : Coupled s b) : Coupled (afterTimeout s) b := by
  unfold afterTimeout
  split
  · exact Coupled_stopSending _ _ _
  · exact h

theorem ite_pred {P : State → Prop} {c : Prop} [Decidable c] {a b : State} (ha : P a) (hb : P b) :
    P (if c then a else b) := by
  split <;> assumption

theorem Coupled_afterDepleted (s : State) (b : Budget) (h : Coupled s b) : Coupled (afterDepleted s) b :=
  ite_pred (P := fun x => Coupled x b) (Coupled_stopSending _ _ _) h

/-- First/Single Frame handling never lands in TRANSMIT_CF -/
theorem startTx_txState (s : State) (r : Req) (allowed : Nat) (hi : s.txState ≠ .transmitCf) :
    (s.startTx r allowed).1.txState ≠ .transmitCf := by
  unfold startTx
  grind (splits := 30) [consumeActive_fst, stopSending, State.error, emit, State.raise, startRxFcTimer]

theorem readTxQueue_txState (s : State) (allowed : Nat) (q : List Req) (hi : s.txState ≠ .transmitCf) :
    (s.readTxQueue allowed q).1.txState ≠ .transmitCf := by
  induction q generalizing s with
  | nil => exact hi
  | cons r rest ih =>
    unfold readTxQueue
    simp only []
    split
    · apply ih; simpa [emit] using hi
    · apply startTx_txState; simpa using hi

theorem fsm_not_cf (s : State) (a : Nat) (h : s.txState ≠ .transmitCf) : (fsm s a).1.txState ≠ .transmitCf := by
  unfold fsm
  split
  · exact readTxQueue_txState _ _ _ h
  · grind [startRxFcTimer, stopSending]
  · grind [startRxFcTimer, stopSending]
  · exact h
  · contradiction

theorem fsm_cf (s : State) (a : Nat) (h : s.txState = .transmitCf) : fsm s a = s.transmitCf a := by
  unfold fsm
  simp [h]

theorem finish_fields (r : State × Option CanMsg × Bool) :
    (finish r).1.txState = r.1.txState ∧ (finish r).1.remoteBs = r.1.remoteBs ∧
    (finish r).1.txBlockCnt = r.1.txBlockCnt ∧ ((finish r).2.1 = r.2.1 ∨ (finish r).2.1 = none) := by
  unfold finish
  split
  · simp
  · split <;> simp_all


/-- this call runs the TRANSMIT_CF branch (as `cfBranch`, on the state left by phase 0) -/
def cfBranchAt (s1 : State) : Bool :=
  if (afterFc s1).2 then false
  else
    let s2 := afterTimeout (afterFc s1).1
    if s2.txState ≠ .idle && s2.active.isNone then false else (afterDepleted s2).txState = .transmitCf

theorem monitor_txPhases (s1 : State) (a : Nat) (b : Budget) (h : Coupled s1 b) :
    Coupled (txPhases s1 a).1 (fcBudget s1.lastFc b) ∧
    ((txPhases s1 a).2.1.isSome → cfBranchAt s1 = true →
      ∃ b', monStep (fcBudget s1.lastFc b) .cfSent = some b' ∧ Coupled (txPhases s1 a).1 b') ∧
    ((txPhases s1 a).2.1.isSome → cfBranchAt s1 = false → (txPhases s1 a).1.txState ≠ .transmitCf) := by
  have h1 := Coupled_afterFc s1 b h
  generalize fcBudget s1.lastFc b = b1 at h1 ⊢
  unfold txPhases cfBranchAt
  by_cases hA : (afterFc s1).2 = true
  · simp only [hA, if_true]
    exact ⟨h1, by simp, by simp⟩
  · simp only [hA]
    have h2 := Coupled_afterTimeout _ _ h1
    generalize afterTimeout (afterFc s1).1 = s2 at h2 ⊢
    by_cases hB : (s2.txState ≠ .idle && s2.active.isNone) = true
    · simp only [hB, if_true, Bool.false_eq_true, if_false]
      exact ⟨Coupled_congr (s := s2) rfl rfl rfl h2, by simp, by simp⟩
    · simp only [hB, Bool.false_eq_true, if_false]
      have h3 := Coupled_afterDepleted _ _ h2
      generalize afterDepleted s2 = s3 at h3 ⊢
      obtain ⟨f1, f2, f3, f4⟩ := finish_fields (fsm s3 a)
      by_cases hC : s3.txState = .transmitCf
      · rw [fsm_cf s3 a hC] at f1 f2 f3 f4 ⊢
        obtain ⟨c1, c2⟩ := Coupled_transmitCf s3 a b1 h3 hC
        refine ⟨Coupled_congr f1 f2 f3 c1, ?_, by simp [hC]⟩
        intro ho _
        have ho' : (s3.transmitCf a).2.1.isSome := by
          rcases f4 with f4 | f4
          · rw [← f4]; exact ho
          · rw [f4] at ho; simp at ho
        obtain ⟨b', m1, m2⟩ := c2 ho'
        exact ⟨b', m1, Coupled_congr f1 f2 f3 m2⟩
      · have := fsm_not_cf s3 a hC
        refine ⟨Coupled_of_not_cf _ (by rw [f1]; exact this), by simp [hC], ?_⟩
        intro _ _
        rw [f1]; exact this

/-- the monitor events of one `processTx` call -/
def txEvents (s : State) : List TxEv :=
  match (fcSendPhase s).2 with
  | some _ => []
  | none =>
    (match s.lastFc with
      | some fc => if fc.status = 0 then [.fcRead fc.bs] else []
      | none => []) ++
    (match s.processTx.2.1 with
      | none => []
      | some _ => if cfBranch s then [.cfSent] else [.startSent])

theorem cfBranch_eq (s : State) :
    cfBranch s = (match fcSendPhase s with | (s1, none) => cfBranchAt s1 | _ => false) := by
  unfold cfBranch preFsm cfBranchAt
  grind

theorem monRun_fc (b : Budget) (fc : Option FcFrame) (es : List TxEv) :
    monRun b ((match fc with
      | some fc => if fc.status = 0 then [.fcRead fc.bs] else []
      | none => []) ++ es) = monRun (fcBudget fc b) es := by
  cases fc with
  | none => rfl
  | some fc =>
    by_cases h : fc.status = 0 <;> simp [fcBudget, h, monRun, monStep]

/-- **Monitor step theorem**: one `processTx` call never violates the block-size monitor and
    re-establishes the coupling. -/
theorem monitor_step (s : State) (b : Budget) (h : Coupled s b) :
    ∃ b', monRun b (txEvents s) = some b' ∧ Coupled s.processTx.1 b' := by
  have hv := fcSendPhase_txView s
  have hcb := cfBranch_eq s
  unfold txEvents
  rw [hcb, processTx_eq]
  generalize hx : fcSendPhase s = x at hv hcb ⊢
  obtain ⟨s1, o⟩ := x
  have hc1 : Coupled s1 b := by
    have := hv.1
    simp only [txView, Prod.mk.injEq] at this
    exact Coupled_congr this.1 this.2.2.2.2.2.1 this.2.2.2.2.2.2.1 h
  rcases o with _ | _ | m
  · simp only []
    rw [← hv.2.1, monRun_fc]
    obtain ⟨m1, m2, m3⟩ := monitor_txPhases s1 (allowedNow s) b hc1
    cases ho : (txPhases s1 (allowedNow s)).2.1 with
    | none => exact ⟨_, rfl, m1⟩
    | some msg =>
      rw [ho] at m2 m3
      by_cases hcf : cfBranchAt s1 = true
      · obtain ⟨b', k1, k2⟩ := m2 rfl hcf
        refine ⟨b', ?_, k2⟩
        simp [hcf, monRun, k1]
      · have hcf' : cfBranchAt s1 = false := by simpa using hcf
        refine ⟨some 0, ?_, Coupled_of_not_cf _ (m3 rfl hcf')⟩
        simp [hcf', monRun, monStep]
  · exact ⟨b, rfl, hc1⟩
  · exact ⟨b, rfl, hc1⟩

/-! ### Separation time: what never changes in the FSM, and the `SepInv` invariant -/

/-- fields the state machine part of `_process_tx` never modifies -/
def constView (s : State) := (s.now, s.cfg, s.addr, s.timerStmin.timeout)

theorem stopSending_constView (s : State) (ok : Bool) : constView (s.stopSending ok) = constView s := by
  unfold stopSending constView
  cases s.active <;> simp [Timer.stop, emit]

theorem startTx_constView (s : State) (r : Req) (allowed : Nat) :
    constView (s.startTx r allowed).1 = constView s := by
  unfold startTx constView
  grind (splits := 30) [consumeActive_fst, stopSending, State.error, emit, State.raise, startRxFcTimer, Timer.stop]

theorem readTxQueue_constView (s : State) (allowed : Nat) (q : List Req) :
    constView (s.readTxQueue allowed q).1 = constView s := by
  induction q generalizing s with
  | nil => rfl
  | cons r rest ih =>
    unfold readTxQueue
    simp only []
    split
    · rw [ih]; rfl
    · rw [startTx_constView]; rfl

theorem transmitCf_constView (s : State) (allowed : Nat) :
    constView (s.transmitCf allowed).1 = constView s := by
  unfold transmitCf constView
  grind (splits := 30) [consumeActive_fst, stopSending, State.error, emit, State.raise, startRxFcTimer,
    Timer.startAt, Timer.stop]

theorem fsm_constView (s : State) (a : Nat) : constView (fsm s a).1 = constView s := by
  unfold fsm
  split
  · exact readTxQueue_constView _ _ _
  · unfold constView; grind [startRxFcTimer, stopSending, Timer.stop, emit]
  · unfold constView; grind [startRxFcTimer, stopSending, Timer.stop, emit]
  · rfl
  · exact transmitCf_constView _ _

theorem finish_constView (r : State × Option CanMsg × Bool) : constView (finish r).1 = constView r.1 := by
  unfold finish
  split
  · rfl
  · split <;> rfl

theorem afterTimeout_constView (s : State) : constView (afterTimeout s) = constView s := by
  unfold afterTimeout
  split
  · rw [stopSending_constView]; rfl
  · rfl

theorem afterDepleted_constView (s : State) : constView (afterDepleted s) = constView s :=
  ite_pred (P := fun x => constView x = constView s) (stopSending_constView _ _) rfl


/-- `t` = hand-over time of the previous Consecutive Frame of the message in progress:
    the clock is past it and, in TRANSMIT_CF, the STmin timer was (re)started at or after it. -/
def SepInv (s : State) (t : Nat) : Prop :=
  t ≤ s.now ∧ (s.txState = .transmitCf → ∃ t0, s.timerStmin.start = some t0 ∧ t ≤ t0)

theorem SepInv_of_eq {s s' : State} {t : Nat} (h1 : s'.now = s.now) (h2 : s'.txState = s.txState)
    (h3 : s'.timerStmin.start = s.timerStmin.start) (h : SepInv s t) : SepInv s' t := by
  unfold SepInv at *
  rw [h1, h2, h3]; exact h

theorem SepInv_of_txView {s s' : State} {t : Nat} (hv : txView s' = txView s) (h : SepInv s t) : SepInv s' t := by
  simp only [txView, Prod.mk.injEq] at hv
  exact SepInv_of_eq hv.2.2.2.2.2.2.2.1 hv.1 (by rw [hv.2.2.2.2.1]) h

theorem SepInv_of_not_cf {s : State} {t : Nat} (h1 : t ≤ s.now) (h2 : s.txState ≠ .transmitCf) : SepInv s t :=
  ⟨h1, fun h => absurd h h2⟩

theorem stopSending_idle (s : State) (ok : Bool) :
    (s.stopSending ok).txState = .idle ∧ (s.stopSending ok).active = none ∧ (s.stopSending ok).now = s.now ∧
    (s.stopSending ok).txQueue = s.txQueue ∧ (s.stopSending ok).timerFc.start = none ∧
    (s.stopSending ok).timerStmin.start = none ∧ (s.stopSending ok).standby = none := by
  unfold stopSending
  cases h : s.active <;> simp [Timer.stop, emit, h]

theorem SepInv_stopSending (s : State) (ok : Bool) (t : Nat) (h : t ≤ s.now) : SepInv (s.stopSending ok) t := by
  have := stopSending_idle s ok
  exact SepInv_of_not_cf (by rw [this.2.2.1]; exact h) (by rw [this.1]; simp)

theorem SepInv_handleFc (s : State) (fc : FcFrame) (t : Nat) (h : SepInv s t) : SepInv (s.handleFc fc) t := by
  unfold SepInv at *
  unfold handleFc
  grind [stopSending, State.error, emit, startRxFcTimer, Timer.stop, Timer.startAt]

theorem SepInv_afterFc (s : State) (t : Nat) (h : SepInv s t) : SepInv (afterFc s).1 t := by
  have h0 : SepInv ({ s with lastFc := none } : State) t := h
  unfold afterFc
  simp only []
  split
  · split
    · exact SepInv_stopSending _ _ _ h.1
    · exact SepInv_handleFc _ _ _ h0
  · exact h0

theorem SepInv_afterTimeout (s : State) (t : Nat) (h : SepInv s t) : SepInv (afterTimeout s) t := by
  unfold afterTimeout
  split
  · exact SepInv_stopSending _ _ _ h.1
  · exact h

theorem SepInv_afterDepleted (s : State) (t : Nat) (h : SepInv s t) : SepInv (afterDepleted s) t :=
  ite_pred (P := fun x => SepInv x t) (SepInv_stopSending _ _ _ h.1) h

theorem transmitCf_sep (s : State) (allowed : Nat) :
    (s.transmitCf allowed).1.txState = .transmitCf →
      s.txState = .transmitCf ∧
      ((s.transmitCf allowed).1.timerStmin.start = s.timerStmin.start ∨
       (s.transmitCf allowed).1.timerStmin.start = some s.now) := by
  unfold transmitCf
  grind (splits := 30) [consumeActive_fst, stopSending, State.error, emit, State.raise, startRxFcTimer,
    Timer.startAt, Timer.stop]

theorem SepInv_fsm (s : State) (a : Nat) (t : Nat) (h : SepInv s t) : SepInv (fsm s a).1 t := by
  have hc := fsm_constView s a
  simp only [constView, Prod.mk.injEq] at hc
  by_cases hs : s.txState = .transmitCf
  · rw [fsm_cf s a hs] at hc ⊢
    refine ⟨by rw [hc.1]; exact h.1, ?_⟩
    intro hs'
    obtain ⟨_, k⟩ := transmitCf_sep s a hs'
    obtain ⟨t0, e0, l0⟩ := h.2 hs
    rcases k with k | k
    · exact ⟨t0, by rw [k]; exact e0, l0⟩
    · exact ⟨s.now, k, h.1⟩
  · exact SepInv_of_not_cf (by rw [hc.1]; exact h.1) (fsm_not_cf s a hs)

theorem SepInv_finish (r : State × Option CanMsg × Bool) (t : Nat) (h : SepInv r.1 t) : SepInv (finish r).1 t := by
  unfold finish
  split
  · exact h
  · split <;> exact h

theorem SepInv_txPhases (s : State) (a : Nat) (t : Nat) (h : SepInv s t) : SepInv (txPhases s a).1 t := by
  unfold txPhases
  split
  · exact SepInv_afterFc s t h
  · simp only []
    split
    · exact SepInv_afterTimeout _ _ (SepInv_afterFc s t h)
    · exact SepInv_finish _ _ (SepInv_fsm _ _ _ (SepInv_afterDepleted _ _ (SepInv_afterTimeout _ _ (SepInv_afterFc s t h))))

/-- `SepInv` is kept by `_process_tx`, whether or not it emits a frame -/
theorem SepInv_processTx (s : State) (t : Nat) (h : SepInv s t) : SepInv s.processTx.1 t := by
  rw [processTx_eq]
  have hv := SepInv_of_txView (fcSendPhase_txView s).1 h
  generalize fcSendPhase s = x at hv ⊢
  obtain ⟨s1, o⟩ := x
  rcases o with _ | _ | _
  · exact SepInv_txPhases _ _ _ hv
  · exact hv
  · exact hv

theorem SepInv_processRx (s : State) (m : CanMsg) (t : Nat) (h : SepInv s t) : SepInv (s.processRx m).1 t :=
  SepInv_of_txView (processRx_txView s m) h

theorem SepInv_checkTimeoutsRx (s : State) (t : Nat) (h : SepInv s t) : SepInv s.checkTimeoutsRx t := by
  unfold checkTimeoutsRx
  split <;> exact h

theorem SepInv_advance (s : State) (dt : Nat) (t : Nat) (h : SepInv s t) : SepInv (s.advance dt) t :=
  ⟨Nat.le_trans h.1 (Nat.le_add_right _ _), h.2⟩

theorem SepInv_send (s : State) (a : SendArgs) (t : Nat) (h : SepInv s t) : SepInv (s.send a).1 t := by
  unfold send
  simp only []
  repeat' split
  all_goals exact h

theorem clearTxQueue_now (s : State) (q : List Req) : (s.clearTxQueue q).now = s.now := by
  induction q generalizing s with
  | nil => rfl
  | cons r rest ih => unfold clearTxQueue; rw [ih]; rfl

theorem SepInv_reset (s : State) (t : Nat) (h : SepInv s t) : SepInv s.reset t := by
  unfold reset
  refine SepInv_of_eq (s := (((({ s with rxQueue := [] } : State).clearTxQueue s.txQueue)).stopSending false)) rfl rfl rfl ?_
  apply SepInv_stopSending
  rw [clearTxQueue_now]; exact h.1


/-! ### The separation time in force and the gap theorem -/

theorem handleFc_now_cfg (s : State) (fc : FcFrame) :
    (s.handleFc fc).now = s.now ∧ (s.handleFc fc).cfg = s.cfg := by
  unfold handleFc
  grind [stopSending, State.error, emit, startRxFcTimer]

/-- STmin timeout once the mailbox content `fc?` has been handled in state `s` -/
def sepAfterFc (s : State) (fc? : Option FcFrame) : Nat :=
  match fc? with
  | some fc => if ctsHonoured s fc then sepOf s.cfg fc else s.timerStmin.timeout
  | none => s.timerStmin.timeout

theorem afterFc_facts (s : State) :
    (afterFc s).1.now = s.now ∧ (afterFc s).1.cfg = s.cfg ∧
    (afterFc s).1.timerStmin.timeout = sepAfterFc s s.lastFc := by
  unfold afterFc sepAfterFc
  cases hfc : s.lastFc with
  | none => simp
  | some fc =>
    simp only []
    by_cases h2 : fc.status = 2
    · have hv := stopSending_constView ({ s with lastFc := none } : State) false
      simp only [constView, Prod.mk.injEq] at hv
      have : ctsHonoured s fc = false := by simp [ctsHonoured, h2]
      simp only [h2, if_true, this, Bool.false_eq_true, if_false]
      exact ⟨hv.1, hv.2.1, hv.2.2.2⟩
    · simp only [h2, if_false]
      have := handleFc_now_cfg ({ s with lastFc := none } : State) fc
      refine ⟨this.1, this.2, ?_⟩
      rw [handleFc_stmin_timeout]
      rfl

/-- separation time in force once this call of `processTx` has handled the mailbox: the value of
    the ContinueToSend honoured in this very call, else the value already in force -/
def sepInForce (s : State) : Nat :=
  match (fcSendPhase s).2 with
  | none => sepAfterFc s s.lastFc
  | some _ => s.timerStmin.timeout

theorem sepAfterFc_congr {s s' : State} (hv : txView s' = txView s) (fc : Option FcFrame) :
    sepAfterFc s' fc = sepAfterFc s fc := by
  simp only [txView, Prod.mk.injEq] at hv
  unfold sepAfterFc ctsHonoured
  rw [hv.1, hv.2.2.2.1, hv.2.2.2.2.1, hv.2.2.2.2.2.2.2.1, hv.2.2.2.2.2.2.2.2.1]

theorem txPhases_stmin_timeout (s : State) (a : Nat) :
    (txPhases s a).1.timerStmin.timeout = sepAfterFc s s.lastFc := by
  have hf := afterFc_facts s
  unfold txPhases
  split
  · exact hf.2.2
  · simp only []
    have h2 := afterTimeout_constView (afterFc s).1
    simp only [constView, Prod.mk.injEq] at h2
    split
    · exact h2.2.2.2.trans hf.2.2
    · have h3 := afterDepleted_constView (afterTimeout (afterFc s).1)
      have h4 := fsm_constView (afterDepleted (afterTimeout (afterFc s).1)) a
      have h5 := finish_constView (fsm (afterDepleted (afterTimeout (afterFc s).1)) a)
      simp only [constView, Prod.mk.injEq] at h3 h4 h5
      rw [h5.2.2.2, h4.2.2.2, h3.2.2.2, h2.2.2.2, hf.2.2]

/-- the STmin timeout only ever changes by an honoured ContinueToSend -/
theorem processTx_stmin_timeout (s : State) : s.processTx.1.timerStmin.timeout = sepInForce s := by
  have hv := fcSendPhase_txView s
  unfold sepInForce
  rw [processTx_eq]
  generalize fcSendPhase s = x at hv ⊢
  obtain ⟨s1, o⟩ := x
  have ht : s1.timerStmin = s.timerStmin := by
    have := hv.1
    simp only [txView, Prod.mk.injEq] at this
    exact this.2.2.2.2.1
  rcases o with _ | _ | _
  · simp only []
    rw [txPhases_stmin_timeout, hv.2.1, sepAfterFc_congr hv.1]
  · simp only []; rw [ht]
  · simp only []; rw [ht]

theorem processTx_now (s : State) : s.processTx.1.now = s.now := by
  have hv := fcSendPhase_txView s
  rw [processTx_eq]
  generalize fcSendPhase s = x at hv ⊢
  obtain ⟨s1, o⟩ := x
  have ht : s1.now = s.now := by
    have := hv.1
    simp only [txView, Prod.mk.injEq] at this
    exact this.2.2.2.2.2.2.2.1
  rcases o with _ | _ | _
  · simp only []
    rw [← ht]
    have hf := afterFc_facts s1
    unfold txPhases
    split
    · exact hf.1
    · simp only []
      have h2 := afterTimeout_constView (afterFc s1).1
      simp only [constView, Prod.mk.injEq] at h2
      split
      · exact h2.1.trans hf.1
      · have h3 := afterDepleted_constView (afterTimeout (afterFc s1).1)
        have h4 := fsm_constView (afterDepleted (afterTimeout (afterFc s1).1)) (allowedNow s)
        have h5 := finish_constView (fsm (afterDepleted (afterTimeout (afterFc s1).1)) (allowedNow s))
        simp only [constView, Prod.mk.injEq] at h3 h4 h5
        rw [h5.1, h4.1, h3.1, h2.1, hf.1]
  · exact ht
  · exact ht

theorem preFsm_facts {s s3 : State} {t : Nat} (h : preFsm s = some s3) (hinv : SepInv s t) :
    SepInv s3 t ∧ s3.now = s.now ∧ s3.timerStmin.timeout = sepInForce s := by
  have hv := fcSendPhase_txView s
  unfold preFsm at h
  unfold sepInForce
  generalize fcSendPhase s = x at hv h ⊢
  obtain ⟨s1, o⟩ := x
  have hi1 := SepInv_of_txView hv.1 hinv
  have ht : s1.now = s.now := by
    have := hv.1
    simp only [txView, Prod.mk.injEq] at this
    exact this.2.2.2.2.2.2.2.1
  rcases o with _ | _ | _
  · simp only [] at h ⊢
    have hf := afterFc_facts s1
    have h2 := afterTimeout_constView (afterFc s1).1
    have h3 := afterDepleted_constView (afterTimeout (afterFc s1).1)
    simp only [constView, Prod.mk.injEq] at h2 h3
    split at h
    · cases h
    · split at h
      · cases h
      · injection h with h
        subst h
        refine ⟨SepInv_afterDepleted _ _ (SepInv_afterTimeout _ _ (SepInv_afterFc _ _ hi1)), ?_, ?_⟩
        · rw [h3.1, h2.1, hf.1, ht]
        · rw [h3.2.2.2, h2.2.2.2, hf.2.2, hv.2.1, sepAfterFc_congr hv.1]
  · simp at h
  · simp at h

/-- **Gap theorem.** If the previous Consecutive Frame of the message was handed over at time `t`
    (`SepInv s t`) and this call hands over the next one, then strictly more than the separation
    time in force has elapsed since `t` (or that separation time is zero); and the invariant is
    re-established for the new hand-over time `s.now`. -/
theorem gap_of_emits (s : State) (t : Nat) (msg : CanMsg) (hinv : SepInv s t) (hcf : EmitsCf s msg) :
    (sepInForce s = 0 ∨ s.now - t > sepInForce s) ∧ SepInv s.processTx.1 s.now := by
  obtain ⟨hb, ho⟩ := hcf
  unfold cfBranch at hb
  cases hp : preFsm s with
  | none => simp [hp] at hb
  | some s3 =>
    simp only [hp, decide_eq_true_eq] at hb
    obtain ⟨i3, n3, t3⟩ := preFsm_facts hp hinv
    rw [processTx_of_preFsm hp, fsm_cf s3 _ hb] at ho ⊢
    obtain ⟨f1, _, _, f4⟩ := finish_fields (s3.transmitCf (allowedNow s))
    have hc := finish_constView (s3.transmitCf (allowedNow s))
    simp only [constView, Prod.mk.injEq] at hc
    have ho' : (s3.transmitCf (allowedNow s)).2.1 = some msg := by
      rcases f4 with f4 | f4
      · rw [← f4]; exact ho
      · rw [f4] at ho; cases ho
    generalize hr : s3.transmitCf (allowedNow s) = r at *
    obtain ⟨s', out, imm⟩ := r
    simp only at ho'
    subst ho'
    obtain ⟨k1, _, _, k4, k5, k6⟩ := transmitCf_some hr
    obtain ⟨t0, e0, l0⟩ := i3.2 hb
    constructor
    · rw [← t3]
      simp only [Timer.timedOut, e0, Bool.or_eq_true, decide_eq_true_eq, beq_iff_eq] at k1
      rw [n3] at k1
      rcases k1 with k1 | k1
      · right; omega
      · left; exact k1
    · have hfin : (finish (s', some msg, imm)).1.timerStmin = s'.timerStmin := by
        unfold finish; split <;> rfl
      refine ⟨by rw [hc.1]; simp only; omega, ?_⟩
      intro hs'
      rw [f1] at hs'
      simp only at hs'
      rcases k6 with k6 | k6
      · rw [k6] at hs'; cases hs'
      · exact ⟨s.now, by rw [hfin, k6.1, n3], Nat.le_refl _⟩



theorem Req.consume_spec (r : Req) (n : Nat) :
    (r.consume n false).1.size = r.size ∧ (r.consume n false).1.id = r.id ∧
    (∀ payload, (r.consume n false).2 = some payload →
      (r.consume n false).1.consumed = r.consumed + payload.length ∧
      (r.consume n false).1.consumed ≤ r.size ∧ payload.length ≤ n ∧
      (payload.length < n → (r.consume n false).1.depleted = true)) := by
  have hl : (r.src.take n).length ≤ n := List.length_take_le n r.src
  generalize hd : r.src.take n = data at hl
  unfold Req.consume
  simp only [hd]
  split
  · simp
  · split
    · simp [Req.depleted]; omega
    · simp; omega



/-! ### Which states can run the TRANSMIT_CF branch -/

theorem handleFc_to_cf (s : State) (fc : FcFrame) (hs : s.txState ≠ .transmitCf)
    (h : (s.handleFc fc).txState = .transmitCf) : ctsHonoured s fc = true := by
  unfold ctsHonoured
  unfold handleFc at h
  grind [stopSending, State.error, emit, startRxFcTimer]

theorem afterTimeout_cf {s : State} (h : (afterTimeout s).txState = .transmitCf) :
    afterTimeout s = s := by
  unfold afterTimeout at *
  split
  · rename_i ht
    simp only [ht, if_true] at h
    rw [(stopSending_idle _ _).1] at h; cases h
  · rfl

/-- guard of phase 3 -/
def depletedCond (s : State) : Bool :=
  s.txState ≠ .idle && (match s.active with | some r => r.depleted | none => false) && s.standby.isNone

theorem afterDepleted_eq (s : State) :
    afterDepleted s = if depletedCond s then s.stopSending true else s := rfl

theorem afterDepleted_cf {s : State} (h : (afterDepleted s).txState = .transmitCf) :
    afterDepleted s = s := by
  rw [afterDepleted_eq] at *
  by_cases hc : depletedCond s = true
  · simp only [hc, if_true] at h
    rw [(stopSending_idle _ _).1] at h; cases h
  · simp only [hc]; rfl

theorem cfBranchAt_imp {s1 : State} (h : cfBranchAt s1 = true) :
    (afterFc s1).2 = false ∧ (afterFc s1).1.txState = .transmitCf := by
  unfold cfBranchAt at h
  split at h
  · cases h
  · simp only [] at h
    split at h
    · cases h
    · simp only [decide_eq_true_eq] at h
      have h2 := afterDepleted_cf h
      rw [h2] at h
      have h3 := afterTimeout_cf h
      rw [h3] at h
      rename_i hA _
      exact ⟨by simpa using hA, h⟩

/-- A Consecutive Frame can only be built by a call that starts in TRANSMIT_CF, or that starts in
    WAIT_FC and reads an honoured ContinueToSend from the mailbox. -/
theorem cfBranch_cases (s : State) (h : cfBranch s = true) :
    s.txState = .transmitCf ∨
    (s.txState = .waitFc ∧ ∃ fc, s.lastFc = some fc ∧ ctsHonoured s fc = true) := by
  have hv := fcSendPhase_txView s
  rw [cfBranch_eq] at h
  generalize fcSendPhase s = x at hv h
  obtain ⟨s1, o⟩ := x
  rcases o with _ | _ | _
  · simp only [] at h
    obtain ⟨hA, hB⟩ := cfBranchAt_imp h
    have hv1 := hv.1
    simp only [txView, Prod.mk.injEq] at hv1
    by_cases hs : s.txState = .transmitCf
    · exact Or.inl hs
    · right
      unfold afterFc at hA hB
      rw [hv.2.1] at hA hB
      cases hfc : s.lastFc with
      | none => simp only [hfc] at hB; rw [hv1.1] at hB; exact absurd hB hs
      | some fc =>
        simp only [hfc] at hA hB
        by_cases h2 : fc.status = 2
        · simp [h2] at hA
        · simp only [h2, if_false] at hB
          have hs1 : ({ s1 with lastFc := none } : State).txState ≠ .transmitCf := by
            simp only; rw [hv1.1]; exact hs
          have hh := handleFc_to_cf _ fc hs1 hB
          have hh' : ctsHonoured s fc = true := by
            unfold ctsHonoured at hh ⊢
            simp only at hh
            rw [hv1.1, hv1.2.2.2.1, hv1.2.2.2.2.2.2.2.1] at hh
            exact hh
          refine ⟨?_, fc, rfl, hh'⟩
          unfold ctsHonoured at hh'
          simp only [Bool.and_eq_true, Bool.or_eq_true, decide_eq_true_eq] at hh'
          rcases hh'.2 with h | h
          · exact h
          · exact absurd h hs
  · simp at h
  · simp at h


/-! ### A pass that aborts goes on exactly like a fresh pass on the aborted state -/

theorem with_lastFc_none {s : State} (h : s.lastFc = none) : ({ s with lastFc := none } : State) = s := by
  cases s; simp_all

theorem afterFc_of_none {s : State} (h : s.lastFc = none) : afterFc s = (s, false) := by
  unfold afterFc
  simp only [h, with_lastFc_none h]

theorem handleFc_misc (s : State) (fc : FcFrame) :
    (s.handleFc fc).lastFc = s.lastFc ∧ (s.handleFc fc).pendingFc = s.pendingFc ∧
    (s.handleFc fc).rl = s.rl ∧ (s.handleFc fc).cfg = s.cfg ∧ (s.handleFc fc).txQueue = s.txQueue := by
  unfold handleFc
  grind [stopSending, State.error, emit, startRxFcTimer]

theorem stopSending_misc (s : State) (ok : Bool) :
    (s.stopSending ok).lastFc = s.lastFc ∧ (s.stopSending ok).pendingFc = s.pendingFc ∧
    (s.stopSending ok).rl = s.rl ∧ (s.stopSending ok).cfg = s.cfg := by
  unfold stopSending
  cases h : s.active <;> simp [emit]

theorem afterFc_misc (s : State) :
    (afterFc s).1.lastFc = none ∧ (afterFc s).1.pendingFc = s.pendingFc ∧
    (afterFc s).1.rl = s.rl ∧ (afterFc s).1.cfg = s.cfg := by
  unfold afterFc
  cases hfc : s.lastFc with
  | none => simp
  | some fc =>
    simp only []
    split
    · have := stopSending_misc ({ s with lastFc := none } : State) false
      exact ⟨this.1, this.2.1, this.2.2.1, this.2.2.2⟩
    · have := handleFc_misc ({ s with lastFc := none } : State) fc
      exact ⟨this.1, this.2.1, this.2.2.1, this.2.2.2.1⟩

theorem afterTimeout_misc (s : State) :
    (afterTimeout s).lastFc = s.lastFc ∧ (afterTimeout s).pendingFc = s.pendingFc ∧
    (afterTimeout s).rl = s.rl ∧ (afterTimeout s).cfg = s.cfg := by
  unfold afterTimeout
  split
  · exact stopSending_misc (s.error .FlowControlTimeout) false
  · simp

theorem afterTimeout_idem (s : State) : afterTimeout (afterTimeout s) = afterTimeout s := by
  by_cases h : s.timerFc.timedOut s.now = true
  · have : afterTimeout s = (s.error .FlowControlTimeout).stopSending false := by simp [afterTimeout, h]
    rw [this]
    have hs := (stopSending_idle (s.error .FlowControlTimeout) false).2.2.2.2.1
    unfold afterTimeout
    simp [Timer.timedOut, hs]
  · have : afterTimeout s = s := by simp [afterTimeout, h]
    rw [this, this]

/-- after the mailbox and the N_Bs check, the rest of the pass is a fresh pass on that state -/
theorem txPhases_continue (s : State) (a : Nat) (h : (afterFc s).2 = false) :
    txPhases s a = txPhases (afterTimeout (afterFc s).1) a := by
  have hl : (afterTimeout (afterFc s).1).lastFc = none := by
    rw [(afterTimeout_misc _).1]; exact (afterFc_misc s).1
  conv => rhs; unfold txPhases
  rw [afterFc_of_none hl]
  simp only [afterTimeout_idem]
  unfold txPhases
  simp [h]

theorem processTx_continue (s : State) (hp : s.pendingFc = false) (h : (afterFc s).2 = false) :
    s.processTx = (afterTimeout (afterFc s).1).processTx := by
  have hm := afterFc_misc s
  have ht := afterTimeout_misc (afterFc s).1
  have hp' : (afterTimeout (afterFc s).1).pendingFc = false := by rw [ht.2.1, hm.2.1, hp]
  rw [processTx_eq_of_not_pending s hp, processTx_eq_of_not_pending _ hp', txPhases_continue s _ h]
  unfold allowedNow
  rw [ht.2.2.1, ht.2.2.2, hm.2.2.1, hm.2.2.2]

/-! ### Aborts -/

/-- (a) Overflow: the request is failed, the error logged after it, nothing is sent -/
theorem processTx_overflow (s : State) (fc : FcFrame) (hp : s.pendingFc = false)
    (hfc : s.lastFc = some fc) (h2 : fc.status = 2) :
    s.processTx = ((({ s with lastFc := none } : State).stopSending false).error .Overflow, none, false) := by
  rw [processTx_eq_of_not_pending s hp]
  unfold txPhases afterFc
  simp [hfc, h2]

theorem afterFc_wait_unsupported (s : State) (fc : FcFrame) (hfc : s.lastFc = some fc)
    (hs : s.txState ≠ .idle) (h1 : fc.status = 1) (ht : s.timerFc.timedOut s.now = false)
    (hw : s.cfg.wftmax = 0) :
    afterFc s = (({ s with lastFc := none } : State).error .UnsupportedWaitFrame, false) := by
  unfold afterFc
  have : ¬ fc.status = 2 := by omega
  simp only [hfc, this, if_false]
  rw [handleFc_wait_unsupported ({ s with lastFc := none } : State) fc hs h1 ht hw]

theorem afterFc_wait_max (s : State) (fc : FcFrame) (hfc : s.lastFc = some fc)
    (hs : s.txState ≠ .idle) (h1 : fc.status = 1) (ht : s.timerFc.timedOut s.now = false)
    (hw : s.cfg.wftmax ≠ 0) (hc : s.wftCnt ≥ s.cfg.wftmax) :
    afterFc s =
      ((({ s with lastFc := none } : State).error .MaximumWaitFrameReached).stopSending false, false) := by
  unfold afterFc
  have : ¬ fc.status = 2 := by omega
  simp only [hfc, this, if_false]
  rw [handleFc_wait_max ({ s with lastFc := none } : State) fc hs h1 ht hw hc]

theorem afterFc_wait_ok (s : State) (fc : FcFrame) (hfc : s.lastFc = some fc)
    (hs : s.txState = .waitFc ∨ s.txState = .transmitCf) (h1 : fc.status = 1)
    (ht : s.timerFc.timedOut s.now = false) (hc : s.wftCnt < s.cfg.wftmax) :
    afterFc s =
      ({ s with lastFc := none, wftCnt := s.wftCnt + 1, txState := .waitFc,
                timerFc := { start := some s.now, timeout := s.cfg.tFc } }, false) := by
  unfold afterFc
  have : ¬ fc.status = 2 := by omega
  simp only [hfc, this, if_false]
  rw [handleFc_wait_ok ({ s with lastFc := none } : State) fc hs h1 ht hc]

/-- (d) N_Bs expiry: whatever non-Overflow frame is in the mailbox, it is not honoured -/
theorem afterFc_late (s : State) (hs : s.txState ≠ .idle) (ht : s.timerFc.timedOut s.now = true)
    (h2 : ∀ fc, s.lastFc = some fc → fc.status ≠ 2) :
    afterFc s = ({ s with lastFc := none }, false) := by
  unfold afterFc
  cases hfc : s.lastFc with
  | none => rfl
  | some fc =>
    simp only [h2 fc hfc, if_false]
    rw [handleFc_late ({ s with lastFc := none } : State) fc hs ht]

theorem afterTimeout_late (s : State) (hs : s.txState ≠ .idle) (ht : s.timerFc.timedOut s.now = true)
    (h2 : ∀ fc, s.lastFc = some fc → fc.status ≠ 2) :
    afterTimeout (afterFc s).1 =
      (({ s with lastFc := none } : State).error .FlowControlTimeout).stopSending false := by
  rw [afterFc_late s hs ht h2]
  unfold afterTimeout
  simp only []
  rw [if_pos ht]


/-! ### Quiet passes, next message, progress -/

theorem afterTimeout_of_not_timedOut {s : State} (h : s.timerFc.timedOut s.now = false) : afterTimeout s = s := by
  simp [afterTimeout, h]

theorem timedOut_of_stopped {t : Timer} (h : t.start = none) (now : Nat) : t.timedOut now = false := by
  simp [Timer.timedOut, h]

/-- a pass with an empty mailbox and no N_Bs expiry: only the state machine runs -/
theorem processTx_quiet (s : State) (hp : s.pendingFc = false) (hfc : s.lastFc = none)
    (ht : s.timerFc.timedOut s.now = false) (ha : s.txState ≠ .idle → s.active.isSome) :
    s.processTx = finish (fsm (afterDepleted s) (allowedNow s)) := by
  rw [processTx_eq_of_not_pending s hp]
  unfold txPhases
  rw [afterFc_of_none hfc]
  simp only [afterTimeout_of_not_timedOut ht, Bool.false_eq_true, if_false]
  by_cases hi : s.txState = .idle
  · simp [hi]
  · have := ha hi
    cases hact : s.active with
    | none => simp [hact] at this
    | some r => simp

/-- WAIT_FC with nothing in the mailbox and the deadline not reached: nothing happens at all -/
theorem processTx_waitFc_quiet (s : State) (r : Req) (hs : s.txState = .waitFc) (hp : s.pendingFc = false)
    (hfc : s.lastFc = none) (ht : s.timerFc.timedOut s.now = false) (ha : s.active = some r)
    (hd : r.depleted = false) : s.processTx = (s, none, false) := by
  rw [processTx_quiet s hp hfc ht (by simp [ha])]
  have : afterDepleted s = s := by
    rw [afterDepleted_eq]; simp [depletedCond, ha, hd]
  rw [this]
  unfold fsm finish
  simp only [hs]
  split <;> rfl

/-- IDLE with a non-empty queue: the pass takes the head of the queue and starts it -/
theorem processTx_next_message (s : State) (r : Req) (rest : List Req) (hs : s.txState = .idle)
    (hp : s.pendingFc = false) (hfc : s.lastFc = none) (ht : s.timerFc.start = none)
    (hq : s.txQueue = r :: rest) (hd : r.depleted = false) :
    s.processTx =
      finish ((({ s with txQueue := rest, active := some r } : State).startTx r (allowedNow s)).1,
              (({ s with txQueue := rest, active := some r } : State).startTx r (allowedNow s)).2, false) := by
  rw [processTx_quiet s hp hfc (timedOut_of_stopped ht _) (by simp [hs])]
  have : afterDepleted s = s := by
    rw [afterDepleted_eq]; simp [depletedCond, hs]
  rw [this]
  unfold fsm
  simp only [hs, hq]
  unfold readTxQueue
  simp [hd, hs]

/-- TRANSMIT_CF with an empty mailbox: the pass is `transmitCf` plus the limiter accounting -/
theorem processTx_cf_pass (s : State) (r : Req) (hs : s.txState = .transmitCf) (hp : s.pendingFc = false)
    (hfc : s.lastFc = none) (ht : s.timerFc.start = none) (ha : s.active = some r)
    (hd : r.depleted = false) : s.processTx = finish (s.transmitCf (allowedNow s)) := by
  rw [processTx_quiet s hp hfc (timedOut_of_stopped ht _) (by simp [ha])]
  have : afterDepleted s = s := by
    rw [afterDepleted_eq]; simp [depletedCond, ha, hd]
  rw [this, fsm_cf s _ hs]

/-- Progress in TRANSMIT_CF: once STmin has elapsed and the limiter lets the frame through, the
    pass raises, ends the message, or hands out a Consecutive Frame and strictly decreases what
    remains to be sent. -/
theorem transmitCf_progress (s : State) (a bs : Nat) (r : Req) (hb : s.remoteBs = some bs)
    (ha : s.active = some r) (hd : r.depleted = false) (ht : s.timerStmin.timedOut s.now = true)
    (hl : cfPayloadLen s r ≤ a) (hdl : s.txPrefixLen + 2 ≤ s.cfg.txDl) :
    (s.transmitCf a).1.exc.isSome ∨ (s.transmitCf a).1.txState = .idle ∨
    (∃ msg r', (s.transmitCf a).2.1 = some msg ∧ (s.transmitCf a).1.active = some r' ∧
      r'.remaining < r.remaining ∧ r'.id = r.id ∧ r'.size = r.size) := by
  rw [transmitCf_eq s a bs r hb ha]
  simp only [ht, hl, and_self, if_true]
  have hrem : 1 ≤ r.remaining := by
    simp only [Req.depleted, Bool.or_eq_false_iff, decide_eq_false_iff_not] at hd
    unfold Req.remaining; omega
  have hn : 1 ≤ cfPayloadLen s r := by unfold cfPayloadLen; omega
  obtain ⟨c1, c2, c3⟩ := Req.consume_spec r (cfPayloadLen s r)
  have hs1 := consumeActive_fst s r (cfPayloadLen s r) false
  generalize (s.consumeActive r (cfPayloadLen s r) false).1 = s1 at hs1 ⊢
  generalize hlog : (s.consumeActive r (cfPayloadLen s r) false).1.log = l1 at hs1
  generalize hcons : r.consume (cfPayloadLen s r) false = c at c1 c2 c3 hs1 ⊢
  obtain ⟨r', res⟩ := c
  cases res with
  | none => left; simp [State.raise]
  | some payload =>
    obtain ⟨d1, d2, d3, d4⟩ := c3 payload rfl
    simp only at c1 c2 d1 d2 d4 hs1 ⊢
    have hact : s1.active = some r' := by rw [hs1]
    unfold cfTail cfSend
    by_cases hpl : payload.length > 0
    · simp only [hpl, if_true]
      cases hm : makeTxMsg s1.cfg s1.addr (s1.addr.tx.txId .physical)
          (s1.addr.tx.txPrefix ++ [u8 (0x20 + s1.txSeq)] ++ payload) with
      | none => left; simp [State.raise]
      | some msg =>
        simp only [Bool.false_eq_true, if_false]
        by_cases hdep : r'.depleted = true
        · right; left
          simp only [hdep, if_true]
          split <;> exact (stopSending_idle _ _).1
        · right; right
          simp only [hdep, Bool.false_eq_true, if_false]
          refine ⟨msg, r', ?_, ?_, ?_, c2, c1⟩
          · split <;> rfl
          · split <;> simp [startRxFcTimer, hact]
          · unfold Req.remaining; rw [c1, d1]; unfold Req.remaining at hrem; omega
    · have h0 : payload.length = 0 := by omega
      have hdep := d4 (by omega)
      right; left
      simp only [hpl, if_false, Bool.false_eq_true, hdep, if_true]
      split <;> exact (stopSending_idle _ _).1

/-! ### Timers, overrun after a smaller mid-block BS, pass-level progress, loops -/

theorem Timer_timedOut_iff (t : Timer) (now : Nat) :
    t.timedOut now = true ↔ ∃ t0, t.start = some t0 ∧ (now - t0 > t.timeout ∨ t.timeout = 0) := by
  unfold Timer.timedOut
  cases t.start <;> simp

theorem timedOut_of_zero {t : Timer} {t0 : Nat} (h0 : t.timeout = 0) (hs : t.start = some t0) (now : Nat) :
    t.timedOut now = true := by
  rw [Timer_timedOut_iff]; exact ⟨t0, hs, Or.inr h0⟩

/-- the frame that completes (or overruns) the granted block is followed by WAIT_FC, or by idle
    when it was the last frame of the message -/
theorem transmitCf_block_end (s : State) (allowed bs : Nat) (hb : s.remoteBs = some bs) (h0 : bs ≠ 0)
    (hc : s.txBlockCnt + 1 ≥ bs) (ho : (s.transmitCf allowed).2.1.isSome) :
    (s.transmitCf allowed).1.txState = .idle ∨ (s.transmitCf allowed).1.txState = .waitFc := by
  unfold transmitCf at *
  grind (splits := 30) [consumeActive_fst, stopSending, State.error, emit, State.raise, startRxFcTimer,
    Timer.startAt, Timer.stop]

/-- after a mid-block ContinueToSend with a block size not above the frames already sent in
    the block, exactly one more Consecutive Frame goes out before the sender waits -/
theorem transmitCf_overrun (s : State) (allowed bs : Nat) (hb : s.remoteBs = some bs) (h0 : bs ≠ 0)
    (hc : s.txBlockCnt ≥ bs) (ho : (s.transmitCf allowed).2.1.isSome) :
    (s.transmitCf allowed).1.txState = .idle ∨ (s.transmitCf allowed).1.txState = .waitFc :=
  transmitCf_block_end s allowed bs hb h0 (by omega) ho

/-- when the block ends the N_Bs timer is started -/
theorem transmitCf_waitFc_timer (s : State) (allowed : Nat) (hs : s.txState = .transmitCf)
    (h : (s.transmitCf allowed).1.txState = .waitFc) :
    (s.transmitCf allowed).1.timerFc = { start := some s.now, timeout := s.cfg.tFc } := by
  unfold transmitCf at *
  grind (splits := 30) [consumeActive_fst, stopSending, State.error, emit, State.raise, startRxFcTimer,
    Timer.startAt, Timer.stop]

theorem finish_progress (x : State × Option CanMsg × Bool) :
    ((finish x).1.exc = x.1.exc ∧ (finish x).1.txState = x.1.txState ∧ (finish x).1.active = x.1.active) ∧
    ((finish x).1.exc.isSome ∨ (finish x).2.1 = x.2.1) := by
  unfold finish
  split
  · simp_all
  · split <;> simp_all

/-- progress of a whole `processTx` pass in TRANSMIT_CF (empty mailbox) -/
theorem processTx_cf_progress (s : State) (r : Req) (hw : TxWf s) (hs : s.txState = .transmitCf)
    (hp : s.pendingFc = false) (hfc : s.lastFc = none) (ha : s.active = some r) (hd : r.depleted = false)
    (ht : s.timerStmin.timedOut s.now = true) (hl : cfPayloadLen s r ≤ (allowedNow s))
    (hdl : s.txPrefixLen + 2 ≤ s.cfg.txDl) :
    s.processTx.1.exc.isSome ∨ s.processTx.1.txState = .idle ∨
    (∃ msg r', s.processTx.2.1 = some msg ∧ s.processTx.1.active = some r' ∧
      r'.remaining < r.remaining ∧ r'.id = r.id ∧ r'.size = r.size) := by
  obtain ⟨_, w2, w3, _, _, _⟩ := hw
  have hfcs : s.timerFc.start = none := w2 (by simp [hs])
  obtain ⟨bs, hb⟩ : ∃ bs, s.remoteBs = some bs := by
    have := (w3 hs).2
    cases h : s.remoteBs with
    | none => simp [h] at this
    | some bs => exact ⟨bs, rfl⟩
  rw [processTx_cf_pass s r hs hp hfc hfcs ha hd]
  obtain ⟨⟨f1, f2, f3⟩, f4⟩ := finish_progress (s.transmitCf (allowedNow s))
  rcases transmitCf_progress s (allowedNow s) bs r hb ha hd ht hl hdl with p | p | ⟨msg, r', p1, p2, p3⟩
  · left; rw [f1]; exact p
  · right; left; rw [f2]; exact p
  · rcases f4 with f4 | f4
    · left; exact f4
    · right; right
      exact ⟨msg, r', by rw [f4]; exact p1, by rw [f3]; exact p2, p3⟩

/-! ### The loops of `process()` keep the invariants -/

/-- what a state predicate must tolerate to survive `process()` -/
structure LoopStable (P : State → Prop) : Prop where
  clock : ∀ (s : State) (dt : Nat) (rest : List (Nat × CanMsg)), P s → P { s with inbox := rest, now := s.now + dt }
  emit : ∀ (s : State) (e : Ev), P s → P (s.emit e)
  chk : ∀ (s : State), P s → P s.checkTimeoutsRx
  rx : ∀ (s : State) (m : CanMsg), P s → P (s.processRx m).1
  tx : ∀ (s : State), P s → P s.processTx.1
  rl : ∀ (s : State) (l : Limiter), P s → P { s with rl := l }

theorem rxLoop_stable {P : State → Prop} (hP : LoopStable P) (doTx : Bool) (s : State) (st : Stats)
    (inbox : List (Nat × CanMsg)) (h : P s) : P (rxLoop doTx s st inbox).1 := by
  fun_induction rxLoop doTx s st inbox with
  | case1 s st =>
    exact hP.chk _ (hP.emit _ _ (by simpa using hP.clock s 0 [] h))
  | case2 s st dt m rest s1 s2 st2 hme st3 s3 fr st4 hx =>
    have := hP.rx s2 m (hP.chk _ (hP.emit _ _ (hP.clock s dt rest h)))
    rw [hx] at this; exact this
  | case3 s st dt m rest s1 s2 st2 hme st3 s3 imm fr hx st4 =>
    have := hP.rx s2 m (hP.chk _ (hP.emit _ _ (hP.clock s dt rest h)))
    rw [hx] at this; exact this
  | case4 s st dt m rest s1 s2 st2 hme st3 s3 imm fr hx st4 h1 h2 ih =>
    have := hP.rx s2 m (hP.chk _ (hP.emit _ _ (hP.clock s dt rest h)))
    rw [hx] at this; exact ih this
  | case5 s st dt m rest s1 s2 st2 hme h1 =>
    exact hP.chk _ (hP.emit _ _ (hP.clock s dt rest h))
  | case6 s st dt m rest s1 s2 st2 hme h1 ih =>
    exact ih (hP.chk _ (hP.emit _ _ (hP.clock s dt rest h)))

theorem txLoop_stable {P : State → Prop} (hP : LoopStable P) (f : Nat) (s : State) (n : Nat) (h : P s) :
    P (txLoop f s n).1 := by
  fun_induction txLoop f s n with
  | case1 => exact h
  | case2 f s n s1 out imm hx he =>
    have := hP.tx s h; rw [hx] at this; exact this
  | case3 f s n s1 out he s2 n2 hm hx =>
    have h1 := hP.tx s h; rw [hx] at h1
    have : P s2 := by
      cases out with
      | none => simp at hm; rw [← hm.1]; exact h1
      | some m => simp at hm; rw [← hm.1]; exact hP.emit _ _ h1
    exact this
  | case4 f s n s1 out imm hx he s2 n2 hm h2 h3 ih =>
    have h1 := hP.tx s h; rw [hx] at h1
    have : P s2 := by
      cases out with
      | none => simp at hm; rw [← hm.1]; exact h1
      | some m => simp at hm; rw [← hm.1]; exact hP.emit _ _ h1
    exact ih this
  | case5 f s n s1 out imm hx he s2 n2 hm h2 h3 =>
    have h1 := hP.tx s h; rw [hx] at h1
    have : P s2 := by
      cases out with
      | none => simp at hm; rw [← hm.1]; exact h1
      | some m => simp at hm; rw [← hm.1]; exact hP.emit _ _ h1
    exact this

theorem processLoop_stable {P : State → Prop} (hP : LoopStable P) (f : Nat) (doRx doTx : Bool) (s : State)
    (st : Stats) (h : P s) : P (processLoop f doRx doTx s st).1 := by
  have key1 : ∀ (dT c : Bool) (s0 s2 : State) (st st1 : Stats) (rr : Bool),
      (if c = true then rxLoop dT s0 st s0.inbox else (s0, st, false)) = (s2, st1, rr) → P s0 → P s2 := by
    intro dT c s0 s2 st st1 rr he h0
    cases c with
    | true =>
      have := rxLoop_stable hP dT s0 st s0.inbox h0
      simp only [if_true] at he
      rw [he] at this; exact this
    | false =>
      simp at he
      rw [← he.1]; exact h0
  have key2 : ∀ (d : Bool) (s1 s' : State) (st1 st' : Stats) (run oof : Bool),
      (if d = true then
        match txLoop s1.txFuel s1 st1.sent with
        | (s, n, run, oof) => (s, { st1 with sent := n }, run, oof)
       else (s1, st1, false, false)) = (s', st', run, oof) → P s1 → P s' := by
    intro d s1 s' st1 st' run oof he h1
    cases d with
    | true =>
      have := txLoop_stable hP s1.txFuel s1 st1.sent h1
      simp only [if_true] at he
      generalize txLoop s1.txFuel s1 st1.sent = r at this he
      obtain ⟨a, b, c, d⟩ := r
      simp at he
      rw [← he.1]; exact this
    | false =>
      simp at he
      rw [← he.1]; exact h1
  fun_induction processLoop f doRx doTx s st with
  | case1 => exact h
  | case2 f doRx doTx s st sw s2 st1 rr hx1 s1 s' st' run oof hx2 he =>
    exact key2 _ _ _ _ _ _ _ hx2 (hP.rl _ _ (key1 _ _ _ _ _ _ _ hx1 h))
  | case3 f doRx doTx s st sw s2 st1 rr hx1 s1 s' st' run he hx2 =>
    exact key2 _ _ _ _ _ _ _ hx2 (hP.rl _ _ (key1 _ _ _ _ _ _ _ hx1 h))
  | case4 f doRx doTx s st sw s2 st1 rr hx1 s1 s' st' run oof hx2 he ho hc ih =>
    exact ih (key2 _ _ _ _ _ _ _ hx2 (hP.rl _ _ (key1 _ _ _ _ _ _ _ hx1 h)))
  | case5 f doRx doTx s st sw s2 st1 rr hx1 s1 s' st' run oof hx2 he ho hc =>
    exact key2 _ _ _ _ _ _ _ hx2 (hP.rl _ _ (key1 _ _ _ _ _ _ _ hx1 h))

/-- any `LoopStable` predicate is kept by a whole `process()` call -/
theorem process_stable {P : State → Prop} (hP : LoopStable P) (s : State) (doRx doTx : Bool) (h : P s) :
    P (s.process doRx doTx).1 :=
  processLoop_stable hP _ _ _ _ _ h

theorem TxWf_loopStable : LoopStable TxWf where
  clock := fun _ _ _ h => h
  emit := fun _ _ h => h
  chk := TxWf_checkTimeoutsRx
  rx := TxWf_processRx
  tx := TxWf_processTx
  rl := fun _ _ h => h

theorem SepInv_loopStable (t : Nat) : LoopStable (fun s => SepInv s t) where
  clock := fun _ _ _ h => ⟨Nat.le_trans h.1 (Nat.le_add_right _ _), h.2⟩
  emit := fun _ _ h => h
  chk := fun s h => SepInv_checkTimeoutsRx s t h
  rx := fun s m h => SepInv_processRx s m t h
  tx := fun s h => SepInv_processTx s t h
  rl := fun _ _ h => h

/-! ### Frame lemmas for the mailbox and the exception flag -/

theorem stopSending_exc (s : State) (ok : Bool) : (s.stopSending ok).exc = s.exc := by
  unfold stopSending
  cases h : s.active <;> simp [emit]

theorem handleFc_exc (s : State) (fc : FcFrame) : (s.handleFc fc).exc = s.exc := by
  unfold handleFc
  grind [stopSending, State.error, emit, startRxFcTimer]

theorem afterFc_exc (s : State) : (afterFc s).1.exc = s.exc := by
  unfold afterFc
  cases hfc : s.lastFc with
  | none => rfl
  | some fc =>
    simp only []
    split
    · exact stopSending_exc ({ s with lastFc := none } : State) false
    · exact handleFc_exc ({ s with lastFc := none } : State) fc

theorem afterTimeout_exc (s : State) : (afterTimeout s).exc = s.exc := by
  unfold afterTimeout
  split
  · exact stopSending_exc (s.error .FlowControlTimeout) false
  · rfl

theorem afterDepleted_exc (s : State) : (afterDepleted s).exc = s.exc :=
  ite_pred (P := fun x => x.exc = s.exc) (stopSending_exc _ _) rfl

theorem afterDepleted_lastFc (s : State) : (afterDepleted s).lastFc = s.lastFc :=
  ite_pred (P := fun x => x.lastFc = s.lastFc) (stopSending_misc _ _).1 rfl

theorem startTx_lastFc (s : State) (r : Req) (allowed : Nat) :
    (s.startTx r allowed).1.lastFc = s.lastFc := by
  unfold startTx
  grind (splits := 30) [consumeActive_fst, stopSending, State.error, emit, State.raise, startRxFcTimer, Timer.stop]

theorem readTxQueue_lastFc (s : State) (allowed : Nat) (q : List Req) :
    (s.readTxQueue allowed q).1.lastFc = s.lastFc := by
  induction q generalizing s with
  | nil => rfl
  | cons r rest ih =>
    unfold readTxQueue
    simp only []
    split
    · rw [ih]; rfl
    · rw [startTx_lastFc]

theorem transmitCf_lastFc (s : State) (allowed : Nat) : (s.transmitCf allowed).1.lastFc = s.lastFc := by
  unfold transmitCf
  grind (splits := 30) [consumeActive_fst, stopSending, State.error, emit, State.raise, startRxFcTimer,
    Timer.startAt, Timer.stop]

theorem fsm_lastFc (s : State) (a : Nat) : (fsm s a).1.lastFc = s.lastFc := by
  unfold fsm
  split
  · exact readTxQueue_lastFc _ _ _
  · grind [startRxFcTimer, stopSending, Timer.stop, emit]
  · grind [startRxFcTimer, stopSending, Timer.stop, emit]
  · rfl
  · exact transmitCf_lastFc _ _

theorem finish_lastFc_exc (r : State × Option CanMsg × Bool) :
    (finish r).1.lastFc = r.1.lastFc ∧ (finish r).1.exc = r.1.exc := by
  unfold finish
  split
  · exact ⟨rfl, rfl⟩
  · split <;> exact ⟨rfl, rfl⟩

/-- when the exception flag is set, `finish` hands nothing out -/
theorem finish_of_exc (r : State × Option CanMsg × Bool) (h : r.1.exc.isSome) :
    finish r = (r.1, none, false) := by
  unfold finish
  simp [h]

theorem finish_of_no_exc (r : State × Option CanMsg × Bool) (h : r.1.exc = none) :
    (finish r).2.1 = r.2.1 := by
  unfold finish
  simp only [h, Option.isSome_none, Bool.false_eq_true, if_false]
  split <;> simp_all

theorem transmitCf_exc_sticky (s : State) (allowed : Nat) (h : s.exc.isSome) :
    (s.transmitCf allowed).1.exc.isSome := by
  unfold transmitCf
  grind (splits := 30) [consumeActive_fst, stopSending, State.error, emit, State.raise, startRxFcTimer,
    Timer.startAt, Timer.stop]

theorem txPhases_lastFc (s : State) (a : Nat) : (txPhases s a).1.lastFc = none := by
  have hm := (afterFc_misc s).1
  unfold txPhases
  split
  · exact hm
  · simp only []
    have h2 : (afterTimeout (afterFc s).1).lastFc = none := by rw [(afterTimeout_misc _).1]; exact hm
    split
    · exact h2
    · rw [(finish_lastFc_exc _).1, fsm_lastFc, afterDepleted_lastFc]; exact h2

theorem fcSendPhase_exc (s : State) (h : (fcSendPhase s).2 = none) : (fcSendPhase s).1.exc = s.exc := by
  unfold fcSendPhase at *
  grind [State.raise, startRxCfTimer]

theorem fcSendPhase_exc' (s : State) :
    (fcSendPhase s).1.exc = s.exc ∨ (fcSendPhase s).1.exc.isSome := by
  unfold fcSendPhase
  grind [State.raise, startRxCfTimer]

theorem processRx_exc (s : State) (m : CanMsg) : (s.processRx m).1.exc = s.exc := by
  unfold processRx startReception
  grind [deliver, stopReceiving, State.error, emit, requestFc, startRxCfTimer]


/-! ### The strict block-size monitor (count / granted / recent) -/

/-- ghost state of the strict monitor -/
structure Strict where
  /-- Consecutive Frames handed out since the sender last waited -/
  count : Nat := 0
  /-- largest block size granted since the sender last waited (`none` = ∞, i.e. BS = 0) -/
  granted : Budget := some 0
  /-- largest block size granted since the last data frame (SF/FF/CF) was handed out -/
  recent : Budget := some 0
  deriving DecidableEq, Repr

/-- events of the strict monitor -/
inductive SEv where
  /-- a First Frame was handed out -/
  | ffSent
  /-- a Single Frame was handed out -/
  | sfSent
  /-- a ContinueToSend with block size `bs` reached the mailbox (`_process_rx`) -/
  | ctsRead (bs : Nat)
  /-- a transmit pass begins in state WAIT_FC -/
  | waitPass
  /-- a Consecutive Frame was handed out -/
  | cfSent
  deriving DecidableEq, Repr

/-- one step of the strict monitor; `none` = violation.  `sfResets` chooses whether a Single
    Frame resets `recent` (it is a data frame) — the model is sound for both readings. -/
def strictStep (sfResets : Bool) (g : Strict) : SEv → Option Strict
  | .ffSent => some { count := 0, granted := some 0, recent := some 0 }
  | .sfSent => some (if sfResets then { g with recent := some 0 } else g)
  | .ctsRead bs => some { g with granted := g.granted.sup (grant bs), recent := g.recent.sup (grant bs) }
  | .waitPass => some { g with count := 0, granted := g.recent }
  | .cfSent =>
    match g.granted with
    | none => some { g with count := g.count + 1, recent := some 0 }
    | some m => if g.count + 1 ≤ m then some { g with count := g.count + 1, recent := some 0 } else none

def strictRun (sfResets : Bool) : Strict → List SEv → Option Strict
  | g, [] => some g
  | g, e :: es =>
    match strictStep sfResets g e with
    | none => none
    | some g' => strictRun sfResets g' es

theorem strictRun_append (f : Bool) (g : Strict) (l1 l2 : List SEv) :
    strictRun f g (l1 ++ l2) = (strictRun f g l1).bind (fun g1 => strictRun f g1 l2) := by
  induction l1 generalizing g with
  | nil => rfl
  | cons e es ih =>
    simp only [List.cons_append, strictRun]
    cases strictStep f g e with
    | none => rfl
    | some g' => exact ih g'

/-- `b` covers a grant of block size `bs` (BS = 0 needs ∞) -/
def covers (b : Budget) (bs : Nat) : Prop := (bs = 0 → b = none) ∧ b.ge bs

theorem covers_sup_left {a : Budget} {bs : Nat} (c : Budget) (h : covers a bs) : covers (a.sup c) bs :=
  ⟨fun h0 => by rw [h.1 h0, Budget.sup_none_left], Budget.sup_ge_left h.2⟩

theorem covers_sup_grant (a : Budget) (bs : Nat) : covers (a.sup (grant bs)) bs :=
  ⟨fun h0 => by simp [grant, h0, Budget.sup_none_right], Budget.sup_grant_ge a⟩

theorem covers_ge_one {b : Budget} {bs : Nat} (h : covers b bs) : b.ge 1 := by
  by_cases h0 : bs = 0
  · rw [h.1 h0]; trivial
  · exact Budget.ge_mono h.2 (by omega)

/-- coupling, transmit side: in TRANSMIT_CF (no exception raised) the block counter is the
    monitor's count, one more frame is within the grant, and the grant covers the block size in
    force -/
def SA (s : State) (g : Strict) : Prop :=
  s.exc = none → s.txState = .transmitCf →
    ∃ bs, s.remoteBs = some bs ∧ s.txBlockCnt = g.count ∧ g.granted.ge (s.txBlockCnt + 1) ∧
      covers g.granted bs

/-- coupling, mailbox: a ContinueToSend waiting in the mailbox is covered by `recent` and
    `granted` -/
def SB (s : State) (g : Strict) : Prop :=
  ∀ fc, s.lastFc = some fc → fc.status = 0 → covers g.recent fc.bs ∧ covers g.granted fc.bs

def SInv (s : State) (g : Strict) : Prop := SA s g ∧ SB s g

theorem SB_of_none {s : State} (g : Strict) (h : s.lastFc = none) : SB s g := by
  intro fc hfc; rw [h] at hfc; cases hfc

theorem SA_of_not_cf {s : State} (g : Strict) (h : s.txState ≠ .transmitCf) : SA s g :=
  fun _ hs => absurd hs h

theorem SA_of_exc {s : State} (g : Strict) (h : s.exc.isSome) : SA s g := by
  intro h0; rw [h0] at h; cases h

theorem SA_congr {s s' : State} {g : Strict} (h0 : s'.exc = s.exc) (h1 : s'.txState = s.txState)
    (h2 : s'.remoteBs = s.remoteBs) (h3 : s'.txBlockCnt = s.txBlockCnt) (h : SA s g) : SA s' g := by
  unfold SA at *
  rw [h0, h1, h2, h3]; exact h

theorem SA_stopSending (s : State) (ok : Bool) (g : Strict) : SA (s.stopSending ok) g :=
  SA_of_not_cf g (by rw [(stopSending_idle s ok).1]; simp)

/-- phase 1 keeps the transmit-side coupling; a ContinueToSend honoured from WAIT_FC starts a new
    stretch (`count = 0`, which the `waitPass` event has just established) -/
theorem SA_afterFc (s : State) (g : Strict) (hA : SA s g) (hB : SB s g)
    (hW : s.txState = .waitFc → g.count = 0) : SA (afterFc s).1 g := by
  unfold afterFc
  cases hfc : s.lastFc with
  | none => exact SA_congr rfl rfl rfl rfl hA
  | some fc =>
    simp only []
    have h0 : SA ({ s with lastFc := none } : State) g := SA_congr rfl rfl rfl rfl hA
    have hW0 : ({ s with lastFc := none } : State).txState = .waitFc → g.count = 0 := hW
    generalize ({ s with lastFc := none } : State) = s0 at h0 hW0 ⊢
    by_cases h2 : fc.status = 2
    · simp only [h2, if_true]
      exact SA_congr (s := s0.stopSending false) rfl rfl rfl rfl (SA_stopSending _ _ _)
    · simp only [h2, if_false]
      by_cases hst : fc.status = 0
      · obtain ⟨cr, cg⟩ := hB fc hfc hst
        by_cases hh : ctsHonoured s0 fc = true
        · rw [handleFc_cts s0 fc hh]
          intro _ _
          refine ⟨fc.bs, rfl, ?_, ?_, cg⟩
          · simp only
            split
            · rename_i hw; exact (hW0 hw).symm
            · rename_i hw
              have hcf : s0.txState = .transmitCf := by
                simp only [ctsHonoured, Bool.and_eq_true, Bool.or_eq_true, decide_eq_true_eq] at hh
                rcases hh.2 with h | h
                · exact absurd h hw
                · exact h
              obtain ⟨_, _, k, _⟩ := h0 ‹_› hcf
              exact k
          · simp only
            split
            · exact covers_ge_one cg
            · rename_i hw
              have hcf : s0.txState = .transmitCf := by
                simp only [ctsHonoured, Bool.and_eq_true, Bool.or_eq_true, decide_eq_true_eq] at hh
                rcases hh.2 with h | h
                · exact absurd h hw
                · exact h
              obtain ⟨_, _, _, k, _⟩ := h0 ‹_› hcf
              exact k
        · by_cases hi : s0.txState = .idle
          · rw [handleFc_idle s0 fc hi]
            exact SA_of_not_cf _ (by simp [State.error, emit, hi])
          · rw [handleFc_cts_ignored s0 fc hst hi (by simpa using hh)]
            exact h0
      · intro he hs'
        rw [handleFc_exc] at he
        obtain ⟨k1, k2, k3⟩ := handleFc_not_cts s0 fc hst hs'
        rw [k2, k3]
        exact h0 he k1

theorem SA_afterTimeout (s : State) (g : Strict) (h : SA s g) : SA (afterTimeout s) g := by
  unfold afterTimeout
  split
  · exact SA_stopSending _ _ _
  · exact h

theorem SA_afterDepleted (s : State) (g : Strict) (h : SA s g) : SA (afterDepleted s) g :=
  ite_pred (P := fun x => SA x g) (SA_stopSending _ _ _) h


/-- the TRANSMIT_CF branch against the strict monitor -/
theorem SA_transmitCf (s : State) (a : Nat) (g : Strict) (h : SA s g) (hs : s.txState = .transmitCf)
    (he : s.exc = none) :
    let r := finish (s.transmitCf a)
    (r.2.1 = none → SA r.1 g) ∧
    (r.2.1.isSome → g.granted.ge (g.count + 1) ∧ SA r.1 { g with count := g.count + 1, recent := some 0 }) := by
  intro r
  obtain ⟨bs, hb, hc, hg, hcov⟩ := h he hs
  have k := (transmitCf_block s a bs hb).2
  obtain ⟨f1, f2, f3, _⟩ := finish_fields (s.transmitCf a)
  have fe := (finish_lastFc_exc (s.transmitCf a)).2
  by_cases hx : (s.transmitCf a).1.exc.isSome
  · have : r = ((s.transmitCf a).1, none, false) := finish_of_exc _ hx
    rw [this]
    exact ⟨fun _ => SA_of_exc _ hx, by simp⟩
  · have hx' : (s.transmitCf a).1.exc = none := by simpa using hx
    have ho : r.2.1 = (s.transmitCf a).2.1 := finish_of_no_exc _ hx'
    constructor
    · intro hn _ hs'
      rw [ho] at hn
      rw [f1] at hs'
      obtain ⟨k1, k2, _⟩ := k hs'
      refine ⟨bs, by rw [f2]; exact k1, by rw [f3, k2 hn]; exact hc, by rw [f3, k2 hn]; exact hg, hcov⟩
    · intro hsome
      rw [ho] at hsome
      refine ⟨by rw [← hc]; exact hg, ?_⟩
      intro _ hs'
      rw [f1] at hs'
      obtain ⟨k1, _, k3⟩ := k hs'
      obtain ⟨k4, k5⟩ := k3 hsome
      refine ⟨bs, by rw [f2]; exact k1, by rw [f3, k4, hc], ?_, hcov⟩
      rw [f3, k4]
      simp only
      rcases k5 with k5 | k5
      · rw [hcov.1 k5]; trivial
      · exact Budget.ge_mono hcov.2 (by omega)

/-- phases 1–5 against the strict monitor -/
theorem strict_txPhases (s1 : State) (a : Nat) (g : Strict) (hA : SA s1 g) (hB : SB s1 g)
    (hW : s1.txState = .waitFc → g.count = 0) :
    ((txPhases s1 a).2.1 = none → SA (txPhases s1 a).1 g) ∧
    ((txPhases s1 a).2.1.isSome → cfBranchAt s1 = true →
      g.granted.ge (g.count + 1) ∧ SA (txPhases s1 a).1 { g with count := g.count + 1, recent := some 0 }) ∧
    ((txPhases s1 a).2.1.isSome → cfBranchAt s1 = false → (txPhases s1 a).1.txState ≠ .transmitCf) := by
  have h1 := SA_afterFc s1 g hA hB hW
  unfold txPhases cfBranchAt
  by_cases hAo : (afterFc s1).2 = true
  · simp only [hAo, if_true]
    exact ⟨fun _ => h1, by simp, by simp⟩
  · simp only [hAo]
    have h2 := SA_afterTimeout _ _ h1
    generalize afterTimeout (afterFc s1).1 = s2 at h2 ⊢
    by_cases hBo : (s2.txState ≠ .idle && s2.active.isNone) = true
    · simp only [hBo, if_true, Bool.false_eq_true, if_false]
      exact ⟨fun _ => SA_of_exc _ (by simp [State.raise]), by simp, by simp⟩
    · simp only [hBo, Bool.false_eq_true, if_false]
      have h3 := SA_afterDepleted _ _ h2
      generalize afterDepleted s2 = s3 at h3 ⊢
      obtain ⟨f1, f2, f3, f4⟩ := finish_fields (fsm s3 a)
      by_cases hC : s3.txState = .transmitCf
      · rw [fsm_cf s3 a hC]
        by_cases he : s3.exc = none
        · obtain ⟨c1, c2⟩ := SA_transmitCf s3 a g h3 hC he
          exact ⟨c1, fun ho _ => c2 ho, by simp [hC]⟩
        · have hx : (s3.transmitCf a).1.exc.isSome :=
            transmitCf_exc_sticky s3 a (by cases h : s3.exc <;> simp_all)
          rw [finish_of_exc _ hx]
          exact ⟨fun _ => SA_of_exc _ hx, by simp, by simp⟩
      · have hn := fsm_not_cf s3 a hC
        have hn' : (finish (fsm s3 a)).1.txState ≠ .transmitCf := by rw [f1]; exact hn
        exact ⟨fun _ => SA_of_not_cf _ hn', by simp [hC], fun _ _ => hn'⟩

/-- strict-monitor events of one `processTx` call -/
def txEventsS (s : State) : List SEv :=
  (if s.txState = .waitFc then [.waitPass] else []) ++
  (match (fcSendPhase s).2 with
    | some _ => []
    | none =>
      match s.processTx.2.1 with
      | none => []
      | some _ =>
        if cfBranch s then [.cfSent]
        else if s.processTx.1.txState = .waitFc then [.ffSent] else [.sfSent])

/-- strict-monitor events of one `processRx` call: a ContinueToSend reaches the mailbox -/
def rxEventsS (s : State) (m : CanMsg) : List SEv :=
  match decode m.data s.addr.rx.rxPrefixSize with
  | some d =>
    (match d.pdu with
      | .fc st bs _ => if st = 0 then [.ctsRead bs] else []
      | _ => [])
  | none => []

theorem processRx_mail (s : State) (m : CanMsg) :
    (∃ st bs stm, (s.processRx m).1.lastFc = some ⟨st, bs, stm⟩ ∧
      rxEventsS s m = if st = 0 then [.ctsRead bs] else []) ∨
    (rxEventsS s m = [] ∧ ((s.processRx m).1.lastFc = s.lastFc ∨ (s.processRx m).1.lastFc = none)) := by
  cases hd : decode m.data s.addr.rx.rxPrefixSize with
  | none => right; simp [rxEventsS, processRx, hd, stopReceiving]
  | some d =>
    cases hp : d.pdu with
    | fc st bs stm =>
      left
      exact ⟨st, bs, stm, by simp [processRx, hd, hp], by simp [rxEventsS, hd, hp]⟩
    | sf l data esc =>
      right
      refine ⟨by simp [rxEventsS, hd, hp], ?_⟩
      unfold processRx startReception
      simp only [hd, hp]
      grind [deliver, stopReceiving, State.error, emit, requestFc, startRxCfTimer]
    | ff l data esc =>
      right
      refine ⟨by simp [rxEventsS, hd, hp], ?_⟩
      unfold processRx startReception
      simp only [hd, hp]
      grind [deliver, stopReceiving, State.error, emit, requestFc, startRxCfTimer]
    | cf sn data =>
      right
      refine ⟨by simp [rxEventsS, hd, hp], ?_⟩
      unfold processRx startReception
      simp only [hd, hp]
      grind [deliver, stopReceiving, State.error, emit, requestFc, startRxCfTimer]


/-- monitor state after the "pass begins in WAIT_FC" event, if it applies -/
def afterWaitPass (s : State) (g : Strict) : Strict :=
  if s.txState = .waitFc then { g with count := 0, granted := g.recent } else g

theorem strictRun_waitPass (f : Bool) (s : State) (g : Strict) (es : List SEv) :
    strictRun f g ((if s.txState = .waitFc then [SEv.waitPass] else []) ++ es) =
      strictRun f (afterWaitPass s g) es := by
  unfold afterWaitPass
  split <;> simp [strictRun, strictStep]

theorem SInv_afterWaitPass (s : State) (g : Strict) (h : SInv s g) :
    SInv s (afterWaitPass s g) ∧ (s.txState = .waitFc → (afterWaitPass s g).count = 0) := by
  unfold afterWaitPass
  by_cases hw : s.txState = .waitFc
  · rw [if_pos hw]
    refine ⟨⟨SA_of_not_cf _ (by rw [hw]; simp), ?_⟩, fun _ => rfl⟩
    intro fc hfc hst
    exact ⟨(h.2 fc hfc hst).1, (h.2 fc hfc hst).1⟩
  · rw [if_neg hw]
    exact ⟨h, fun h' => absurd h' hw⟩

/-- **Strict monitor, transmit step.** One `processTx` call never violates the strict monitor
    and re-establishes the coupling. -/
theorem strict_step_tx (f : Bool) (s : State) (g : Strict) (h : SInv s g) :
    ∃ g', strictRun f g (txEventsS s) = some g' ∧ SInv s.processTx.1 g' := by
  obtain ⟨⟨hA0, hB0⟩, hW0⟩ := SInv_afterWaitPass s g h
  have hv := fcSendPhase_txView s
  have hcb := cfBranch_eq s
  unfold txEventsS
  rw [strictRun_waitPass, hcb, processTx_eq]
  generalize afterWaitPass s g = g0 at hA0 hB0 hW0 ⊢
  have hexc := fcSendPhase_exc s
  have hexc' := fcSendPhase_exc' s
  generalize hx : fcSendPhase s = x at hv hcb hexc hexc' ⊢
  obtain ⟨s1, o⟩ := x
  have hv1 := hv.1
  simp only [txView, Prod.mk.injEq] at hv1
  have hB1 : SB s1 g0 := by
    intro fc hfc; rw [hv.2.1] at hfc; exact hB0 fc hfc
  rcases o with _ | _ | m
  · simp only [] at ⊢
    have hA1 : SA s1 g0 := SA_congr (hexc rfl) hv1.1 hv1.2.2.2.2.2.1 hv1.2.2.2.2.2.2.1 hA0
    have hW1 : s1.txState = .waitFc → g0.count = 0 := by rw [hv1.1]; exact hW0
    obtain ⟨m1, m2, m3⟩ := strict_txPhases s1 (allowedNow s) g0 hA1 hB1 hW1
    have hl := txPhases_lastFc s1 (allowedNow s)
    cases ho : (txPhases s1 (allowedNow s)).2.1 with
    | none => exact ⟨g0, rfl, m1 ho, SB_of_none _ hl⟩
    | some msg =>
      rw [ho] at m2 m3
      by_cases hcf : cfBranchAt s1 = true
      · obtain ⟨k1, k2⟩ := m2 rfl hcf
        refine ⟨{ g0 with count := g0.count + 1, recent := some 0 }, ?_, k2, SB_of_none _ hl⟩
        simp only [hcf, if_true, strictRun, strictStep]
        cases hg : g0.granted with
        | none => rfl
        | some mm =>
          rw [hg] at k1
          simp only [Budget.ge] at k1
          simp [k1]
      · have hcf' : cfBranchAt s1 = false := by simpa using hcf
        have hn := m3 rfl hcf'
        simp only [hcf', Bool.false_eq_true, if_false]
        split <;> exact ⟨_, rfl, SA_of_not_cf _ hn, SB_of_none _ hl⟩
  · refine ⟨g0, rfl, ?_, hB1⟩
    rcases hexc' with he | he
    · exact SA_congr he hv1.1 hv1.2.2.2.2.2.1 hv1.2.2.2.2.2.2.1 hA0
    · exact SA_of_exc _ he
  · refine ⟨g0, rfl, ?_, hB1⟩
    rcases hexc' with he | he
    · exact SA_congr he hv1.1 hv1.2.2.2.2.2.1 hv1.2.2.2.2.2.2.1 hA0
    · exact SA_of_exc _ he


theorem SA_granted_mono {s : State} {g g' : Strict} (hc : g'.count = g.count)
    (hg : ∀ n, g.granted.ge n → g'.granted.ge n) (hn : g.granted = none → g'.granted = none)
    (h : SA s g) : SA s g' := by
  intro he hs
  obtain ⟨bs, h1, h2, h3, h4⟩ := h he hs
  exact ⟨bs, h1, by rw [hc]; exact h2, hg _ h3, fun h0 => hn (h4.1 h0), hg _ h4.2⟩

/-- **Strict monitor, receive step.** `processRx` (a ContinueToSend reaching the mailbox is the
    only event) never violates the monitor and keeps the coupling. -/
theorem strict_step_rx (f : Bool) (s : State) (m : CanMsg) (g : Strict) (h : SInv s g) :
    ∃ g', strictRun f g (rxEventsS s m) = some g' ∧ SInv (s.processRx m).1 g' := by
  have hv := processRx_txView s m
  simp only [txView, Prod.mk.injEq] at hv
  have hA : ∀ g', SA s g' → SA (s.processRx m).1 g' := fun g' h' =>
    SA_congr (processRx_exc s m) hv.1 hv.2.2.2.2.2.1 hv.2.2.2.2.2.2.1 h'
  rcases processRx_mail s m with ⟨st, bs, stm, hl, hev⟩ | ⟨hev, hl⟩
  · rw [hev]
    by_cases h0 : st = 0
    · simp only [h0, if_true, strictRun, strictStep]
      refine ⟨_, rfl, hA _ ?_, ?_⟩
      · exact SA_granted_mono (g := g) rfl (fun n hn => Budget.sup_ge_left hn)
          (fun hn => by simp only; rw [hn, Budget.sup_none_left]) h.1
      · intro fc hfc _
        rw [hl] at hfc
        injection hfc with hfc
        subst hfc
        exact ⟨covers_sup_grant _ _, covers_sup_grant _ _⟩
    · simp only [h0, if_false, strictRun]
      refine ⟨g, rfl, hA _ h.1, ?_⟩
      intro fc hfc hst
      rw [hl] at hfc
      injection hfc with hfc
      subst hfc
      exact absurd hst h0
  · rw [hev]
    refine ⟨g, rfl, hA _ h.1, ?_⟩
    rcases hl with hl | hl
    · intro fc hfc; rw [hl] at hfc; exact h.2 fc hfc
    · exact SB_of_none _ hl

theorem SInv_advance (s : State) (dt : Nat) (g : Strict) (h : SInv s g) : SInv (s.advance dt) g := h

theorem SInv_send (s : State) (a : SendArgs) (g : Strict) (h : SInv s g) : SInv (s.send a).1 g := by
  unfold send
  simp only []
  repeat' split
  all_goals exact h

theorem SInv_checkTimeoutsRx (s : State) (g : Strict) (h : SInv s g) : SInv s.checkTimeoutsRx g := by
  unfold checkTimeoutsRx
  split
  · exact ⟨SA_congr (s := s) rfl rfl rfl rfl h.1, SB_of_none _ rfl⟩
  · exact h

theorem SInv_reset (s : State) (g : Strict) : SInv s.reset g := by
  unfold reset
  refine ⟨SA_congr (s := (({ s with rxQueue := [] } : State).clearTxQueue s.txQueue).stopSending false)
    rfl rfl rfl rfl (SA_stopSending _ _ _), SB_of_none _ rfl⟩

theorem SInv_init (c : Cfg) (a : Addr) (g : Strict) : SInv (State.init c a) g :=
  ⟨SA_of_not_cf _ (by simp [State.init]), SB_of_none _ rfl⟩

/-- the monitor's own invariant: never more Consecutive Frames counted than granted -/
def Strict.ok (g : Strict) : Prop := g.granted.ge g.count

theorem strictStep_ok (f : Bool) (g g' : Strict) (e : SEv) (h : g.ok) (hs : strictStep f g e = some g') :
    g'.ok := by
  unfold Strict.ok at *
  cases e with
  | ffSent => simp only [strictStep, Option.some.injEq] at hs; subst hs; simp [Budget.ge]
  | sfSent =>
    simp only [strictStep, Option.some.injEq] at hs; subst hs
    split <;> exact h
  | ctsRead bs =>
    simp only [strictStep, Option.some.injEq] at hs; subst hs
    exact Budget.sup_ge_left h
  | waitPass =>
    simp only [strictStep, Option.some.injEq] at hs; subst hs
    cases g.recent <;> simp [Budget.ge]
  | cfSent =>
    simp only [strictStep] at hs
    cases hg : g.granted with
    | none => simp only [hg, Option.some.injEq] at hs; subst hs; simp [Budget.ge]
    | some m =>
      simp only [hg] at hs
      split at hs
      · injection hs with hs; subst hs; simp only [Budget.ge]; assumption
      · cases hs

theorem strictRun_ok (f : Bool) (g g' : Strict) (es : List SEv) (h : g.ok) (hs : strictRun f g es = some g') :
    g'.ok := by
  induction es generalizing g with
  | nil => simp only [strictRun, Option.some.injEq] at hs; subst hs; exact h
  | cons e es ih =>
    simp only [strictRun] at hs
    cases he : strictStep f g e with
    | none => simp [he] at hs
    | some g1 =>
      simp only [he] at hs
      exact ih g1 (strictStep_ok f g g1 e h he) hs


/-! ### Progress without the "raises" disjunct, under a valid configuration -/

theorem Req.consume_isSome (r : Req) (n : Nat) (h1 : n ≤ r.remaining) (h2 : r.consumed ≤ r.size) :
    (r.consume n false).2.isSome = true := by
  have hl : (r.src.take n).length ≤ n := List.length_take_le n r.src
  generalize hd : r.src.take n = data at hl
  unfold Req.remaining at h1
  unfold Req.consume
  simp only [hd]
  split
  · rename_i h; omega
  · split <;> rfl

theorem prefix_fits_valid (s : State) (hv : s.cfg.valid = true) : s.txPrefixLen + 2 ≤ s.cfg.txDl := by
  have h1 : s.txPrefixLen ≤ 1 := C12.txPrefix_le s.addr
  have h2 : 8 ≤ s.cfg.txDl := by
    simp only [Cfg.valid, validTxDl, Bool.and_eq_true, Bool.or_eq_true, decide_eq_true_eq] at hv
    omega
  omega

/-- Progress in TRANSMIT_CF under a valid configuration: once STmin has elapsed and the limiter
    lets the frame through, the pass never raises; it ends the message or hands out a Consecutive
    Frame and strictly decreases what remains to be sent. -/
theorem transmitCf_progress_valid (s : State) (a bs : Nat) (r : Req) (hb : s.remoteBs = some bs)
    (ha : s.active = some r) (hd : r.depleted = false) (ht : s.timerStmin.timedOut s.now = true)
    (hl : cfPayloadLen s r ≤ a) (hv : s.cfg.valid = true) :
    (s.transmitCf a).1.exc = s.exc ∧
    ((s.transmitCf a).1.txState = .idle ∨
     (∃ msg r', (s.transmitCf a).2.1 = some msg ∧ (s.transmitCf a).1.active = some r' ∧
       r'.remaining < r.remaining ∧ r'.id = r.id ∧ r'.size = r.size)) := by
  have hdl := prefix_fits_valid s hv
  rw [transmitCf_eq s a bs r hb ha]
  simp only [ht, hl, and_self, if_true]
  have hcs : r.consumed < r.size := by
    simp only [Req.depleted, Bool.or_eq_false_iff, decide_eq_false_iff_not] at hd
    omega
  have hrem : 1 ≤ r.remaining := by unfold Req.remaining; omega
  have hn : 1 ≤ cfPayloadLen s r := by unfold cfPayloadLen; omega
  have hnr : cfPayloadLen s r ≤ r.remaining := by unfold cfPayloadLen; omega
  have hnd : s.txPrefixLen + 1 + cfPayloadLen s r ≤ s.cfg.txDl := by unfold cfPayloadLen; omega
  have hsome := Req.consume_isSome r (cfPayloadLen s r) hnr (by omega)
  obtain ⟨c1, c2, c3⟩ := Req.consume_spec r (cfPayloadLen s r)
  have hs1 := consumeActive_fst s r (cfPayloadLen s r) false
  generalize (s.consumeActive r (cfPayloadLen s r) false).1 = s1 at hs1 ⊢
  generalize hlog : (s.consumeActive r (cfPayloadLen s r) false).1.log = l1 at hs1
  generalize hcons : r.consume (cfPayloadLen s r) false = c at c1 c2 c3 hs1 hsome ⊢
  obtain ⟨r', res⟩ := c
  cases res with
  | none => simp at hsome
  | some payload =>
    obtain ⟨d1, d2, d3, d4⟩ := c3 payload rfl
    simp only at c1 c2 d1 d2 d3 d4 hs1 ⊢
    have hact : s1.active = some r' := by rw [hs1]
    have hexc : s1.exc = s.exc := by rw [hs1]
    have hcfg : s1.cfg = s.cfg := by rw [hs1]
    have haddr : s1.addr = s.addr := by rw [hs1]
    unfold cfTail cfSend
    by_cases hpl : payload.length > 0
    · simp only [hpl, if_true]
      have hmk : (makeTxMsg s1.cfg s1.addr (s1.addr.tx.txId .physical)
          (s1.addr.tx.txPrefix ++ [u8 (0x20 + s1.txSeq)] ++ payload)).isSome = true := by
        apply C12.makeTxMsg_isSome _ _ _ _ (by rw [hcfg]; exact hv)
        · simp only [List.length_append, List.length_cons, List.length_nil]; omega
        · simp only [List.length_append, List.length_cons, List.length_nil, hcfg, haddr]
          unfold txPrefixLen at hnd
          omega
      cases hm : makeTxMsg s1.cfg s1.addr (s1.addr.tx.txId .physical)
          (s1.addr.tx.txPrefix ++ [u8 (0x20 + s1.txSeq)] ++ payload) with
      | none => rw [hm] at hmk; cases hmk
      | some msg =>
        simp only [Bool.false_eq_true, if_false]
        by_cases hdep : r'.depleted = true
        · simp only [hdep, if_true]
          split
          · exact ⟨by rw [stopSending_exc]; exact hexc, Or.inl (stopSending_idle _ _).1⟩
          · exact ⟨by rw [stopSending_exc]; exact hexc, Or.inl (stopSending_idle _ _).1⟩
        · simp only [hdep, Bool.false_eq_true, if_false]
          refine ⟨?_, Or.inr ⟨msg, r', ?_, ?_, ?_, c2, c1⟩⟩
          · split <;> simp [startRxFcTimer, hexc]
          · split <;> rfl
          · split <;> simp [startRxFcTimer, hact]
          · unfold Req.remaining; rw [c1, d1]; unfold Req.remaining at hrem; omega
    · have h0 : payload.length = 0 := by omega
      have hdep := d4 (by omega)
      simp only [hpl, if_false, Bool.false_eq_true, hdep, if_true]
      split
      · exact ⟨by rw [stopSending_exc]; exact hexc, Or.inl (stopSending_idle _ _).1⟩
      · exact ⟨by rw [stopSending_exc]; exact hexc, Or.inl (stopSending_idle _ _).1⟩

/-- progress of a whole `processTx` pass in TRANSMIT_CF (empty mailbox, valid configuration, no
    exception raised earlier): it ends the message or hands out a Consecutive Frame -/
theorem processTx_cf_progress_valid (s : State) (r : Req) (hw : TxWf s) (hs : s.txState = .transmitCf)
    (hp : s.pendingFc = false) (hfc : s.lastFc = none) (ha : s.active = some r) (hd : r.depleted = false)
    (ht : s.timerStmin.timedOut s.now = true) (hl : cfPayloadLen s r ≤ allowedNow s)
    (hv : s.cfg.valid = true) (he : s.exc = none) :
    s.processTx.1.exc = none ∧
    (s.processTx.1.txState = .idle ∨
     (∃ msg r', s.processTx.2.1 = some msg ∧ s.processTx.1.active = some r' ∧
       r'.remaining < r.remaining ∧ r'.id = r.id ∧ r'.size = r.size)) := by
  obtain ⟨_, w2, w3, _, _, _⟩ := hw
  have hfcs : s.timerFc.start = none := w2 (by simp [hs])
  obtain ⟨bs, hb⟩ : ∃ bs, s.remoteBs = some bs := by
    have := (w3 hs).2
    cases h : s.remoteBs with
    | none => simp [h] at this
    | some bs => exact ⟨bs, rfl⟩
  rw [processTx_cf_pass s r hs hp hfc hfcs ha hd]
  obtain ⟨⟨f1, f2, f3⟩, _⟩ := finish_progress (s.transmitCf (allowedNow s))
  obtain ⟨p0, p⟩ := transmitCf_progress_valid s (allowedNow s) bs r hb ha hd ht hl hv
  have hx : (s.transmitCf (allowedNow s)).1.exc = none := by rw [p0]; exact he
  have f4 := finish_of_no_exc _ hx
  refine ⟨by rw [f1]; exact hx, ?_⟩
  rcases p with p | ⟨msg, r', p1, p2, p3⟩
  · left; rw [f2]; exact p
  · right
    exact ⟨msg, r', by rw [f4]; exact p1, by rw [f3]; exact p2, p3⟩

end Isotp.Fc

