import Isotp.Proofs.DuplexLive3
/-
  C10, liveness half, part 4: the abstract duplex machine never fails and always terminates — as long as the rounds
  elapsed are within the timeouts.

  * `PInv`: the invariant of a pass — the direction invariant (`DirInv`, DuplexLive3) of both directions, seen from
    the layer that is running `process()`; `mu`: the potential of a layer (3 per frame still to send, 1 per frame
    still to receive, 2 while waiting for a Flow Control that has not arrived, 1 once it sits in the mailbox or while
    the request is still queued).
  * `absRx_ok`, `absTx_ok`: one step of the abstract machine succeeds, keeps the invariant, does not increase the
    potential. `rxLoop_ok`, `txLoop_ok`, `procLoop_ok`, `pass_ok`: the loops and the whole pass.
-/
namespace Isotp.DuplexLive
open Isotp

theorem dataOf_append (l1 l2 : List Fr) : dataOf (l1 ++ l2) = dataOf l1 ++ dataOf l2 := by
  induction l1 with
  | nil => rfl
  | cons f l ih => cases f <;> simp [dataOf, ih]

theorem fcsOf_append (l1 l2 : List Fr) : fcsOf (l1 ++ l2) = fcsOf l1 + fcsOf l2 := by
  induction l1 with
  | nil => simp [fcsOf]
  | cons f l ih => cases f <;> simp [fcsOf, ih] <;> omega

/-- weight of the transmit phase in the potential -/
def txW : TxA → Bool → Nat
  | .W _ _, false => 2
  | .W _ _, true => 1
  | .I, _ => 1
  | _, _ => 0

/-- the potential of a layer -/
def mu (P : Par) (al : AL) : Nat :=
  3 * (P.n - sentOf P.n al.tx) + txW al.tx al.fc + (P.n' - gotOf P.n' al.rx)

/-- **The invariant of a pass**: `x` is the layer running `process()` (parameters `P`), `y` the other one -/
structure PInv (P : Par) (R : Nat) (y x : AL) : Prop where
  out : DirInv P.n P.bs' R x.tx x.fc (fcsOf x.inbox) (dataOf y.inbox ++ dataOf x.out) y.rx y.pend
  inn : DirInv P.n' P.bs R y.tx y.fc (fcsOf y.inbox + fcsOf x.out) (dataOf x.inbox) x.rx x.pend
  yp  : y.pend = false
  yf  : y.fc = false

section steps
variable {P : Par} {R : Nat} {y al : AL}

theorem cfOk_of_le (hK : R ≤ P.kCf) (rx : RxA) : cfOk P R rx = true := by
  cases rx with
  | S i t =>
    cases t with
    | none => rfl
    | some t => simp only [cfOk, decide_eq_true_eq]; omega
  | I => rfl
  | D => rfl

theorem gotOf_lt_of_head {n bs : Nat} {tx : TxA} {fc : Bool} {fcT m : Nat} {rest : List Nat} {rx : RxA} {pend : Bool}
    (h : DirInv n bs R tx fc fcT (m :: rest) rx pend) : gotOf n rx < n := by
  have := h.head.2.1
  have := sentOf_le h.txok
  omega

/-- **one `_process_rx` step of the abstract machine** succeeds, keeps the invariant and decreases the potential -/
theorem absRx_ok (h : PInv P R y al) {it : Fr} {rest : List Fr} (hib : al.inbox = it :: rest) (hp : al.pend = false)
    (hf : al.fc = false) (hK : R ≤ P.kCf) :
    ∃ al' imm, absRx P R { al with inbox := rest } it = some (al', imm) ∧ PInv P R y al' ∧ al'.inbox = rest ∧
      al'.out = al.out ∧ al'.tx = al.tx ∧ al'.done = al.done ∧ imm = (al'.pend || al'.fc) ∧
      (al'.pend && al'.fc) = false ∧ mu P al' < mu P al := by
  obtain ⟨tx, fc, rx, pend, inbox, out, done⟩ := al
  simp only [] at hib hp hf
  subst hib hp hf
  obtain ⟨ho, hi, yp, yf⟩ := h
  simp only [] at ho hi
  unfold absRx
  simp only [cfOk_of_le hK, Bool.not_true, Bool.false_eq_true, if_false]
  cases it with
  | fc =>
    simp only [fcsOf] at ho
    obtain ⟨k, r, htx, -⟩ := ho.fc_W (Or.inr (Or.inl (by omega)))
    subst htx
    refine ⟨_, _, rfl, ⟨ho.fc_arrive, ?_, yp, yf⟩, rfl, rfl, rfl, rfl, rfl, rfl, ?_⟩
    · simpa [dataOf] using hi
    · simp only [mu, txW]; omega
  | dat k =>
    simp only [dataOf] at hi
    simp only [fcsOf] at ho
    have hlt := gotOf_lt_of_head hi
    cases rx with
    | D => exact absurd hi.not_D id
    | I =>
      simp only [gotOf] at hlt
      by_cases hn : P.n' = 1
      · obtain ⟨hk, hi'⟩ := hi.recv_sf hn
        subst hk
        simp only [ne_eq, not_true_eq_false, if_false, hn, if_true]
        refine ⟨_, _, rfl, ⟨ho, hi', yp, yf⟩, rfl, rfl, rfl, rfl, rfl, rfl, ?_⟩
        simp only [mu, gotOf]; omega
      · obtain ⟨hk, hi'⟩ := hi.recv_ff hn
        subst hk
        simp only [ne_eq, not_true_eq_false, if_false, hn]
        refine ⟨_, _, rfl, ⟨ho, hi', yp, yf⟩, rfl, rfl, rfl, rfl, rfl, rfl, ?_⟩
        simp only [mu, gotOf]; omega
    | S i t =>
      simp only [gotOf] at hlt
      by_cases hn : i + 2 = P.n'
      · obtain ⟨hk, hi'⟩ := hi.recv_last hn
        subst hk
        simp only [ne_eq, not_true_eq_false, if_false, hn, if_true]
        refine ⟨_, _, rfl, ⟨ho, hi', yp, yf⟩, rfl, rfl, rfl, rfl, rfl, rfl, ?_⟩
        simp only [mu, gotOf]; omega
      · by_cases hb : 0 < P.bs ∧ (i + 1) % P.bs = 0
        · obtain ⟨hk, hi'⟩ := hi.recv_bnd hn hb
          subst hk
          simp only [ne_eq, not_true_eq_false, if_false, hn, hb, and_self, if_true]
          refine ⟨_, _, rfl, ⟨ho, hi', yp, yf⟩, rfl, rfl, rfl, rfl, rfl, rfl, ?_⟩
          simp only [mu, gotOf]; omega
        · obtain ⟨hk, hi'⟩ := hi.recv_plain hn hb
          subst hk
          simp only [ne_eq, not_true_eq_false, if_false, hn, hb]
          refine ⟨_, _, rfl, ⟨ho, hi', yp, yf⟩, rfl, rfl, rfl, rfl, rfl, rfl, ?_⟩
          simp only [mu, gotOf]; omega

/-! ### the transmit side -/

def isT : TxA → Bool
  | .T _ _ _ => true
  | _ => false

/-- iterations the inner tx loop still needs -/
def need (P : Par) (al : AL) : Nat :=
  if al.pend then 1 else
  match al.tx with
  | .I => 2
  | .W k _ => if al.fc then P.n - k + 1 else 1
  | .T k _ _ => P.n - k + 1
  | .D => 1

theorem need_le_txNeed (P : Par) (al : AL) (h : PInv P R y al) : need P al ≤ txNeed P al.tx := by
  unfold need txNeed
  have := h.out.txok
  split
  · cases al.tx <;> simp only [TxOk] at * <;> omega
  · cases al.tx <;> simp only [] <;> (try split) <;> omega

theorem mu_pushOut (P : Par) (al : AL) (o : Option Fr) : mu P (pushOut al o) = mu P al := by
  cases o <;> rfl

theorem PInv.push_dat (h : DirInv P.n P.bs' R al.tx al.fc (fcsOf al.inbox) (dataOf y.inbox ++ dataOf al.out ++ [k]) y.rx y.pend)
    (hi : DirInv P.n' P.bs R y.tx y.fc (fcsOf y.inbox + fcsOf al.out) (dataOf al.inbox) al.rx al.pend)
    (yp : y.pend = false) (yf : y.fc = false) : PInv P R y (pushOut al (some (.dat k))) := by
  refine ⟨?_, ?_, yp, yf⟩
  · show DirInv _ _ _ _ _ _ (dataOf y.inbox ++ dataOf (al.out ++ [Fr.dat k])) _ _
    rw [dataOf_append, ← List.append_assoc]; exact h
  · show DirInv _ _ _ _ _ (fcsOf y.inbox + fcsOf (al.out ++ [Fr.dat k])) _ _ _
    rw [fcsOf_append]; simpa [fcsOf] using hi

/-- what a step of the transmit state machine guarantees (`al`: before, mailbox empty, nothing pending) -/
structure FsmPost (P : Par) (R : Nat) (y al al' : AL) (out : Option Fr) (imm : Bool) : Prop where
  inv    : PInv P R y (pushOut al' out)
  pend   : al'.pend = false
  fc     : al'.fc = false
  inbox  : al'.inbox = al.inbox
  notI   : al'.tx ≠ .I
  mule   : mu P al' ≤ mu P al
  immT   : imm = true → isT al'.tx = false ∧ isT al.tx = true ∧ out.isSome = true
  cont   : imm = false → out.isSome = true → need P al' < need P al
  keepT  : isT al'.tx = true → isT al.tx = true
  doneD  : al'.tx = .D → al.tx = .D ∨ al'.done = true
  doneM  : al.done = true → al'.done = true
  strict : (al.tx = .I ∨ ∃ k j r, al.tx = .T k j r ∧ (P.z = true ∨ r < R)) → mu P al' < mu P al
  stay   : out = none → al' = al

/-- **the state machine part of `_process_tx`** on the abstract state succeeds and keeps the invariant -/
theorem fsm_ok (h : PInv P R y al) (hp : al.pend = false) (hf : al.fc = false) :
    ∃ al' out imm, absFsm P R al = some (al', out, imm) ∧ FsmPost P R y al al' out imm := by
  obtain ⟨tx, fc, rx, pend, inbox, out, done⟩ := al
  simp only [] at hp hf
  subst hp hf
  obtain ⟨ho, hi, yp, yf⟩ := h
  simp only [] at ho hi
  unfold absFsm
  cases tx with
  | I =>
    simp only []
    by_cases hn : P.n = 1
    · rw [if_pos hn]
      have ho' := ho.emit_sf hn
      refine ⟨_, _, _, rfl, ⟨PInv.push_dat (by rw [List.append_assoc] at *; exact ho') hi yp yf, rfl, rfl, rfl,
        by intro hh; cases hh, ?_, by intro hh; cases hh, ?_, by intro hh; cases hh, fun _ => Or.inr rfl,
        fun _ => rfl, ?_, by intro hh; cases hh⟩⟩
      · simp only [mu, sentOf, txW]; omega
      · intro _ _; simp [need]
      · intro _; simp only [mu, sentOf, txW]; omega
    · rw [if_neg hn]
      have ho' := ho.emit_ff hn
      have n1 := ho.n1
      refine ⟨_, _, _, rfl, ⟨PInv.push_dat (by rw [List.append_assoc] at *; exact ho') hi yp yf, rfl, rfl, rfl,
        by intro hh; cases hh, ?_, by intro hh; cases hh, ?_, by intro hh; cases hh, by intro hh; cases hh,
        fun hd => hd, ?_, by intro hh; cases hh⟩⟩
      · simp only [mu, sentOf, txW]; omega
      · intro _ _; simp [need]
      · intro _; simp only [mu, sentOf, txW]; omega
  | W k r =>
    refine ⟨_, _, _, rfl, ⟨⟨ho, hi, yp, yf⟩, rfl, rfl, rfl, by intro hh; cases hh, Nat.le_refl _,
      by intro hh; cases hh, by intro _ hh; cases hh, fun hh => hh, by intro hh; cases hh, fun hd => hd, ?_, fun _ => rfl⟩⟩
    intro hh
    rcases hh with hh | ⟨_, _, _, hh, _⟩ <;> cases hh
  | D =>
    refine ⟨_, _, _, rfl, ⟨⟨ho, hi, yp, yf⟩, rfl, rfl, rfl, by intro hh; cases hh, Nat.le_refl _,
      by intro hh; cases hh, by intro _ hh; cases hh, fun hh => hh, fun _ => Or.inl rfl, fun hd => hd, ?_, fun _ => rfl⟩⟩
    intro hh
    rcases hh with hh | ⟨_, _, _, hh, _⟩ <;> cases hh
  | T k j r =>
    simp only []
    have htx := ho.txok
    simp only [TxOk] at htx
    by_cases hel : (P.z || decide (r < R)) = true
    · rw [if_pos hel]
      by_cases hl : k + 1 = P.n
      · rw [if_pos hl]
        have ho' := ho.emit_last hl
        refine ⟨_, _, _, rfl, ⟨PInv.push_dat (by rw [List.append_assoc] at *; exact ho') hi yp yf, rfl, rfl, rfl,
          by intro hh; cases hh, ?_, by intro hh; cases hh, ?_, by intro hh; cases hh, fun _ => Or.inr rfl,
          fun _ => rfl, ?_, by intro hh; cases hh⟩⟩
        · simp only [mu, sentOf, txW]; omega
        · intro _ _; simp only [need]; simp; omega
        · intro _; simp only [mu, sentOf, txW]; omega
      · rw [if_neg hl]
        by_cases hb : P.bs' ≠ 0 ∧ j + 1 ≥ P.bs'
        · rw [if_pos hb]
          have ho' := ho.emit_block hl hb
          refine ⟨_, _, _, rfl, ⟨PInv.push_dat (by rw [List.append_assoc] at *; exact ho') hi yp yf, rfl, rfl, rfl,
            by intro hh; cases hh, ?_, fun _ => ⟨rfl, rfl, rfl⟩, by intro hh; cases hh, by intro hh; cases hh,
            by intro hh; cases hh, fun hd => hd, ?_, by intro hh; cases hh⟩⟩
          · simp only [mu, sentOf, txW]; omega
          · intro _; simp only [mu, sentOf, txW]; omega
        · rw [if_neg hb]
          have ho' := ho.emit_more hl hb
          refine ⟨_, _, _, rfl, ⟨PInv.push_dat (by rw [List.append_assoc] at *; exact ho') hi yp yf, rfl, rfl, rfl,
            by intro hh; cases hh, ?_, by intro hh; cases hh, ?_, fun _ => rfl, by intro hh; cases hh,
            fun hd => hd, ?_, by intro hh; cases hh⟩⟩
          · simp only [mu, sentOf, txW]; omega
          · intro _ _; simp only [need]; simp; omega
          · intro _; simp only [mu, sentOf, txW]; omega
    · rw [if_neg hel]
      refine ⟨_, _, _, rfl, ⟨⟨ho, hi, yp, yf⟩, rfl, rfl, rfl, by intro hh; cases hh, Nat.le_refl _,
        by intro hh; cases hh, by intro _ hh; cases hh, fun hh => hh, by intro hh; cases hh, fun hd => hd, ?_,
        fun _ => rfl⟩⟩
      intro hh
      rcases hh with hh | ⟨k', j', r', hh, hz⟩
      · cases hh
      · cases hh
        exfalso; apply hel
        rcases hz with hz | hz
        · simp [hz]
        · simp [hz]

end steps

end Isotp.DuplexLive
