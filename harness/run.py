"""
Generic check runner:  tables -> lake build -> axiom audit -> correspondence + judge -> verdict/evidence.
Used by /verif/check.
"""
import os
import sys
import json
import time
import random
import zlib
import subprocess
import importlib
import multiprocessing
import traceback
import fcntl
import hashlib

HERE = os.path.dirname(os.path.abspath(__file__))
VERIF = os.path.dirname(HERE)
LEAN = os.path.join(VERIF, 'lean')
sys.path.insert(0, HERE)

ALLOWED_AXIOMS = {'propext', 'Classical.choice', 'Quot.sound'}
NPROC = int(os.environ.get('VERIF_NPROC', '16'))

TRUSTED_BASE = [
    "Lean 4.33.0 kernel; axioms of every property theorem audited to be a subset of {propext, Classical.choice, Quot.sound} (no sorry, native_decide, bv_decide, user axioms)",
    "the compiled model driver (Lean compiler + leanc) computes the functions the theorems are about",
    "the Python harness (virtual clock, scenario runner, canonicaliser, table extractor) - a bug there can hide a divergence, not make a false theorem check",
    "correspondence model<->code is differential testing on the scenarios run (finite tables are complete); CPython semantics, zero-time computation on the virtual clock",
    "float->integer conversions of configuration values (timeouts, override_receiver_stmin, rate limiter window/bit budget) are evaluated by Python and handed to the model",
    "source-agreement leaves (Isotp.PyAgree.*): the ast dumper harness/py2lean.py and the interpreter of the Python subset lean/Isotp/Py/Ast.lean (the stated semantics of that subset)",
]


def log(*a):
    print(*a, flush=True)


def load_registry():
    p = os.path.join(HERE, 'registry.json')
    if os.path.exists(p):
        return json.load(open(p))
    return {}


def load_prop(pid):
    prop = importlib.import_module('props.' + pid).PROP
    reg = load_registry().get(pid)
    if reg is not None:
        prop.lean_modules = list(reg['modules'])
        prop.theorems = list(reg['theorems'])
        prop.agree = list(reg.get('agree', []))
        prop.agree_theorems = list(reg.get('agree_theorems', []))
        prop.by_module = dict(reg.get('by_module', {}))
        if os.environ.get('VERIF_SELFTEST_NO_SOURCE_LEAVES'):
            # mutation self-test only (harness/seedmatrix.py; never set by a registered command): the source-agreement leaves are soft
            # obligations (DESIGN 11.7) and rebuilding all of them for each of ~170 seeded changes takes minutes per change; the matrix
            # measures what the hard obligations, the correspondence and the judges report
            soft = [m for m in prop.agree if '.PyAgree.' in m]
            drop = set(t for m in soft for t in prop.by_module.get(m, []))
            prop.agree = [m for m in prop.agree if m not in soft]
            prop.agree_theorems = [t for t in prop.agree_theorems if t not in drop]
            for m in soft:
                prop.by_module.pop(m, None)
    return prop


# ----------------------------------------------------------------------------------------------
# build + audit
# ----------------------------------------------------------------------------------------------

class BuildLock:
    def __enter__(self):
        self.f = open(os.path.join(LEAN, '.buildlock'), 'w')
        fcntl.flock(self.f, fcntl.LOCK_EX)
        return self

    def __exit__(self, *a):
        fcntl.flock(self.f, fcntl.LOCK_UN)
        self.f.close()


def extract_tables():
    """regenerate lean/Isotp/Generated.lean from /repo (content-hashed: no rewrite when unchanged)"""
    try:
        import extract_tables as et
    except ImportError:
        return None
    return et.main()


def lake_build(targets, timeout=3000):
    t0 = time.time()
    p = subprocess.run(['lake', 'build'] + targets, cwd=LEAN, stdout=subprocess.PIPE, stderr=subprocess.STDOUT, timeout=timeout)
    out = p.stdout.decode(errors='replace')
    return p.returncode == 0, out, time.time() - t0


def import_closure(modules):
    """source files of the given Isotp.* modules and of everything they import inside this project"""
    import re
    seen, todo = {}, list(modules)
    while todo:
        m = todo.pop()
        if m in seen or not (m == 'Isotp' or m.startswith('Isotp.')):
            continue
        path = os.path.join(LEAN, *m.split('.')) + '.lean'
        if not os.path.exists(path):
            continue
        seen[m] = path
        for line in open(path, encoding='utf-8'):
            mm = re.match(r'\s*(?:public\s+)?import\s+(\S+)', line)
            if mm:
                todo.append(mm.group(1))
    return seen


def grep_forbidden(modules):
    """forbidden tokens outside comments in the lean sources of the given modules and of everything they import in Isotp/"""
    bad = []
    import re
    pat = re.compile(r'\b(sorry|admit|native_decide|bv_decide|implemented_by|unsafe)\b|^\s*axiom\s|maxHeartbeats\s+0\b')
    for mod, path in sorted(import_closure(modules).items()):
        depth = 0
        for ln, line in enumerate(open(path, encoding='utf-8'), 1):
            s = line
            res = ''
            i = 0
            while i < len(s):
                if s.startswith('/-', i):
                    depth += 1
                    i += 2
                elif s.startswith('-/', i) and depth > 0:
                    depth -= 1
                    i += 2
                else:
                    if depth == 0:
                        res += s[i]
                    i += 1
            res = res.split('--')[0]
            if pat.search(res):
                bad.append('%s:%d: %s' % (os.path.relpath(path, LEAN), ln, line.strip()))
    return bad


def leanchecker(modules):
    """independent re-check of the compiled .olean files of the given modules (thorough tier)"""
    try:
        p = subprocess.run(['lake', 'env', 'leanchecker'] + list(modules), cwd=LEAN, stdout=subprocess.PIPE, stderr=subprocess.STDOUT, timeout=3000)
    except Exception as e:
        return False, 'leanchecker failed to run: %r' % (e,)
    return p.returncode == 0, p.stdout.decode(errors='replace')


def audit_axioms(pid, theorems, imports):
    """#print axioms for every property theorem. returns dict theorem -> (ok, axioms/err)"""
    if not theorems:
        return {}
    os.makedirs(os.path.join(LEAN, '.lake', 'audit'), exist_ok=True)
    path = os.path.join(LEAN, '.lake', 'audit', 'Audit_%s.lean' % pid)
    with open(path, 'w') as f:
        for m in imports:
            f.write('import %s\n' % m)
        for t in theorems:
            f.write('#print axioms %s\n' % t)
    p = subprocess.run(['lake', 'env', 'lean', path], cwd=LEAN, stdout=subprocess.PIPE, stderr=subprocess.STDOUT, timeout=1200)
    out = p.stdout.decode(errors='replace')
    res = {}
    # parse: "'name' depends on axioms: [a, b]" or "'name' does not depend on any axioms"
    import re
    flat = out.replace('\n', ' ')
    for t in theorems:
        m = re.search(r"'%s' depends on axioms: \[([^\]]*)\]" % re.escape(t), flat)
        if m:
            axs = [a.strip() for a in m.group(1).split(',') if a.strip()]
            res[t] = (set(axs) <= ALLOWED_AXIOMS, axs)
            continue
        m = re.search(r"'%s' does not depend on any axioms" % re.escape(t), flat)
        if m:
            res[t] = (True, [])
            continue
        res[t] = (False, ['<not found: %s>' % out.strip()[:300]])
    return res


# ----------------------------------------------------------------------------------------------
# scenarios
# ----------------------------------------------------------------------------------------------

def shard_worker(args):
    pid, tier, seed, shard, nshards, budget_scale, judge_only = args
    try:
        import core
        prop = load_prop(pid)
        rng = random.Random((seed * 1000003 + shard * 7919) ^ zlib.crc32(pid.encode()))
        t0 = time.time()
        failures = []
        nfail = 0
        keys = set()
        stats = {'scenarios': 0, 'ops': 0, 'lines_compared': 0, 'dist': {}}
        samples = []
        CHUNK_BYTES = 24 * 1024 * 1024       # scenarios are streamed: bounded memory whatever the payload sizes

        def flush(runs):
            nonlocal nfail
            model_outs = None
            if not judge_only:
                idx = [k for k, r in enumerate(runs) if r[1] is not None and not r[0].get('no_model')]
                mo = core.run_model_batch([runs[k][1] for k in idx]) if idx else []
                model_outs = {k: mo[j] for j, k in enumerate(idx)}
            for k, (sc, li, lo, herr) in enumerate(runs):
                if herr is not None:
                    nfail += 1
                    if len(failures) < 20:
                        failures.append({'kind': 'harness', 'scenario': sc, 'detail': herr})
                    continue
                stats['scenarios'] += 1
                stats['ops'] += len(li)
                verdicts = prop.judge(*prop.judge_view(sc, li, lo)) if not sc.get('no_judge') else []
                for (clause, detail) in verdicts:
                    nfail += 1
                    if len(failures) < 20 or not any(f['kind'] == 'judge' and f.get('clause') == clause for f in failures):
                        failures.append({'kind': 'judge', 'scenario': sc, 'clause': clause, 'detail': detail})
                if model_outs is not None and k in model_outs:
                    mo = model_outs[k]
                    d = first_diff_projected(prop, li, lo, mo)
                    stats['lines_compared'] += len(li)
                    if d is not None:
                        nfail += 1
                        if len(failures) < 20 or not any(f['kind'] == 'correspondence' for f in failures):
                            failures.append({'kind': 'correspondence', 'scenario': sc, 'line': d, 'op': li[d],
                                             'impl': lo[d] if d < len(lo) else '<missing>', 'model': mo[d] if d < len(mo) else '<missing>'})
                vsc, vli, vlo = prop.judge_view(sc, li, lo)
                key = prop.nontrivial_key(vsc, vli, vlo)
                if key is not None:
                    keys.add(tuple_key(key))
                prop.tally(stats['dist'], vsc, vli, vlo)
                if len(samples) < 2 and shard == 0:
                    samples.append({'ops': [x[:400] for x in li[:12]], 'impl_out': [x[:400] for x in lo[:12]]})

        runs, size = [], 0
        for sc in prop.generate(rng, tier, shard, nshards, budget_scale):
            try:
                li, lo = prop.run_impl(sc)
                runs.append((sc, li, lo, None))
                size += sum(map(len, li)) + sum(map(len, lo))
            except Exception:
                runs.append((sc, None, None, 'harness-exception: %s' % traceback.format_exc()[-800:]))
            if size > CHUNK_BYTES or len(runs) >= 4000:
                flush(runs)
                runs, size = [], 0
        if runs:
            flush(runs)
        failures = failures[:40]
        return {'shard': shard, 'stats': stats, 'keys': list(keys), 'failures': failures, 'nfail': nfail,
                'samples': samples, 'wall': time.time() - t0}
    except Exception:
        return {'shard': shard, 'fatal': traceback.format_exc()}


def first_diff_projected(prop, li, lo, mo):
    n = max(len(lo), len(mo))
    for k in range(n):
        a = lo[k] if k < len(lo) else '<missing>'
        b = mo[k] if k < len(mo) else '<missing>'
        if a == b:
            continue
        op = li[k] if k < len(li) else ''
        if prop.project(op, a) != prop.project(op, b):
            return k
    return None


def eval_one(prop, sc, judge_only=False):
    """re-run one scenario; returns (failure kind or None, info)"""
    import core
    try:
        li, lo = prop.run_impl(sc)
    except Exception:
        return 'harness', {'detail': traceback.format_exc()[-500:]}
    v = prop.judge(*prop.judge_view(sc, li, lo)) if not sc.get('no_judge') else []
    if v:
        return 'judge', {'clause': v[0][0], 'detail': v[0][1], 'lines_in': li, 'impl_out': lo}
    if judge_only or sc.get('no_model'):
        return None, {'lines_in': li, 'impl_out': lo}
    mo = core.run_model_batch([li])[0]
    d = first_diff_projected(prop, li, lo, mo)
    if d is not None:
        return 'correspondence', {'line': d, 'op': li[d], 'impl': lo[d] if d < len(lo) else '<missing>',
                                  'model': mo[d] if d < len(mo) else '<missing>', 'lines_in': li, 'impl_out': lo, 'model_out': mo}
    return None, {'lines_in': li, 'impl_out': lo, 'model_out': mo}


def shrink(prop, sc, kind, clause=None, max_evals=400):
    """delta-debugging on the op list (keeps configuration ops)"""
    ops = sc['ops']
    head_idx = [k for k, o in enumerate(ops) if o['op'] in prop.keep_ops or o.get('keep')]
    body = [(k, o) for k, o in enumerate(ops) if not (o['op'] in prop.keep_ops or o.get('keep'))]
    fixed = [(k, ops[k]) for k in head_idx]
    evals = [0]

    def bad(b):
        evals[0] += 1
        cand = dict(sc, ops=[o for _, o in sorted(fixed + b, key=lambda x: x[0])])
        k, info = eval_one(prop, cand, judge_only=(kind == 'judge'))
        if k != kind:
            return False
        if kind == 'judge' and clause is not None and info.get('clause') != clause:
            return False
        return True

    n = 2
    while len(body) >= 2 and evals[0] < max_evals:
        chunk = max(1, len(body) // n)
        reduced = False
        for i in range(0, len(body), chunk):
            cand = body[:i] + body[i + chunk:]
            if cand and bad(cand):
                body = cand
                n = max(n - 1, 2)
                reduced = True
                break
        if not reduced:
            if chunk == 1:
                break
            n = min(n * 2, len(body))
    return dict(sc, ops=[o for _, o in sorted(fixed + body, key=lambda x: x[0])])


def write_replay(pid, obj):
    d = os.path.join(VERIF, 'replays')
    os.makedirs(d, exist_ok=True)
    h = hashlib.sha1(json.dumps(obj, sort_keys=True, default=str).encode()).hexdigest()[:10]
    path = os.path.join(d, '%s_%s.json' % (pid, h))
    with open(path, 'w') as f:
        json.dump(obj, f, indent=1, default=jsonable)
    return path


def jsonable(o):
    if isinstance(o, (bytes, bytearray)):
        return {'__bytes__': bytes(o).hex()}
    if isinstance(o, tuple):
        return list(o)
    if isinstance(o, set):
        return sorted(o)
    return repr(o)


def dejson(o):
    if isinstance(o, dict):
        if '__bytes__' in o and len(o) == 1:
            return bytes.fromhex(o['__bytes__'])
        return {k: dejson(v) for k, v in o.items()}
    if isinstance(o, list):
        return [dejson(x) for x in o]
    return o


def load_known():
    p = os.path.join(VERIF, 'known_findings.json')
    if not os.path.exists(p):
        return []
    return json.load(open(p)).get('findings', [])


def match_known(pid, failure, known):
    for k in known:
        if k.get('property') != pid or k.get('status') != 'known':
            continue
        sig = k.get('signature', {})
        if sig.get('clause') and failure.get('clause') != sig['clause']:
            continue
        needle = sig.get('detail_contains')
        if needle and needle not in str(failure.get('detail', '')):
            continue
        return k
    return None


# ----------------------------------------------------------------------------------------------
# main entry
# ----------------------------------------------------------------------------------------------

def run_check(pid, tier, seed):
    t_start = time.time()
    prop = load_prop(pid)
    ev_dir = os.environ.get('VERIF_EVIDENCE_DIR') or os.path.join(VERIF, 'evidence')    # (the mutation self-test redirects it)
    os.makedirs(ev_dir, exist_ok=True)
    evidence_path = os.path.join(ev_dir, '%s.json' % pid)
    violations = []      # (replay_path, suffix)
    notes = []
    known_hits = []

    # 1+2. tables and build
    proof_broken = []
    with BuildLock():
        try:
            tab = extract_tables()
        except Exception:
            tab = None
            notes.append('table extraction failed: ' + traceback.format_exc()[-600:])
            proof_broken.append(('tables', 'table extraction raised: ' + traceback.format_exc()[-300:]))
        try:
            # the source translator: dumps the pure functions of /repo, as they are now, into lean/Isotp/Py/Src.lean; the PyAgree leaves of this
            # property (if any) prove that interpreting that dump gives what the model computes
            import py2lean
            src = py2lean.main()
            bad_src = [k for k, v in src['functions'].items() if v != 'ok']
            if bad_src:
                notes.append('source translator: outside the supported subset or missing: ' + ', '.join(bad_src))
        except Exception:
            src = None
            proof_broken.append(('source-translator', 'py2lean raised: ' + traceback.format_exc()[-300:]))
        ok, out, bt = lake_build(['driver'])
        if not ok:
            log(out[-3000:])
            log('INFRASTRUCTURE: model driver does not build')
            return 2
        targets = list(prop.lean_modules) + list(prop.agree)
        mod_ok = {}
        for tgt in targets:
            ok, out, bt2 = lake_build([tgt])
            mod_ok[tgt] = ok
            if not ok:
                tail = '\n'.join([l for l in out.splitlines() if 'error' in l][:8])
                proof_broken.append((tgt, tail or out[-600:]))
        # 3. audit
        forb = grep_forbidden(targets)
        if forb:
            proof_broken.append(('audit', 'forbidden tokens: ' + '; '.join(forb[:5])))
        th_ok = {}
        agree_th = list(getattr(prop, 'agree_theorems', []))
        built = [m for m in list(prop.lean_modules) + list(prop.agree) if mod_ok.get(m, False)]
        all_th = list(prop.theorems) + agree_th
        if built and all_th:
            by_mod = getattr(prop, 'by_module', None)
            if by_mod:
                # one audit per module (modules written independently may declare helper lemmas of the same name and cannot
                # always be imported together), in parallel
                from concurrent.futures import ThreadPoolExecutor
                jobs = [(m, ts) for m, ts in by_mod.items() if m in built and ts]
                with ThreadPoolExecutor(max_workers=8) as ex:
                    for r in ex.map(lambda mt: audit_axioms('%s_%s' % (pid, mt[0].split('.')[-1]), mt[1], [mt[0]]), jobs):
                        th_ok.update(r)
            else:
                th_ok = audit_axioms(pid, all_th, built)
            for t, (okk, axs) in th_ok.items():
                if not okk:
                    proof_broken.append((t, 'axioms: %s' % axs))
        if tier == 'thorough' and built:
            okc, outc = leanchecker(built)
            if not okc:
                proof_broken.append(('leanchecker', outc[-400:]))
    all_th = list(prop.theorems) + list(getattr(prop, 'agree_theorems', []))
    obligations = len(all_th)
    discharged = sum(1 for t in all_th if th_ok.get(t, (False,))[0])
    log('[%s] build+audit: %d/%d obligations discharged (%.1fs)' % (pid, discharged, obligations, time.time() - t_start))
    for (what, why) in proof_broken:
        log('[%s] PROOF OBLIGATION BROKEN: %s :: %s' % (pid, what, why.replace('\n', ' | ')[:400]))

    # 4. corpus + scenarios
    known = load_known()
    nshards = NPROC
    scale = 1.0
    agg = {'scenarios': 0, 'ops': 0, 'lines_compared': 0, 'dist': {}}
    keys = set()
    failures = []
    samples = []
    fatal = None

    def run_round(judge_only, scale, seed_off=0):
        nonlocal fatal
        jobs = [(pid, tier, seed + seed_off, s, nshards, scale, judge_only) for s in range(nshards)]
        with multiprocessing.Pool(min(NPROC, nshards)) as pool:
            for r in pool.imap_unordered(shard_worker, jobs):
                if 'fatal' in r:
                    fatal = r['fatal']
                    continue
                for k in ('scenarios', 'ops', 'lines_compared'):
                    agg[k] += r['stats'][k]
                for k, v in r['stats']['dist'].items():
                    agg['dist'][k] = agg['dist'].get(k, 0) + v
                keys.update(map(tuple_key, r['keys']))
                failures.extend(r['failures'])
                samples.extend(r['samples'])

    # source drift steering (DESIGN 4.2b): a modelled function of /repo changed -> deeper quick run (never a verdict by itself)
    drifted = []
    try:
        import anchors
        drifted = anchors.drift(os.environ.get('VERIF_REPO', '/repo')).get(pid, [])
    except Exception:
        notes.append('anchor check failed: ' + traceback.format_exc()[-300:])
    if drifted and tier == 'quick':
        scale = float(os.environ.get('VERIF_DRIFT_SCALE', '6'))
        log('[%s] source drift in %s -> quick budget x%g' % (pid, ', '.join(d.split(':')[1] for d in drifted[:6]), scale))
    run_round(judge_only=False, scale=scale)
    if fatal:
        log(fatal)
        log('INFRASTRUCTURE: scenario worker crashed')
        return 2

    judge_fail = [f for f in failures if f['kind'] == 'judge']
    corr_fail = [f for f in failures if f['kind'] == 'correspondence']
    harn_fail = [f for f in failures if f['kind'] == 'harness']
    if harn_fail:
        log(harn_fail[0]['detail'])
        log('INFRASTRUCTURE: harness exception')
        return 2

    # 5. failing-input search when the proof or the correspondence is broken and no judge failure yet
    if (proof_broken or corr_fail) and not judge_fail:
        log('[%s] proof/correspondence broken -> failing-input search on the implementation (judge only)' % pid)
        for off, sc_scale in ((101, 4.0), (202, 8.0)):
            run_round(judge_only=True, scale=sc_scale, seed_off=off)
            judge_fail = [f for f in failures if f['kind'] == 'judge']
            if judge_fail:
                break

    reported = set()
    for f in judge_fail:
        kf = match_known(pid, f, known)
        if kf is not None:
            if kf['what'] not in known_hits:
                known_hits.append(kf['what'])
            continue
        if f['clause'] in reported:
            continue
        reported.add(f['clause'])
        sc = f['scenario']
        if not os.environ.get('VERIF_NOSHRINK'):
            try:
                sc = shrink(prop, sc, 'judge', f['clause'])
            except Exception:
                pass
        kind, info = eval_one(prop, sc, judge_only=True)
        rp = write_replay(pid, {'property': pid, 'kind': 'judge', 'clause': f['clause'], 'detail': info.get('detail', f['detail']),
                                'scenario': sc, 'lines_in': info.get('lines_in'), 'impl_trace': info.get('impl_out'), 'seed': seed})
        violations.append((rp, ''))
    # Two ties hold the model to the source: the correspondence (+ regenerated tables) and the source-agreement leaves Isotp.PyAgree.*
    # (DESIGN 11.7).  A leaf that no longer checks is a broken proof obligation like any other: the budget is deepened, the failing-input
    # search runs, and if nothing is found the violation is still reported, ending in no-failing-input-found (the interface's rule for
    # "no longer shown to hold"; a behaviour-preserving rewrite of a translated function is reported that way too).
    # VERIF_LENIENT_SOURCE_TIE=1 selects the other policy: when ONLY source-agreement leaves no longer check while every property theorem,
    # every table leaf and the correspondence are intact, report a degraded tie (TIE-DEGRADED, exit 0) instead.
    def is_soft(w):
        return ('.PyAgree.' in w or w == 'source-translator') and bool(os.environ.get('VERIF_LENIENT_SOURCE_TIE'))
    soft_broken = [(w, y) for (w, y) in proof_broken if is_soft(w)]
    hard_broken = [(w, y) for (w, y) in proof_broken if not is_soft(w)]
    tie_degraded = []
    if soft_broken and not hard_broken and not corr_fail and not judge_fail:
        tie_degraded = sorted(set(w for w, _ in soft_broken))
        proof_broken_for_verdict = []
    else:
        proof_broken_for_verdict = proof_broken
    if not judge_fail or (not violations and (proof_broken_for_verdict or corr_fail)):
        # no concrete failing input
        if corr_fail:
            f = corr_fail[0]
            sc = f['scenario']
            try:
                sc = shrink(prop, sc, 'correspondence')
            except Exception:
                pass
            kind, info = eval_one(prop, sc)
            if kind != 'correspondence':
                info = f
            rp = write_replay(pid, {'property': pid, 'kind': 'correspondence',
                                    'broken': 'correspondence model<->implementation on the observables of %s' % pid,
                                    'first_difference': {'op': info.get('op'), 'impl': info.get('impl'), 'model': info.get('model')},
                                    'scenario': sc, 'lines_in': info.get('lines_in'), 'impl_trace': info.get('impl_out'),
                                    'model_trace': info.get('model_out'), 'seed': seed})
            violations.append((rp, ' no-failing-input-found'))
        elif proof_broken_for_verdict:
            rp = write_replay(pid, {'property': pid, 'kind': 'proof', 'broken': [{'obligation': w, 'why': y} for w, y in proof_broken],
                                    'seed': seed})
            violations.append((rp, ' no-failing-input-found'))

    wall = time.time() - t_start
    ev = {
        'property_id': pid, 'tier': tier, 'seed': seed, 'level': 'proof',
        'coverage': {
            'obligations': obligations, 'discharged': discharged,
            'checker_cmd': 'cd /verif/lean && lake build %s && lake env lean .lake/audit/Audit_%s.lean  (#print axioms on: %s)' % (
                ' '.join(list(prop.lean_modules) + list(prop.agree)), pid, ', '.join(all_th)),
            'trusted_base': TRUSTED_BASE + list(getattr(prop, 'extra_trusted', [])),
            'theorems': {t: {'ok': th_ok.get(t, (False, []))[0], 'axioms': th_ok.get(t, (False, ['<not built>']))[1]} for t in all_th},
            'agree_leaves': {a: bool(mod_ok.get(a)) for a in prop.agree},
            'evaluations': agg['scenarios'], 'distinct_nontrivial': len(keys),
            'rule': prop.rule,
            'samples': samples[:3] if samples else [{'note': 'no scenario sampled'}],
            'traces_validated_against_impl': agg['scenarios'],
            'lines_compared': agg['lines_compared'],
            'disagreements_checked': len(corr_fail),
            'input_distribution': agg['dist'],
            'proof_obligations_broken': [w for w, _ in proof_broken],
            'source_tie_degraded': tie_degraded,
            'source_drift': drifted,
            'source_translation': src,
            'notes': notes,
            'budget_scale': scale,
            'known_findings_seen': known_hits,
        },
        'assumptions': list(prop.assumptions),
        'wall_s': round(wall, 2),
        'violations': len(violations),
    }
    tmp = evidence_path + '.tmp'
    with open(tmp, 'w') as f:
        json.dump(ev, f, indent=1, default=jsonable)
    os.replace(tmp, evidence_path)

    for w in known_hits:
        log('KNOWN-FINDING: property=%s %s' % (pid, w))
    if tie_degraded:
        log('[%s] TIE-DEGRADED: source-agreement obligations no longer check against the current source (%s); property theorems, table leaves and '
            'the correspondence (%d scenarios incl. the failing-input search) are intact: no violation' % (pid, ', '.join(tie_degraded)[:300], agg['scenarios']))
    for rp, suffix in violations:
        log('VIOLATION property=%s replay=%s%s' % (pid, rp, suffix))
    log('[%s] tier=%s seed=%d scenarios=%d distinct_nontrivial=%d obligations=%d/%d wall=%.1fs -> %s' % (
        pid, tier, seed, agg['scenarios'], len(keys), discharged, obligations, wall, 'VIOLATION' if violations else 'ok'))
    return 1 if violations else 0


def tuple_key(k):
    if isinstance(k, (list, tuple)):
        return tuple(tuple_key(x) for x in k)
    return k


def replay(path):
    obj = dejson(json.load(open(path)))
    pid = obj['property']
    prop = load_prop(pid)
    with BuildLock():
        ok, out, _ = lake_build(['driver'])
    if 'scenario' not in obj:
        log(json.dumps(obj, indent=1))
        return 0
    kind, info = eval_one(prop, obj['scenario'])
    li = info.get('lines_in') or []
    lo = info.get('impl_out') or []
    mo = info.get('model_out') or []
    for k in range(len(li)):
        log('> ' + li[k][:300])
        log('   impl : ' + (lo[k] if k < len(lo) else '')[:300])
        if mo:
            log('   model: ' + (mo[k] if k < len(mo) else '')[:300])
    log('verdict: %s %s' % (kind, {k: v for k, v in info.items() if k in ('clause', 'detail', 'line', 'op')}))
    return 1 if kind else 0
