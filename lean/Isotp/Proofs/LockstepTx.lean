import Isotp.Proofs.LockstepBase
/-
  C01, liveness half, part 2: the sending layer A, pass by pass.

  `mkA ca aa x` is the state of a layer built by `State.init ca aa` (rate limiter off) that has done nothing but send:
  all reception-side fields are still the initial ones, the transmit-side fields are the parameters `x : AP`.
  Every `process()` call of the sender during a transfer maps such a state to such a state; the lemmas
  `passA_*` give the parameters after the call, exactly (events logged included).
-/
namespace Isotp.Lockstep
open Isotp Isotp.State Isotp.Spec Isotp.Proofs

/-! ## frames of a segmented message -/

/-- data field of frame 0 (the First Frame) -/
def ffData (tc : TxCfg) (p : Bytes) : Bytes := padFrame tc (tc.pre ++ ffHeader p.length ++ p.take (ffRoom tc p.length))

/-- data field of frame `k ≥ 1` (a Consecutive Frame) of the segmentation of `p` -/
def cfData (tc : TxCfg) (p : Bytes) (k : Nat) : Bytes :=
  padFrame tc (tc.pre ++ [UInt8.ofNat (0x20 + k % 16)] ++ (p.drop (carried tc p.length k)).take (cfRoom tc))

/-- data field of frame `k` -/
def frameData (tc : TxCfg) (p : Bytes) (k : Nat) : Bytes := if k = 0 then ffData tc p else cfData tc p k

/-- `frameData` is the reference segmentation, frame by frame -/
theorem segment_getElem? (tc : TxCfg) (hv : ValidTx tc) (p : Bytes) (h : NeedsFF tc p.length) (k : Nat) :
    (segment tc p)[k]? = if k = 0 ∨ carried tc p.length k < p.length then some (frameData tc p k) else none := by
  by_cases hk : k = 0
  · subst hk; simp [frameData, ffData, segment_ff_zero tc p h]
  · rw [segment_ff_succ tc hv p h k (by omega)]
    simp [frameData, cfData, hk]

/-- the CAN message A emits for frame `k` of a segmented message (always the physical identifier) -/
def wireA (ca : Cfg) (aa : Addr) (p : Bytes) (k : Nat) : CanMsg :=
  frameMsg ca aa (aa.tx.txId .physical) (frameData (TxCfg.of ca aa) p k)

/-- the request `send` builds for a bytes payload -/
def reqFor (ca : Cfg) (id : Nat) (p : Bytes) : Req := { id := id, size := p.length, src := p, tat := ca.defaultTat }

theorem reqFor_fresh (ca : Cfg) (id : Nat) (p : Bytes) : Fresh (reqFor ca id p) p :=
  ⟨⟨rfl, Nat.zero_le _, by simp [reqFor], rfl⟩, rfl⟩

theorem send_bytes (s : State) (id : Nat) (p : Bytes) (h32 : p.length < 4294967296)
    (hf : ¬ (s.cfg.defaultTat = .functional ∧
            p.length + (if s.cfg.txDl = 8 then 1 else 2) + s.txPrefixLen > s.cfg.txDl)) :
    (s.send { id := id, size := p.length, src := p }).1 = { s with txQueue := s.txQueue ++ [reqFor s.cfg id p] } ∧
    (s.send { id := id, size := p.length, src := p }).2 = (if s.cfg.blocking then some .BlockingSendTimeout else none) := by
  have := send_accepts s { id := id, size := p.length, src := p } (by simp) (by simp; omega) (by simpa using hf)
  simpa [reqOf, reqFor] using this

/-- the request after `c` bytes have been pulled -/
def reqAt (ca : Cfg) (id : Nat) (p : Bytes) (c : Nat) : Req := Req.adv (reqFor ca id p) c

theorem reqAt_feeds (ca : Cfg) (id : Nat) (p : Bytes) (c : Nat) (hc : c ≤ p.length) : Feeds (reqAt ca id p c) p :=
  (reqFor_fresh ca id p).feeds_adv c hc

theorem reqAt_consumed (ca : Cfg) (id : Nat) (p : Bytes) (c : Nat) : (reqAt ca id p c).consumed = c := by
  simp [reqAt, Req.adv, reqFor]

theorem reqAt_src_length (ca : Cfg) (id : Nat) (p : Bytes) (c : Nat) : (reqAt ca id p c).src.length = p.length - c := by
  simp [reqAt, Req.adv, reqFor]

theorem reqAt_depleted (ca : Cfg) (id : Nat) (p : Bytes) (c : Nat) (hc : c < p.length) :
    (reqAt ca id p c).depleted = false := by
  simp [reqAt, Req.adv, reqFor, Req.depleted]; omega

theorem reqAt_adv (ca : Cfg) (id : Nat) (p : Bytes) (c m : Nat) :
    Req.adv (reqAt ca id p c) m = reqAt ca id p (c + m) := Req.adv_adv _ _ _

theorem reqAt_instr (ca : Cfg) (id : Nat) (p : Bytes) (c : Nat) : (reqAt ca id p c).instr = false := rfl
theorem reqAt_id (ca : Cfg) (id : Nat) (p : Bytes) (c : Nat) : (reqAt ca id p c).id = id := rfl

theorem pullLog_reqAt (ca : Cfg) (id : Nat) (p : Bytes) (c m : Nat) : pullLog (reqAt ca id p c) m = [] := by
  simp [pullLog, reqAt_instr]

/-! ## the sender's state -/

/-- the transmit-side fields (and clock, inbox, log) of the sender -/
structure AP where
  now        : Nat := 0
  txState    : TxSt := .idle
  txQueue    : List Req := []
  active     : Option Req := none
  txFrameLen : Nat := 0
  txSeq      : Nat := 0
  txBlockCnt : Nat := 0
  remoteBs   : Option Nat := none
  timerFc    : Option Nat := none       -- start of the N_Bs timer (its timeout is `ca.tFc`)
  timerStmin : Timer := {}
  lastFc     : Option FcFrame := none
  inbox      : List (Nat × CanMsg) := []
  log        : List Ev := []

def mkA (ca : Cfg) (aa : Addr) (x : AP) : State :=
  { cfg := ca, addr := aa, now := x.now, timerCf := { timeout := ca.tCf },
    txState := x.txState, txQueue := x.txQueue, active := x.active, txFrameLen := x.txFrameLen, txSeq := x.txSeq,
    txBlockCnt := x.txBlockCnt, remoteBs := x.remoteBs, timerFc := { start := x.timerFc, timeout := ca.tFc },
    timerStmin := x.timerStmin, lastFc := x.lastFc, rl := { enabled := false }, inbox := x.inbox, log := x.log }

theorem init_eq_mkA (ca : Cfg) (aa : Addr) (h : ca.rlEnable = false) : State.init ca aa = mkA ca aa {} := by
  simp [State.init, mkA, h]

theorem rlUpd_mkA (ca : Cfg) (aa : Addr) (x : AP) : rlUpd (mkA ca aa x) = mkA ca aa x := by
  simp [rlUpd, mkA, limiter_update_fresh]

theorem allowedNow_mkA (ca : Cfg) (aa : Addr) (x : AP) : Fc.allowedNow (mkA ca aa x) = noLimit := rfl

theorem enter_mkA (ca : Cfg) (aa : Addr) (x : AP) (now : Nat) :
    enter now (mkA ca aa x) = mkA ca aa { x with now := now, log := [] } := rfl

theorem pushAll_mkA (ca : Cfg) (aa : Addr) (x : AP) (ms : List CanMsg) :
    pushAll (mkA ca aa x) ms = mkA ca aa { x with inbox := x.inbox ++ ms.map (fun m => (0, m)) } := rfl

theorem finish_mkA (ca : Cfg) (aa : Addr) (x : AP) (out : Option CanMsg) (imm : Bool) :
    Fc.finish (mkA ca aa x, out, imm) = (mkA ca aa x, out, imm) := by
  unfold Fc.finish
  cases out <;> simp [mkA, Limiter.inform]


/-! ## `_process_tx` of the sender, case by case -/

/-- `startTx` for a payload that needs a First Frame, when the rate limiter does not interfere -/
theorem startTx_ff_exact (s : State) (r : Req) (allowed : Nat) (p : Bytes) (hv : s.cfg.valid = true)
    (hf : Feeds r p) (h0 : r.consumed = 0) (hn : p.length < 4294967296)
    (hff : NeedsFF (TxCfg.of s.cfg s.addr) p.length) (hen : ffRoom (TxCfg.of s.cfg s.addr) p.length ≤ r.src.length)
    (hal : s.cfg.txDl ≤ allowed) :
    s.startTx r allowed =
      ({ s with active := some (Req.adv r (ffRoom (TxCfg.of s.cfg s.addr) p.length)),
                log := pullLog r (ffRoom (TxCfg.of s.cfg s.addr) p.length) ++ s.log,
                txFrameLen := p.length, txSeq := 1, txState := .waitFc,
                timerFc := { start := some s.now, timeout := s.cfg.tFc } },
        some (frameMsg s.cfg s.addr (s.addr.tx.txId .physical) (ffData (TxCfg.of s.cfg s.addr) p))) := by
  have hvt := valid_of s.cfg s.addr hv
  have hdl := txDl_fix _ hvt
  have hpre := hvt.pre
  have hsz := hf.size
  have hlt := ffRoom_lt _ _ hff hvt
  have hrem : ffRoom (TxCfg.of s.cfg s.addr) p.length ≤ r.remaining := by simp [Req.remaining, h0, hsz]; omega
  have hca := consumeActive_ok { s with txFrameLen := p.length } r _ true p hf hrem hen
  rw [h0, List.drop_zero] at hca
  obtain ⟨hs1, hs2⟩ := hff
  have hs2' : ¬ (s.addr.tx.txPrefix.length + 2 + p.length ≤ s.cfg.txDl) := fun hh => hs2 ⟨hs1, hh⟩
  unfold startTx
  simp only [txPrefixLen, Req.remaining, h0, Nat.sub_zero, startTx_match_bigMin, sizeOnFirst_eq, hsz]
  simp only [hs1, decide_false, Bool.false_eq_true, if_false]
  have hnot : ¬ (p.length + 2 + s.addr.tx.txPrefix.length ≤ s.cfg.txDl) := by omega
  rw [if_neg hnot]
  have hroom : (if p.length ≤ 4095 then s.cfg.txDl - 2 - s.addr.tx.txPrefix.length
      else s.cfg.txDl - 6 - s.addr.tx.txPrefix.length) = ffRoom (TxCfg.of s.cfg s.addr) p.length := rfl
  simp only [hroom, ffHeader_eq _ hn]
  rw [hca]
  simp only []
  have hffl : (ffHeader p.length).length + ffRoom (TxCfg.of s.cfg s.addr) p.length + s.addr.tx.txPrefix.length
      = s.cfg.txDl := by
    simp only [TxCfg.of] at hdl hpre
    unfold ffHeader ffRoom be32
    simp only [TxCfg.of]
    split <;> simp <;> omega
  have hlen : (s.addr.tx.txPrefix ++ ffHeader p.length ++ p.take (ffRoom (TxCfg.of s.cfg s.addr) p.length)).length
      = s.cfg.txDl := by
    simp only [List.length_append, List.length_take]
    omega
  have hdl8 := hdl.2.1
  simp only [TxCfg.of] at hdl8
  rw [makeTxMsg_eq _ _ hv _ _ (by rw [hlen]; omega) (by rw [hlen]; exact Nat.le_refl _)]
  simp only [startRxFcTimer]
  rw [if_pos (by rw [hlen]; exact hal)]
  rfl

/-- `transmitCf`, exactly, when the separation time has elapsed and the rate limiter does not interfere -/
theorem transmitCf_exact (s : State) (allowed : Nat) (p : Bytes) (k : Nat) (r : Req) (rbs : Nat)
    (hv : s.cfg.valid = true) (hact : s.active = some r) (hbs : s.remoteBs = some rbs) (hf : Feeds r p)
    (hk : 1 ≤ k)
    (hc : r.consumed = carried (TxCfg.of s.cfg s.addr) p.length k) (hlt : r.consumed < p.length)
    (hseq : s.txSeq = k % 16)
    (hen : min (cfRoom (TxCfg.of s.cfg s.addr)) (p.length - r.consumed) ≤ r.src.length)
    (hto : s.timerStmin.timedOut s.now = true) (hal : cfRoom (TxCfg.of s.cfg s.addr) ≤ allowed) :
    s.transmitCf allowed =
      if carried (TxCfg.of s.cfg s.addr) p.length (k + 1) = p.length then
        ((cfSent s r (min (cfRoom (TxCfg.of s.cfg s.addr)) (p.length - r.consumed))).stopSending true,
          some (frameMsg s.cfg s.addr (s.addr.tx.txId .physical) (cfData (TxCfg.of s.cfg s.addr) p k)), false)
      else if rbs ≠ 0 ∧ s.txBlockCnt + 1 ≥ rbs then
        ({ cfSent s r (min (cfRoom (TxCfg.of s.cfg s.addr)) (p.length - r.consumed)) with
              txState := .waitFc, timerFc := { start := some s.now, timeout := s.cfg.tFc } },
          some (frameMsg s.cfg s.addr (s.addr.tx.txId .physical) (cfData (TxCfg.of s.cfg s.addr) p k)), true)
      else
        (cfSent s r (min (cfRoom (TxCfg.of s.cfg s.addr)) (p.length - r.consumed)),
          some (frameMsg s.cfg s.addr (s.addr.tx.txId .physical) (cfData (TxCfg.of s.cfg s.addr) p k)), false) := by
  have hvt := valid_of s.cfg s.addr hv
  have hdl := txDl_fix _ hvt
  have hpre := hvt.pre
  have hsz := hf.size
  have hroom := cfRoom_pos _ hvt
  have hstep := carried_step (TxCfg.of s.cfg s.addr) p.length k hk (by omega)
  unfold transmitCf
  rw [hbs, hact]
  simp only []
  rw [if_pos hto]
  have hrm : r.remaining = p.length - r.consumed := by simp [Req.remaining, hsz]
  have hroom' : s.cfg.txDl - 1 - s.txPrefixLen = cfRoom (TxCfg.of s.cfg s.addr) := rfl
  simp only [hroom', hrm]
  have hal' : min (cfRoom (TxCfg.of s.cfg s.addr)) (p.length - r.consumed) ≤ allowed := by omega
  rw [if_pos hal']
  have hca := consumeActive_ok s r (min (cfRoom (TxCfg.of s.cfg s.addr)) (p.length - r.consumed)) false p hf
    (by rw [hrm]; omega) hen
  rw [hca]
  simp only []
  generalize hm : min (cfRoom (TxCfg.of s.cfg s.addr)) (p.length - r.consumed) = m at *
  have hpl : ((p.drop r.consumed).take m).length = m := by simp; omega
  have htake : (p.drop r.consumed).take m = (p.drop r.consumed).take (cfRoom (TxCfg.of s.cfg s.addr)) := by
    rw [List.take_eq_take_iff, List.length_drop]; omega
  have hm0 : m > 0 := by omega
  simp only [hpl, if_pos hm0]
  simp only [TxCfg.of] at hdl hpre
  have hcr : cfRoom (TxCfg.of s.cfg s.addr) = s.cfg.txDl - 1 - s.addr.tx.txPrefix.length := rfl
  rw [makeTxMsg_eq _ _ hv _ _ (by simp [hpl]; omega) (by simp [hpl]; omega)]
  simp only [Bool.false_eq_true, if_false]
  have hdata : s.addr.tx.txPrefix ++ [u8 (32 + s.txSeq)] ++ List.take m (List.drop r.consumed p) =
      (TxCfg.of s.cfg s.addr).pre ++ [UInt8.ofNat (32 + k % 16)] ++
        List.take (cfRoom (TxCfg.of s.cfg s.addr)) (List.drop (carried (TxCfg.of s.cfg s.addr) p.length k) p) := by
    rw [hseq, htake, hc]; rfl
  rw [hdata]
  have hflag := hf.flag
  have hdep : (Req.adv r m).depleted = decide (p.length ≤ r.consumed + m) := by
    simp [Req.depleted, Req.adv, hflag, hsz]
  have hrem' : (Req.adv r m).remaining = p.length - (r.consumed + m) := by
    simp [Req.remaining, Req.adv, hsz]
  rw [hdep, hrem']
  by_cases hfin : p.length ≤ r.consumed + m
  · have h1 : carried (TxCfg.of s.cfg s.addr) p.length (k + 1) = p.length := by omega
    have h2 : ¬ (p.length - (r.consumed + m) > 0) := by omega
    rw [if_pos h1]
    simp only [hfin, decide_true, if_true]
    rw [if_neg h2]
    rfl
  · have h1 : ¬ carried (TxCfg.of s.cfg s.addr) p.length (k + 1) = p.length := by omega
    rw [if_neg h1]
    simp only [hfin, decide_false, Bool.false_eq_true, if_false]
    by_cases hb : rbs ≠ 0 ∧ s.txBlockCnt + 1 ≥ rbs
    · rw [if_pos hb, if_pos (by simpa using hb)]; rfl
    · rw [if_neg hb, if_neg (by simpa using hb)]; rfl


theorem txDl_le_noLimit (ca : Cfg) (aa : Addr) (hva : ca.valid = true) :
    ca.txDl ≤ noLimit ∧ cfRoom (TxCfg.of ca aa) ≤ noLimit := by
  have := (txDl_fix _ (valid_of ca aa hva)).2.2
  simp only [TxCfg.of, noLimit, cfRoom] at *
  omega



/-- idle with the request at the head of the queue: the First Frame goes out, the FSM waits for the Flow Control -/
theorem processTx_first (ca : Cfg) (aa : Addr) (id : Nat) (p : Bytes) (hva : ca.valid = true)
    (h32 : p.length < 4294967296) (hff : NeedsFF (TxCfg.of ca aa) p.length) (x : AP)
    (hst : x.txState = .idle) (hq : x.txQueue = [reqFor ca id p]) (hlf : x.lastFc = none) (htf : x.timerFc = none) :
    (mkA ca aa x).processTx =
      (mkA ca aa { x with txQueue := [], active := some (reqAt ca id p (carried (TxCfg.of ca aa) p.length 1)),
                          txFrameLen := p.length, txSeq := 1, txState := .waitFc, timerFc := some x.now },
        some (wireA ca aa p 0), false) := by
  have hvt := valid_of ca aa hva
  have hfr := reqFor_fresh ca id p
  have hlt := ffRoom_lt _ _ hff hvt
  have h1 : (mkA ca aa x).processTx =
      Fc.finish (((mkA ca aa { x with txQueue := [], active := some (reqFor ca id p) }).startTx (reqFor ca id p) noLimit).1,
                 ((mkA ca aa { x with txQueue := [], active := some (reqFor ca id p) }).startTx (reqFor ca id p) noLimit).2, false) :=
    Fc.processTx_next_message (mkA ca aa x) (reqFor ca id p) [] hst rfl hlf (by simp [mkA, htf]) hq
      (hfr.not_depleted (by omega))
  have h2 : (mkA ca aa { x with txQueue := [], active := some (reqFor ca id p) }).startTx (reqFor ca id p) noLimit =
      (mkA ca aa { x with txQueue := [], active := some (reqAt ca id p (ffRoom (TxCfg.of ca aa) p.length)),
                          log := pullLog (reqFor ca id p) (ffRoom (TxCfg.of ca aa) p.length) ++ x.log,
                          txFrameLen := p.length, txSeq := 1, txState := .waitFc, timerFc := some x.now },
        some (wireA ca aa p 0)) :=
    startTx_ff_exact _ (reqFor ca id p) noLimit p hva hfr.1 hfr.2 h32 hff (by simp [reqFor]; exact Nat.le_of_lt hlt)
      (txDl_le_noLimit ca aa hva).1
  rw [h1, h2, finish_mkA, carried_one _ _ hvt hff]
  have : pullLog (reqFor ca id p) (ffRoom (TxCfg.of ca aa) p.length) = [] := by simp [pullLog, reqFor]
  rw [this]
  rfl

/-- WAIT_FC, nothing in the mailbox, N_Bs not expired: nothing happens -/
theorem processTx_waitFc (ca : Cfg) (aa : Addr) (id : Nat) (p : Bytes) (x : AP) (c tF : Nat)
    (hst : x.txState = .waitFc) (hlf : x.lastFc = none) (hact : x.active = some (reqAt ca id p c))
    (hc : c < p.length) (htf : x.timerFc = some tF) (hnow : x.now ≤ tF + ca.tFc) (h0 : ca.tFc ≠ 0) :
    (mkA ca aa x).processTx = (mkA ca aa x, none, false) :=
  Fc.processTx_waitFc_quiet (mkA ca aa x) (reqAt ca id p c) hst rfl hlf
    (by simp only [mkA, htf]; exact timedOut_running _ _ _ hnow h0) hact (reqAt_depleted ca id p c hc)

/-- IDLE, empty queue: nothing happens -/
theorem processTx_idle (ca : Cfg) (aa : Addr) (x : AP)
    (hst : x.txState = .idle) (hq : x.txQueue = []) (hlf : x.lastFc = none) (htf : x.timerFc = none) :
    (mkA ca aa x).processTx = (mkA ca aa x, none, false) := by
  have h1 : (mkA ca aa x).processTx = Fc.finish (Fc.fsm (Fc.afterDepleted (mkA ca aa x)) noLimit) :=
    Fc.processTx_quiet (mkA ca aa x) rfl hlf (by simp only [mkA, htf]; rfl) (by intro h; exact absurd hst h)
  have h2 : Fc.afterDepleted (mkA ca aa x) = mkA ca aa x := by
    rw [Fc.afterDepleted_eq]; simp [Fc.depletedCond, mkA, hst]
  have h3 : Fc.fsm (mkA ca aa x) noLimit = (mkA ca aa { x with txQueue := [] }, none, false) := by
    unfold Fc.fsm
    simp only [mkA, hst, hq, readTxQueue]
  rw [h1, h2, h3, finish_mkA]
  have : ({ x with txQueue := [] } : AP) = x := by cases x; simp_all
  rw [this]

/-- WAIT_FC with a ContinueToSend in the mailbox (N_Bs not expired): the pass goes on as a TRANSMIT_CF pass with
    the announced block size and separation time in force, the STmin timer started now -/
theorem processTx_fc (ca : Cfg) (aa : Addr) (x : AP) (fc : FcFrame) (tF : Nat)
    (hst : x.txState = .waitFc) (hlf : x.lastFc = some fc) (h0s : fc.status = 0)
    (htf : x.timerFc = some tF) (hnow : x.now ≤ tF + ca.tFc) (h0 : ca.tFc ≠ 0) :
    (mkA ca aa x).processTx =
      (mkA ca aa { x with lastFc := none, txState := .transmitCf, timerFc := none, remoteBs := some fc.bs,
                          txBlockCnt := 0, timerStmin := { start := some x.now, timeout := Fc.sepOf ca fc } }).processTx := by
  have hto : (mkA ca aa x).timerFc.timedOut (mkA ca aa x).now = false := by
    simp only [mkA, htf]; exact timedOut_running _ _ _ hnow h0
  have hcts : Fc.ctsHonoured (mkA ca aa { x with lastFc := none }) fc = true := by
    have : (mkA ca aa { x with lastFc := none }).timerFc.timedOut (mkA ca aa { x with lastFc := none }).now = false := hto
    simp only [Fc.ctsHonoured, this, h0s]
    simp [mkA, hst]
  have h1 : Fc.afterFc (mkA ca aa x) = ((mkA ca aa { x with lastFc := none }).handleFc fc, false) := by
    unfold Fc.afterFc
    have : (mkA ca aa x).lastFc = some fc := hlf
    simp only [this, h0s]
    rfl
  have h2 : (mkA ca aa { x with lastFc := none }).handleFc fc =
      mkA ca aa { x with lastFc := none, txState := .transmitCf, timerFc := none, remoteBs := some fc.bs,
                         txBlockCnt := 0, timerStmin := { start := some x.now, timeout := Fc.sepOf ca fc } } := by
    rw [Fc.handleFc_cts _ fc hcts]
    simp [mkA, hst, Timer.stop]
  have h3 : (Fc.afterFc (mkA ca aa x)).2 = false := by rw [h1]
  rw [Fc.processTx_continue (mkA ca aa x) rfl h3, h1]
  simp only []
  rw [h2, Fc.afterTimeout_of_not_timedOut (by rfl)]


/-- TRANSMIT_CF while the separation time has not elapsed: nothing happens -/
theorem processTx_T_wait (ca : Cfg) (aa : Addr) (id : Nat) (p : Bytes) (x : AP) (c bs : Nat)
    (hst : x.txState = .transmitCf) (hlf : x.lastFc = none) (htf : x.timerFc = none)
    (hact : x.active = some (reqAt ca id p c)) (hc : c < p.length) (hbs : x.remoteBs = some bs)
    (hto : x.timerStmin.timedOut x.now = false) :
    (mkA ca aa x).processTx = (mkA ca aa x, none, false) := by
  have h1 : (mkA ca aa x).processTx = Fc.finish ((mkA ca aa x).transmitCf noLimit) :=
    Fc.processTx_cf_pass (mkA ca aa x) (reqAt ca id p c) hst rfl hlf (by simp only [mkA, htf]) hact
      (reqAt_depleted ca id p c hc)
  have h2 : (mkA ca aa x).transmitCf noLimit = (mkA ca aa x, none, false) := by
    have ha : (mkA ca aa x).active = some (reqAt ca id p c) := hact
    have hb : (mkA ca aa x).remoteBs = some bs := hbs
    have ht : (mkA ca aa x).timerStmin.timedOut (mkA ca aa x).now = false := hto
    unfold transmitCf
    rw [hb, ha]
    simp only [ht, Bool.false_eq_true, if_false]
  rw [h1, h2, finish_mkA]

/-- TRANSMIT_CF once the separation time has elapsed: frame `k` goes out; then the message is complete, or the
    block is complete (back to WAIT_FC, immediate receive pass requested), or the FSM stays in TRANSMIT_CF with
    the STmin timer restarted -/
theorem processTx_T_emit (ca : Cfg) (aa : Addr) (id : Nat) (p : Bytes) (hva : ca.valid = true) (x : AP) (k bs : Nat)
    (hk : 1 ≤ k) (hst : x.txState = .transmitCf) (hlf : x.lastFc = none) (htf : x.timerFc = none)
    (hact : x.active = some (reqAt ca id p (carried (TxCfg.of ca aa) p.length k)))
    (hc : carried (TxCfg.of ca aa) p.length k < p.length) (hseq : x.txSeq = k % 16) (hbs : x.remoteBs = some bs)
    (hto : x.timerStmin.timedOut x.now = true) :
    (mkA ca aa x).processTx =
      if carried (TxCfg.of ca aa) p.length (k + 1) = p.length then
        (mkA ca aa { x with txState := .idle, active := none, txFrameLen := 0, txSeq := 0, txBlockCnt := 0,
                            remoteBs := none, timerFc := none,
                            timerStmin := { start := none, timeout := x.timerStmin.timeout },
                            log := .done id true :: x.log },
          some (wireA ca aa p k), false)
      else if bs ≠ 0 ∧ x.txBlockCnt + 1 ≥ bs then
        (mkA ca aa { x with active := some (reqAt ca id p (carried (TxCfg.of ca aa) p.length (k + 1))),
                            txSeq := (k + 1) % 16, txBlockCnt := x.txBlockCnt + 1,
                            timerStmin := { start := some x.now, timeout := x.timerStmin.timeout },
                            txState := .waitFc, timerFc := some x.now },
          some (wireA ca aa p k), true)
      else
        (mkA ca aa { x with active := some (reqAt ca id p (carried (TxCfg.of ca aa) p.length (k + 1))),
                            txSeq := (k + 1) % 16, txBlockCnt := x.txBlockCnt + 1,
                            timerStmin := { start := some x.now, timeout := x.timerStmin.timeout } },
          some (wireA ca aa p k), false) := by
  have hvt := valid_of ca aa hva
  have hstep := carried_step (TxCfg.of ca aa) p.length k hk hc
  have hroom := cfRoom_pos _ hvt
  have h1 : (mkA ca aa x).processTx = Fc.finish ((mkA ca aa x).transmitCf noLimit) :=
    Fc.processTx_cf_pass (mkA ca aa x) (reqAt ca id p _) hst rfl hlf (by simp only [mkA, htf]) hact
      (reqAt_depleted ca id p _ hc)
  have hcons := reqAt_consumed ca id p (carried (TxCfg.of ca aa) p.length k)
  have h2 := transmitCf_exact (mkA ca aa x) noLimit p k (reqAt ca id p (carried (TxCfg.of ca aa) p.length k)) bs
    hva hact hbs (reqAt_feeds ca id p _ (Nat.le_of_lt hc)) hk hcons (by rw [hcons]; exact hc) hseq
    (by rw [hcons, reqAt_src_length]; exact Nat.min_le_right _ _) hto (txDl_le_noLimit ca aa hva).2
  have hm : carried (TxCfg.of ca aa) p.length k +
      min (cfRoom (TxCfg.of ca aa)) (p.length - carried (TxCfg.of ca aa) p.length k) =
      carried (TxCfg.of ca aa) p.length (k + 1) := by omega
  have hseq' : (k % 16 + 1) % 16 = (k + 1) % 16 := by omega
  have hw : wireA ca aa p k = frameMsg ca aa (aa.tx.txId .physical) (cfData (TxCfg.of ca aa) p k) := by
    have : k ≠ 0 := by omega
    simp [wireA, frameData, this]
  rw [h1, h2, hcons]
  have hcs : cfSent (mkA ca aa x) (reqAt ca id p (carried (TxCfg.of ca aa) p.length k))
      (min (cfRoom (TxCfg.of ca aa)) (p.length - carried (TxCfg.of ca aa) p.length k)) =
      mkA ca aa { x with active := some (reqAt ca id p (carried (TxCfg.of ca aa) p.length (k + 1))),
                         txSeq := (k + 1) % 16, txBlockCnt := x.txBlockCnt + 1,
                         timerStmin := { start := some x.now, timeout := x.timerStmin.timeout } } := by
    unfold cfSent
    rw [reqAt_adv, pullLog_reqAt, hm]
    simp [mkA, hseq, hseq', Timer.startAt]
  have hcfg : (mkA ca aa x).cfg = ca := rfl
  have haddr : (mkA ca aa x).addr = aa := rfl
  have hnow : (mkA ca aa x).now = x.now := rfl
  have hbc : (mkA ca aa x).txBlockCnt = x.txBlockCnt := rfl
  simp only [hcfg, haddr, hnow, hbc]
  rw [hcs, ← hw]
  split
  · have hstop : (mkA ca aa { x with
            active := some (reqAt ca id p (carried (TxCfg.of ca aa) p.length (k + 1))),
            txSeq := (k + 1) % 16, txBlockCnt := x.txBlockCnt + 1,
            timerStmin := { start := some x.now, timeout := x.timerStmin.timeout } }).stopSending true =
        mkA ca aa { x with txState := .idle, active := none, txFrameLen := 0, txSeq := 0, txBlockCnt := 0,
                            remoteBs := none, timerFc := none,
                            timerStmin := { start := none, timeout := x.timerStmin.timeout },
                            log := .done id true :: x.log } := by
      simp [stopSending, mkA, emit, Timer.stop, reqAt_id]
    rw [hstop, finish_mkA]
  · split
    · exact finish_mkA ca aa { x with
        active := some (reqAt ca id p (carried (TxCfg.of ca aa) p.length (k + 1))),
        txSeq := (k + 1) % 16, txBlockCnt := x.txBlockCnt + 1,
        timerStmin := { start := some x.now, timeout := x.timerStmin.timeout },
        txState := .waitFc, timerFc := some x.now } _ _
    · exact finish_mkA ca aa _ _ _


/-! ## the transmit loop of the sender -/

theorem emit_mkA (ca : Cfg) (aa : Addr) (x : AP) (e : Ev) :
    (mkA ca aa x).emit e = mkA ca aa { x with log := e :: x.log } := rfl

theorem txLoop_congr (f : Nat) (s s' : State) (n : Nat) (h : s.processTx = s'.processTx) :
    txLoop (f + 1) s n = txLoop (f + 1) s' n := by
  simp only [txLoop, h]

section run
variable (ca : Cfg) (aa : Addr) (id : Nat) (p : Bytes) (bs : Nat)

/-- sender parameters after frame `k` went out and completed the message -/
def apD (x : AP) (k : Nat) : AP :=
  { x with txState := .idle, active := none, txFrameLen := 0, txSeq := 0, txBlockCnt := 0, remoteBs := none,
           timerFc := none, timerStmin := { start := none, timeout := x.timerStmin.timeout },
           log := .tx x.now (wireA ca aa p k) :: .done id true :: x.log }

/-- … completed the block: waiting for the next Flow Control -/
def apW (x : AP) (k : Nat) : AP :=
  { x with active := some (reqAt ca id p (carried (TxCfg.of ca aa) p.length (k + 1))),
           txSeq := (k + 1) % 16, txBlockCnt := x.txBlockCnt + 1,
           timerStmin := { start := some x.now, timeout := x.timerStmin.timeout },
           txState := .waitFc, timerFc := some x.now,
           log := .tx x.now (wireA ca aa p k) :: x.log }

/-- … and more frames of the block are to come -/
def apT (x : AP) (k : Nat) : AP :=
  { x with active := some (reqAt ca id p (carried (TxCfg.of ca aa) p.length (k + 1))),
           txSeq := (k + 1) % 16, txBlockCnt := x.txBlockCnt + 1,
           timerStmin := { start := some x.now, timeout := x.timerStmin.timeout },
           log := .tx x.now (wireA ca aa p k) :: x.log }

/-- The transmit loop in TRANSMIT_CF, as a function on the sender parameters: frames go out while the separation
    time is (still) elapsed, until the message or the block is complete. Result: parameters, number of frames,
    "run `process` again" flag. (`f` is fuel: more than the number of bytes left is enough.) -/
def runA : Nat → AP → Nat → AP × Nat × Bool
  | 0, x, _ => (x, 0, false)
  | f + 1, x, k =>
    if x.timerStmin.timedOut x.now then
      if carried (TxCfg.of ca aa) p.length (k + 1) = p.length then (apD ca aa id p x k, 1, false)
      else if bs ≠ 0 ∧ x.txBlockCnt + 1 ≥ bs then (apW ca aa id p x k, 1, true)
      else ((runA f (apT ca aa id p x k) (k + 1)).1, (runA f (apT ca aa id p x k) (k + 1)).2.1 + 1,
            (runA f (apT ca aa id p x k) (k + 1)).2.2)
    else (x, 0, false)

/-- what the transmit pass needs to know about the sender in TRANSMIT_CF with `k` frames out -/
structure TCond (x : AP) (k : Nat) : Prop where
  k1   : 1 ≤ k
  st   : x.txState = .transmitCf
  lf   : x.lastFc = none
  tf   : x.timerFc = none
  act  : x.active = some (reqAt ca id p (carried (TxCfg.of ca aa) p.length k))
  more : carried (TxCfg.of ca aa) p.length k < p.length
  seq  : x.txSeq = k % 16
  rbs  : x.remoteBs = some bs
  txq  : x.txQueue = []

theorem txLoop_T (hva : ca.valid = true) : ∀ (f e : Nat) (x : AP) (k n : Nat),
    p.length - carried (TxCfg.of ca aa) p.length k < f → TCond ca aa id p bs x k →
    txLoop (f + e) (mkA ca aa x) n =
      (mkA ca aa (runA ca aa id p bs f x k).1, n + (runA ca aa id p bs f x k).2.1,
        (runA ca aa id p bs f x k).2.2, false) := by
  intro f
  induction f with
  | zero => intro e x k n h; omega
  | succ f ih =>
    intro e x k n hf hc
    have hfe : f + 1 + e = (f + e) + 1 := by omega
    rw [hfe]
    by_cases hto : x.timerStmin.timedOut x.now = true
    · have hstep := carried_step (TxCfg.of ca aa) p.length k hc.k1 hc.more
      have hroom := cfRoom_pos _ (valid_of ca aa hva)
      have hpt := processTx_T_emit ca aa id p hva x k bs hc.k1 hc.st hc.lf hc.tf hc.act hc.more hc.seq hc.rbs hto
      unfold runA
      simp only [hto, if_true]
      by_cases h1 : carried (TxCfg.of ca aa) p.length (k + 1) = p.length
      · rw [if_pos h1] at hpt
        rw [if_pos h1]
        rw [txLoop_more _ _ _ _ _ hpt rfl, emit_mkA]
        have hmore := hc.more
        obtain ⟨f', hf'⟩ : ∃ f', f + e = f' + 1 := ⟨f + e - 1, by omega⟩
        rw [hf']
        exact txLoop_none _ _ _ _ (processTx_idle ca aa _ rfl hc.txq hc.lf rfl) rfl
      · rw [if_neg h1] at hpt
        rw [if_neg h1]
        by_cases h2 : bs ≠ 0 ∧ x.txBlockCnt + 1 ≥ bs
        · rw [if_pos h2] at hpt
          rw [if_pos h2]
          rw [txLoop_imm _ _ _ _ _ hpt rfl, emit_mkA]
          rfl
        · rw [if_neg h2] at hpt
          rw [if_neg h2]
          rw [txLoop_more _ _ _ _ _ hpt rfl, emit_mkA]
          have hc' : TCond ca aa id p bs (apT ca aa id p x k) (k + 1) :=
            ⟨by omega, hc.st, hc.lf, hc.tf, rfl, by omega, rfl, hc.rbs, hc.txq⟩
          have := ih e (apT ca aa id p x k) (k + 1) (n + 1) (by omega) hc'
          show txLoop (f + e) (mkA ca aa (apT ca aa id p x k)) (n + 1) = _
          rw [this]
          simp only [Nat.add_assoc, Nat.add_comm 1]
    · have hto' : x.timerStmin.timedOut x.now = false := by simpa using hto
      unfold runA
      simp only [hto', Bool.false_eq_true, if_false, Nat.add_zero]
      exact txLoop_none _ _ _ _
        (processTx_T_wait ca aa id p x _ bs hc.st hc.lf hc.tf hc.act hc.more hc.rbs hto') rfl

end run


/-! ## `process()` of the sender, pass by pass -/

section pass
variable (ca : Cfg) (aa : Addr) (id : Nat) (p : Bytes) (bs : Nat)

theorem rxLoop_nil_mkA (x : AP) (st : Stats) (h : x.inbox = []) :
    rxLoop true (mkA ca aa x) st (mkA ca aa x).inbox =
      (mkA ca aa { x with log := .rxNone x.now :: x.log }, st, false) := by
  have : (mkA ca aa x).inbox = [] := h
  rw [this, rxLoop_nil, checkTimeoutsRx_noop _ (by rfl)]
  have : ({ x with inbox := [], log := .rxNone x.now :: x.log } : AP) = { x with log := .rxNone x.now :: x.log } := by
    cases x; simp_all
  rw [← this]
  rfl

theorem sw_false_mkA (x : AP) (h : x.txQueue = []) :
    (!(mkA ca aa x).txQueue.isEmpty && decide ((mkA ca aa x).rxState = .idle) &&
      decide ((mkA ca aa x).txState = .idle)) = false := by
  simp [mkA, h]

/-- an iteration of `process` in which nothing arrives and the transmit pass has nothing to do -/
theorem quietIterA (f : Nat) (st : Stats) (x : AP) (hq : x.txQueue = []) (hib : x.inbox = [])
    (hqt : (mkA ca aa { x with log := .rxNone x.now :: x.log }).processTx =
      (mkA ca aa { x with log := .rxNone x.now :: x.log }, none, false)) :
    ∃ st', processLoop (f + 1) true true (mkA ca aa x) st =
      (mkA ca aa { x with log := .rxNone x.now :: x.log }, st', false) := by
  obtain ⟨st', h⟩ := processLoop_iter f (mkA ca aa x) st (mkA ca aa { x with log := .rxNone x.now :: x.log })
    (mkA ca aa { x with log := .rxNone x.now :: x.log }) false false (sw_false_mkA ca aa x hq)
    (fun st => ⟨st, rxLoop_nil_mkA ca aa x st hib⟩)
    (fun n => ⟨n, by
      rw [rlUpd_mkA, txFuel_eq]
      exact txLoop_none _ _ _ _ hqt rfl⟩) rfl
  exact ⟨st', by simpa using h⟩

/-- the sender parameters at the end of a pass whose transmit loop ended as `r` -/
def finA (r : AP × Nat × Bool) : AP := if r.2.2 then { r.1 with log := .rxNone r.1.now :: r.1.log } else r.1

/-- first pass after `send`: the First Frame goes out -/
theorem passA_I (hva : ca.valid = true) (h32 : p.length < 4294967296) (hff : NeedsFF (TxCfg.of ca aa) p.length)
    (h0 : ca.tFc ≠ 0) (x : AP)
    (hst : x.txState = .idle) (hq : x.txQueue = [reqFor ca id p]) (hlf : x.lastFc = none) (htf : x.timerFc = none)
    (hib : x.inbox = []) :
    ((mkA ca aa x).process true true).1 =
      mkA ca aa { x with txQueue := [], active := some (reqAt ca id p (carried (TxCfg.of ca aa) p.length 1)),
                          txFrameLen := p.length, txSeq := 1, txState := .waitFc, timerFc := some x.now,
                          log := .rxNone x.now :: .tx x.now (wireA ca aa p 0) :: x.log } := by
  have hvt := valid_of ca aa hva
  have hlt := carried_one_lt _ _ hvt hff
  -- the state after the First Frame
  let x1 : AP := { x with txQueue := [], active := some (reqAt ca id p (carried (TxCfg.of ca aa) p.length 1)),
                          txFrameLen := p.length, txSeq := 1, txState := .waitFc, timerFc := some x.now,
                          log := .tx x.now (wireA ca aa p 0) :: x.log }
  have hq1 : (mkA ca aa x1).processTx = (mkA ca aa x1, none, false) :=
    processTx_waitFc ca aa id p x1 _ x.now rfl hlf rfl hlt rfl (Nat.le_add_right _ _) h0
  have hsw : (!(mkA ca aa x).txQueue.isEmpty && decide ((mkA ca aa x).rxState = .idle) &&
      decide ((mkA ca aa x).txState = .idle)) = true := by simp [mkA, hq, hst]
  unfold State.process
  rw [processFuel_eq]
  obtain ⟨st1, h1⟩ := processLoop_iter_sw (2 * ((mkA ca aa x).inbox.length + (mkA ca aa x).txQueue.length) + 6 + 1)
    (mkA ca aa x) {} (mkA ca aa x1) false hsw
    (fun n => ⟨n + 1, by
      rw [rlUpd_mkA, txFuel_eq]
      rw [txLoop_more _ _ _ _ _ (processTx_first ca aa id p hva h32 hff x hst hq hlf htf) rfl, emit_mkA]
      exact txLoop_none _ _ _ _ hq1 rfl⟩) rfl
  rw [h1]
  have hq2 : (mkA ca aa { x1 with log := .rxNone x1.now :: x1.log }).processTx =
      (mkA ca aa { x1 with log := .rxNone x1.now :: x1.log }, none, false) :=
    processTx_waitFc ca aa id p _ _ x.now rfl hlf rfl hlt rfl (Nat.le_add_right _ _) h0
  obtain ⟨st2, h2⟩ := quietIterA ca aa (2 * ((mkA ca aa x).inbox.length + (mkA ca aa x).txQueue.length) + 6)
    st1 x1 rfl hib hq2
  rw [h2]


theorem carried_le' (tc : TxCfg) (n k : Nat) : carried tc n k ≤ n := carried_le tc n k

/-- when the transmit loop asks for another `process` iteration, the sender is back in WAIT_FC -/
theorem runA_W : ∀ (f : Nat) (x : AP) (k : Nat), TCond ca aa id p bs x k → (runA ca aa id p bs f x k).2.2 = true →
    (runA ca aa id p bs f x k).1.txState = .waitFc ∧ (runA ca aa id p bs f x k).1.lastFc = none ∧
    (runA ca aa id p bs f x k).1.txQueue = [] ∧ (runA ca aa id p bs f x k).1.inbox = x.inbox ∧
    (runA ca aa id p bs f x k).1.now = x.now ∧ (runA ca aa id p bs f x k).1.timerFc = some x.now ∧
    ∃ k', (runA ca aa id p bs f x k).1.active = some (reqAt ca id p (carried (TxCfg.of ca aa) p.length k')) ∧
      carried (TxCfg.of ca aa) p.length k' < p.length := by
  intro f
  induction f with
  | zero => intro x k _ h; simp [runA] at h
  | succ f ih =>
    intro x k hc h
    unfold runA at h ⊢
    by_cases hto : x.timerStmin.timedOut x.now = true
    · simp only [hto, if_true] at h ⊢
      by_cases h1 : carried (TxCfg.of ca aa) p.length (k + 1) = p.length
      · simp [h1] at h
      · simp only [h1, if_false] at h ⊢
        have hle := carried_le' (TxCfg.of ca aa) p.length (k + 1)
        by_cases h2 : bs ≠ 0 ∧ x.txBlockCnt + 1 ≥ bs
        · rw [if_pos h2]
          exact ⟨rfl, hc.lf, hc.txq, rfl, rfl, rfl, k + 1, rfl, by omega⟩
        · rw [if_neg h2] at h ⊢
          have hc' : TCond ca aa id p bs (apT ca aa id p x k) (k + 1) :=
            ⟨by omega, hc.st, hc.lf, hc.tf, rfl, by omega, rfl, hc.rbs, hc.txq⟩
          exact ih _ _ hc' h
    · simp [hto] at h

theorem txFuel_T (x : AP) (k : Nat) (hc : TCond ca aa id p bs x k) :
    (mkA ca aa x).txFuel = (p.length - carried (TxCfg.of ca aa) p.length k + 1) + 5 := by
  have h1 : (mkA ca aa x).txQueue = [] := hc.txq
  have h2 : (mkA ca aa x).active = some (reqAt ca id p (carried (TxCfg.of ca aa) p.length k)) := hc.act
  simp only [txFuel, h1, h2, reqFuel, Req.remaining, reqAt_consumed, List.map_nil, List.sum_nil]
  simp [reqAt, Req.adv, reqFor]

/-- the end of a sender pass: a second, quiet iteration when the block was completed -/
theorem tailA (h0 : ca.tFc ≠ 0) (F f : Nat) (x : AP) (k : Nat) (st' : Stats) (hc : TCond ca aa id p bs x k)
    (hib : x.inbox = []) :
    ∃ st'', (if (false || (runA ca aa id p bs f x k).2.2) = true
        then processLoop (F + 1) true true (mkA ca aa (runA ca aa id p bs f x k).1) st'
        else (mkA ca aa (runA ca aa id p bs f x k).1, st', false)) =
      (mkA ca aa (finA (runA ca aa id p bs f x k)), st'', false) := by
  by_cases hr : (runA ca aa id p bs f x k).2.2 = true
  · obtain ⟨w1, w2, w3, w4, w5, w6, k', w7, w8⟩ := runA_W ca aa id p bs f x k hc hr
    have hq : (mkA ca aa { (runA ca aa id p bs f x k).1 with
        log := .rxNone (runA ca aa id p bs f x k).1.now :: (runA ca aa id p bs f x k).1.log }).processTx =
        (mkA ca aa { (runA ca aa id p bs f x k).1 with
          log := .rxNone (runA ca aa id p bs f x k).1.now :: (runA ca aa id p bs f x k).1.log }, none, false) :=
      processTx_waitFc ca aa id p _ _ x.now w1 w2 w7 w8 w6 (by show (runA ca aa id p bs f x k).1.now ≤ _; omega) h0
    obtain ⟨st2, h2⟩ := quietIterA ca aa F st' _ w3 (by rw [w4]; exact hib) hq
    refine ⟨st2, ?_⟩
    simp only [hr, Bool.or_true, if_true, finA]
    exact h2
  · refine ⟨st', ?_⟩
    have hr' : (runA ca aa id p bs f x k).2.2 = false := by simpa using hr
    simp [hr', finA]

/-- a pass in TRANSMIT_CF with nothing in the inbox -/
theorem passA_T (hva : ca.valid = true) (h0 : ca.tFc ≠ 0) (x : AP) (k : Nat) (hc : TCond ca aa id p bs x k)
    (hib : x.inbox = []) :
    ((mkA ca aa x).process true true).1 =
      mkA ca aa (finA (runA ca aa id p bs (p.length - carried (TxCfg.of ca aa) p.length k + 1)
        { x with log := .rxNone x.now :: x.log } k)) := by
  have hc1 : TCond ca aa id p bs { x with log := .rxNone x.now :: x.log } k :=
    ⟨hc.k1, hc.st, hc.lf, hc.tf, hc.act, hc.more, hc.seq, hc.rbs, hc.txq⟩
  unfold State.process
  rw [processFuel_eq]
  obtain ⟨st1, h1⟩ := processLoop_iter (2 * ((mkA ca aa x).inbox.length + (mkA ca aa x).txQueue.length) + 6 + 1)
    (mkA ca aa x) {} (mkA ca aa { x with log := .rxNone x.now :: x.log }) _ false _
    (sw_false_mkA ca aa x hc.txq) (fun st => ⟨st, rxLoop_nil_mkA ca aa x st hib⟩)
    (fun n => ⟨_, by
      rw [rlUpd_mkA, txFuel_T ca aa id p bs _ k hc1]
      exact txLoop_T ca aa id p bs hva _ 5 _ k n (by omega) hc1⟩) rfl
  rw [h1]
  obtain ⟨st2, h2⟩ := tailA ca aa id p bs h0
    (2 * ((mkA ca aa x).inbox.length + (mkA ca aa x).txQueue.length) + 6)
    (p.length - carried (TxCfg.of ca aa) p.length k + 1) _ k st1 hc1 hib
  rw [h2]

/-- a pass in WAIT_FC with the ContinueToSend of the peer in the inbox -/
theorem passA_W (hva : ca.valid = true) (h0 : ca.tFc ≠ 0) (x : AP) (k tF stm cdl rdl : Nat) (fcm : CanMsg)
    (hk : 1 ≤ k) (hst : x.txState = .waitFc) (htf : x.timerFc = some tF)
    (hnow : x.now ≤ tF + ca.tFc)
    (hact : x.active = some (reqAt ca id p (carried (TxCfg.of ca aa) p.length k)))
    (hmore : carried (TxCfg.of ca aa) p.length k < p.length) (hseq : x.txSeq = k % 16) (hq : x.txQueue = [])
    (hib : x.inbox = [(0, fcm)]) (hme : aa.rx.isForMe fcm = true)
    (hdec : decode fcm.data aa.rx.rxPrefixSize = some ⟨.fc 0 bs stm, cdl, rdl⟩) :
    ((mkA ca aa x).process true true).1 =
      mkA ca aa (finA (runA ca aa id p bs (p.length - carried (TxCfg.of ca aa) p.length k + 1)
        { x with
          inbox := [], log := .rx x.now fcm :: x.log, lastFc := none, txState := .transmitCf,
          timerFc := none, remoteBs := some bs, txBlockCnt := 0,
          timerStmin := { start := some x.now, timeout := Fc.sepOf ca ⟨0, bs, stm⟩ } } k)) := by
  -- after the receive loop: the Flow Control sits in the mailbox
  let x1 : AP := { x with inbox := [], log := .rx x.now fcm :: x.log, lastFc := some ⟨0, bs, stm⟩ }
  -- the state on which the TRANSMIT_CF part of the pass runs
  let x2 : AP := { x with
    inbox := [], log := .rx x.now fcm :: x.log, lastFc := none, txState := .transmitCf,
    timerFc := none, remoteBs := some bs, txBlockCnt := 0,
    timerStmin := { start := some x.now, timeout := Fc.sepOf ca ⟨0, bs, stm⟩ } }
  have hc2 : TCond ca aa id p bs x2 k := ⟨hk, rfl, rfl, rfl, hact, hmore, hseq, rfl, hq⟩
  have harr : arrived (mkA ca aa x) 0 fcm [] = mkA ca aa { x with inbox := [], log := .rx x.now fcm :: x.log } := by
    unfold arrived
    rw [checkTimeoutsRx_noop _ (by rfl)]
    rfl
  have hprx : (arrived (mkA ca aa x) 0 fcm []).processRx fcm = (mkA ca aa x1, true, false) := by
    rw [harr, Rx.processRx_fc_eq _ fcm 0 bs stm cdl rdl hdec]
    rfl
  have hrx : ∀ st, ∃ st', rxLoop true (mkA ca aa x) st (mkA ca aa x).inbox = (mkA ca aa x1, st', false) := by
    intro st
    have : (mkA ca aa x).inbox = [(0, fcm)] := hib
    rw [this]
    exact rxLoop_cons_imm (mkA ca aa x) st 0 fcm [] _ _ hme hprx
  have hfc : (mkA ca aa x1).processTx = (mkA ca aa x2).processTx :=
    processTx_fc ca aa x1 ⟨0, bs, stm⟩ tF hst rfl rfl htf hnow h0
  have hfuel : (mkA ca aa x1).txFuel = (p.length - carried (TxCfg.of ca aa) p.length k + 1) + 5 :=
    txFuel_T ca aa id p bs x2 k hc2
  unfold State.process
  rw [processFuel_eq]
  obtain ⟨st1, h1⟩ := processLoop_iter (2 * ((mkA ca aa x).inbox.length + (mkA ca aa x).txQueue.length) + 6 + 1)
    (mkA ca aa x) {} (mkA ca aa x1) _ false _
    (sw_false_mkA ca aa x hq) hrx
    (fun n => ⟨_, by
      rw [rlUpd_mkA, hfuel]
      rw [show p.length - carried (TxCfg.of ca aa) p.length k + 1 + 5 =
        (p.length - carried (TxCfg.of ca aa) p.length k + 1 + 4) + 1 from rfl, txLoop_congr _ _ _ _ hfc]
      exact txLoop_T ca aa id p bs hva _ 5 _ k n (by omega) hc2⟩) rfl
  rw [h1]
  obtain ⟨st2, h2⟩ := tailA ca aa id p bs h0
    (2 * ((mkA ca aa x).inbox.length + (mkA ca aa x).txQueue.length) + 6)
    (p.length - carried (TxCfg.of ca aa) p.length k + 1) x2 k st1 hc2 rfl
  rw [h2]

/-- a pass of the idle sender -/
theorem passA_D (x : AP) (hst : x.txState = .idle) (hq : x.txQueue = []) (hlf : x.lastFc = none)
    (htf : x.timerFc = none) (hib : x.inbox = []) :
    ((mkA ca aa x).process true true).1 = mkA ca aa { x with log := .rxNone x.now :: x.log } := by
  unfold State.process
  rw [processFuel_eq]
  obtain ⟨st1, h1⟩ := quietIterA ca aa (2 * ((mkA ca aa x).inbox.length + (mkA ca aa x).txQueue.length) + 6 + 1)
    {} x hq hib (processTx_idle ca aa _ hst hq hlf htf)
  rw [h1]

end pass


/-! ## a payload that fits a Single Frame -/

theorem ite_neg' {α : Type} (c : Prop) [inst : Decidable c] (a b b' : α) (hc : ¬ c) (hb : b = b') :
    (if c then a else b) = b' := by
  subst hb; simp [hc]

theorem startTx_sf_exact (s : State) (r : Req) (allowed : Nat) (p : Bytes) (hv : s.cfg.valid = true)
    (hf : Feeds r p) (h0 : r.consumed = 0) (h1 : 1 ≤ p.length) (hen : p.length ≤ r.src.length)
    (hsf : sfShort (TxCfg.of s.cfg s.addr) p.length ∨ sfEscape (TxCfg.of s.cfg s.addr) p.length)
    (hal : s.cfg.txDl ≤ allowed) :
    ∃ d0, segment (TxCfg.of s.cfg s.addr) p = [d0] ∧
      s.startTx r allowed =
          (({ s with active := some (Req.adv r p.length), log := pullLog r p.length ++ s.log } : State).stopSending true,
            some (frameMsg s.cfg s.addr (s.addr.tx.txId r.tat) d0)) := by
  have hvt := valid_of s.cfg s.addr hv
  have hdl := txDl_fix _ hvt
  have hpre := hvt.pre
  have hsz := hf.size
  have hrem : r.size ≤ r.remaining := by simp [Req.remaining, h0]
  have hca := consumeActive_ok s r r.size true p hf hrem (by rw [hf.size]; exact hen)
  rw [h0, List.drop_zero, hsz, List.take_length] at hca
  unfold startTx
  simp only [txPrefixLen, Req.remaining, h0, Nat.sub_zero, startTx_match_bigMin, sizeOnFirst_eq, hsz]
  rcases hsf with hs | hs
  · have hs' := (sfShort_iff _ _).mp hs
    simp only [TxCfg.of] at hs' hdl hpre
    simp only [hs, decide_true, if_true]
    rw [if_pos (by omega), hca]
    simp only []
    rw [makeTxMsg_eq _ _ hv _ _ (by simp; omega) (by simp; omega)]
    refine ⟨_, segment_sfShort _ p hs, ?_⟩
    simp only [u8_eq, TxCfg.of]
    have hnot : ¬ ((s.addr.tx.txPrefix ++ [UInt8.ofNat p.length] ++ p).length > allowed) := by simp; omega
    exact ite_neg' _ _ _ _ hnot rfl
  · have hs1 := hs.1
    have hs2 := hs.2
    simp only [TxCfg.of] at hs2 hdl hpre
    simp only [hs1, decide_false, Bool.false_eq_true, if_false]
    rw [if_pos (by omega), hca]
    simp only []
    rw [makeTxMsg_eq _ _ hv _ _ (by simp; omega) (by simp; omega)]
    refine ⟨_, segment_sfEscape _ p hs, ?_⟩
    simp only [u8_eq, TxCfg.of]
    have hnot : ¬ ((s.addr.tx.txPrefix ++ [0, UInt8.ofNat p.length] ++ p).length > allowed) := by simp; omega
    exact ite_neg' _ _ _ _ hnot rfl

section sf
variable (ca : Cfg) (aa : Addr) (id : Nat) (p : Bytes)

/-- the CAN message A emits for a Single Frame payload (target address type of the request) -/
def wireSf (d0 : Bytes) : CanMsg := frameMsg ca aa (aa.tx.txId ca.defaultTat) d0

theorem not_ff_cases (tc : TxCfg) (n : Nat) (h : ¬ NeedsFF tc n) : sfShort tc n ∨ sfEscape tc n := by
  by_cases hs : sfShort tc n
  · exact Or.inl hs
  · by_cases he : sfEscape tc n
    · exact Or.inr he
    · exact absurd ⟨hs, he⟩ h

/-- idle with a Single Frame request at the head of the queue: the frame goes out, the request completes -/
theorem processTx_sf (hva : ca.valid = true) (h1 : 1 ≤ p.length)
    (hsf : ¬ NeedsFF (TxCfg.of ca aa) p.length) (x : AP)
    (hst : x.txState = .idle) (hq : x.txQueue = [reqFor ca id p]) (hlf : x.lastFc = none) (htf : x.timerFc = none) :
    ∃ d0, segment (TxCfg.of ca aa) p = [d0] ∧
    (mkA ca aa x).processTx =
      (mkA ca aa { x with txQueue := [], active := none, txState := .idle, txFrameLen := 0, txSeq := 0,
                          txBlockCnt := 0, remoteBs := none, timerFc := none,
                          timerStmin := { start := none, timeout := x.timerStmin.timeout },
                          log := .done id true :: x.log },
        some (wireSf ca aa d0), false) := by
  have hfr := reqFor_fresh ca id p
  have h1' : (mkA ca aa x).processTx =
      Fc.finish (((mkA ca aa { x with txQueue := [], active := some (reqFor ca id p) }).startTx (reqFor ca id p) noLimit).1,
                 ((mkA ca aa { x with txQueue := [], active := some (reqFor ca id p) }).startTx (reqFor ca id p) noLimit).2, false) :=
    Fc.processTx_next_message (mkA ca aa x) (reqFor ca id p) [] hst rfl hlf (by simp [mkA, htf]) hq
      (hfr.not_depleted (by omega))
  obtain ⟨d0, hseg, h2⟩ := startTx_sf_exact (mkA ca aa { x with txQueue := [], active := some (reqFor ca id p) })
    (reqFor ca id p) noLimit p hva hfr.1 hfr.2 h1 (by simp [reqFor]) (not_ff_cases _ _ hsf) (txDl_le_noLimit ca aa hva).1
  refine ⟨d0, hseg, ?_⟩
  rw [h1', h2]
  have hpl : pullLog (reqFor ca id p) p.length = [] := by simp [pullLog, reqFor]
  have hstop : (({ mkA ca aa { x with txQueue := [], active := some (reqFor ca id p) } with
        active := some (Req.adv (reqFor ca id p) p.length),
        log := pullLog (reqFor ca id p) p.length ++ (mkA ca aa { x with txQueue := [], active := some (reqFor ca id p) }).log } : State).stopSending true) =
      mkA ca aa { x with txQueue := [], active := none, txState := .idle, txFrameLen := 0, txSeq := 0,
                          txBlockCnt := 0, remoteBs := none, timerFc := none,
                          timerStmin := { start := none, timeout := x.timerStmin.timeout },
                          log := .done id true :: x.log } := by
    rw [hpl]
    simp [stopSending, mkA, emit, Timer.stop, Req.adv, reqFor]
  rw [hstop]
  exact finish_mkA ca aa _ _ _

/-- the pass after `send` of a Single Frame payload: the frame goes out and the request completes -/
theorem passA_SF (hva : ca.valid = true) (h1 : 1 ≤ p.length) (hsf : ¬ NeedsFF (TxCfg.of ca aa) p.length) (x : AP)
    (hst : x.txState = .idle) (hq : x.txQueue = [reqFor ca id p]) (hlf : x.lastFc = none) (htf : x.timerFc = none)
    (hib : x.inbox = []) :
    ∃ d0, segment (TxCfg.of ca aa) p = [d0] ∧
    ((mkA ca aa x).process true true).1 =
      mkA ca aa { x with txQueue := [], active := none, txState := .idle, txFrameLen := 0, txSeq := 0,
                          txBlockCnt := 0, remoteBs := none, timerFc := none,
                          timerStmin := { start := none, timeout := x.timerStmin.timeout },
                          log := .rxNone x.now :: .tx x.now (wireSf ca aa d0) :: .done id true :: x.log } := by
  obtain ⟨d0, hseg, hp⟩ := processTx_sf ca aa id p hva h1 hsf x hst hq hlf htf
  refine ⟨d0, hseg, ?_⟩
  let x1 : AP := { x with txQueue := [], active := none, txState := .idle, txFrameLen := 0, txSeq := 0,
                          txBlockCnt := 0, remoteBs := none, timerFc := none,
                          timerStmin := { start := none, timeout := x.timerStmin.timeout },
                          log := .tx x.now (wireSf ca aa d0) :: .done id true :: x.log }
  have hq1 : (mkA ca aa x1).processTx = (mkA ca aa x1, none, false) := processTx_idle ca aa x1 rfl rfl hlf rfl
  have hsw : (!(mkA ca aa x).txQueue.isEmpty && decide ((mkA ca aa x).rxState = .idle) &&
      decide ((mkA ca aa x).txState = .idle)) = true := by simp [mkA, hq, hst]
  unfold State.process
  rw [processFuel_eq]
  obtain ⟨st1, h1'⟩ := processLoop_iter_sw (2 * ((mkA ca aa x).inbox.length + (mkA ca aa x).txQueue.length) + 6 + 1)
    (mkA ca aa x) {} (mkA ca aa x1) false hsw
    (fun n => ⟨n + 1, by
      rw [rlUpd_mkA, txFuel_eq]
      rw [txLoop_more _ _ _ _ _ hp rfl, emit_mkA]
      exact txLoop_none _ _ _ _ hq1 rfl⟩) rfl
  rw [h1']
  have hq2 : (mkA ca aa { x1 with log := .rxNone x1.now :: x1.log }).processTx =
      (mkA ca aa { x1 with log := .rxNone x1.now :: x1.log }, none, false) := processTx_idle ca aa _ rfl rfl hlf rfl
  obtain ⟨st2, h2⟩ := quietIterA ca aa (2 * ((mkA ca aa x).inbox.length + (mkA ca aa x).txQueue.length) + 6)
    st1 x1 rfl hib hq2
  rw [h2]

end sf

end Isotp.Lockstep
