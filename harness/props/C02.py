"""C02 - emitted frames are exactly the ISO-15765-2 segmentation of the payload."""
import gen
import ref
import trace
from props.base import PropBase


def fc_frame(addr, bs, stmin, status=0):
    return gen.rx_match_frame(addr, bytes([0x30 | status, bs, stmin]))


def coop_rounds(ops, addr, nframes, bs, stmin, dt=None):
    """scripted cooperative receiver: a CTS after the FF and after every bs-th CF"""
    stns = ref.stmin_ns(stmin) or 0
    ops.append({'op': 'process', 'i': 0})
    nfc = 1 if bs == 0 else (nframes // bs + 2)
    for _ in range(nfc):
        fid, ext, data = fc_frame(addr, bs, stmin)
        ops.append({'op': 'frame', 'i': 0, 'id': fid, 'ext': ext, 'data': data})
        ops.append({'op': 'process', 'i': 0})
        if stns > 0:
            n = nframes if bs == 0 else bs
            for _ in range(n + 1):
                ops.append({'op': 'tick', 'dt': stns + 1})
                ops.append({'op': 'process', 'i': 0})


def sender_scenario(rng, tier, lengths=None, gen_prob=0.2):
    mode = rng.randrange(7)
    a, _ = gen.rand_addr_pair(rng, mode=mode, asym_prob=0.15)
    params = gen.rand_params(rng, simple=True)
    params.pop('blocksize', None)
    params.pop('stmin', None)
    if rng.random() < 0.15:
        params['default_target_address_type'] = 1
    txdl = params.get('tx_data_length', 8)
    pre = gen.prefix_len(a, 'tx')
    ops = [{'op': 'layer', 'i': 0, 'addr': a, 'params': params}]
    rid = 0
    nmsg = rng.choice([1, 1, 2, 3])
    for _ in range(nmsg):
        rid += 1
        r = rng.random()
        if r < 0.04:
            size = rng.choice([2**32 - 1, 2**32, 2**32 + 5, 2**33])
            first = gen.rand_payload(rng, 70)
            ops.append({'op': 'send', 'i': 0, 'id': rid, 'gen': (size, first)})
            ops.append({'op': 'process', 'i': 0})
            ops.append({'op': 'stop_sending', 'i': 0})
            continue
        if lengths:
            n = rng.choice(lengths)
        elif r < 0.12:
            n = rng.choice([4094, 4095, 4096, 4097, 65535])
        else:
            n = gen.rand_len(rng, txdl, pre)
        payload = gen.rand_payload(rng, n)
        op = {'op': 'send', 'i': 0, 'id': rid}
        if rng.random() < gen_prob:
            op['gen'] = (n, payload)
        else:
            op['data'] = payload
        if params.get('default_target_address_type') == 1 or rng.random() < 0.1:
            op['tat'] = rng.choice([0, 0, 1])
        ops.append(op)
        c = max(1, txdl - 1 - pre)
        nframes = n // c + 2
        bs = rng.choice([0, 0, 1, 3, 8, 255])
        if n > 4000:
            bs = 0
        stmin = rng.choice([0, 0, 0, 1, 0xF3]) if n < 200 else 0
        coop_rounds(ops, a, nframes, bs, stmin)
        if 1 <= n <= 6000:
            # ties the Lean reference `Spec.segment` (what the theorems are stated against) to the Python
            # reference used by the judge: both must give the same frames for this payload/configuration
            ops.append({'op': 'specseg', 'txdl': txdl, 'minlen': params.get('tx_data_min_length'),
                        'padding': params.get('tx_padding'), 'prefix': ref.tx_prefix(ref.half(a, 'tx')), 'data': payload})
    return {'ops': ops}


def rate_limited_sender(rng, tier):
    """the same reference segmentation must come out when the rate limiter parks frames (Single / First Frames held in standby,
    Consecutive Frames withheld): one frame per limiter window"""
    mode = rng.randrange(7)
    a, _ = gen.rand_addr_pair(rng, mode=mode, asym_prob=0.1)
    params = gen.rand_params(rng, simple=True)
    params.pop('blocksize', None)
    params.pop('stmin', None)
    txdl = params.get('tx_data_length', 8)
    w = rng.choice([0.05, 0.1])
    params['rate_limit_enable'] = True
    params['rate_limit_window_size'] = w
    params['rate_limit_max_bitrate'] = int(txdl * 8 / w) + rng.choice([1, 1, 8 * txdl])
    wns = int(w * 10**9) + 6000000
    pre = gen.prefix_len(a, 'tx')
    c = max(1, txdl - 1 - pre)
    ops = [{'op': 'layer', 'i': 0, 'addr': a, 'params': params}]
    rid = 0
    payloads = []
    total = 0
    for _ in range(rng.choice([2, 3, 4])):      # everything is queued up front: later First / Single Frames find the window already used
        rid += 1
        n = rng.choice([1, 3, 7, c + 3, 2 * c + 5, 3 * c + 1])
        payload = gen.rand_payload(rng, n)
        payloads.append(payload)
        ops.append({'op': 'send', 'i': 0, 'id': rid, 'data': payload})
        total += n // c + 2
    bs = rng.choice([0, 0, 1, 2])
    fid, ext, data = fc_frame(a, bs, 0)
    for _k in range(total + 4):
        ops.append({'op': 'process', 'i': 0})
        if rng.random() < 0.7:
            ops.append({'op': 'frame', 'i': 0, 'id': fid, 'ext': ext, 'data': data})
            ops.append({'op': 'process', 'i': 0})
        ops.append({'op': 'tick', 'dt': rng.choice([wns, wns, wns // 3])})
    for _k in range(total + 4):       # make sure every transfer ends: a ContinueToSend and a full window per round
        ops.append({'op': 'frame', 'i': 0, 'id': fid, 'ext': ext, 'data': data})
        ops.append({'op': 'process', 'i': 0})
        ops.append({'op': 'tick', 'dt': wns})
        ops.append({'op': 'process', 'i': 0})
    for payload in payloads:
        ops.append({'op': 'specseg', 'txdl': txdl, 'minlen': params.get('tx_data_min_length'),
                    'padding': params.get('tx_padding'), 'prefix': ref.tx_prefix(ref.half(a, 'tx')), 'data': payload})
    return {'ops': ops}


def tx_cfg(cfg):
    p = cfg['params']
    return dict(txdl=p.get('tx_data_length', 8), minlen=p.get('tx_data_min_length'), padding=p.get('tx_padding'))


def judge_segmentation(sc, lines_in, impl_out, require_complete=True):
    cfg = trace.layer_cfg(sc)
    a = cfg['addr']
    txh = ref.half(a, 'tx')
    prefix = ref.tx_prefix(txh)
    tc = tx_cfg(cfg)
    p = cfg['params']
    dtat = p.get('default_target_address_type', 0)
    out = []
    payload = {}
    tat = {}
    declared = {}
    for op in sc['ops']:
        if op['op'] == 'send':
            if 'gen' in op:
                declared[op['id']] = op['gen'][0]
                payload[op['id']] = bytes(op['gen'][1])[:op['gen'][0]]
            else:
                payload[op['id']] = bytes(op['data'])
                declared[op['id']] = len(op['data'])
            tat[op['id']] = op.get('tat', dtat)
    accepted = []
    frames = []          # data frames in order
    outcome = {}
    done_pos = {}
    for r in trace.records(lines_in, impl_out):
        if r.op == 'send':
            rid = int(r.toks[2])
            if declared[rid] >= 2**32:
                if r.result != 'exc ValueError':
                    out.append(('send_refuses', 'send of declared size %d returned %r instead of ValueError' % (declared[rid], r.result)))
                if r.status.get('q') != '0' and r.result.startswith('exc'):
                    pass
            if r.result == 'ok':
                accepted.append(rid)
        for e in r.events:
            if e['k'] == 'tx':
                body = e['data'][len(prefix):]
                if ref.classify(body)[0] != 'fc' or e['data'][:len(prefix)] != prefix:
                    frames.append(e)
            elif e['k'] == 'done':
                outcome[e['id']] = e['ok']
                done_pos.setdefault(e['id'], len(frames))      # every frame of a request is emitted before its completion
    # expected stream: concatenation of the segmentations of the accepted requests in order
    pos = 0
    for rid in accepted:
        if declared[rid] == 0:
            continue
        if declared[rid] >= 2**32:
            out.append(('send_refuses', 'request of size %d was accepted' % declared[rid]))
            break
        pl = payload[rid]
        if len(pl) < declared[rid]:
            # short generator: only a prefix can be emitted (C17's concern); check the First Frame announcement
            n = declared[rid]
            pre = len(prefix)
            if pos < len(frames) and n > tc['txdl']:
                if n <= 4095:
                    k = tc['txdl'] - 2 - pre
                    ff = prefix + bytes([0x10 | (n >> 8), n & 0xFF]) + pl[:k]
                else:
                    k = tc['txdl'] - 6 - pre
                    ff = prefix + bytes([0x10, 0]) + n.to_bytes(4, 'big') + pl[:k]
                if len(pl) >= k and frames[pos]['data'] != ff:
                    out.append(('frames', 'request %d (declared %d) first frame is %s, expected %s' % (rid, n, frames[pos]['data'].hex(), ff.hex())))
            break
        exp = ref.segment(pl, prefix=prefix, **tc)
        got = frames[pos:pos + len(exp)]
        if outcome.get(rid) is False and rid in done_pos:
            # an ABORTED request (Overflow, timeout, stop_sending ...) owns only the frames emitted before its completion: what follows
            # belongs to the next request in the queue
            got = frames[pos:min(pos + len(exp), max(pos, done_pos[rid]))]
        functional = tat[rid] == 1
        for k, fr in enumerate(got):
            if fr['data'] != exp[k]:
                out.append(('frames', 'request %d (len %d) frame %d is %s, reference segmentation says %s' % (
                    rid, len(pl), k, fr['data'].hex(), exp[k].hex())))
                return out
            eid = ref.emitted_id(txh, functional=functional and len(exp) == 1)
            if fr['id'] != eid or fr['ext'] != (txh['mode'] in ref.MODE_29):
                out.append(('frame_id', 'request %d frame %d has id %x ext=%s, expected %x' % (rid, k, fr['id'], fr['ext'], eid)))
                return out
            if fr['fd'] != bool(p.get('can_fd', False)) or fr['brs'] != bool(p.get('bitrate_switch', False)):
                out.append(('frame_flags', 'request %d frame %d fd/brs flags %s/%s differ from configuration' % (rid, k, fr['fd'], fr['brs'])))
                return out
            if not ref.legal_len(len(fr['data'])) or len(fr['data']) > tc['txdl'] or fr['dlc'] != ref.dlc_of(len(fr['data'])):
                out.append(('frame_dlc', 'request %d frame %d length %d dlc %d illegal for tx_data_length %d' % (
                    rid, k, len(fr['data']), fr['dlc'], tc['txdl'])))
                return out
        if outcome.get(rid) is True and len(got) != len(exp):
            out.append(('frames', 'request %d completed with success after %d of %d frames' % (rid, len(got), len(exp))))
            return out
        if len(got) < len(exp):
            if require_complete and outcome.get(rid) is None:
                out.append(('frames', 'request %d incomplete: %d of %d frames and no outcome' % (rid, len(got), len(exp))))
            pos += len(got)
            if outcome.get(rid) is None:
                break
            continue
        pos += len(exp)
    else:
        if pos < len(frames):
            out.append(('frames', '%d extra data frames emitted beyond the segmentations' % (len(frames) - pos)))
    return out


class C02(PropBase):
    id = 'C02'
    address_change = 0.15
    rx_only_gaps = 0.1
    partial_passes = 0.25
    rx_only_passes = 0.4
    lean_modules = ['Isotp.Props.C02']
    theorems = []
    rule = ('one sender, scripted cooperative receiver (CTS with BS in {0,1,3,8,255}, STmin in {0,1ms,300us}); payload lengths on every SF/FF/CF '
            'boundary of the configuration, 4094..4097, 65535, generator-backed 2^32-1 / 2^32 / 2^32+5 / 2^33 (first frame only); all 7 modes + '
            'asymmetric, 8 link sizes x min length x padding x fd/brs x target address type; every field of every emitted CanMessage compared with the '
            'reference segmentation; non-trivial = at least one frame emitted; distinct = (mode, tx_dl, min_len, padding?, lengths)')
    assumptions = ['payload elements are bytes', 'cooperative receiver']
    quick_per_shard = 120
    thorough_per_shard = 4000

    def scenario(self, rng, tier):
        if rng.random() < 0.15:
            return rate_limited_sender(rng, tier)
        return sender_scenario(rng, tier)

    def project(self, op_line, out_line):
        return trace.project_events(out_line, keep=('tx',), status_keys=(), drop_times=True, drop_result=(op_line.split(' ', 1)[0] != 'send'))

    def judge(self, sc, lines_in, impl_out):
        return judge_segmentation(sc, lines_in, impl_out)

    def nontrivial_key(self, sc, lines_in, impl_out):
        cfg = trace.layer_cfg(sc)
        p = cfg['params']
        lens = tuple((op['gen'][0] if 'gen' in op else len(op['data'])) for op in sc['ops'] if op['op'] == 'send')
        if not any('tx@' in l for l in impl_out):
            return None
        return (str(cfg['addr'].get('mode', 'asym')), p.get('tx_data_length', 8), p.get('tx_data_min_length'), p.get('tx_padding') is not None, lens)

    def tally(self, dist, sc, lines_in, impl_out):
        PropBase.tally(self, dist, sc, lines_in, impl_out)
        cfg = trace.layer_cfg(sc)
        k = 'txdl:%d' % cfg['params'].get('tx_data_length', 8)
        dist[k] = dist.get(k, 0) + 1
        for op in sc['ops']:
            if op['op'] == 'send':
                n = op['gen'][0] if 'gen' in op else len(op['data'])
                k = 'len:' + ('1-7' if n <= 7 else '8-62' if n <= 62 else '63-400' if n <= 400 else '401-4095' if n <= 4095 else '4096-65535' if n < 2**31 else 'huge')
                dist[k] = dist.get(k, 0) + 1


PROP = C02()
