import Isotp.Process
/-
  C11 — property theorems (see DESIGN.md §6). Helper lemmas live in Isotp/Proofs.
-/
namespace Isotp.C11
open Isotp State

end Isotp.C11
