import Isotp.PyAgree.LayerInitWhole
/-!
  ITERATION of the capstone (`process_whole_total`, LayerWhole.lean): ANY NUMBER of calls of `TransportLayerLogic.process()`, one after the
  other on the same object, each interpreted from the source with its callees interpreted from their own sources (`wholeM s0`), compute
  the model's `State.process` pass by pass and never raise / get stuck / run out of fuel.

  `process_whole_total` ends in an environment `env'` with `RW s0 env' s'` - the SAME relation with the SAME `s0` - and asks of its
  starting environment only `RW s0 env s` and the three parameters (`do_rx`, `do_tx`, `rx_timeout`) bound.  It guarantees NOTHING else
  about `env'` (the locals the body leaves behind: `run_process`, `msg`, `first_loop`, the counters, `tx_result.*`, `rx_result.*`, ...), and
  it asks nothing about them either; `RW` reads none of them (`rebind_keys_disj`, `procLocals_disj`, `procWrites_disj`).  So the next call
  only needs its three parameters re-bound: `RW.rebind`, and the iteration below is stated for ARBITRARY environments that show the state.

  * model side   `runPasses s ps`            : fold of `State.process` over the passes `(do_rx, do_tx)`, the `Stats` of every pass collected;
  * source side  `runPassesPy n M env ps`    : for each pass `(do_rx, do_tx, rx_timeout)` re-bind the three parameters (`rebind`), run
                                               `run2 n M env Src.TransportLayerLogic_process`, thread the environment, collect the
                                               returned values; stop at the first pass that does not return (`IterRes.stop`);
  * fuel         `passesFuel s ps`           : the max of `processPyFuel` over the intermediate model states.

  MAIN THEOREM `process_iterate_total`; corollaries `process_iterate_never_raises`, `inv_iterate_total` (from ANY well-formed state:
  arbitrary future bus traffic in `inbox`, arbitrary queued requests), `init_iterate_total` (from the freshly constructed layer, any
  inbox), `init_traffic_iterate_total`.

  THE CLOCK (section 4).  The environment has NO clock key.  `time.perf_counter_ns` / the timers' `time.monotonic_ns` are inside the
  state-indexed primitive records of the leaves (`rxMethsOf now ..`, `rxMeths s m`, `txM2 s`), which `wholeM s0` instantiates with the state the
  environment shows: `runOps s0 ops` for the list `ops` under `#ops`.  So the clock is `(runOps s0 ops).now`, a function of `s0` and of
  the history; the only `Op` that moves it is `rxfn` returning a frame (by that frame's blocking delay).  Consequently, WITH THE SAME `s0`
  a tick is NOT expressible: `busTime s = s.now + Σ delays of s.inbox` is the same for every state `RW s0` can show
  (`RW.busTime`), hence `tick_needs_rebase`: no environment shows `s.advance dt` (`dt > 0`) relative to `s0`.
  It IS expressible by RE-BASING: `RW.rebase` - if `env` shows `s` (relative to anything) and `s'` agrees with `s` on every field an
  attribute shows and is well-formed, then `env` with the history cleared shows `s'` relative to `s'` itself.  The clock (`RW.tick`), the
  inbox (`RW.arrive`: frames that reach the bus between two passes) are such changes: the environment change is `#ops := []`, and the
  `Meths` of the next pass are `wholeM` of the new base (which is a function of the old base and the environment: `shown`).
  `process_iterate_ticks_total` is the iteration with a tick before every pass.
-/
set_option linter.unusedSimpArgs false
set_option linter.unusedVariables false

namespace Isotp.PyAgree.Whole
open Isotp Isotp.Py

/-! ## 1. `RW` does not read the parameters (nor any other local) of `process` -/

/-- the three parameters of `process(self, do_rx, do_tx, rx_timeout)` -/
def paramKeys : List String := ["do_rx", "do_tx", "rx_timeout"]

/-- no field of `RW` mentions a parameter of `process` ... -/
theorem rebind_keys_disj : ∀ k ∈ paramKeys, k ∉ "#ops" :: rwKeys := by decide

/-- ... nor any local that lives across a callee call (`procLocals`; with `procWrites_disj`: nor any name `process` assigns) -/
theorem procLocals_disj : ∀ k ∈ procLocals, k ∉ "#ops" :: rwKeys := by decide

/-- the environment a call `process(do_rx = a, do_tx = b, rx_timeout = c)` starts in -/
def rebind (env : Env) (a b c : PV) : Env := ((env.set "do_rx" a).set "do_tx" b).set "rx_timeout" c

/-- **`RW` is insensitive to re-binding the three parameters** -/
theorem RW.rebind {s0 : State} {env : Env} {s : State} (h : RW s0 env s) (a b c : PV) :
    RW s0 (((env.set "do_rx" a).set "do_tx" b).set "rx_timeout" c) s :=
  ((h.set (rebind_keys_disj _ (by decide)) a).set (rebind_keys_disj _ (by decide)) b).set (rebind_keys_disj _ (by decide)) c

/-- ... and to ANY change of the environment outside `#ops` and the keys `RW` reads (`rwKeys`): whatever locals a previous call of
    `process` left behind, or a caller adds, do not matter (`RW.congr`, restated with the two conditions in one) -/
theorem RW.locals_irrelevant {s0 : State} {env env' : Env} {s : State} (h : RW s0 env s)
    (hk : ∀ k ∈ "#ops" :: rwKeys, env' k = env k) : RW s0 env' s :=
  h.congr (hk _ (List.mem_cons_self ..)) (fun k hk' => hk k (List.mem_cons_of_mem _ hk'))

theorem rebind_do_rx (env : Env) (a b c : PV) : rebind env a b c "do_rx" = some a := by
  unfold rebind; rw [set_ne (by decide), set_ne (by decide), set_eq]
theorem rebind_do_tx (env : Env) (a b c : PV) : rebind env a b c "do_tx" = some b := by
  unfold rebind; rw [set_ne (by decide), set_eq]
theorem rebind_rx_timeout (env : Env) (a b c : PV) : rebind env a b c "rx_timeout" = some c := by
  unfold rebind; rw [set_eq]
theorem rebind_other (env : Env) (a b c : PV) {k : String} (hk : k ∉ paramKeys) : rebind env a b c k = env k := by
  simp only [paramKeys, List.mem_cons, List.not_mem_nil, or_false, not_or] at hk
  unfold rebind; rw [set_ne hk.2.2, set_ne hk.2.1, set_ne hk.1]

/-- ONE pass from an arbitrary environment that shows `s`: `process_whole_total` after `rebind` (no hypothesis on the parameters left) -/
theorem process_pass_total (s0 : State) (env : Env) (s : State) (doRx doTx : Bool) (tmo : PV) (hR : RW s0 env s) :
    ∃ env', (∀ n, processPyFuel s doRx doTx ≤ n →
        run2 n (wholeM s0) (rebind env (pbool doRx) (pbool doTx) tmo) Src.TransportLayerLogic_process =
          .ok (.ret (encodeStats (s.process doRx doTx).2.1) env')) ∧
      RW s0 env' (s.process doRx doTx).1 :=
  process_whole_total s0 _ s doRx doTx tmo (hR.rebind _ _ _) (rebind_do_rx ..) (rebind_do_tx ..) (rebind_rx_timeout ..)

/-! ## 2. the two iterations -/

/-- **model side**: the passes `(do_rx, do_tx)` one after the other; the final state and the statistics of every pass -/
def runPasses : State → List (Bool × Bool) → State × List Stats
  | s, [] => (s, [])
  | s, (doRx, doTx) :: ps =>
    ((runPasses (s.process doRx doTx).1 ps).1, (s.process doRx doTx).2.1 :: (runPasses (s.process doRx doTx).1 ps).2)

/-- the final state is the fold of `State.process` -/
theorem runPasses_fst (ps : List (Bool × Bool)) : ∀ s : State,
    (runPasses s ps).1 = ps.foldl (fun s p => (s.process p.1 p.2).1) s := by
  induction ps with
  | nil => intro s; rfl
  | cons p ps ih => intro s; obtain ⟨a, b⟩ := p; exact ih _

theorem runPasses_length (ps : List (Bool × Bool)) : ∀ s : State, (runPasses s ps).2.length = ps.length := by
  induction ps with
  | nil => intro s; rfl
  | cons p ps ih => intro s; obtain ⟨a, b⟩ := p; simp only [runPasses, List.length_cons, ih]

/-- well-formedness is kept along the passes: in particular no pass of the model sets `exc` -/
theorem runPasses_inv (ps : List (Bool × Bool)) : ∀ s : State, Inv s → Inv (runPasses s ps).1 := by
  induction ps with
  | nil => intro s h; exact h
  | cons p ps ih => intro s h; obtain ⟨a, b⟩ := p; exact ih _ (h.process a b)

/-- what the source side's iteration returns -/
structure IterRes where
  /-- the values returned by the passes that returned, in order -/
  vals : List PV
  /-- the environment after the last pass that returned -/
  env : Env
  /-- `none`: every pass returned; `some r`: the outcome `r` of the first pass that did NOT return a value (it raised, got stuck on an
      unsupported construct, or ran out of fuel) - the iteration stops there -/
  stop : Option (Except Err2 Out)

def IterRes.push (v : PV) (r : IterRes) : IterRes := { r with vals := v :: r.vals }

/-- **source side**: for each pass re-bind the three parameters and run the source of `process` (fuel `n` for every pass, callees `M`),
    threading the environment; stop at the first non-normal outcome -/
def runPassesPy (n : Nat) (M : Meths) : Env → List (Bool × Bool × PV) → IterRes
  | env, [] => ⟨[], env, none⟩
  | env, (doRx, doTx, tmo) :: ps =>
    match run2 n M (rebind env (pbool doRx) (pbool doTx) tmo) Src.TransportLayerLogic_process with
    | .ok (.ret v env') => (runPassesPy n M env' ps).push v
    | r => ⟨[], env, some r⟩

theorem runPassesPy_cons_ret {n : Nat} {M : Meths} {env env' : Env} {doRx doTx : Bool} {tmo v : PV} (ps : List (Bool × Bool × PV))
    (h : run2 n M (rebind env (pbool doRx) (pbool doTx) tmo) Src.TransportLayerLogic_process = .ok (.ret v env')) :
    runPassesPy n M env ((doRx, doTx, tmo) :: ps) = (runPassesPy n M env' ps).push v := by
  simp only [runPassesPy, h]

/-- the flags of the passes (the model has no `rx_timeout`: the blocking delay of `rxfn` is in the inbox entry) -/
def flagsOf (ps : List (Bool × Bool × PV)) : List (Bool × Bool) := ps.map (fun p => (p.1, p.2.1))

/-- the fuel bound: the max of `processPyFuel` over the intermediate model states -/
def passesFuel : State → List (Bool × Bool) → Nat
  | _, [] => 0
  | s, (doRx, doTx) :: ps => max (processPyFuel s doRx doTx) (passesFuel (s.process doRx doTx).1 ps)

/-! ## 3. the main theorem -/

theorem process_iterate_aux (s0 : State) : ∀ (ps : List (Bool × Bool × PV)) (env : Env) (s : State), RW s0 env s →
    ∃ envF, (∀ n, passesFuel s (flagsOf ps) ≤ n →
        runPassesPy n (wholeM s0) env ps = ⟨(runPasses s (flagsOf ps)).2.map encodeStats, envF, none⟩) ∧
      RW s0 envF (runPasses s (flagsOf ps)).1
  | [], env, s, hR => ⟨env, fun _ _ => rfl, hR⟩
  | (doRx, doTx, tmo) :: ps, env, s, hR => by
    obtain ⟨env1, hrun, hR1⟩ := process_pass_total s0 env s doRx doTx tmo hR
    obtain ⟨envF, hrest, hRF⟩ := process_iterate_aux s0 ps env1 _ hR1
    refine ⟨envF, ?_, hRF⟩
    intro n hn
    have h1 : processPyFuel s doRx doTx ≤ n := Nat.le_trans (Nat.le_max_left _ _) hn
    have h2 : passesFuel (s.process doRx doTx).1 (flagsOf ps) ≤ n := Nat.le_trans (Nat.le_max_right _ _) hn
    rw [runPassesPy_cons_ret ps (hrun n h1), hrest n h2]
    rfl

/-- **ANY NUMBER OF PASSES.**  For every environment `env` that shows a well-formed state `s` (`RW s0 env s`; nothing is asked of the
    parameters or of any other local) and EVERY list of passes `(do_rx, do_tx, rx_timeout)`: for every fuel
    `n ≥ passesFuel s ..` (the max of `processPyFuel` over the intermediate model states) the iterated source - `process` and its callees
    interpreted from their own sources - returns normally in EVERY pass, the returned values are `ProcessStats` of the model's counters
    pass by pass, and the final environment shows the model's final state (so the iteration can go on). -/
theorem process_iterate_total (s0 : State) (env : Env) (s : State) (hR : RW s0 env s) (ps : List (Bool × Bool × PV)) :
    ∃ envF, (∀ n, passesFuel s (flagsOf ps) ≤ n →
        runPassesPy n (wholeM s0) env ps = ⟨(runPasses s (flagsOf ps)).2.map encodeStats, envF, none⟩) ∧
      RW s0 envF (runPasses s (flagsOf ps)).1 :=
  process_iterate_aux s0 ps env s hR

/-- (a) **no pass of the source raises, gets stuck or runs out of fuel**: the iteration never stops early, and returns one value per
    pass; on the model side no pass sets `exc` or runs out of (model) fuel -/
theorem process_iterate_never_raises (s0 : State) (env : Env) (s : State) (hR : RW s0 env s) (ps : List (Bool × Bool × PV))
    (n : Nat) (hn : passesFuel s (flagsOf ps) ≤ n) :
    (runPassesPy n (wholeM s0) env ps).stop = none ∧ (runPassesPy n (wholeM s0) env ps).vals.length = ps.length ∧
      (runPasses s (flagsOf ps)).1.exc = none := by
  obtain ⟨envF, h, hRF⟩ := process_iterate_total s0 env s hR ps
  rw [h n hn]
  exact ⟨rfl, by simp [runPasses_length, flagsOf], hRF.inv.exc⟩

/-- ... and neither does any single pass: the run of `process` from the environment reached after any prefix of the passes returns -/
theorem process_iterate_pass_returns (s0 : State) (env : Env) (s : State) (hR : RW s0 env s) (ps : List (Bool × Bool × PV))
    (doRx doTx : Bool) (tmo : PV) :
    ∃ envP, RW s0 envP (runPasses s (flagsOf ps)).1 ∧
      (∀ n, passesFuel s (flagsOf ps) ≤ n → (runPassesPy n (wholeM s0) env ps).env = envP) ∧
      ∃ env', (∀ n, processPyFuel (runPasses s (flagsOf ps)).1 doRx doTx ≤ n →
          run2 n (wholeM s0) (rebind envP (pbool doRx) (pbool doTx) tmo) Src.TransportLayerLogic_process =
            .ok (.ret (encodeStats ((runPasses s (flagsOf ps)).1.process doRx doTx).2.1) env')) ∧
        RW s0 env' ((runPasses s (flagsOf ps)).1.process doRx doTx).1 := by
  obtain ⟨envF, h, hRF⟩ := process_iterate_total s0 env s hR ps
  exact ⟨envF, hRF, fun n hn => by rw [h n hn], process_pass_total s0 envF _ doRx doTx tmo hRF⟩

/-- (b, general form) **from ANY well-formed state** `s` - arbitrary future bus traffic in `s.inbox`, arbitrary queued requests in
    `s.txQueue` (bounded consumption, non-instrumented generators: `Inv.q`), any phase of a reception / transmission - shown by its
    canonical environment (`env0_shows`) -/
theorem inv_iterate_total (s : State) (hI : Inv s) (doRx0 doTx0 : Bool) (tmo0 : PV) (ps : List (Bool × Bool × PV)) :
    ∃ envF, (∀ n, passesFuel s (flagsOf ps) ≤ n →
        runPassesPy n (wholeM s) (env0 s doRx0 doTx0 tmo0) ps = ⟨(runPasses s (flagsOf ps)).2.map encodeStats, envF, none⟩) ∧
      RW s envF (runPasses s (flagsOf ps)).1 :=
  process_iterate_total s _ s (env0_shows s doRx0 doTx0 tmo0 hI) ps

/-- `State.init` of a valid configuration after any `send`s of non-instrumented requests, with ANY inbox, is well-formed -/
theorem Inv.init_traffic (c : Cfg) (a : Addr) (hc : c.valid = true) (reqs : List State.SendArgs) (hreqs : ∀ r ∈ reqs, r.instr = false)
    (inbox : List (Nat × CanMsg)) :
    Inv { reqs.foldl (fun s r => (s.send r).1) (State.init c a) with inbox := inbox } := by
  have h : ∀ (reqs : List State.SendArgs) (s : State), Inv s → (∀ r ∈ reqs, r.instr = false) →
      Inv (reqs.foldl (fun s r => (s.send r).1) s) := by
    intro reqs
    induction reqs with
    | nil => intro s hs _; exact hs
    | cons r reqs ih =>
      intro s hs hr
      exact ih _ (hs.send r (hr r (List.mem_cons_self ..))) (fun r' hr' => hr r' (List.mem_cons_of_mem _ hr'))
  exact (h reqs _ (Inv.init c a hc) hreqs).bus inbox _

/-- (b) from the initial state of a valid configuration, after any `send`s (non-instrumented generators) and with ANY bus traffic -/
theorem init_traffic_iterate_total (c : Cfg) (a : Addr) (hc : c.valid = true) (reqs : List State.SendArgs)
    (hreqs : ∀ r ∈ reqs, r.instr = false) (inbox : List (Nat × CanMsg)) (doRx0 doTx0 : Bool) (tmo0 : PV)
    (ps : List (Bool × Bool × PV)) :
    let s : State := { reqs.foldl (fun s r => (s.send r).1) (State.init c a) with inbox := inbox }
    ∃ envF, (∀ n, passesFuel s (flagsOf ps) ≤ n →
        runPassesPy n (wholeM s) (env0 s doRx0 doTx0 tmo0) ps = ⟨(runPasses s (flagsOf ps)).2.map encodeStats, envF, none⟩) ∧
      RW s envF (runPasses s (flagsOf ps)).1 :=
  inv_iterate_total _ (Inv.init_traffic c a hc reqs hreqs inbox) doRx0 doTx0 tmo0 ps

/-! ## 4. the clock: re-basing -/

/-- the state an environment shows relative to `s0` (`RW.ops`: the environment determines it) -/
noncomputable def shown (s0 : State) (env : Env) : State :=
  match ProcInst.opsOf env with
  | some ops => ProcInst.runOps s0 ops
  | none => s0

theorem RW.shown_eq {s0 : State} {env : Env} {s : State} (h : RW s0 env s) : shown s0 env = s := by
  obtain ⟨ops, h1, h2⟩ := h.ops
  unfold shown
  rw [ProcInst.opsOf_eq env ops h1]
  exact h2.symm

/-- "bus time": the clock plus the blocking delays still in the inbox -/
def busTime (s : State) : Nat := s.now + (s.inbox.map Prod.fst).sum

/-- no callee of `process` changes it: only `rxfn` moves the clock, by the delay of the entry it takes out of the inbox -/
theorem busTime_applyOp (s : State) (o : ProcInst.Op) : busTime (ProcInst.applyOp s o) = busTime s := by
  cases o with
  | rxfn =>
    simp only [ProcInst.applyOp]
    split <;> rename_i h <;> simp [busTime, State.emit, h]
    omega
  | check =>
    have := RxFrame.checkTimeoutsRx s
    simp only [ProcInst.applyOp, busTime, this.now, this.inbox]
  | rlUpdate => rfl
  | processTx =>
    have := TxFrame.processTx s
    simp only [ProcInst.applyOp, busTime, this.now, this.inbox]
  | processRx m =>
    have := RxFrame.processRx s m
    simp only [ProcInst.applyOp, busTime, this.now, this.inbox]
  | txfn m => rfl

theorem busTime_runOps (ops : List ProcInst.Op) : ∀ s0 : State, busTime (ProcInst.runOps s0 ops) = busTime s0 := by
  induction ops with
  | nil => intro s0; rfl
  | cons o ops ih => intro s0; exact (ih _).trans (busTime_applyOp s0 o)

/-- every state an environment can show relative to `s0` has the bus time of `s0` -/
theorem RW.busTime {s0 : State} {env : Env} {s : State} (h : RW s0 env s) : busTime s = busTime s0 := by
  obtain ⟨ops, _, h2⟩ := h.ops
  rw [h2, busTime_runOps]

/-- **with the same `s0` a tick is NOT expressible**: if some environment shows `s` relative to `s0`, NO environment shows `s` with the
    clock advanced (the clock is `(runOps s0 ops).now`: it is not a key of the environment) -/
theorem tick_needs_rebase {s0 : State} {env : Env} {s : State} (h : RW s0 env s) (dt : Nat) (hdt : 0 < dt) :
    ¬ ∃ env', RW s0 env' (s.advance dt) := by
  rintro ⟨env', h'⟩
  have h1 := h.busTime
  have h2 := h'.busTime
  simp only [busTime, State.advance] at h1 h2
  omega

/-- **re-basing**: if `env` shows `s` and `s'` is a well-formed state that agrees with `s` on every field an attribute shows
    (`SameTx`, `SameRx`, `SameSh`: everything but the clock, the inbox, the address, `exc` and the non-shown part of the log), then `env`
    with the history cleared shows `s'` RELATIVE TO `s'` -/
theorem RW.rebase {s0 : State} {env : Env} {s : State} (h : RW s0 env s) (s' : State) (hI : Inv s') (hT : SameTx s s')
    (hR : SameRx s s') (hS : SameSh s s') : RW s' (env.set "#ops" (.list [])) s' where
  ops := ⟨[], set_eq, rfl⟩
  inv := hI
  debug := (set_ne (by decide)).trans h.debug
  txo := h.txo.transfer (fun k hk => set_ne (ne_of_mem hk (by decide))) hT
  rxo := h.rxo.transfer (fun k hk => set_ne (ne_of_mem hk (by decide))) hR
  sh := h.sh.transfer (fun k hk => set_ne (ne_of_mem hk (by decide))) hS
  rxc := Consts.transfer h.rxc (fun k hk => set_ne (ne_of_mem hk (by decide)))

/-- **a tick**: the clock advances by `dt` between two passes; on the environment side the history is cleared (and the `Meths` of the next
    pass are those of the new base: `wholeM (s.advance dt)`) -/
theorem RW.tick {s0 : State} {env : Env} {s : State} (h : RW s0 env s) (dt : Nat) :
    RW (s.advance dt) (env.set "#ops" (.list [])) (s.advance dt) :=
  h.rebase _ (h.inv.bus s.inbox (s.now + dt)) ⟨rfl, rfl, rfl, rfl, rfl, rfl, rfl, rfl, rfl, rfl, rfl, rfl, rfl⟩
    ⟨rfl, rfl, rfl, rfl, rfl, rfl, rfl, rfl, rfl⟩ ⟨rfl, rfl, rfl, rfl, rfl, rfl⟩

/-- **frames that reach the bus between two passes** (and a tick): the inbox is not a key of the environment either -/
theorem RW.arrive {s0 : State} {env : Env} {s : State} (h : RW s0 env s) (inbox : List (Nat × CanMsg)) (now : Nat) :
    RW { s with inbox := inbox, now := now } (env.set "#ops" (.list [])) { s with inbox := inbox, now := now } :=
  h.rebase _ (h.inv.bus inbox now) ⟨rfl, rfl, rfl, rfl, rfl, rfl, rfl, rfl, rfl, rfl, rfl, rfl, rfl⟩
    ⟨rfl, rfl, rfl, rfl, rfl, rfl, rfl, rfl, rfl⟩ ⟨rfl, rfl, rfl, rfl, rfl, rfl⟩

theorem set_same {env : Env} {k : String} {v : PV} (h : env k = some v) : env.set k v = env := by
  funext k'
  rw [set_apply]
  split
  · rename_i e; rw [e, h]
  · rfl

/-- (b) **from the freshly constructed layer** (the conclusions of LayerInit's `init_presents_State_init`, as in `init_RW`), with ANY
    future bus traffic `inbox`: the constructed environment itself shows `State.init c a` with that inbox (the inbox is not a key) -/
theorem init_iterate_total (c : Cfg) (a : Addr) (hc : c.valid = true) (env : Env) (hT : Tx.Rep env (State.init c a))
    (hR : Rx.Rep (State.init c a) env) (hC : Rx.Consts env) (hq : env "#tx_queue" = some (.list []))
    (hops : env "#ops" = some (.list [])) (hdbg : env "logging.DEBUG" = some (pint 10))
    (inbox : List (Nat × CanMsg)) (ps : List (Bool × Bool × PV)) :
    let s : State := { State.init c a with inbox := inbox }
    ∃ envF, (∀ n, passesFuel s (flagsOf ps) ≤ n →
        runPassesPy n (wholeM s) env ps = ⟨(runPasses s (flagsOf ps)).2.map encodeStats, envF, none⟩) ∧
      RW s envF (runPasses s (flagsOf ps)).1 := by
  intro s
  have h0 := (init_RW c a hc env hT hR hC hq hops hdbg).arrive inbox (State.init c a).now
  rw [set_same hops] at h0
  exact process_iterate_total s env s h0 ps

/-! ### the iteration with a tick before every pass -/

/-- model side: the clock advances by `dt`, then `process(do_rx, do_tx)` -/
def runPassesT : State → List (Nat × Bool × Bool) → State × List Stats
  | s, [] => (s, [])
  | s, (dt, doRx, doTx) :: ps =>
    ((runPassesT ((s.advance dt).process doRx doTx).1 ps).1,
      ((s.advance dt).process doRx doTx).2.1 :: (runPassesT ((s.advance dt).process doRx doTx).1 ps).2)

def passesFuelT : State → List (Nat × Bool × Bool) → Nat
  | _, [] => 0
  | s, (dt, doRx, doTx) :: ps =>
    max (processPyFuel (s.advance dt) doRx doTx) (passesFuelT ((s.advance dt).process doRx doTx).1 ps)

def flagsOfT (ps : List (Nat × Bool × Bool × PV)) : List (Nat × Bool × Bool) := ps.map (fun p => (p.1, p.2.1, p.2.2.1))

/-- source side: before each pass the object is re-based on the state the environment shows with the clock advanced by `dt` (the history
    `#ops` is cleared, the callees of the pass are `wholeM` of the new base), the three parameters are re-bound, and the source of `process`
    is run; returns the result and the last base -/
noncomputable def runPassesPyT (n : Nat) : State → Env → List (Nat × Bool × Bool × PV) → IterRes × State
  | s0, env, [] => (⟨[], env, none⟩, s0)
  | s0, env, (dt, doRx, doTx, tmo) :: ps =>
    match run2 n (wholeM ((shown s0 env).advance dt)) (rebind (env.set "#ops" (.list [])) (pbool doRx) (pbool doTx) tmo)
        Src.TransportLayerLogic_process with
    | .ok (.ret v env') =>
      ((runPassesPyT n ((shown s0 env).advance dt) env' ps).1.push v, (runPassesPyT n ((shown s0 env).advance dt) env' ps).2)
    | r => (⟨[], env, some r⟩, s0)

theorem process_iterate_ticks_aux : ∀ (ps : List (Nat × Bool × Bool × PV)) (s0 : State) (env : Env) (s : State), RW s0 env s →
    ∃ envF sB, (∀ n, passesFuelT s (flagsOfT ps) ≤ n →
        runPassesPyT n s0 env ps = (⟨(runPassesT s (flagsOfT ps)).2.map encodeStats, envF, none⟩, sB)) ∧
      RW sB envF (runPassesT s (flagsOfT ps)).1
  | [], s0, env, s, hR => ⟨env, s0, fun _ _ => rfl, hR⟩
  | (dt, doRx, doTx, tmo) :: ps, s0, env, s, hR => by
    obtain ⟨env1, hrun, hR1⟩ := process_pass_total (s.advance dt) _ (s.advance dt) doRx doTx tmo (hR.tick dt)
    obtain ⟨envF, sB, hrest, hRF⟩ := process_iterate_ticks_aux ps (s.advance dt) env1 _ hR1
    refine ⟨envF, sB, ?_, hRF⟩
    intro n hn
    have h1 : processPyFuel (s.advance dt) doRx doTx ≤ n := Nat.le_trans (Nat.le_max_left _ _) hn
    have h2 : passesFuelT ((s.advance dt).process doRx doTx).1 (flagsOfT ps) ≤ n := Nat.le_trans (Nat.le_max_right _ _) hn
    simp only [runPassesPyT, hR.shown_eq, hrun n h1, hrest n h2]
    rfl

/-- **ANY NUMBER OF PASSES, THE CLOCK ADVANCING BETWEEN THEM**: as `process_iterate_total`, with a tick `dt` before every pass
    (model: `State.advance`; source: re-basing, see `runPassesPyT`) -/
theorem process_iterate_ticks_total (s0 : State) (env : Env) (s : State) (hR : RW s0 env s) (ps : List (Nat × Bool × Bool × PV)) :
    ∃ envF sB, (∀ n, passesFuelT s (flagsOfT ps) ≤ n →
        runPassesPyT n s0 env ps = (⟨(runPassesT s (flagsOfT ps)).2.map encodeStats, envF, none⟩, sB)) ∧
      RW sB envF (runPassesT s (flagsOfT ps)).1 :=
  process_iterate_ticks_aux ps s0 env s hR

/-! ## 5. non-vacuity -/

/-- LayerWhole's `exS` (`State.init` of the default configuration, a 10-byte payload QUEUED, on the bus a Single Frame ADDRESSED TO THE
    LAYER and a frame for somebody else) plus the peer's Flow Control (ContinueToSend) that will answer our First Frame -/
def itS : State := exS.pushFrame 7 { id := 0x456, ext := false, data := [0x30, 0x00, 0x00] }

theorem itS_inv : Inv itS := exS_inv.bus _ _

example : itS.inbox.length = 3 ∧ itS.txQueue.length = 1 := by decide
/-- the first frame of the inbox is a Single Frame for us -/
example : itS.inbox.head? = some (5, { id := 0x456, ext := false, data := [0x02, 0xAA, 0xBB] }) ∧
    itS.addr.rx.isForMe { id := 0x456, ext := false, data := [0x02, 0xAA, 0xBB] } = true := by decide

/-- three passes: `process(do_rx=False)` (sends the First Frame), `process(do_tx=False)` (receives the three frames: the Single Frame is
    delivered, the Flow Control goes to the mailbox), `process()` (sends the Consecutive Frame) -/
def itPasses : List (Bool × Bool × PV) := [(false, true, pnone), (true, false, pint 0), (true, true, pint 0)]

/-- what the model computes for them -/
theorem itPasses_stats : (runPasses itS (flagsOf itPasses)).2 =
    [{ received := 0, processed := 0, sent := 1, frames := 0 }, { received := 3, processed := 2, sent := 0, frames := 1 },
     { received := 0, processed := 0, sent := 1, frames := 0 }] := by decide

/-- the hypothesis of `process_iterate_total` holds for the concrete state (via `env0_shows`) ... -/
example : RW itS (env0 itS true true (pint 0)) itS := env0_shows itS true true (pint 0) itS_inv

/-- ... hence its conclusion for the three passes: the iterated source returns `ProcessStats(0, 0, 1, 0)`, `ProcessStats(3, 2, 0, 1)`,
    `ProcessStats(0, 0, 1, 0)` and never stops early -/
example : ∃ envF, (∀ n, passesFuel itS (flagsOf itPasses) ≤ n →
      runPassesPy n (wholeM itS) (env0 itS true true (pint 0)) itPasses =
        ⟨[encodeStats { received := 0, processed := 0, sent := 1, frames := 0 },
          encodeStats { received := 3, processed := 2, sent := 0, frames := 1 },
          encodeStats { received := 0, processed := 0, sent := 1, frames := 0 }], envF, none⟩) ∧
    RW itS envF (runPasses itS (flagsOf itPasses)).1 := by
  have h := process_iterate_total itS _ itS (env0_shows itS true true (pint 0) itS_inv) itPasses
  rw [itPasses_stats] at h
  exact h

/-- the explicit fuel bound for them -/
example : passesFuel itS (flagsOf itPasses) = 103 := by decide

/-- the same passes with the clock advancing before each (1 ms, 2 ms, 0) -/
def itPassesT : List (Nat × Bool × Bool × PV) :=
  [(1000000, false, true, pnone), (2000000, true, false, pint 0), (0, true, true, pint 0)]

example : ∃ envF sB, (∀ n, passesFuelT itS (flagsOfT itPassesT) ≤ n →
      runPassesPyT n itS (env0 itS true true (pint 0)) itPassesT =
        (⟨(runPassesT itS (flagsOfT itPassesT)).2.map encodeStats, envF, none⟩, sB)) ∧
    RW sB envF (runPassesT itS (flagsOfT itPassesT)).1 :=
  process_iterate_ticks_total itS _ itS (env0_shows itS true true (pint 0) itS_inv) itPassesT

/-- the hypotheses of `init_traffic_iterate_total`: a valid configuration, a non-instrumented request -/
example : ({} : Cfg).valid = true ∧
    ∀ r ∈ [({ id := 1, size := 10, src := [1, 2, 3, 4, 5, 6, 7, 8, 9, 10] } : State.SendArgs)], r.instr = false := by
  refine ⟨by decide, ?_⟩
  intro r hr
  rw [List.mem_singleton] at hr
  rw [hr]

/-- a tick really is outside what one base can show -/
example : ¬ ∃ env', RW itS env' (itS.advance 1) :=
  tick_needs_rebase (env0_shows itS true true (pint 0) itS_inv) 1 (by decide)

end Isotp.PyAgree.Whole

#print axioms Isotp.PyAgree.Whole.RW.rebind
#print axioms Isotp.PyAgree.Whole.RW.locals_irrelevant
#print axioms Isotp.PyAgree.Whole.process_pass_total
#print axioms Isotp.PyAgree.Whole.runPasses_fst
#print axioms Isotp.PyAgree.Whole.runPasses_inv
#print axioms Isotp.PyAgree.Whole.process_iterate_total
#print axioms Isotp.PyAgree.Whole.process_iterate_never_raises
#print axioms Isotp.PyAgree.Whole.process_iterate_pass_returns
#print axioms Isotp.PyAgree.Whole.inv_iterate_total
#print axioms Isotp.PyAgree.Whole.Inv.init_traffic
#print axioms Isotp.PyAgree.Whole.init_traffic_iterate_total
#print axioms Isotp.PyAgree.Whole.init_iterate_total
#print axioms Isotp.PyAgree.Whole.RW.shown_eq
#print axioms Isotp.PyAgree.Whole.busTime_applyOp
#print axioms Isotp.PyAgree.Whole.RW.busTime
#print axioms Isotp.PyAgree.Whole.tick_needs_rebase
#print axioms Isotp.PyAgree.Whole.RW.rebase
#print axioms Isotp.PyAgree.Whole.RW.tick
#print axioms Isotp.PyAgree.Whole.RW.arrive
#print axioms Isotp.PyAgree.Whole.process_iterate_ticks_total
