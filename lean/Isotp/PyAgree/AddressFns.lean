import Isotp.PyAgree.EvalLemmas
/-!
  Agreement of the interpreted source of the small `Address` methods with the model (`Isotp/Address.lean`), for all inputs:
  the five `_is_for_me_*` predicates, `_get_tx_arbitration_id` / `_get_rx_arbitration_id`, the extension-byte getters,
  `_requires_extension_byte`, `is_partial_address`, and the public cached getters `get_tx_arbitration_id` / `get_rx_arbitration_id`.
-/
namespace Isotp.PyAgree
open Isotp Isotp.Py

/-! ### environments -/

/-- the extra parameter `address_type` of the identifier getters -/
def tatEnv (t : Tat) (base : Env) : Env := fun k =>
  match k with
  | "address_type" => some (tatPV t)
  | _ => base k

/-- the four identifiers cached by the constructor (`self._tx_arbitration_id_physical`, ...) -/
def cachedEnv (h : Half) (base : Env) : Env := fun k =>
  match k with
  | "self._tx_arbitration_id_physical" => some (pint (h.txId .physical))
  | "self._tx_arbitration_id_functional" => some (pint (h.txId .functional))
  | "self._rx_arbitration_id_physical" => some (pint (h.rxId .physical))
  | "self._rx_arbitration_id_functional" => some (pint (h.rxId .functional))
  | _ => base k

/-! ### value-level lemmas local to this file -/

/-- `msg.data[0]` of the interpreter (`b[0].toNat`) is the model's `byteAt m.data 0` when the payload is not empty -/
theorem getElem_zero_toNat_eq_byteAt (d : Bytes) (hd : 0 < d.length) : (d[0]'hd).toNat = byteAt d 0 := by
  cases d with
  | nil => simp at hd
  | cons x xs => simp [byteAt]

/-- `base | (hi << 8) | lo = base + hi*256 + lo` for a base that is a multiple of 65536 and two bytes
    (same statement as `Isotp.C09.add_eq_or`, re-proved here to avoid importing the process model). -/
theorem or_shl_eq_add (base hi lo : Nat) (hb : base % 65536 = 0) (hhi : hi ≤ 255) (hlo : lo ≤ 255) :
    base ||| (hi <<< 8) ||| lo = base + hi * 256 + lo := by
  obtain ⟨k, rfl⟩ : ∃ k, base = k * 65536 := ⟨base / 65536, by omega⟩
  have e : k * 65536 + hi * 256 = (k * 256 + hi) * 256 := by omega
  have a1 := Nat.shiftLeft_add_eq_or_of_lt (i := 16) (b := hi <<< 8)
    (by simp only [Nat.shiftLeft_eq, Nat.reducePow]; omega) k
  have a2 := Nat.shiftLeft_add_eq_or_of_lt (i := 8) (b := lo) (by omega) (k * 256 + hi)
  simp only [Nat.shiftLeft_eq, Nat.reducePow] at a1 a2 ⊢
  rewrite [← a1, e, ← a2]
  rfl

/-! ### 1. the five `_is_for_me_*` predicates -/

theorem is_for_me_normal_agrees (h : Half) (hm : h.mode = .n11 ∨ h.mode = .n29) (m : CanMsg) :
    retOf (msgEnv m (halfEnv h)) Src.Address_p_is_for_me_normal = .ok (pbool (h.isForMe m)) := by
  rcases hm with hm | hm <;> cases hx : m.ext <;> cases hr : h.rxid <;>
  simp [retOf, runFn, Src.Address_p_is_for_me_normal, execBlock, execStmt, eval, msgEnv, halfEnv, hm, hx, hr,
    Half.isForMe, Mode.is29, optPV]
  all_goals grind

theorem is_for_me_extended_agrees (h : Half) (hm : h.mode = .e11 ∨ h.mode = .e29) (m : CanMsg) :
    retOf (msgEnv m (halfEnv h)) Src.Address_p_is_for_me_extended = .ok (pbool (h.isForMe m)) := by
  obtain ⟨id, ext, data, dlc, fd, brs⟩ := m
  rcases hm with hm | hm <;> cases ext <;> cases hr : h.rxid <;> cases hs : h.sa <;> cases data <;>
  simp [retOf, runFn, Src.Address_p_is_for_me_extended, execBlock, execStmt, eval, evalArgs, evalBuiltin, natIdx, asInt,
    Sc.isInt, Sc.intVal, PyVal.isInt, PyVal.intVal, msgEnv, halfEnv, hm, hr, hs,
    Half.isForMe, Mode.is29, optPV, byteAt]
  all_goals grind

end Isotp.PyAgree
