"""
Translator for the finite part of the code: evaluates the real functions of /repo on their ENTIRE
finite domains and writes lean/Isotp/Generated.lean (one big Nat literal per table).  The leaf
modules lean/Isotp/Agree/*.lean prove, by `decide +kernel` over the whole domain, that the model's
closed forms equal these tables.  For a function with a finite domain its graph is the function, so
a kernel-checked theorem about the graph is a theorem about the code (modulo this extractor).

Content-hashed: an unchanged table file is not rewritten (no rebuild).
"""
import os
import sys
import hashlib

HERE = os.path.dirname(os.path.abspath(__file__))
VERIF = os.path.dirname(HERE)
OUT = os.path.join(VERIF, 'lean', 'Isotp', 'Generated.lean')
REPO = os.environ.get('VERIF_REPO', '/repo')

TXDLS = [8, 12, 16, 20, 24, 32, 48, 64]
MINLENS = [None, 1, 2, 3, 4, 5, 6, 7, 8, 12, 16, 20, 24, 32, 48, 64]
ERR8 = 0xFF
ERR32 = 0xFFFFFFFF


def pack(entries, width):
    n = 0
    for i, e in enumerate(entries):
        assert 0 <= e < (1 << (8 * width)), (i, e)
        n |= e << (8 * width * i)
    return n


def compute():
    if REPO not in sys.path:
        sys.path.insert(0, REPO)
    import isotp
    from isotp.protocol import PDU, TransportLayerLogic
    from isotp.tools import Timer
    tabs = {}
    notes = {}

    # --- stmin: byte -> nanoseconds of Timer.set_timeout(stmin_sec), or ValueError (PDU refuses)
    ent = []
    for b in range(256):
        try:
            pdu = PDU(isotp.CanMessage(arbitration_id=1, data=bytes([0x30, 0, b])))
            t = Timer(timeout=0)
            t.set_timeout(pdu.stmin_sec)
            ent.append(t.timeout)
        except ValueError:
            ent.append(ERR32)
    tabs['stminTable'] = (ent, 4)

    def layer(params):
        addr = isotp.Address(isotp.AddressingMode.Normal_11bits, txid=0x123, rxid=0x456)
        return TransportLayerLogic(rxfn=lambda *a, **k: None, txfn=lambda m: None, address=addr, params=params)

    l8 = layer({'tx_data_length': 8})
    l64 = layer({'tx_data_length': 64})

    # --- _get_nearest_can_fd_size on 0..66
    ent = []
    for n in range(67):
        try:
            ent.append(l64._get_nearest_can_fd_size(n))
        except ValueError:
            ent.append(ERR8)
    tabs['nearestFdTable'] = (ent, 1)

    # --- _get_dlc(bytes(n), validate_tx=True) for tx_data_length = 8 and > 8
    for name, l in (('dlcTable8', l8), ('dlcTableFd', l64)):
        ent = []
        for n in range(67):
            try:
                ent.append(l._get_dlc(bytes(n), validate_tx=True))
            except ValueError:
                ent.append(ERR8)
        tabs[name] = (ent, 1)

    # --- len(_pad_message_data(bytes(n))): 8 tx_dl x 16 min_len x {None, byte} x n in 0..64
    #     (combinations with min_len > tx_dl are rejected by validation: entry 0xFE)
    ent = []
    padbyte_ok = True
    for dl in TXDLS:
        for ml in MINLENS:
            for pad in (None, 0x5A):
                p = {'tx_data_length': dl}
                if ml is not None:
                    p['tx_data_min_length'] = ml
                if pad is not None:
                    p['tx_padding'] = pad
                try:
                    l = layer(p)
                except ValueError:
                    ent.extend([0xFE] * 65)
                    continue
                for n in range(65):
                    try:
                        d = l._pad_message_data(bytes([1] * n))
                        ent.append(len(d))
                        exp = 0xCC if pad is None else pad
                        if d[:n] != bytes([1] * n) or any(x != exp for x in d[n:]):
                            padbyte_ok = False
                    except ValueError:
                        ent.append(ERR8)
    tabs['padLenTable'] = (ent, 1)
    notes['padByteOk'] = padbyte_ok

    # --- PDU first-byte classification: every 1-byte-PCI x following bytes pattern, on 8-byte frames
    #     frame = [b0, b1, 0x11, 0x22, 0x33, 0x44, 0x55, 0x66] for b0 in 0..255, b1 in {0,1,5,7,200}
    #     -> kind code: 0 error, 1 sf, 2 ff, 3 cf, 4 fc ; second table: decoded length (sf/ff) or sn (cf) or fs (fc), low 16 bits
    kinds, vals = [], []
    B1 = [0, 1, 5, 7, 200]
    for b0 in range(256):
        for b1 in B1:
            data = bytes([b0, b1, 0x11, 0x22, 0x33, 0x44, 0x55, 0x66])
            try:
                pdu = PDU(isotp.CanMessage(arbitration_id=1, data=data))
                if pdu.type == PDU.Type.SINGLE_FRAME:
                    kinds.append(1); vals.append(pdu.length & 0xFFFF)
                elif pdu.type == PDU.Type.FIRST_FRAME:
                    kinds.append(2); vals.append(pdu.length & 0xFFFF)
                elif pdu.type == PDU.Type.CONSECUTIVE_FRAME:
                    kinds.append(3); vals.append(pdu.seqnum)
                elif pdu.type == PDU.Type.FLOW_CONTROL:
                    kinds.append(4); vals.append(pdu.flow_status)
                else:
                    kinds.append(0); vals.append(0)
            except Exception:
                kinds.append(0); vals.append(0)
    tabs['pciKindTable'] = (kinds, 1)
    tabs['pciValTable'] = (vals, 2)

    # --- tpsock constants and one byte image per option struct (fake socket capturing setsockopt)
    try:
        import socket as real_socket
        import isotp.tpsock
        import isotp.tpsock.opts as om
        fl = isotp.tpsock.flags
        consts = [fl.LISTEN_MODE, fl.EXTEND_ADDR, fl.TX_PADDING, fl.RX_PADDING, fl.FORCE_TXSTMIN, fl.RX_EXT_ADDR,
                  om.CAN_ISOTP_OPTS, om.CAN_ISOTP_RECV_FC, om.CAN_ISOTP_TX_STMIN, om.CAN_ISOTP_LL_OPTS, om.SOL_CAN_ISOTP,
                  om.GeneralOpts.struct_size, om.FlowControlOpts.struct_size, om.LinkLayerOpts.struct_size]

        class Cap(real_socket.socket):
            def __init__(self):
                self.calls = []

            def getsockopt(self, level, opt, size=None):
                return bytes(size or 0)

            def setsockopt(self, level, opt, data):
                self.calls.append((level, opt, bytes(data)))

            def close(self):
                pass

            def __del__(self):
                pass
        c = Cap()
        om.GeneralOpts.write(c, optflag=0x01020304, frame_txtime=0x05060708, ext_address=0x11, txpad=0x22, rxpad=0x33, rx_ext_address=0x44, tx_stmin=0x0A0B0C0D)
        om.FlowControlOpts.write(c, bs=0x51, stmin=0x52, wftmax=0x53)
        om.LinkLayerOpts.write(c, mtu=0x61, tx_dl=0x62, tx_flags=0x63)
        img = []
        for (level, opt, data) in c.calls:
            img.extend([level, opt, len(data)] + list(data) + [0] * (12 - len(data)))
        tabs['sockConstTable'] = (consts, 4)
        tabs['sockImageTable'] = (img, 1)
    except Exception as e:      # tpsock not importable here: the leaf will not build and says so
        notes['sock_error'] = repr(e)
    return tabs, notes


def render(tabs, notes):
    lines = ['/-', '  GENERATED by harness/extract_tables.py from the working tree of /repo — do not edit.',
             '  Each table is one Nat literal; entry i of width w bytes is `t / 256^(w*i) % 256^w`.', '-/',
             'namespace Isotp.Generated', '',
             'def entry (t w i : Nat) : Nat := t / 256 ^ (w * i) % 256 ^ w', '']
    for name, (ent, w) in tabs.items():
        lines.append('/-- %d entries of %d byte(s) -/' % (len(ent), w))
        lines.append('def %s : Nat := 0x%x' % (name, pack(ent, w)))
        lines.append('def %sLen : Nat := %d' % (name, len(ent)))
        lines.append('')
    lines.append('def padByteOk : Bool := %s' % ('true' if notes.get('padByteOk') else 'false'))
    lines.append('')
    lines.append('end Isotp.Generated')
    return '\n'.join(lines) + '\n'


def main():
    tabs, notes = compute()
    txt = render(tabs, notes)
    old = None
    if os.path.exists(OUT):
        old = open(OUT).read()
    if old != txt:
        tmp = OUT + '.tmp'
        with open(tmp, 'w') as f:
            f.write(txt)
        os.replace(tmp, OUT)
    return {'sha1': hashlib.sha1(txt.encode()).hexdigest(), 'changed': old != txt,
            'entries': {k: len(v[0]) for k, v in tabs.items()}}


if __name__ == '__main__':
    print(main())
