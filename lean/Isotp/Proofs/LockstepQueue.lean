import Isotp.Proofs.Lockstep
/-
  C01, liveness half for ANY NUMBER OF QUEUED MESSAGES, part 1: the sending layer A with a non-empty tx queue.

  The lemmas of LockstepTx are stated for a sender whose queue holds exactly the request being transferred. Here the
  queue holds further requests. What changes: in the transmit loop (`txLoop`) the pass that hands out the LAST frame
  of a message does not stop there — `_process_tx` is called again, finds the FSM idle with a non-empty queue and
  starts the next message in the same pass ("chain"): every queued Single Frame message goes out (and completes)
  at once, then the First Frame of the first segmented message (`chainA`, `txLoop_chain`).

  * `donesOf` : the `complete(ok)` notifications of a log, oldest first.
  * `processTx_firstQ`, `processTx_sfQ` : `_process_tx` idle with the request at the head of a longer queue.
  * `TCondQ`, `runA_absQ`, `txLoop_TQ` : the TRANSMIT_CF run with a queue; when the message completes the loop goes on.
  * `chainA`, `chainFrames`, `chainDones`, `ChainPostA`, `txLoop_chain`, `chainA_spec` : the chain.
  * `passA_startQ`, `passA_TQ`, `passA_WQ`, `passA_idleQ` : `process()` of the sender, pass by pass.
-/
namespace Isotp.LockstepQ
open Isotp Isotp.State Isotp.Spec Isotp.Proofs Isotp.Lockstep

/-- a queued message: request id and payload -/
abbrev Msg := Nat × Bytes

/-! ## `complete(ok)` notifications of a log -/

/-- the `complete(ok)` calls of a log (newest first), oldest first -/
def donesOf (lg : List Ev) : List (Nat × Bool) :=
  lg.reverse.filterMap fun e => match e with | .done i b => some (i, b) | _ => none

theorem donesOf_nil : donesOf [] = [] := rfl

theorem donesOf_append (a b : List Ev) : donesOf (a ++ b) = donesOf b ++ donesOf a := by
  simp [donesOf, List.reverse_append, List.filterMap_append]

theorem donesOf_cons (e : Ev) (lg : List Ev) : donesOf (e :: lg) = donesOf lg ++ donesOf [e] :=
  donesOf_append [e] lg

@[simp] theorem donesOf_done (i : Nat) (b : Bool) (lg : List Ev) : donesOf (.done i b :: lg) = donesOf lg ++ [(i, b)] := by
  rw [donesOf_cons]; rfl
@[simp] theorem donesOf_tx (t : Nat) (m : CanMsg) (lg : List Ev) : donesOf (.tx t m :: lg) = donesOf lg := by
  rw [donesOf_cons]; simp [donesOf]
@[simp] theorem donesOf_rx (t : Nat) (m : CanMsg) (lg : List Ev) : donesOf (.rx t m :: lg) = donesOf lg := by
  rw [donesOf_cons]; simp [donesOf]
@[simp] theorem donesOf_rxNone (t : Nat) (lg : List Ev) : donesOf (.rxNone t :: lg) = donesOf lg := by
  rw [donesOf_cons]; simp [donesOf]

theorem donesOf_reverse_eq (lg : List Ev) :
    donesOf lg = lg.reverse.filterMap fun e => match e with | .done i b => some (i, b) | _ => none := rfl

/-! ## `_process_tx` with further requests queued -/

/-- the requests `send` queues for a list of messages -/
def reqsOf (ca : Cfg) (l : List Msg) : List Req := l.map fun m => reqFor ca m.1 m.2

theorem reqsOf_cons (ca : Cfg) (m : Msg) (l : List Msg) : reqsOf ca (m :: l) = reqFor ca m.1 m.2 :: reqsOf ca l := rfl

/-- idle with the request at the head of the queue: the First Frame goes out, the FSM waits for the Flow Control -/
theorem processTx_firstQ (ca : Cfg) (aa : Addr) (id : Nat) (p : Bytes) (Q : List Req) (hva : ca.valid = true)
    (h32 : p.length < 4294967296) (hff : NeedsFF (TxCfg.of ca aa) p.length) (x : AP)
    (hst : x.txState = .idle) (hq : x.txQueue = reqFor ca id p :: Q) (hlf : x.lastFc = none) (htf : x.timerFc = none) :
    (mkA ca aa x).processTx =
      (mkA ca aa { x with txQueue := Q, active := some (reqAt ca id p (carried (TxCfg.of ca aa) p.length 1)),
                          txFrameLen := p.length, txSeq := 1, txState := .waitFc, timerFc := some x.now },
        some (wireA ca aa p 0), false) := by
  have hvt := valid_of ca aa hva
  have hfr := reqFor_fresh ca id p
  have hlt := ffRoom_lt _ _ hff hvt
  have h1 : (mkA ca aa x).processTx =
      Fc.finish (((mkA ca aa { x with txQueue := Q, active := some (reqFor ca id p) }).startTx (reqFor ca id p) noLimit).1,
                 ((mkA ca aa { x with txQueue := Q, active := some (reqFor ca id p) }).startTx (reqFor ca id p) noLimit).2, false) :=
    Fc.processTx_next_message (mkA ca aa x) (reqFor ca id p) Q hst rfl hlf (by simp [mkA, htf]) hq
      (hfr.not_depleted (by omega))
  have h2 : (mkA ca aa { x with txQueue := Q, active := some (reqFor ca id p) }).startTx (reqFor ca id p) noLimit =
      (mkA ca aa { x with txQueue := Q, active := some (reqAt ca id p (ffRoom (TxCfg.of ca aa) p.length)),
                          log := pullLog (reqFor ca id p) (ffRoom (TxCfg.of ca aa) p.length) ++ x.log,
                          txFrameLen := p.length, txSeq := 1, txState := .waitFc, timerFc := some x.now },
        some (wireA ca aa p 0)) :=
    startTx_ff_exact _ (reqFor ca id p) noLimit p hva hfr.1 hfr.2 h32 hff (by simp [reqFor]; exact Nat.le_of_lt hlt)
      (txDl_le_noLimit ca aa hva).1
  rw [h1, h2, finish_mkA, carried_one _ _ hvt hff]
  have : pullLog (reqFor ca id p) (ffRoom (TxCfg.of ca aa) p.length) = [] := by simp [pullLog, reqFor]
  rw [this]
  rfl

/-- the CAN message A emits for a Single Frame payload -/
def sfWire (ca : Cfg) (aa : Addr) (p : Bytes) : CanMsg := wireSf ca aa ((segment (TxCfg.of ca aa) p).headD [])

theorem sfWire_eq (ca : Cfg) (aa : Addr) (p d0 : Bytes) (h : segment (TxCfg.of ca aa) p = [d0]) :
    sfWire ca aa p = wireSf ca aa d0 := by
  unfold sfWire; rw [h]; rfl

/-- idle with a Single Frame request at the head of the queue: the frame goes out, the request completes -/
theorem processTx_sfQ (ca : Cfg) (aa : Addr) (id : Nat) (p : Bytes) (Q : List Req) (hva : ca.valid = true)
    (h1 : 1 ≤ p.length) (hsf : ¬ NeedsFF (TxCfg.of ca aa) p.length) (x : AP)
    (hst : x.txState = .idle) (hq : x.txQueue = reqFor ca id p :: Q) (hlf : x.lastFc = none) (htf : x.timerFc = none) :
    (mkA ca aa x).processTx =
      (mkA ca aa { x with txQueue := Q, active := none, txState := .idle, txFrameLen := 0, txSeq := 0,
                          txBlockCnt := 0, remoteBs := none, timerFc := none,
                          timerStmin := { start := none, timeout := x.timerStmin.timeout },
                          log := .done id true :: x.log },
        some (sfWire ca aa p), false) := by
  have hfr := reqFor_fresh ca id p
  have h1' : (mkA ca aa x).processTx =
      Fc.finish (((mkA ca aa { x with txQueue := Q, active := some (reqFor ca id p) }).startTx (reqFor ca id p) noLimit).1,
                 ((mkA ca aa { x with txQueue := Q, active := some (reqFor ca id p) }).startTx (reqFor ca id p) noLimit).2, false) :=
    Fc.processTx_next_message (mkA ca aa x) (reqFor ca id p) Q hst rfl hlf (by simp [mkA, htf]) hq
      (hfr.not_depleted (by omega))
  obtain ⟨d0, hseg, h2⟩ := startTx_sf_exact (mkA ca aa { x with txQueue := Q, active := some (reqFor ca id p) })
    (reqFor ca id p) noLimit p hva hfr.1 hfr.2 h1 (by simp [reqFor]) (not_ff_cases _ _ hsf) (txDl_le_noLimit ca aa hva).1
  have hseg' : segment (TxCfg.of ca aa) p = [d0] := hseg
  rw [sfWire_eq ca aa p d0 hseg']
  rw [h1', h2]
  have hpl : pullLog (reqFor ca id p) p.length = [] := by simp [pullLog, reqFor]
  have hstop : (({ mkA ca aa { x with txQueue := Q, active := some (reqFor ca id p) } with
        active := some (Req.adv (reqFor ca id p) p.length),
        log := pullLog (reqFor ca id p) p.length ++ (mkA ca aa { x with txQueue := Q, active := some (reqFor ca id p) }).log } : State).stopSending true) =
      mkA ca aa { x with txQueue := Q, active := none, txState := .idle, txFrameLen := 0, txSeq := 0,
                          txBlockCnt := 0, remoteBs := none, timerFc := none,
                          timerStmin := { start := none, timeout := x.timerStmin.timeout },
                          log := .done id true :: x.log } := by
    rw [hpl]
    simp [stopSending, mkA, emit, Timer.stop, Req.adv, reqFor]
  rw [hstop]
  exact finish_mkA ca aa _ _ _

/-- IDLE, empty queue: nothing happens (as `processTx_idle`; restated for reference) -/
theorem processTx_idleQ (ca : Cfg) (aa : Addr) (x : AP)
    (hst : x.txState = .idle) (hq : x.txQueue = []) (hlf : x.lastFc = none) (htf : x.timerFc = none) :
    (mkA ca aa x).processTx = (mkA ca aa x, none, false) := processTx_idle ca aa x hst hq hlf htf


/-! ## the TRANSMIT_CF run with a queue -/

section run
variable (ca : Cfg) (aa : Addr) (id : Nat) (p : Bytes) (bs : Nat) (Q : List Req)

/-- what the transmit pass needs to know about the sender in TRANSMIT_CF with `k` frames out (queue `Q`) -/
structure TCondQ (x : AP) (k : Nat) : Prop where
  k1   : 1 ≤ k
  st   : x.txState = .transmitCf
  lf   : x.lastFc = none
  tf   : x.timerFc = none
  act  : x.active = some (reqAt ca id p (carried (TxCfg.of ca aa) p.length k))
  more : carried (TxCfg.of ca aa) p.length k < p.length
  seq  : x.txSeq = k % 16
  rbs  : x.remoteBs = some bs
  txq  : x.txQueue = Q

theorem runA_cnt_le : ∀ (f : Nat) (x : AP) (k : Nat), (runA ca aa id p bs f x k).2.1 ≤ f := by
  intro f
  induction f with
  | zero => intro x k; simp [runA]
  | succ f ih =>
    intro x k
    unfold runA
    split
    · split
      · simp
      · split
        · simp
        · have := ih (apT ca aa id p x k) (k + 1)
          simp only []
          omega
    · simp

/-- The transmit loop in TRANSMIT_CF with further requests queued: as `txLoop_T`, but when the message completes
    (`runA` ends idle) the loop goes on from the idle state. -/
theorem txLoop_TQ (hva : ca.valid = true) : ∀ (f e : Nat) (x : AP) (k n : Nat),
    p.length - carried (TxCfg.of ca aa) p.length k < f → TCondQ ca aa id p bs Q x k →
    txLoop (f + e) (mkA ca aa x) n =
      if (runA ca aa id p bs f x k).1.txState = .idle then
        txLoop (f + e - (runA ca aa id p bs f x k).2.1) (mkA ca aa (runA ca aa id p bs f x k).1)
          (n + (runA ca aa id p bs f x k).2.1)
      else
        (mkA ca aa (runA ca aa id p bs f x k).1, n + (runA ca aa id p bs f x k).2.1,
          (runA ca aa id p bs f x k).2.2, false) := by
  intro f
  induction f with
  | zero => intro e x k n h; omega
  | succ f ih =>
    intro e x k n hf hc
    have hfe : f + 1 + e = (f + e) + 1 := by omega
    rw [hfe]
    by_cases hto : x.timerStmin.timedOut x.now = true
    · have hstep := carried_step (TxCfg.of ca aa) p.length k hc.k1 hc.more
      have hroom := cfRoom_pos _ (valid_of ca aa hva)
      have hpt := processTx_T_emit ca aa id p hva x k bs hc.k1 hc.st hc.lf hc.tf hc.act hc.more hc.seq hc.rbs hto
      unfold runA
      simp only [hto, if_true]
      by_cases h1 : carried (TxCfg.of ca aa) p.length (k + 1) = p.length
      · rw [if_pos h1] at hpt
        rw [if_pos h1]
        rw [txLoop_more _ _ _ _ _ hpt rfl, emit_mkA]
        have hidle : (apD ca aa id p x k).txState = .idle := rfl
        rw [if_pos hidle]
        rfl
      · rw [if_neg h1] at hpt
        rw [if_neg h1]
        by_cases h2 : bs ≠ 0 ∧ x.txBlockCnt + 1 ≥ bs
        · rw [if_pos h2] at hpt
          rw [if_pos h2]
          rw [txLoop_imm _ _ _ _ _ hpt rfl, emit_mkA]
          have hw : ¬ (apW ca aa id p x k).txState = .idle := by intro h; cases h
          rw [if_neg hw]
          rfl
        · rw [if_neg h2] at hpt
          rw [if_neg h2]
          rw [txLoop_more _ _ _ _ _ hpt rfl, emit_mkA]
          have hc' : TCondQ ca aa id p bs Q (apT ca aa id p x k) (k + 1) :=
            ⟨by omega, hc.st, hc.lf, hc.tf, rfl, by omega, rfl, hc.rbs, hc.txq⟩
          have := ih e (apT ca aa id p x k) (k + 1) (n + 1) (by omega) hc'
          show txLoop (f + e) (mkA ca aa (apT ca aa id p x k)) (n + 1) = _
          rw [this]
          simp only []
          have e1 : f + e + 1 - ((runA ca aa id p bs f (apT ca aa id p x k) (k + 1)).2.1 + 1) =
              f + e - (runA ca aa id p bs f (apT ca aa id p x k) (k + 1)).2.1 := by omega
          have e2 : n + ((runA ca aa id p bs f (apT ca aa id p x k) (k + 1)).2.1 + 1) =
              n + 1 + (runA ca aa id p bs f (apT ca aa id p x k) (k + 1)).2.1 := by omega
          rw [e1, e2]
    · have hto' : x.timerStmin.timedOut x.now = false := by simpa using hto
      unfold runA
      simp only [hto', Bool.false_eq_true, if_false, Nat.add_zero]
      have hw : ¬ x.txState = .idle := by rw [hc.st]; intro h; cases h
      rw [if_neg hw]
      exact txLoop_none _ _ _ _
        (processTx_T_wait ca aa id p x _ bs hc.st hc.lf hc.tf hc.act hc.more hc.rbs hto') rfl

/-- what is known about the sender parameters right after a run that ended in abstract state `a` -/
def APostQ (eff : Nat) : Abs → AP → Prop
  | .I, _ => False
  | .W k, x => 1 ≤ k ∧ x.txState = .waitFc ∧ x.timerFc = some x.now ∧
      x.active = some (reqAt ca id p (carried (TxCfg.of ca aa) p.length k)) ∧
      carried (TxCfg.of ca aa) p.length k < p.length ∧ x.txSeq = k % 16 ∧ x.txQueue = Q ∧ x.lastFc = none
  | .T k j, x => TCondQ ca aa id p bs Q x k ∧ x.txBlockCnt = j ∧ x.timerStmin = { start := some x.now, timeout := eff }
  | .D, x => x.txState = .idle ∧ x.txQueue = Q ∧ x.lastFc = none ∧ x.timerFc = none ∧ x.active = none

/-- the sender's run follows the abstract run (`runA_abs` with a queue; the `complete` notifications are exact) -/
theorem runA_absQ (eff : Nat) (hva : ca.valid = true) (hff : NeedsFF (TxCfg.of ca aa) p.length) (z : Bool)
    (hz : z = decide (eff = 0)) : ∀ (f g : Nat) (x : AP) (k : Nat),
    TCondQ ca aa id p bs Q x k → x.timerStmin.timeout = eff → x.timerStmin.timedOut x.now = true →
    p.length - carried (TxCfg.of ca aa) p.length k < f → nFrames (TxCfg.of ca aa) p - k ≤ g →
    APostQ ca aa id p bs Q eff (absRun z bs (nFrames (TxCfg.of ca aa) p) g k x.txBlockCnt).1 (runA ca aa id p bs f x k).1 ∧
    (runA ca aa id p bs f x k).2.1 = (absRun z bs (nFrames (TxCfg.of ca aa) p) g k x.txBlockCnt).2 ∧
    (runA ca aa id p bs f x k).1.now = x.now ∧ (runA ca aa id p bs f x k).1.inbox = x.inbox ∧
    txsOf (runA ca aa id p bs f x k).1.log =
      txsOf x.log ++ framesA ca aa p k (absRun z bs (nFrames (TxCfg.of ca aa) p) g k x.txBlockCnt).2 ∧
    (NoErr x.log → NoErr (runA ca aa id p bs f x k).1.log) ∧
    donesOf (runA ca aa id p bs f x k).1.log = donesOf x.log ++
      (if (absRun z bs (nFrames (TxCfg.of ca aa) p) g k x.txBlockCnt).1 = .D then [(id, true)] else []) ∧
    (runA ca aa id p bs f x k).1.timerStmin.timeout = eff := by
  have hvt := valid_of ca aa hva
  intro f
  induction f with
  | zero => intro g x k _ _ _ h; omega
  | succ f ih =>
    intro g x k hc hto0 hto hf hg
    have hkn := (lt_nFrames_iff _ hvt p hff k hc.k1).mpr hc.more
    obtain ⟨g, rfl⟩ : ∃ g', g = g' + 1 := ⟨g - 1, by omega⟩
    have hlast := last_iff _ hvt p hff k hc.k1 hc.more
    have hstep := carried_step (TxCfg.of ca aa) p.length k hc.k1 hc.more
    have hroom := cfRoom_pos _ hvt
    have hle := carried_le (TxCfg.of ca aa) p.length (k + 1)
    unfold runA absRun
    simp only [hto, if_true]
    by_cases h1 : carried (TxCfg.of ca aa) p.length (k + 1) = p.length
    · have h1' := hlast.mp h1
      rw [if_pos h1, if_pos h1']
      refine ⟨⟨rfl, hc.txq, hc.lf, rfl, rfl⟩, rfl, rfl, rfl, ?_, ?_, ?_, hto0⟩
      · simp [apD, framesA]
      · intro hne
        exact NoErr_cons (NoErr_cons hne (by intro t e h; cases h)) (by intro t e h; cases h)
      · simp [apD]
    · have h1' : ¬ k + 1 = nFrames (TxCfg.of ca aa) p := fun h => h1 (hlast.mpr h)
      rw [if_neg h1, if_neg h1']
      by_cases h2 : bs ≠ 0 ∧ x.txBlockCnt + 1 ≥ bs
      · rw [if_pos h2, if_pos h2]
        refine ⟨⟨by omega, rfl, rfl, rfl, by omega, rfl, hc.txq, hc.lf⟩, rfl, rfl, rfl, ?_, ?_, ?_, hto0⟩
        · simp [apW, framesA]
        · intro hne
          exact NoErr_cons hne (by intro t e h; cases h)
        · simp [apW]
      · rw [if_neg h2, if_neg h2]
        have hc' : TCondQ ca aa id p bs Q (apT ca aa id p x k) (k + 1) :=
          ⟨by omega, hc.st, hc.lf, hc.tf, rfl, by omega, rfl, hc.rbs, hc.txq⟩
        have hto' : (apT ca aa id p x k).timerStmin.timedOut (apT ca aa id p x k).now = decide (eff = 0) := by
          show ({ start := some x.now, timeout := x.timerStmin.timeout } : Timer).timedOut x.now = _
          rw [hto0]; exact timedOut_started _ _
        cases z with
        | true =>
          have he0 : eff = 0 := by simpa using hz.symm
          simp only [if_true]
          obtain ⟨i1, i2, i3, i4, i5, i6, i7, i8⟩ := ih g (apT ca aa id p x k) (k + 1) hc' hto0
            (by rw [hto']; simp [he0]) (by omega) (by omega)
          refine ⟨i1, by rw [i2]; rfl, i3, i4, ?_, ?_, ?_, i8⟩
          · rw [i5, framesA_succ]; simp [apT]
          · intro hne
            exact i6 (NoErr_cons hne (by intro t e h; cases h))
          · rw [i7]
            show donesOf (Ev.tx x.now (wireA ca aa p k) :: x.log) ++ _ = _
            rw [donesOf_tx]
            rfl
        | false =>
          have he0 : ¬ eff = 0 := by simpa using hz.symm
          simp only [Bool.false_eq_true, if_false]
          obtain ⟨f', rfl⟩ : ∃ f', f = f' + 1 := ⟨f - 1, by omega⟩
          have hnt : (apT ca aa id p x k).timerStmin.timedOut (apT ca aa id p x k).now = false := by
            rw [hto']; simp [he0]
          have hr : runA ca aa id p bs (f' + 1) (apT ca aa id p x k) (k + 1) = (apT ca aa id p x k, 0, false) := by
            unfold runA
            simp only [hnt, Bool.false_eq_true, if_false]
          rw [hr]
          refine ⟨⟨hc', rfl, ?_⟩, rfl, rfl, rfl, ?_, ?_, ?_, hto0⟩
          · show ({ start := some x.now, timeout := x.timerStmin.timeout } : Timer) = _
            rw [hto0]; rfl
          · simp [apT, framesA]
          · intro hne
            exact NoErr_cons hne (by intro t e h; cases h)
          · simp [apT]

end run

/-! ## the chain: what the transmit loop does from IDLE with a non-empty queue -/

section chain
variable (ca : Cfg) (aa : Addr)

/-- sender parameters after the First Frame of `(id, p)` went out (`Q`: what is left of the queue) -/
def apFF (id : Nat) (p : Bytes) (Q : List Req) (x : AP) : AP :=
  { x with txQueue := Q, active := some (reqAt ca id p (carried (TxCfg.of ca aa) p.length 1)),
           txFrameLen := p.length, txSeq := 1, txState := .waitFc, timerFc := some x.now,
           log := .tx x.now (wireA ca aa p 0) :: x.log }

/-- … after the Single Frame of `(id, p)` went out and the request completed -/
def apSF (id : Nat) (p : Bytes) (Q : List Req) (x : AP) : AP :=
  { x with txQueue := Q, active := none, txState := .idle, txFrameLen := 0, txSeq := 0, txBlockCnt := 0,
           remoteBs := none, timerFc := none, timerStmin := { start := none, timeout := x.timerStmin.timeout },
           log := .tx x.now (sfWire ca aa p) :: .done id true :: x.log }

/-- The transmit loop from IDLE with the requests of `l` queued, on the sender parameters: every leading Single
    Frame message goes out and completes, then the First Frame of the first segmented message. -/
def chainA : List Msg → AP → AP
  | [], x => x
  | m :: rest, x =>
    if NeedsFF (TxCfg.of ca aa) m.2.length then apFF ca aa m.1 m.2 (reqsOf ca rest) x
    else chainA rest (apSF ca aa m.1 m.2 (reqsOf ca rest) x)

/-- the frames of the chain -/
def chainFrames : List Msg → List CanMsg
  | [] => []
  | m :: rest =>
    if NeedsFF (TxCfg.of ca aa) m.2.length then [wireA ca aa m.2 0] else sfWire ca aa m.2 :: chainFrames rest

/-- the requests the chain completes -/
def chainDones : List Msg → List (Nat × Bool)
  | [] => []
  | m :: rest => if NeedsFF (TxCfg.of ca aa) m.2.length then [] else (m.1, true) :: chainDones rest

/-- the sender is idle with queue `Q` -/
structure IdleA (Q : List Req) (x : AP) : Prop where
  st  : x.txState = .idle
  txq : x.txQueue = Q
  lf  : x.lastFc = none
  tf  : x.timerFc = none
  act : x.active = none

/-- the sender right after the First Frame of `(id, p)` (queue `Q` left) -/
structure FirstA (id : Nat) (p : Bytes) (Q : List Req) (x : AP) : Prop where
  st   : x.txState = .waitFc
  tf   : x.timerFc = some x.now
  act  : x.active = some (reqAt ca id p (carried (TxCfg.of ca aa) p.length 1))
  more : carried (TxCfg.of ca aa) p.length 1 < p.length
  seq  : x.txSeq = 1
  txq  : x.txQueue = Q
  lf   : x.lastFc = none

/-- the sender after the chain over `l` -/
def ChainPostA : List Msg → AP → Prop
  | [], x => IdleA [] x
  | m :: rest, x =>
    if NeedsFF (TxCfg.of ca aa) m.2.length then FirstA ca aa m.1 m.2 (reqsOf ca rest) x else ChainPostA rest x

/-- what the sender side needs of the queued messages -/
def MsgOkA (l : List Msg) : Prop := ∀ m ∈ l, 1 ≤ m.2.length ∧ m.2.length < 4294967296

theorem MsgOkA.tail {m : Msg} {l : List Msg} (h : MsgOkA (m :: l)) : MsgOkA l :=
  fun m' hm' => h m' (List.mem_cons_of_mem _ hm')

theorem chainA_spec (hva : ca.valid = true) : ∀ (l : List Msg) (x : AP), IdleA (reqsOf ca l) x → MsgOkA l →
    ChainPostA ca aa l (chainA ca aa l x) ∧ (chainA ca aa l x).now = x.now ∧ (chainA ca aa l x).inbox = x.inbox ∧
    txsOf (chainA ca aa l x).log = txsOf x.log ++ chainFrames ca aa l ∧
    (NoErr x.log → NoErr (chainA ca aa l x).log) ∧
    donesOf (chainA ca aa l x).log = donesOf x.log ++ chainDones ca aa l := by
  intro l
  induction l with
  | nil =>
    intro x hI _
    exact ⟨hI, rfl, rfl, by simp [chainA, chainFrames], id, by simp [chainA, chainDones]⟩
  | cons m rest ih =>
    intro x hI hok
    by_cases hff : NeedsFF (TxCfg.of ca aa) m.2.length
    · have e : chainA ca aa (m :: rest) x = apFF ca aa m.1 m.2 (reqsOf ca rest) x := by simp [chainA, hff]
      rw [e]
      refine ⟨?_, rfl, rfl, ?_, ?_, ?_⟩
      · simp only [ChainPostA, hff, if_true]
        exact ⟨rfl, rfl, rfl, carried_one_lt _ _ (valid_of ca aa hva) hff, rfl, rfl, hI.lf⟩
      · simp [apFF, chainFrames, hff]
      · intro hne; exact NoErr_cons hne (by intro t e h; cases h)
      · simp [apFF, chainDones, hff]
    · have e : chainA ca aa (m :: rest) x = chainA ca aa rest (apSF ca aa m.1 m.2 (reqsOf ca rest) x) := by
        simp [chainA, hff]
      rw [e]
      have hI' : IdleA (reqsOf ca rest) (apSF ca aa m.1 m.2 (reqsOf ca rest) x) := ⟨rfl, rfl, hI.lf, rfl, rfl⟩
      obtain ⟨i1, i2, i3, i4, i5, i6⟩ := ih _ hI' hok.tail
      refine ⟨?_, i2, i3, ?_, ?_, ?_⟩
      · simp only [ChainPostA, hff, if_false]; exact i1
      · rw [i4]; simp [apSF, chainFrames, hff]
      · intro hne
        exact i5 (NoErr_cons (NoErr_cons hne (by intro t e h; cases h)) (by intro t e h; cases h))
      · rw [i6]; simp [apSF, chainDones, hff]

/-- the transmit loop from IDLE with the requests of `l` queued -/
theorem txLoop_chain (hva : ca.valid = true) (h0 : ca.tFc ≠ 0) : ∀ (l : List Msg) (x : AP) (n f : Nat),
    IdleA (reqsOf ca l) x → MsgOkA l → l.length + 2 ≤ f →
    txLoop f (mkA ca aa x) n = (mkA ca aa (chainA ca aa l x), n + (chainFrames ca aa l).length, false, false) := by
  intro l
  induction l with
  | nil =>
    intro x n f hI _ hf
    obtain ⟨f', rfl⟩ : ∃ f', f = f' + 1 := ⟨f - 1, by omega⟩
    exact txLoop_none _ _ _ _ (processTx_idle ca aa x hI.st hI.txq hI.lf hI.tf) rfl
  | cons m rest ih =>
    intro x n f hI hok hf
    obtain ⟨f', rfl⟩ : ∃ f', f = f' + 1 := ⟨f - 1, by omega⟩
    obtain ⟨hm1, hm32⟩ := hok m (List.mem_cons_self ..)
    simp only [List.length_cons] at hf
    by_cases hff : NeedsFF (TxCfg.of ca aa) m.2.length
    · have e : chainA ca aa (m :: rest) x = apFF ca aa m.1 m.2 (reqsOf ca rest) x := by simp [chainA, hff]
      have e2 : chainFrames ca aa (m :: rest) = [wireA ca aa m.2 0] := by simp [chainFrames, hff]
      rw [e, e2]
      rw [txLoop_more _ _ _ _ _ (processTx_firstQ ca aa m.1 m.2 (reqsOf ca rest) hva hm32 hff x hI.st hI.txq hI.lf hI.tf) rfl,
        emit_mkA]
      obtain ⟨f'', rfl⟩ : ∃ f'', f' = f'' + 1 := ⟨f' - 1, by omega⟩
      exact txLoop_none _ _ _ _
        (processTx_waitFc ca aa m.1 m.2 (apFF ca aa m.1 m.2 (reqsOf ca rest) x) _ x.now rfl hI.lf rfl
          (carried_one_lt _ _ (valid_of ca aa hva) hff) rfl (Nat.le_add_right _ _) h0) rfl
    · have e : chainA ca aa (m :: rest) x = chainA ca aa rest (apSF ca aa m.1 m.2 (reqsOf ca rest) x) := by
        simp [chainA, hff]
      have e2 : chainFrames ca aa (m :: rest) = sfWire ca aa m.2 :: chainFrames ca aa rest := by simp [chainFrames, hff]
      rw [e, e2]
      rw [txLoop_more _ _ _ _ _ (processTx_sfQ ca aa m.1 m.2 (reqsOf ca rest) hva hm1 hff x hI.st hI.txq hI.lf hI.tf) rfl,
        emit_mkA]
      have hI' : IdleA (reqsOf ca rest) (apSF ca aa m.1 m.2 (reqsOf ca rest) x) := ⟨rfl, rfl, hI.lf, rfl, rfl⟩
      have := ih (apSF ca aa m.1 m.2 (reqsOf ca rest) x) (n + 1) f' hI' hok.tail (by omega)
      show txLoop f' (mkA ca aa (apSF ca aa m.1 m.2 (reqsOf ca rest) x)) (n + 1) = _
      rw [this]
      simp only [List.length_cons]
      congr 2
      omega

/-- after the chain the transmit pass has nothing more to do (whatever is logged meanwhile) -/
theorem chainPost_quiet (h0 : ca.tFc ≠ 0) : ∀ (l : List Msg) (x : AP), ChainPostA ca aa l x → ∀ lg,
    (mkA ca aa { x with log := lg }).processTx = (mkA ca aa { x with log := lg }, none, false) := by
  intro l
  induction l with
  | nil =>
    intro x h lg
    exact processTx_idle ca aa _ h.st h.txq h.lf h.tf
  | cons m rest ih =>
    intro x h lg
    by_cases hff : NeedsFF (TxCfg.of ca aa) m.2.length
    · simp only [ChainPostA, hff, if_true] at h
      exact processTx_waitFc ca aa m.1 m.2 _ _ x.now h.st h.lf h.act h.more h.tf (Nat.le_add_right _ _) h0
    · simp only [ChainPostA, hff, if_false] at h
      exact ih x h lg

/-- after the chain `process` does not start with the transmit loop -/
theorem chainPost_sw : ∀ (l : List Msg) (x : AP), ChainPostA ca aa l x →
    (!(mkA ca aa x).txQueue.isEmpty && decide ((mkA ca aa x).rxState = .idle) &&
      decide ((mkA ca aa x).txState = .idle)) = false := by
  intro l
  induction l with
  | nil => intro x h; simp [mkA, h.txq]
  | cons m rest ih =>
    intro x h
    by_cases hff : NeedsFF (TxCfg.of ca aa) m.2.length
    · simp only [ChainPostA, hff, if_true] at h
      simp [mkA, h.st]
    · simp only [ChainPostA, hff, if_false] at h
      exact ih x h

end chain

/-! ## `process()` of the sender with a queue, pass by pass -/

section pass
variable (ca : Cfg) (aa : Addr) (id : Nat) (p : Bytes) (bs : Nat)

theorem length_le_fuel (l : List Req) : l.length ≤ (l.map reqFuel).sum := by
  induction l with
  | nil => simp
  | cons r l ih => simp only [List.length_cons, List.map_cons, List.sum_cons, reqFuel]; omega

/-- an iteration of `process` in which nothing arrives and the transmit pass has nothing to do -/
theorem quietIterAQ (f : Nat) (st : Stats) (x : AP)
    (hsw : (!(mkA ca aa x).txQueue.isEmpty && decide ((mkA ca aa x).rxState = .idle) &&
      decide ((mkA ca aa x).txState = .idle)) = false) (hib : x.inbox = [])
    (hqt : (mkA ca aa { x with log := .rxNone x.now :: x.log }).processTx =
      (mkA ca aa { x with log := .rxNone x.now :: x.log }, none, false)) :
    ∃ st', processLoop (f + 1) true true (mkA ca aa x) st =
      (mkA ca aa { x with log := .rxNone x.now :: x.log }, st', false) := by
  obtain ⟨st', h⟩ := processLoop_iter f (mkA ca aa x) st (mkA ca aa { x with log := .rxNone x.now :: x.log })
    (mkA ca aa { x with log := .rxNone x.now :: x.log }) false false hsw
    (fun st => ⟨st, rxLoop_nil_mkA ca aa x st hib⟩)
    (fun n => ⟨n, by
      rw [rlUpd_mkA, txFuel_eq]
      exact txLoop_none _ _ _ _ hqt rfl⟩) rfl
  exact ⟨st', by simpa using h⟩

/-- the first pass with the requests of `l` queued (`l` non-empty): the chain, then a quiet iteration -/
theorem passA_startQ (hva : ca.valid = true) (h0 : ca.tFc ≠ 0) (l : List Msg) (hl : l ≠ []) (x : AP)
    (hI : IdleA (reqsOf ca l) x) (hok : MsgOkA l) (hib : x.inbox = []) :
    ((mkA ca aa x).process true true).1 =
      mkA ca aa { chainA ca aa l x with log := .rxNone (chainA ca aa l x).now :: (chainA ca aa l x).log } := by
  obtain ⟨c1, c2, c3, -⟩ := chainA_spec ca aa hva l x hI hok
  have hsw : (!(mkA ca aa x).txQueue.isEmpty && decide ((mkA ca aa x).rxState = .idle) &&
      decide ((mkA ca aa x).txState = .idle)) = true := by
    have hq := hI.txq
    cases l with
    | nil => exact absurd rfl hl
    | cons m rest => simp [mkA, hq, reqsOf, hI.st]
  have hfuel : l.length + 2 ≤ (mkA ca aa x).txFuel := by
    rw [txFuel_eq]
    have h1 : (mkA ca aa x).txQueue = reqsOf ca l := hI.txq
    have := length_le_fuel (reqsOf ca l)
    rw [h1]
    simp only [reqsOf, List.length_map] at this ⊢
    omega
  unfold State.process
  rw [processFuel_eq]
  obtain ⟨st1, h1⟩ := processLoop_iter_sw (2 * ((mkA ca aa x).inbox.length + (mkA ca aa x).txQueue.length) + 6 + 1)
    (mkA ca aa x) {} (mkA ca aa (chainA ca aa l x)) false hsw
    (fun n => ⟨_, by
      rw [rlUpd_mkA]
      exact txLoop_chain ca aa hva h0 l x n _ hI hok hfuel⟩) rfl
  rw [h1]
  obtain ⟨st2, h2⟩ := quietIterAQ ca aa (2 * ((mkA ca aa x).inbox.length + (mkA ca aa x).txQueue.length) + 6)
    st1 (chainA ca aa l x) (chainPost_sw ca aa l _ c1) (by rw [c3]; exact hib) (chainPost_quiet ca aa h0 l _ c1 _)
  rw [h2]

/-- when the transmit loop asks for another `process` iteration, the sender is back in WAIT_FC -/
theorem runA_WQ (Q : List Req) : ∀ (f : Nat) (x : AP) (k : Nat), TCondQ ca aa id p bs Q x k →
    (runA ca aa id p bs f x k).2.2 = true →
    (runA ca aa id p bs f x k).1.txState = .waitFc ∧ (runA ca aa id p bs f x k).1.lastFc = none ∧
    (runA ca aa id p bs f x k).1.inbox = x.inbox ∧
    (runA ca aa id p bs f x k).1.now = x.now ∧ (runA ca aa id p bs f x k).1.timerFc = some x.now ∧
    ∃ k', (runA ca aa id p bs f x k).1.active = some (reqAt ca id p (carried (TxCfg.of ca aa) p.length k')) ∧
      carried (TxCfg.of ca aa) p.length k' < p.length := by
  intro f
  induction f with
  | zero => intro x k _ h; simp [runA] at h
  | succ f ih =>
    intro x k hc h
    unfold runA at h ⊢
    by_cases hto : x.timerStmin.timedOut x.now = true
    · simp only [hto, if_true] at h ⊢
      by_cases h1 : carried (TxCfg.of ca aa) p.length (k + 1) = p.length
      · simp [h1] at h
      · simp only [h1, if_false] at h ⊢
        have hle := carried_le' (TxCfg.of ca aa) p.length (k + 1)
        by_cases h2 : bs ≠ 0 ∧ x.txBlockCnt + 1 ≥ bs
        · rw [if_pos h2]
          exact ⟨rfl, hc.lf, rfl, rfl, rfl, k + 1, rfl, by omega⟩
        · rw [if_neg h2] at h ⊢
          have hc' : TCondQ ca aa id p bs Q (apT ca aa id p x k) (k + 1) :=
            ⟨by omega, hc.st, hc.lf, hc.tf, rfl, by omega, rfl, hc.rbs, hc.txq⟩
          exact ih _ _ hc' h
    · simp [hto] at h

/-- a run that does not end idle ends in WAIT_FC or TRANSMIT_CF -/
theorem runA_notIdle_sw (Q : List Req) : ∀ (f : Nat) (x : AP) (k : Nat), TCondQ ca aa id p bs Q x k →
    ¬ (runA ca aa id p bs f x k).1.txState = .idle →
    (!(mkA ca aa (runA ca aa id p bs f x k).1).txQueue.isEmpty &&
      decide ((mkA ca aa (runA ca aa id p bs f x k).1).rxState = .idle) &&
      decide ((mkA ca aa (runA ca aa id p bs f x k).1).txState = .idle)) = false := by
  intro f x k _ h
  have : (mkA ca aa (runA ca aa id p bs f x k).1).txState = (runA ca aa id p bs f x k).1.txState := rfl
  simp [this, h]

theorem txFuel_TQ (l : List Msg) (x : AP) (k : Nat) (hc : TCondQ ca aa id p bs (reqsOf ca l) x k) :
    (mkA ca aa x).txFuel =
      (p.length - carried (TxCfg.of ca aa) p.length k + 1) + (((reqsOf ca l).map reqFuel).sum + 5) := by
  have h1 : (mkA ca aa x).txQueue = reqsOf ca l := hc.txq
  have h2 : (mkA ca aa x).active = some (reqAt ca id p (carried (TxCfg.of ca aa) p.length k)) := hc.act
  simp only [txFuel, h1, h2, reqFuel, Req.remaining, reqAt_consumed]
  simp [reqAt, Req.adv, reqFor]
  omega

/-- the sender parameters at the end of a pass whose TRANSMIT_CF run ended as `r`, with the messages `rest` queued:
    the chain when the message was completed, else as `finA` -/
def endA (rest : List Msg) (r : AP × Nat × Bool) : AP :=
  if r.1.txState = .idle then chainA ca aa rest r.1 else finA r

/-- a run that ends idle has completed the message: the sender is idle with the queue untouched -/
theorem runA_idle (Q : List Req) : ∀ (f : Nat) (x : AP) (k : Nat), TCondQ ca aa id p bs Q x k →
    (runA ca aa id p bs f x k).1.txState = .idle → IdleA Q (runA ca aa id p bs f x k).1 := by
  intro f
  induction f with
  | zero => intro x k hc h; simp only [runA] at h; rw [hc.st] at h; cases h
  | succ f ih =>
    intro x k hc h
    unfold runA at h ⊢
    by_cases hto : x.timerStmin.timedOut x.now = true
    · simp only [hto, if_true] at h ⊢
      by_cases h1 : carried (TxCfg.of ca aa) p.length (k + 1) = p.length
      · simp only [h1, if_true]
        exact ⟨rfl, hc.txq, hc.lf, rfl, rfl⟩
      · simp only [h1, if_false] at h ⊢
        have hle := carried_le' (TxCfg.of ca aa) p.length (k + 1)
        by_cases h2 : bs ≠ 0 ∧ x.txBlockCnt + 1 ≥ bs
        · rw [if_pos h2] at h; cases h
        · rw [if_neg h2] at h ⊢
          have hc' : TCondQ ca aa id p bs Q (apT ca aa id p x k) (k + 1) :=
            ⟨by omega, hc.st, hc.lf, hc.tf, rfl, by omega, rfl, hc.rbs, hc.txq⟩
          exact ih _ _ hc' h
    · have hto' : x.timerStmin.timedOut x.now = false := by simpa using hto
      simp only [hto', Bool.false_eq_true, if_false] at h
      rw [hc.st] at h; cases h

/-- the end of a sender pass: the transmit loop from TRANSMIT_CF (state `x`, `k` frames out), the chain if the
    message completes, a second, quiet iteration when the block was completed -/
theorem tailAQ (hva : ca.valid = true) (h0 : ca.tFc ≠ 0) (rest : List Msg) (hok : MsgOkA rest) (F : Nat) (s s1 : State)
    (st : Stats) (x : AP) (k : Nat) (hc : TCondQ ca aa id p bs (reqsOf ca rest) x k) (hib : x.inbox = [])
    (hsw : (!s.txQueue.isEmpty && decide (s.rxState = .idle) && decide (s.txState = .idle)) = false)
    (hrx : ∀ st, ∃ st', s.rxLoop true st s.inbox = (s1, st', false))
    (hs1 : rlUpd s1 = s1) (hfuel : s1.txFuel = (mkA ca aa x).txFuel)
    (htx : ∀ n f, txLoop (f + 1) s1 n = txLoop (f + 1) (mkA ca aa x) n) :
    ∃ st', processLoop (F + 1 + 1) true true s st =
      (mkA ca aa (endA ca aa rest (runA ca aa id p bs (p.length - carried (TxCfg.of ca aa) p.length k + 1) x k)), st', false) := by
  have hfe := txFuel_TQ ca aa id p bs rest x k hc
  have hloop := fun n => txLoop_TQ ca aa id p bs (reqsOf ca rest) hva
    (p.length - carried (TxCfg.of ca aa) p.length k + 1) (((reqsOf ca rest).map reqFuel).sum + 5) x k n (by omega) hc
  have hcnt := runA_cnt_le ca aa id p bs (p.length - carried (TxCfg.of ca aa) p.length k + 1) x k
  have hlen := length_le_fuel (reqsOf ca rest)
  have hlen' : (reqsOf ca rest).length = rest.length := by simp [reqsOf]
  have key : ∀ n, txLoop (rlUpd s1).txFuel (rlUpd s1) n =
      txLoop (p.length - carried (TxCfg.of ca aa) p.length k + 1 + (((reqsOf ca rest).map reqFuel).sum + 5))
        (mkA ca aa x) n := by
    intro n
    rw [hs1, hfuel, hfe]
    exact htx n (p.length - carried (TxCfg.of ca aa) p.length k + 1 + (((reqsOf ca rest).map reqFuel).sum + 4))
  generalize hr : runA ca aa id p bs (p.length - carried (TxCfg.of ca aa) p.length k + 1) x k = r at *
  by_cases hid : r.1.txState = .idle
  · -- the message completed: the chain follows in the same transmit loop
    have hI : IdleA (reqsOf ca rest) r.1 := by
      rw [← hr]; exact runA_idle ca aa id p bs _ _ x k hc (by rw [hr]; exact hid)
    obtain ⟨st1, h1⟩ := processLoop_iter (F + 1) s st s1 (mkA ca aa (chainA ca aa rest r.1)) false false hsw hrx
      (fun n => ⟨_, by
        rw [key n, hloop n, if_pos hid]
        exact txLoop_chain ca aa hva h0 rest r.1 _ _ hI hok (by omega)⟩) rfl
    refine ⟨st1, ?_⟩
    rw [h1]
    simp only [endA, hid, if_true, Bool.or_self, Bool.false_eq_true, if_false]
  · obtain ⟨st1, h1⟩ := processLoop_iter (F + 1) s st s1 (mkA ca aa r.1) false r.2.2 hsw hrx
      (fun n => ⟨_, by rw [key n, hloop n, if_neg hid]⟩) rfl
    rw [h1]
    simp only [endA, hid, if_false]
    by_cases hrun : r.2.2 = true
    · obtain ⟨w1, w2, w4, w5, w6, k', w7, w8⟩ := runA_WQ ca aa id p bs (reqsOf ca rest) _ x k hc (by rw [hr]; exact hrun)
      rw [hr] at w1 w2 w4 w5 w6 w7
      have hq : (mkA ca aa { r.1 with log := .rxNone r.1.now :: r.1.log }).processTx =
          (mkA ca aa { r.1 with log := .rxNone r.1.now :: r.1.log }, none, false) :=
        processTx_waitFc ca aa id p _ _ x.now w1 w2 w7 w8 w6 (by show r.1.now ≤ _; omega) h0
      have hsw2 : (!(mkA ca aa r.1).txQueue.isEmpty && decide ((mkA ca aa r.1).rxState = .idle) &&
          decide ((mkA ca aa r.1).txState = .idle)) = false := by
        have : (mkA ca aa r.1).txState = r.1.txState := rfl
        simp [this, w1]
      obtain ⟨st2, h2⟩ := quietIterAQ ca aa F st1 r.1 hsw2 (by rw [w4]; exact hib) hq
      refine ⟨st2, ?_⟩
      simp only [hrun, Bool.or_true, if_true, finA]
      exact h2
    · refine ⟨st1, ?_⟩
      have hr' : r.2.2 = false := by simpa using hrun
      simp [hr', finA]

/-- a pass in TRANSMIT_CF with nothing in the inbox, the messages `rest` queued -/
theorem passA_TQ (hva : ca.valid = true) (h0 : ca.tFc ≠ 0) (rest : List Msg) (hok : MsgOkA rest) (x : AP) (k : Nat)
    (hc : TCondQ ca aa id p bs (reqsOf ca rest) x k) (hib : x.inbox = []) :
    ((mkA ca aa x).process true true).1 =
      mkA ca aa (endA ca aa rest (runA ca aa id p bs (p.length - carried (TxCfg.of ca aa) p.length k + 1)
        { x with log := .rxNone x.now :: x.log } k)) := by
  have hc1 : TCondQ ca aa id p bs (reqsOf ca rest) { x with log := .rxNone x.now :: x.log } k :=
    ⟨hc.k1, hc.st, hc.lf, hc.tf, hc.act, hc.more, hc.seq, hc.rbs, hc.txq⟩
  have hsw : (!(mkA ca aa x).txQueue.isEmpty && decide ((mkA ca aa x).rxState = .idle) &&
      decide ((mkA ca aa x).txState = .idle)) = false := by
    have : (mkA ca aa x).txState = x.txState := rfl
    simp [this, hc.st]
  unfold State.process
  rw [processFuel_eq]
  obtain ⟨st1, h1⟩ := tailAQ ca aa id p bs hva h0 rest hok
    (2 * ((mkA ca aa x).inbox.length + (mkA ca aa x).txQueue.length) + 6) (mkA ca aa x)
    (mkA ca aa { x with log := .rxNone x.now :: x.log }) {} _ k hc1 hib hsw
    (fun st => ⟨st, rxLoop_nil_mkA ca aa x st hib⟩) (rlUpd_mkA _ _ _) rfl (fun _ _ => rfl)
  rw [h1]

/-- a pass in WAIT_FC with the ContinueToSend of the peer in the inbox, the messages `rest` queued -/
theorem passA_WQ (hva : ca.valid = true) (h0 : ca.tFc ≠ 0) (rest : List Msg) (hok : MsgOkA rest) (x : AP)
    (k tF stm cdl rdl : Nat) (fcm : CanMsg)
    (hk : 1 ≤ k) (hst : x.txState = .waitFc) (htf : x.timerFc = some tF)
    (hnow : x.now ≤ tF + ca.tFc)
    (hact : x.active = some (reqAt ca id p (carried (TxCfg.of ca aa) p.length k)))
    (hmore : carried (TxCfg.of ca aa) p.length k < p.length) (hseq : x.txSeq = k % 16) (hq : x.txQueue = reqsOf ca rest)
    (hib : x.inbox = [(0, fcm)]) (hme : aa.rx.isForMe fcm = true)
    (hdec : decode fcm.data aa.rx.rxPrefixSize = some ⟨.fc 0 bs stm, cdl, rdl⟩) :
    ((mkA ca aa x).process true true).1 =
      mkA ca aa (endA ca aa rest (runA ca aa id p bs (p.length - carried (TxCfg.of ca aa) p.length k + 1)
        { x with
          inbox := [], log := .rx x.now fcm :: x.log, lastFc := none, txState := .transmitCf,
          timerFc := none, remoteBs := some bs, txBlockCnt := 0,
          timerStmin := { start := some x.now, timeout := Fc.sepOf ca ⟨0, bs, stm⟩ } } k)) := by
  -- after the receive loop: the Flow Control sits in the mailbox
  let x1 : AP := { x with inbox := [], log := .rx x.now fcm :: x.log, lastFc := some ⟨0, bs, stm⟩ }
  -- the state on which the TRANSMIT_CF part of the pass runs
  let x2 : AP := { x with
    inbox := [], log := .rx x.now fcm :: x.log, lastFc := none, txState := .transmitCf,
    timerFc := none, remoteBs := some bs, txBlockCnt := 0,
    timerStmin := { start := some x.now, timeout := Fc.sepOf ca ⟨0, bs, stm⟩ } }
  have hc2 : TCondQ ca aa id p bs (reqsOf ca rest) x2 k := ⟨hk, rfl, rfl, rfl, hact, hmore, hseq, rfl, hq⟩
  have harr : arrived (mkA ca aa x) 0 fcm [] = mkA ca aa { x with inbox := [], log := .rx x.now fcm :: x.log } := by
    unfold arrived
    rw [checkTimeoutsRx_noop _ (by rfl)]
    rfl
  have hprx : (arrived (mkA ca aa x) 0 fcm []).processRx fcm = (mkA ca aa x1, true, false) := by
    rw [harr, Rx.processRx_fc_eq _ fcm 0 bs stm cdl rdl hdec]
    rfl
  have hrx : ∀ st, ∃ st', rxLoop true (mkA ca aa x) st (mkA ca aa x).inbox = (mkA ca aa x1, st', false) := by
    intro st
    have : (mkA ca aa x).inbox = [(0, fcm)] := hib
    rw [this]
    exact rxLoop_cons_imm (mkA ca aa x) st 0 fcm [] _ _ hme hprx
  have hfc : (mkA ca aa x1).processTx = (mkA ca aa x2).processTx :=
    processTx_fc ca aa x1 ⟨0, bs, stm⟩ tF hst rfl rfl htf hnow h0
  have hsw : (!(mkA ca aa x).txQueue.isEmpty && decide ((mkA ca aa x).rxState = .idle) &&
      decide ((mkA ca aa x).txState = .idle)) = false := by
    have : (mkA ca aa x).txState = x.txState := rfl
    simp [this, hst]
  unfold State.process
  rw [processFuel_eq]
  obtain ⟨st1, h1⟩ := tailAQ ca aa id p bs hva h0 rest hok
    (2 * ((mkA ca aa x).inbox.length + (mkA ca aa x).txQueue.length) + 6) (mkA ca aa x)
    (mkA ca aa x1) {} x2 k hc2 rfl hsw hrx (rlUpd_mkA _ _ _) rfl
    (fun n f => txLoop_congr _ _ _ _ hfc)
  rw [h1]

/-- a pass of the idle sender with an empty queue -/
theorem passA_idleQ (x : AP) (hI : IdleA [] x) (hib : x.inbox = []) :
    ((mkA ca aa x).process true true).1 = mkA ca aa { x with log := .rxNone x.now :: x.log } :=
  passA_D ca aa x hI.st hI.txq hI.lf hI.tf hib

end pass

end Isotp.LockstepQ
