import Isotp.PyAgree.EvalLemmas
import Isotp.Frame
namespace Isotp.PyAgree
open Isotp Isotp.Py

theorem evalCmp_le_pint (a b : Int) : evalCmp .le (pint a) (pint b) = .ok (pbool (decide (a ≤ b))) := by
  simp [evalCmp, isNumber, numLt, PyVal.pyEq, PyVal.isInt, PyVal.intVal, bind, Except.bind]
  rw [Bool.eq_iff_iff]; simp only [Bool.or_eq_true, decide_eq_true_eq, beq_iff_eq]; omega
theorem evalCmp_lt_pint (a b : Int) : evalCmp .lt (pint a) (pint b) = .ok (pbool (decide (a < b))) := by
  simp [evalCmp, isNumber, numLt, PyVal.isInt, PyVal.intVal, Except.map]
  rfl
theorem evalCmp_gt_pint (a b : Int) : evalCmp .gt (pint a) (pint b) = .ok (pbool (decide (b < a))) := by
  simp [evalCmp, isNumber, numLt, PyVal.isInt, PyVal.intVal, Except.map]
  rfl

def sizeEnv (n : Nat) : Env := fun k =>
  match k with
  | "size" => some (pint n)
  | _ => constEnv k

def nearestFdResult (n : Nat) : Except PErr PV :=
  match nearestFd n with
  | some k => .ok (pint k)
  | none => .error (.exc .ValueError)

theorem execBlock_if_le_ret (M : Meths) (env : Env) (x : String) (n c : Int) (e : PExpr) (rest : PBlock)
    (hs : env x = some (pint n)) :
    execBlock M env (.cons (.ite (.cmp .le (.var x) (.int c)) (.cons (.ret e) .nil) .nil) rest) =
      if n ≤ c then (do let v ← eval M env e; .ok (.returned v env)) else execBlock M env rest := by
  by_cases h : n ≤ c <;> simp [execBlock, execStmt, eval, hs, evalCmp_le_pint, h]

theorem get_nearest_can_fd_size_agrees (n : Nat) :
    retOf (sizeEnv n) Src.TransportLayerLogic_p_get_nearest_can_fd_size = nearestFdResult n := by
  have hs : sizeEnv n "size" = some (pint n) := rfl
  simp only [retOf, runFn, Src.TransportLayerLogic_p_get_nearest_can_fd_size, execBlock_if_le_ret _ _ _ _ _ _ _ hs, nearestFd, nearestFdResult]
  repeat' split
  all_goals simp_all [execBlock, execStmt, eval]
  all_goals omega

end Isotp.PyAgree
