import Isotp.Process
/-
  C02 — property theorems (see DESIGN.md §6). Helper lemmas live in Isotp/Proofs.
-/
namespace Isotp.C02
open Isotp State

end Isotp.C02
