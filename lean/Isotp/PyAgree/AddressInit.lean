import Isotp.PyAgree.EvalLemmas
/-!
  `Address.__init__` (`Src.Address_init`) builds exactly the object the model's `mkAddress` builds; `AsymmetricAddress.__init__`
  (`Src.AsymmetricAddress_init`) raises exactly when `mkAsym` does.

  Main statements (end of the file): `Address_init_rejects`, `Address_init_run`, `Address_init_constructs_raw` (all accepted arguments),
  `Address_init_constructs` (literal equality with the model object; needs `noBoolArgs`, and `bool_argument_kept_as_bool` shows on a
  concrete witness that it fails without: `txid=True` is accepted and stored as `True`, the model object has `some 1`),
  `AsymmetricAddress_init_agrees`.

  The constructor body is cut into its 20 top-level statements (`S n`); there is one lemma per statement (`stmts0to7`, `stmt8` ..
  `stmt19`: what it does to the environment / when it raises), valid for EVERY environment that satisfies the read-only invariant
  `Inv` (the attributes / arguments / class constants that the later statements read and nobody writes any more), and the lemmas are
  chained with `step_next` / `step_err` (`upToValidate`, `afterValidate`).
-/
namespace Isotp.PyAgree
open Isotp Isotp.Py

/-! ## Arguments, callee semantics -/

/-- the name of the nested `def` that replaces the methods of the missing direction of a partial address -/
def nipName : String := "not_implemented_func_with_partial"
/-- that function object -/
def nip : PV := .meth "not_implemented_func_with_partial"

/-- the environment `Address.__init__` starts in: its arguments, `self`, the bound methods it reads as values -/
def initEnv (a : AddrArgs) (m : Mode) : Env := fun k =>
  match k with
  | "addressing_mode" => some (modePV m)
  | "txid" => some (.sc (.py a.txid))
  | "rxid" => some (.sc (.py a.rxid))
  | "target_address" => some (.sc (.py a.ta))
  | "source_address" => some (.sc (.py a.sa))
  | "address_extension" => some (.sc (.py a.ae))
  | "physical_id" => some (optPV a.physId)
  | "functional_id" => some (optPV a.funcId)
  | "rx_only" => some (pbool a.rxOnly)
  | "tx_only" => some (pbool a.txOnly)
  | "self" => some (.meth "self")
  | "self._is_for_me_normal" => some (.meth "_is_for_me_normal")
  | "self._is_for_me_extended" => some (.meth "_is_for_me_extended")
  | "self._is_for_me_normal_fixed" => some (.meth "_is_for_me_normal_fixed")
  | "self._is_for_me_mixed_11bits" => some (.meth "_is_for_me_mixed_11bits")
  | "self._is_for_me_mixed_29bits" => some (.meth "_is_for_me_mixed_29bits")
  | _ => constEnv k

/-- The other methods the constructor calls, given FROM THE MODEL.  Each is tied to its own source by another agreement theorem:
    `self.validate` by the `Address.validate` theorem (AddressValidate.lean: raises `ValueError` iff `validateAddr a = false`, does
    not modify the object), the two `_get_*_arbitration_id` by the getter theorems (AddressFns.lean: on the attributes of the
    validated object they return `Half.rxId` / `Half.txId`); `__function__` is the dumper's rendering of a nested `def` (evaluates to
    the function object), `setattr(self, name, v)` is the builtin.
    The getters are only defined once validation has succeeded (the constructor calls them after `self.validate()`). -/
def initMeths (a : AddrArgs) : Meths where
  fn := fun name args _ =>
    match name, args with
    | "self._get_rx_arbitration_id", [v] =>
      (match mkAddress a with
       | .ok h =>
         if v = tatPV .physical then .ok (pint (h.rxId .physical))
         else if v = tatPV .functional then .ok (pint (h.rxId .functional))
         else .error (.unsupported "address type")
       | .error _ => .error (.unsupported "getter called on an address that did not validate"))
    | "self._get_tx_arbitration_id", [v] =>
      (match mkAddress a with
       | .ok h =>
         if v = tatPV .physical then .ok (pint (h.txId .physical))
         else if v = tatPV .functional then .ok (pint (h.txId .functional))
         else .error (.unsupported "address type")
       | .error _ => .error (.unsupported "getter called on an address that did not validate"))
    | "__function__", [.str n] => .ok (.meth n)
    | n, _ => .error (.unsupported ("call " ++ n))
  proc := fun name args env =>
    match name, args with
    | "self.validate", [] => if validateAddr a then .ok env else .error (.exc .ValueError)
    | "setattr", [.meth "self", .str attr, v] => .ok (env.set ("self." ++ attr) v)
    | n, _ => .error (.unsupported ("call " ++ n))

theorem initMeths_validate (a : AddrArgs) (env : Env) :
    (initMeths a).proc "self.validate" [] env = if validateAddr a then .ok env else .error (.exc .ValueError) := rfl

theorem initMeths_rx (a : AddrArgs) (h : Half) (hk : mkAddress a = .ok h) (t : Tat) (env : Env) :
    (initMeths a).fn "self._get_rx_arbitration_id" [tatPV t] env = .ok (pint (h.rxId t)) := by
  cases t <;> simp [initMeths, hk, tatPV]

theorem initMeths_tx (a : AddrArgs) (h : Half) (hk : mkAddress a = .ok h) (t : Tat) (env : Env) :
    (initMeths a).fn "self._get_tx_arbitration_id" [tatPV t] env = .ok (pint (h.txId t)) := by
  cases t <;> simp [initMeths, hk, tatPV]

theorem initMeths_function (a : AddrArgs) (n : String) (env : Env) :
    (initMeths a).fn "__function__" [.str n] env = .ok (.meth n) := rfl

theorem initMeths_setattr (a : AddrArgs) (attr : String) (v : PV) (env : Env) :
    (initMeths a).proc "setattr" [.meth "self", .str attr, v] env = .ok (env.set ("self." ++ attr) v) := rfl

/-! Everything up to the section "The constructed object" is proof machinery: it lives in its own namespace so that the generic names
    (`set_get`, `Inv`, `S`, ...) cannot clash with the other agreement files. -/
namespace AddrInit

/-! ## Infrastructure: the statements of the body, stepping through a block -/

theorem set_get (env : Env) (k : String) (v : PV) (k' : String) :
    (env.set k v) k' = if k' = k then some v else env k' := rfl

/-- the n-th top-level statement of a block -/
def nthStmt : PBlock → Nat → PStmt
  | .nil, _ => .pass
  | .cons s _, 0 => s
  | .cons _ r, n + 1 => nthStmt r n

/-- the block from its n-th top-level statement on -/
def dropStmts : PBlock → Nat → PBlock
  | b, 0 => b
  | .nil, _ + 1 => .nil
  | .cons _ r, n + 1 => dropStmts r n

/-- the n-th top-level statement of `Address.__init__` -/
abbrev S (n : Nat) : PStmt := nthStmt Src.Address_init n
/-- `Address.__init__` from its n-th top-level statement on -/
abbrev R (n : Nat) : PBlock := dropStmts Src.Address_init n

theorem step_next {M : Meths} {env env' : Env} {b : PBlock} {n : Nat}
    (hb : dropStmts b n = .cons (nthStmt b n) (dropStmts b (n + 1)))
    (h : execStmt M env (nthStmt b n) = .ok (.next env')) :
    execBlock M env (dropStmts b n) = execBlock M env' (dropStmts b (n + 1)) := by
  rw [hb]; simp only [execBlock, h, ok_bind]

theorem step_err {M : Meths} {env : Env} {b : PBlock} {n : Nat} {e : PErr}
    (hb : dropStmts b n = .cons (nthStmt b n) (dropStmts b (n + 1)))
    (h : execStmt M env (nthStmt b n) = .error e) :
    execBlock M env (dropStmts b n) = .error e := by
  rw [hb]; simp only [execBlock, h, error_bind]

theorem assign_var (M : Meths) (env : Env) (t src : String) (v : PV) (h : env src = some v) :
    execStmt M env (.assign t (.var src)) = .ok (.next (env.set t v)) := by
  simp [execStmt, eval, h]

/-- none of the callee names is a builtin of the interpreter -/
theorem evalBuiltin_validate (args : List PV) : evalBuiltin "self.validate" args = none := by
  unfold evalBuiltin; split <;> simp_all
theorem evalBuiltin_rxget (args : List PV) : evalBuiltin "self._get_rx_arbitration_id" args = none := by
  unfold evalBuiltin; split <;> simp_all
theorem evalBuiltin_txget (args : List PV) : evalBuiltin "self._get_tx_arbitration_id" args = none := by
  unfold evalBuiltin; split <;> simp_all
theorem evalBuiltin_function (args : List PV) : evalBuiltin "__function__" args = none := by
  unfold evalBuiltin; split <;> simp_all
theorem evalBuiltin_setattr (args : List PV) : evalBuiltin "setattr" args = none := by
  unfold evalBuiltin; split <;> simp_all

/-! ## The read-only part of the environment -/

/-- what the statements after the first eight read and nobody writes any more -/
structure Inv (a : AddrArgs) (m : Mode) (env : Env) : Prop where
  mode : env "self._addressing_mode" = some (modePV m)
  txOnly : env "self._tx_only" = some (pbool a.txOnly)
  rxOnly : env "self._rx_only" = some (pbool a.rxOnly)
  ta : env "self._target_address" = some (.sc (.py a.ta))
  ae : env "self._address_extension" = some (.sc (.py a.ae))
  phys : env "physical_id" = some (optPV a.physId)
  func : env "functional_id" = some (optPV a.funcId)
  self : env "self" = some (.meth "self")
  f1 : env "self._is_for_me_normal" = some (.meth "_is_for_me_normal")
  f2 : env "self._is_for_me_extended" = some (.meth "_is_for_me_extended")
  f3 : env "self._is_for_me_normal_fixed" = some (.meth "_is_for_me_normal_fixed")
  f4 : env "self._is_for_me_mixed_11bits" = some (.meth "_is_for_me_mixed_11bits")
  f5 : env "self._is_for_me_mixed_29bits" = some (.meth "_is_for_me_mixed_29bits")
  c1 : env "AddressingMode.Normal_11bits" = some (modePV .n11)
  c2 : env "AddressingMode.Normal_29bits" = some (modePV .n29)
  c3 : env "AddressingMode.NormalFixed_29bits" = some (modePV .nf29)
  c4 : env "AddressingMode.Extended_11bits" = some (modePV .e11)
  c5 : env "AddressingMode.Extended_29bits" = some (modePV .e29)
  c6 : env "AddressingMode.Mixed_11bits" = some (modePV .m11)
  c7 : env "AddressingMode.Mixed_29bits" = some (modePV .m29)
  t1 : env "TargetAddressType.Physical" = some (tatPV .physical)
  t2 : env "TargetAddressType.Functional" = some (tatPV .functional)

def invKeys : List String :=
  ["self._addressing_mode", "self._tx_only", "self._rx_only", "self._target_address", "self._address_extension",
   "physical_id", "functional_id", "self", "self._is_for_me_normal", "self._is_for_me_extended", "self._is_for_me_normal_fixed",
   "self._is_for_me_mixed_11bits", "self._is_for_me_mixed_29bits", "AddressingMode.Normal_11bits", "AddressingMode.Normal_29bits",
   "AddressingMode.NormalFixed_29bits", "AddressingMode.Extended_11bits", "AddressingMode.Extended_29bits",
   "AddressingMode.Mixed_11bits", "AddressingMode.Mixed_29bits", "TargetAddressType.Physical", "TargetAddressType.Functional"]

/-- writing any other name keeps the invariant -/
theorem Inv.set {a : AddrArgs} {m : Mode} {env : Env} (h : Inv a m env) {k : String} (hk : k ∉ invKeys) (v : PV) :
    Inv a m (env.set k v) := by
  simp only [invKeys, List.mem_cons, List.not_mem_nil, or_false, not_or] at hk
  obtain ⟨h1, h2, h3, h4, h5, h6, h7, h8, h9, h10, h11, h12, h13, h14, h15, h16, h17, h18, h19, h20, h21, h22⟩ := hk
  cases h
  constructor <;> simp [set_get, *, Ne.symm, eq_comm]

/-! ## One lemma per statement -/

section stmts
variable (a : AddrArgs) (m : Mode) (M : Meths) (env : Env)

/-- environment after the eight plain copies `self._x = x` -/
def env8 (a : AddrArgs) (m : Mode) : Env :=
  ((((((((initEnv a m).set "self._rx_only" (pbool a.rxOnly)).set "self._tx_only" (pbool a.txOnly)).set
    "self._addressing_mode" (modePV m)).set "self._target_address" (.sc (.py a.ta))).set
    "self._source_address" (.sc (.py a.sa))).set "self._address_extension" (.sc (.py a.ae))).set
    "self._txid" (.sc (.py a.txid))).set "self._rxid" (.sc (.py a.rxid))

/-- statements 0-7: `self._rx_only = rx_only` ... `self._rxid = rxid` -/
theorem stmts0to7 : execBlock M (initEnv a m) (R 0) = execBlock M (env8 a m) (R 8) := by
  rw [step_next rfl (assign_var M _ "self._rx_only" "rx_only" _ rfl)]
  rw [step_next rfl (assign_var M _ "self._tx_only" "tx_only" _ rfl)]
  rw [step_next rfl (assign_var M _ "self._addressing_mode" "addressing_mode" _ rfl)]
  rw [step_next rfl (assign_var M _ "self._target_address" "target_address" _ rfl)]
  rw [step_next rfl (assign_var M _ "self._source_address" "source_address" _ rfl)]
  rw [step_next rfl (assign_var M _ "self._address_extension" "address_extension" _ rfl)]
  rw [step_next rfl (assign_var M _ "self._txid" "txid" _ rfl)]
  rw [step_next rfl (assign_var M _ "self._rxid" "rxid" _ rfl)]
  rfl

theorem inv_env8 : Inv a m (env8 a m) := by
  constructor <;> rfl

/-- statement 8: `self._is_29bits = True if self._addressing_mode in [Normal_29bits, NormalFixed_29bits, Extended_29bits, Mixed_29bits] else False` -/
theorem stmt8 (hI : Inv a m env) :
    execStmt M env (S 8) = .ok (.next (env.set "self._is_29bits" (pbool m.is29))) := by
  cases hI
  cases m <;>
  simp [S, nthStmt, Src.Address_init, execStmt, eval, evalArgs, *, modePV, modeName, Mode.is29]

/-- `physical_id` / `functional_id` as the constructor computes them (`None` gives the default of the mode, else `& 0x1FFF0000`) -/
def physVal (a : AddrArgs) : Mode → Nat
  | .nf29 => (a.physId.map mask2816).getD 0x18DA0000
  | .m29 => (a.physId.map mask2816).getD 0x18CE0000
  | _ => 0
def funcVal (a : AddrArgs) : Mode → Nat
  | .nf29 => (a.funcId.map mask2816).getD 0x18DB0000
  | .m29 => (a.funcId.map mask2816).getD 0x18CD0000
  | _ => 0

def setIds (a : AddrArgs) (m : Mode) (env : Env) : Env :=
  (env.set "self.physical_id" (pint (physVal a m))).set "self.functional_id" (pint (funcVal a m))

/-- statement 9: `if self._addressing_mode == NormalFixed_29bits: self.physical_id = ...; self.functional_id = ...` -/
theorem stmt9 (hI : Inv a m env) :
    execStmt M env (S 9) = .ok (.next (if m = .nf29 then setIds a m env else env)) := by
  cases hI
  cases m <;> cases hp : a.physId <;> cases hf : a.funcId <;>
  simp [S, nthStmt, Src.Address_init, execStmt, execBlock, eval, *, modePV, modeName, set_get, optPV, setIds, physVal,
    funcVal, Int.natCast_nonneg, and_mask2816]

/-- statement 10: the same for `Mixed_29bits` -/
theorem stmt10 (hI : Inv a m env) :
    execStmt M env (S 10) = .ok (.next (if m = .m29 then setIds a m env else env)) := by
  cases hI
  cases m <;> cases hp : a.physId <;> cases hf : a.funcId <;>
  simp [S, nthStmt, Src.Address_init, execStmt, execBlock, eval, *, modePV, modeName, set_get, optPV, setIds, physVal,
    funcVal, Int.natCast_nonneg, and_mask2816]

/-- statement 11: `self.validate()` -/
theorem stmt11 :
    execStmt (initMeths a) env (S 11) = if validateAddr a then .ok (.next env) else .error (.exc .ValueError) := by
  simp only [S, nthStmt, Src.Address_init, execStmt, evalArgs, ok_bind, evalBuiltin_validate, initMeths_validate]
  split <;> rfl

/-- statement 12: `self._tx_payload_prefix = bytes()` -/
theorem stmt12 : execStmt M env (S 12) = .ok (.next (env.set "self._tx_payload_prefix" (.bytes []))) := rfl

/-- statement 13: `self._rx_prefix_size = 0` -/
theorem stmt13 : execStmt M env (S 13) = .ok (.next (env.set "self._rx_prefix_size" (pint 0))) := rfl

/-! the model object, in terms of the arguments -/

def mkHalf (a : AddrArgs) (m : Mode) : Half :=
  { mode := m, txid := optNat a.txid, rxid := optNat a.rxid, ta := optNat a.ta, sa := optNat a.sa, ae := optNat a.ae,
    physId := physVal a m, funcId := funcVal a m, rxOnly := a.rxOnly, txOnly := a.txOnly }

theorem mkAddress_ok {a : AddrArgs} {m : Mode} {h : Half} (hm : a.mode = some m) (hk : mkAddress a = .ok h) :
    validateAddr a = true ∧ h = mkHalf a m := by
  unfold mkAddress at hk
  rw [hm] at hk
  by_cases hv : validateAddr a = true
  · refine ⟨hv, ?_⟩
    cases m <;> simp [hv, mkHalf, physVal, funcVal] at hk ⊢ <;> exact hk.symm
  · simp [hv] at hk

variable (h : Half)

/-- what the receive part of the constructor adds -/
def rxStage (a : AddrArgs) (m : Mode) (h : Half) (env : Env) : Env :=
  if a.txOnly then env else
    let e := (env.set "self._rx_arbitration_id_physical" (pint (h.rxId .physical))).set
      "self._rx_arbitration_id_functional" (pint (h.rxId .functional))
    if m.hasPrefix then e.set "self._rx_prefix_size" (pint 1) else e

/-- statement 14: `if not self._tx_only:` the two receive identifiers; `_rx_prefix_size = 1` in the Extended / Mixed modes -/
theorem stmt14 (hI : Inv a m env) (hk : mkAddress a = .ok h) :
    execStmt (initMeths a) env (S 14) = .ok (.next (rxStage a m h env)) := by
  cases hI
  simp only [S, nthStmt, Src.Address_init]
  cases ht : a.txOnly
  · cases m <;>
    simp [execStmt, execBlock, eval, evalArgs, *, modePV, modeName, set_get, rxStage, Mode.hasPrefix,
      evalBuiltin_rxget, initMeths_rx a h hk]
  · simp [execStmt, execBlock, eval, *, rxStage]

/-! value-level facts used by the transmit part -/

theorem py_eq_none (v : PyVal) : v = PyVal.none ↔ v.isNone = true := by
  cases v <;> simp [PyVal.isNone]

/-- `bytes([v])` for a validated address byte that is present -/
theorem bytes_single (v : PyVal) (hn : v.isNone = false) (hb : byteOk v = true) :
    evalBuiltin "bytes" [.list [.py v]] = some (.ok (.bytes [u8 ((optNat v).getD 0)])) := by
  simp [byteOk, hn] at hb
  simp [evalBuiltin, bytesOfScs, Sc.isInt, Sc.intVal, hb, optNat, hn, u8]

/-- what the transmit part of the constructor adds -/
def txStage (a : AddrArgs) (m : Mode) (h : Half) (env : Env) : Env :=
  if a.rxOnly then env else
    let e := (env.set "self._tx_arbitration_id_physical" (pint (h.txId .physical))).set
      "self._tx_arbitration_id_functional" (pint (h.txId .functional))
    if m.hasPrefix then e.set "self._tx_payload_prefix" (.bytes h.txPrefix) else e

/-- statement 15: `if not self._rx_only:` the two transmit identifiers; the one-byte payload prefix in the Extended / Mixed modes
    (`bytes([self._target_address])`, resp. `bytes([self._address_extension])`, after an `assert ... is not None`) -/
theorem stmt15 (hI : Inv a m env) (hm : a.mode = some m) (hk : mkAddress a = .ok h) :
    execStmt (initMeths a) env (S 15) = .ok (.next (txStage a m h env)) := by
  obtain ⟨hv, hh⟩ := mkAddress_ok hm hk
  cases hI
  simp only [S, nthStmt, Src.Address_init]
  cases hr : a.rxOnly
  · cases m <;> simp [validateAddr, hm, presenceOk, hr] at hv <;>
    simp [execStmt, execBlock, eval, evalArgs, *, modePV, modeName, set_get, txStage, Mode.hasPrefix,
      evalBuiltin_txget, initMeths_tx a h hk, py_eq_none, bytes_single, Half.txPrefix, mkHalf]
  · simp [execStmt, execBlock, eval, *, txStage]

/-- the `_is_for_me_*` method the constructor installs as `is_for_me` -/
def _root_.Isotp.PyAgree.isForMeName : Mode → String
  | .n11 | .n29 => "_is_for_me_normal"
  | .e11 | .e29 => "_is_for_me_extended"
  | .nf29 => "_is_for_me_normal_fixed"
  | .m11 => "_is_for_me_mixed_11bits"
  | .m29 => "_is_for_me_mixed_29bits"

def isForMeStage (a : AddrArgs) (m : Mode) (env : Env) : Env :=
  if a.txOnly then env else env.set "self.is_for_me" (.meth (isForMeName m))

/-- statement 16: `if not self._tx_only:` the if / elif chain on the mode doing `setattr(self, 'is_for_me', self._is_for_me_<mode>)`
    (the final `else: raise RuntimeError` is unreachable: the seven modes are covered) -/
theorem stmt16 (hI : Inv a m env) :
    execStmt (initMeths a) env (S 16) = .ok (.next (isForMeStage a m env)) := by
  cases hI
  simp only [S, nthStmt, Src.Address_init]
  cases ht : a.txOnly
  · cases m <;>
    simp [execStmt, execBlock, eval, evalArgs, *, modePV, modeName, isForMeName, evalBuiltin_setattr, initMeths_setattr,
      isForMeStage]
  · simp [execStmt, execBlock, eval, *, isForMeStage]

/-- statement 17: the nested `def not_implemented_func_with_partial(*args, **kwargs): raise NotImplementedError(...)` -/
theorem stmt17 : execStmt (initMeths a) env (S 17) = .ok (.next (env.set nipName nip)) := by
  simp only [S, nthStmt, Src.Address_init, execStmt, eval, evalArgs, ok_bind, evalBuiltin_function, initMeths_function]
  rfl

/-- a transmit-only address: the six receive-side methods are replaced -/
def rxNip (env : Env) : Env :=
  ((((((env.set "self.get_rx_arbitration_id" nip).set "self.requires_rx_extension_byte" nip).set
    "self.get_rx_extension_byte" nip).set "self.is_rx_29bits" nip).set "self.is_for_me" nip).set "self.get_rx_prefix_size" nip)

/-- a receive-only address: the five transmit-side methods are replaced -/
def txNip (env : Env) : Env :=
  (((((env.set "self.get_tx_arbitration_id" nip).set "self.requires_tx_extension_byte" nip).set
    "self.get_tx_extension_byte" nip).set "self.is_tx_29bits" nip).set "self.get_tx_payload_prefix" nip)

/-- statement 18: `if self._tx_only:` six `setattr(self, <receive-side method>, not_implemented_func_with_partial)` -/
theorem stmt18 (hI : Inv a m env) (hn : env nipName = some nip) :
    execStmt (initMeths a) env (S 18) = .ok (.next (if a.txOnly then rxNip env else env)) := by
  cases hI
  simp only [S, nthStmt, Src.Address_init]
  simp only [nipName] at hn
  cases ht : a.txOnly
  · simp [execStmt, execBlock, eval, *]
  · simp [execStmt, execBlock, eval, evalArgs, *, set_get, evalBuiltin_setattr, initMeths_setattr, rxNip]

/-- statement 19: `if self._rx_only:` five `setattr(self, <transmit-side method>, not_implemented_func_with_partial)` -/
theorem stmt19 (hI : Inv a m env) (hn : env nipName = some nip) :
    execStmt (initMeths a) env (S 19) = .ok (.next (if a.rxOnly then txNip env else env)) := by
  cases hI
  simp only [S, nthStmt, Src.Address_init]
  simp only [nipName] at hn
  cases ht : a.rxOnly
  · simp [execStmt, execBlock, eval, *]
  · simp [execStmt, execBlock, eval, evalArgs, *, set_get, evalBuiltin_setattr, initMeths_setattr, txNip]

end stmts

/-! ## Chaining -/

section chain
variable (a : AddrArgs) (m : Mode) (h : Half)

def idsStage (a : AddrArgs) (m : Mode) (env : Env) : Env := if m = .nf29 ∨ m = .m29 then setIds a m env else env

/-- the environment in which `self.validate()` is called -/
def env11 (a : AddrArgs) (m : Mode) : Env := idsStage a m ((env8 a m).set "self._is_29bits" (pbool m.is29))

/-- the environment after `self._tx_payload_prefix = bytes(); self._rx_prefix_size = 0` -/
def env13 (a : AddrArgs) (m : Mode) : Env :=
  ((env11 a m).set "self._tx_payload_prefix" (.bytes [])).set "self._rx_prefix_size" (pint 0)

/-- the constructed object (with the locals of the constructor still in the environment) -/
def finalEnv (a : AddrArgs) (m : Mode) (h : Half) : Env :=
  let e16 := isForMeStage a m (txStage a m h (rxStage a m h (env13 a m)))
  let e18 := if a.txOnly then rxNip (e16.set nipName nip) else e16.set nipName nip
  if a.rxOnly then txNip e18 else e18

theorem Inv.setIds {a : AddrArgs} {m : Mode} {env : Env} (hI : Inv a m env) : Inv a m (setIds a m env) :=
  (hI.set (by decide) _).set (by decide) _

theorem Inv.idsStage {a : AddrArgs} {m : Mode} {env : Env} (hI : Inv a m env) : Inv a m (idsStage a m env) := by
  unfold AddrInit.idsStage; split
  · exact hI.setIds
  · exact hI

theorem Inv.rxStage {a : AddrArgs} {m : Mode} {env : Env} (hI : Inv a m env) : Inv a m (rxStage a m h env) := by
  unfold AddrInit.rxStage; split
  · exact hI
  · dsimp only; split
    · exact (((hI.set (by decide) _).set (by decide) _).set (by decide) _)
    · exact ((hI.set (by decide) _).set (by decide) _)

theorem Inv.txStage {a : AddrArgs} {m : Mode} {env : Env} (hI : Inv a m env) : Inv a m (txStage a m h env) := by
  unfold AddrInit.txStage; split
  · exact hI
  · dsimp only; split
    · exact (((hI.set (by decide) _).set (by decide) _).set (by decide) _)
    · exact ((hI.set (by decide) _).set (by decide) _)

theorem Inv.isForMeStage {a : AddrArgs} {m : Mode} {env : Env} (hI : Inv a m env) : Inv a m (isForMeStage a m env) := by
  unfold AddrInit.isForMeStage; split
  · exact hI
  · exact hI.set (by decide) _

theorem Inv.rxNip {a : AddrArgs} {m : Mode} {env : Env} (hI : Inv a m env) : Inv a m (rxNip env) :=
  ((((((hI.set (by decide) _).set (by decide) _).set (by decide) _).set (by decide) _).set (by decide) _).set (by decide) _)

theorem inv_env11 : Inv a m (env11 a m) := ((inv_env8 a m).set (by decide) _).idsStage


/-- statements 9-10 together -/
theorem stmts9to10 (M : Meths) (env : Env) (hI : Inv a m env) :
    execBlock M env (R 9) = execBlock M (idsStage a m env) (R 11) := by
  rw [step_next rfl (stmt9 a m M env hI)]
  have I10 : Inv a m (if m = .nf29 then setIds a m env else env) := by
    split
    · exact hI.setIds
    · exact hI
  rw [step_next rfl (stmt10 a m M _ I10)]
  congr 1
  cases m <;> simp [idsStage]

/-- statements 0-11: up to and including `self.validate()` -/
theorem upToValidate :
    execBlock (initMeths a) (initEnv a m) (R 0) =
      if validateAddr a then execBlock (initMeths a) (env11 a m) (R 12) else .error (.exc .ValueError) := by
  rw [stmts0to7]
  have I8 := inv_env8 a m
  rw [step_next rfl (stmt8 a m _ _ I8)]
  have I9 := I8.set (k := "self._is_29bits") (by decide) (pbool m.is29)
  rw [stmts9to10 a m _ _ I9]
  cases hv : validateAddr a
  · have e := stmt11 a (idsStage a m ((env8 a m).set "self._is_29bits" (pbool m.is29)))
    simp only [hv, Bool.false_eq_true, if_false] at e
    rw [step_err rfl e]; rfl
  · have e := stmt11 a (idsStage a m ((env8 a m).set "self._is_29bits" (pbool m.is29)))
    simp only [hv, if_true] at e
    rw [step_next rfl e]; rfl

/-- **Rejection**: when `validate` rejects the arguments, so does the constructor (the statements before the call never raise). -/
theorem _root_.Isotp.PyAgree.Address_init_rejects (_hm : a.mode = some m) (hv : validateAddr a = false) :
    runFn (initMeths a) (initEnv a m) Src.Address_init = .error (.exc .ValueError) := by
  have e : execBlock (initMeths a) (initEnv a m) Src.Address_init = .error (.exc .ValueError) := by
    have := upToValidate a m
    simp only [hv, Bool.false_eq_true, if_false] at this
    exact this
  simp [runFn, e]

/-- statements 12-19: after a successful validation nothing raises any more -/
theorem afterValidate (hm : a.mode = some m) (hk : mkAddress a = .ok h) :
    execBlock (initMeths a) (env11 a m) (R 12) = .ok (.next (finalEnv a m h)) := by
  have I11 := inv_env11 a m
  rw [step_next rfl (stmt12 _ _)]
  rw [step_next rfl (stmt13 _ _)]
  have I13 : Inv a m (env13 a m) := (I11.set (by decide) _).set (by decide) _
  change execBlock _ (env13 a m) (R 14) = _
  rw [step_next rfl (stmt14 a m _ h I13 hk)]
  have I14 := I13.rxStage h
  rw [step_next rfl (stmt15 a m _ h I14 hm hk)]
  have I15 := I14.txStage h
  rw [step_next rfl (stmt16 a m _ I15)]
  have I16 := I15.isForMeStage
  rw [step_next rfl (stmt17 a _)]
  have I17 : Inv a m ((isForMeStage a m (txStage a m h (rxStage a m h (env13 a m)))).set nipName nip) :=
    I16.set (by decide) _
  rw [step_next rfl (stmt18 a m _ I17 (by simp [set_get]))]
  have I18 : Inv a m (if a.txOnly then rxNip ((isForMeStage a m (txStage a m h (rxStage a m h (env13 a m)))).set nipName nip)
      else (isForMeStage a m (txStage a m h (rxStage a m h (env13 a m)))).set nipName nip) := by
    split
    · exact I17.rxNip
    · exact I17
  rw [step_next rfl (stmt19 a m _ I18 (by split <;> simp [set_get, rxNip, nipName]))]
  rfl

end chain

end AddrInit
open AddrInit

/-! ## The constructed object -/

section result
variable (a : AddrArgs) (m : Mode) (h : Half)

/-- **Construction, run**: when `mkAddress` builds `h`, the constructor returns `None` with `self` in the state `finalEnv`. -/
theorem Address_init_run (hm : a.mode = some m) (hk : mkAddress a = .ok h) :
    runFn (initMeths a) (initEnv a m) Src.Address_init = .ok (pnone, finalEnv a m h) := by
  have e : execBlock (initMeths a) (initEnv a m) Src.Address_init = .ok (.next (finalEnv a m h)) := by
    have := upToValidate a m
    simp only [(mkAddress_ok hm hk).1, if_true] at this
    exact this.trans (afterValidate a m h hm hk)
  simp [runFn, e]

/-- the five identifier / address-byte attributes, as the model object has them -/
def idAttrs (h : Half) : List (String × PV) :=
  [("self._txid", optPV h.txid), ("self._rxid", optPV h.rxid), ("self._target_address", optPV h.ta),
   ("self._source_address", optPV h.sa), ("self._address_extension", optPV h.ae)]

/-- the same five attributes, as the constructor stores them: the argument itself -/
def rawIdAttrs (a : AddrArgs) : List (String × PV) :=
  [("self._txid", .sc (.py a.txid)), ("self._rxid", .sc (.py a.rxid)), ("self._target_address", .sc (.py a.ta)),
   ("self._source_address", .sc (.py a.sa)), ("self._address_extension", .sc (.py a.ae))]

/-- all the other attributes of the constructed object -/
def otherAttrs (h : Half) : List (String × PV) :=
  [("self._addressing_mode", modePV h.mode), ("self._is_29bits", pbool h.mode.is29),
   ("self._rx_only", pbool h.rxOnly), ("self._tx_only", pbool h.txOnly)]
  ++ (if h.mode = .nf29 ∨ h.mode = .m29 then
        [("self.physical_id", pint h.physId), ("self.functional_id", pint h.funcId)] else [])
  ++ (if h.txOnly then
        [("self._rx_prefix_size", pint 0),
         ("self.get_rx_arbitration_id", nip), ("self.requires_rx_extension_byte", nip), ("self.get_rx_extension_byte", nip),
         ("self.is_rx_29bits", nip), ("self.is_for_me", nip), ("self.get_rx_prefix_size", nip)]
      else
        [("self._rx_arbitration_id_physical", pint (h.rxId .physical)),
         ("self._rx_arbitration_id_functional", pint (h.rxId .functional)),
         ("self._rx_prefix_size", pint h.rxPrefixSize),
         ("self.is_for_me", .meth (isForMeName h.mode))])
  ++ (if h.rxOnly then
        [("self._tx_payload_prefix", .bytes []),
         ("self.get_tx_arbitration_id", nip), ("self.requires_tx_extension_byte", nip), ("self.get_tx_extension_byte", nip),
         ("self.is_tx_29bits", nip), ("self.get_tx_payload_prefix", nip)]
      else
        [("self._tx_arbitration_id_physical", pint (h.txId .physical)),
         ("self._tx_arbitration_id_functional", pint (h.txId .functional)),
         ("self._tx_payload_prefix", .bytes h.txPrefix)])

/-- the attributes of the object `Address(...)` builds, from the model object -/
def expectedAttrs (h : Half) : List (String × PV) := idAttrs h ++ otherAttrs h

/-- instance attributes the constructor does NOT create (the class-level methods stay visible / the attribute does not exist) -/
def unsetAttrs (h : Half) : List String :=
  (if h.mode = .nf29 ∨ h.mode = .m29 then [] else ["self.physical_id", "self.functional_id"])
  ++ (if h.txOnly then ["self._rx_arbitration_id_physical", "self._rx_arbitration_id_functional"]
      else ["self.get_rx_arbitration_id", "self.requires_rx_extension_byte", "self.get_rx_extension_byte", "self.is_rx_29bits",
            "self.get_rx_prefix_size"])
  ++ (if h.rxOnly then ["self._tx_arbitration_id_physical", "self._tx_arbitration_id_functional"]
      else ["self.get_tx_arbitration_id", "self.requires_tx_extension_byte", "self.get_tx_extension_byte", "self.is_tx_29bits",
            "self.get_tx_payload_prefix"])

/-- `finalEnv` has every expected attribute, and lacks the others -/
theorem finalEnv_attrs (hm : a.mode = some m) (hk : mkAddress a = .ok h) :
    (∀ kv ∈ rawIdAttrs a ++ otherAttrs h, finalEnv a m h kv.1 = some kv.2) ∧ (∀ k ∈ unsetAttrs h, finalEnv a m h k = none) := by
  obtain ⟨hv, hh⟩ := mkAddress_ok hm hk
  have e1 : h.mode = m := by rw [hh]; rfl
  have e2 : h.rxOnly = a.rxOnly := by rw [hh]; rfl
  have e3 : h.txOnly = a.txOnly := by rw [hh]; rfl
  have e4 : h.physId = physVal a m := by rw [hh]; rfl
  have e5 : h.funcId = funcVal a m := by rw [hh]; rfl
  clear hh
  cases hr : a.rxOnly <;> cases ht : a.txOnly
  case true.true => simp [validateAddr, hm, hr, ht] at hv
  all_goals
    cases m <;> constructor <;>
    simp [rawIdAttrs, otherAttrs, unsetAttrs, e1, e2, e3, e4, e5, hr, ht, Half.rxPrefixSize, Mode.hasPrefix, Mode.is29] <;>
    and_intros <;>
    (simp [finalEnv, isForMeStage, txStage, rxStage, env13, env11, idsStage, setIds, env8, rxNip, txNip,
      nipName, nip, set_get, hr, ht, Mode.hasPrefix, Mode.is29, Half.txPrefix, e1] <;> rfl)

/-! ### the five identifier / address-byte attributes: the argument itself vs. the model's `Option Nat` -/

def isBoolV : PyVal → Bool
  | .bool _ => true
  | _ => false

/-- none of `txid`, `rxid`, `target_address`, `source_address`, `address_extension` is a Python `bool` -/
def noBoolArgs (a : AddrArgs) : Bool :=
  !isBoolV a.txid && !isBoolV a.rxid && !isBoolV a.ta && !isBoolV a.sa && !isBoolV a.ae

/-- what `validate` guarantees of each of the five: `None` or a non-negative `int` (`bool` included, as `isinstance(True, int)`) -/
def okVal (v : PyVal) : Bool := v.isNone || (v.isInt && decide (0 ≤ v.intVal))

theorem okVal_of_byteOk {v : PyVal} (h : byteOk v = true) : okVal v = true := by
  simp [byteOk, okVal] at h ⊢; rcases h with h | h <;> simp [h]
theorem okVal_of_idOk {b : Bool} {v : PyVal} (h : idOk b v = true) : okVal v = true := by
  simp [idOk, okVal] at h ⊢; rcases h with h | h <;> simp [h]

theorem valid_okVals {a : AddrArgs} (hv : validateAddr a = true) :
    okVal a.txid = true ∧ okVal a.rxid = true ∧ okVal a.ta = true ∧ okVal a.sa = true ∧ okVal a.ae = true := by
  unfold validateAddr at hv
  split at hv
  · simp at hv
  · simp only [Bool.and_eq_true] at hv
    obtain ⟨⟨⟨⟨⟨_, h3⟩, h4⟩, h5⟩, h6⟩, h7⟩ := hv
    exact ⟨okVal_of_idOk h6, okVal_of_idOk h7, okVal_of_byteOk h3, okVal_of_byteOk h4, okVal_of_byteOk h5⟩

/-- a validated argument that is not a `bool` IS the model's value -/
theorem py_eq_optPV {v : PyVal} (hok : okVal v = true) (hb : isBoolV v = false) : PV.sc (.py v) = optPV (optNat v) := by
  cases v <;> simp_all [okVal, isBoolV, optNat, optPV, PyVal.isNone, PyVal.isInt, PyVal.intVal]
  have := of_decide_eq_true hok
  omega

/-- in any case it is Python-`==` to the model's value (`True == 1`, `False == 0`) -/
theorem py_pvEq_optPV {v : PyVal} (hok : okVal v = true) : pvEq (.sc (.py v)) (optPV (optNat v)) = true := by
  cases v with
  | bool b => cases b <;> rfl
  | int i =>
    have : 0 ≤ i := by
      simp [okVal, PyVal.isNone, PyVal.isInt, PyVal.intVal] at hok; exact of_decide_eq_true hok
    simp [optNat, optPV, PyVal.isNone, PyVal.intVal, Int.toNat_of_nonneg this]
  | none => rfl
  | _ => simp [okVal, PyVal.isNone, PyVal.isInt] at hok

theorem rawIdAttrs_eq (hm : a.mode = some m) (hk : mkAddress a = .ok h) (hnb : noBoolArgs a = true) :
    rawIdAttrs a = idAttrs h := by
  obtain ⟨hv, hh⟩ := mkAddress_ok hm hk
  obtain ⟨o1, o2, o3, o4, o5⟩ := valid_okVals hv
  simp only [noBoolArgs, Bool.and_eq_true, Bool.not_eq_true'] at hnb
  obtain ⟨⟨⟨⟨b1, b2⟩, b3⟩, b4⟩, b5⟩ := hnb
  subst hh
  simp only [rawIdAttrs, idAttrs, mkHalf, py_eq_optPV o1 b1, py_eq_optPV o2 b2, py_eq_optPV o3 b3, py_eq_optPV o4 b4,
    py_eq_optPV o5 b5]

theorem rawIdAttrs_pyEq (hm : a.mode = some m) (hk : mkAddress a = .ok h) :
    ∀ p ∈ (rawIdAttrs a).zip (idAttrs h), p.1.1 = p.2.1 ∧ pvEq p.1.2 p.2.2 = true := by
  obtain ⟨hv, hh⟩ := mkAddress_ok hm hk
  obtain ⟨o1, o2, o3, o4, o5⟩ := valid_okVals hv
  subst hh
  simp [rawIdAttrs, idAttrs, mkHalf, py_pvEq_optPV, *]

/-! ### main theorems -/

/-- the attribute names `halfEnv` defines (the view of the object the other agreement theorems start from) -/
def halfAttrKeys : List String :=
  ["self._addressing_mode", "self._is_29bits", "self._txid", "self._rxid", "self._target_address", "self._source_address",
   "self._address_extension", "self._rx_only", "self._tx_only", "self.physical_id", "self.functional_id"]

theorem halfEnv_agree (env : Env) (h1 : ∀ kv ∈ expectedAttrs h, env kv.1 = some kv.2) (h2 : ∀ k ∈ unsetAttrs h, env k = none) :
    ∀ k ∈ halfAttrKeys, env k = halfEnv h k := by
  have a1 := h1 ("self._addressing_mode", modePV h.mode) (by simp [expectedAttrs, otherAttrs])
  have a2 := h1 ("self._is_29bits", pbool h.mode.is29) (by simp [expectedAttrs, otherAttrs])
  have a3 := h1 ("self._txid", optPV h.txid) (by simp [expectedAttrs, idAttrs])
  have a4 := h1 ("self._rxid", optPV h.rxid) (by simp [expectedAttrs, idAttrs])
  have a5 := h1 ("self._target_address", optPV h.ta) (by simp [expectedAttrs, idAttrs])
  have a6 := h1 ("self._source_address", optPV h.sa) (by simp [expectedAttrs, idAttrs])
  have a7 := h1 ("self._address_extension", optPV h.ae) (by simp [expectedAttrs, idAttrs])
  have a8 := h1 ("self._rx_only", pbool h.rxOnly) (by simp [expectedAttrs, otherAttrs])
  have a9 := h1 ("self._tx_only", pbool h.txOnly) (by simp [expectedAttrs, otherAttrs])
  by_cases hc : h.mode = .nf29 ∨ h.mode = .m29
  · have a10 := h1 ("self.physical_id", pint h.physId) (by simp [expectedAttrs, otherAttrs, hc])
    have a11 := h1 ("self.functional_id", pint h.funcId) (by simp [expectedAttrs, otherAttrs, hc])
    simp at a1 a2 a3 a4 a5 a6 a7 a8 a9 a10 a11
    simp [halfAttrKeys, halfEnv, *]
  · have a10 := h2 "self.physical_id" (by simp [unsetAttrs, hc])
    have a11 := h2 "self.functional_id" (by simp [unsetAttrs, hc])
    simp at a1 a2 a3 a4 a5 a6 a7 a8 a9
    simp [halfAttrKeys, halfEnv, *]

/-- **Construction (unqualified form)**: for ALL arguments that `mkAddress` accepts, the constructor returns `None` and the object has:
    the five identifier / address-byte attributes equal to the ARGUMENTS themselves, each Python-`==` to the model's field
    (literally equal unless the argument is a `bool`: see `Address_init_constructs` / `bool_argument_kept_as_bool`),
    every other attribute exactly as the model object says, and none of the attributes of `unsetAttrs`.
    (The four `_{rx,tx}_arbitration_id_*` attributes are what `initMeths` says the getters return, i.e. the model's `Half.rxId` /
    `Half.txId`; the getters' own agreement theorems start from `halfEnv h`, which a `bool` argument does not literally satisfy.) -/
theorem Address_init_constructs_raw (hm : a.mode = some m) (hk : mkAddress a = .ok h) :
    ∃ env', runFn (initMeths a) (initEnv a m) Src.Address_init = .ok (pnone, env') ∧
      (∀ kv ∈ rawIdAttrs a ++ otherAttrs h, env' kv.1 = some kv.2) ∧
      (∀ p ∈ (rawIdAttrs a).zip (idAttrs h), p.1.1 = p.2.1 ∧ pvEq p.1.2 p.2.2 = true) ∧
      (∀ k ∈ unsetAttrs h, env' k = none) :=
  ⟨finalEnv a m h, Address_init_run a m h hm hk, (finalEnv_attrs a m h hm hk).1, rawIdAttrs_pyEq a m h hm hk,
    (finalEnv_attrs a m h hm hk).2⟩

/-- **Construction**: when none of the five identifier / address-byte arguments is a `bool`, the constructed object is literally the
    model object: every attribute of `expectedAttrs h` has the model's value, the attributes of `unsetAttrs h` do not exist, and
    the object agrees with `halfEnv h` on every attribute `halfEnv` defines. -/
theorem Address_init_constructs (hm : a.mode = some m) (hk : mkAddress a = .ok h) (hnb : noBoolArgs a = true) :
    ∃ env', runFn (initMeths a) (initEnv a m) Src.Address_init = .ok (pnone, env') ∧
      (∀ kv ∈ expectedAttrs h, env' kv.1 = some kv.2) ∧
      (∀ k ∈ unsetAttrs h, env' k = none) ∧
      (∀ k ∈ halfAttrKeys, env' k = halfEnv h k) := by
  have h1 : ∀ kv ∈ expectedAttrs h, finalEnv a m h kv.1 = some kv.2 := by
    rw [expectedAttrs, ← rawIdAttrs_eq a m h hm hk hnb]
    exact (finalEnv_attrs a m h hm hk).1
  have h2 := (finalEnv_attrs a m h hm hk).2
  exact ⟨finalEnv a m h, Address_init_run a m h hm hk, h1, h2, halfEnv_agree h _ h1 h2⟩

end result

/-! ### the `bool` corner: `Address(Normal_11bits, txid=True, rxid=2)` is accepted (`isinstance(True, int)`), the object keeps
    `self._txid = True` where the model object has `txid = some 1`: Python-equal, not identical -/

def boolWitness : AddrArgs := { mode := some .n11, txid := .bool true, rxid := .int 2 }

theorem bool_argument_kept_as_bool :
    ∃ h env', mkAddress boolWitness = .ok h ∧
      runFn (initMeths boolWitness) (initEnv boolWitness .n11) Src.Address_init = .ok (pnone, env') ∧
      env' "self._txid" = some (pbool true) ∧ halfEnv h "self._txid" = some (pint 1) ∧
      env' "self._txid" ≠ halfEnv h "self._txid" ∧ ¬ (∀ kv ∈ expectedAttrs h, env' kv.1 = some kv.2) := by
  have hk : mkAddress boolWitness = .ok (mkHalf boolWitness .n11) := rfl
  have hattr := (finalEnv_attrs boolWitness .n11 _ rfl hk).1 ("self._txid", pbool true) (by simp [rawIdAttrs, boolWitness])
  refine ⟨_, _, hk, Address_init_run boolWitness .n11 _ rfl hk, hattr, rfl, ?_, ?_⟩
  · rw [hattr]; decide
  · intro hall
    have := hall ("self._txid", pint 1) (by simp [expectedAttrs, idAttrs, mkHalf, boolWitness, optNat, PyVal.isNone, optPV, PyVal.intVal])
    rw [hattr] at this
    exact absurd this (by decide)

/-! ### non-vacuity of the hypotheses -/

example : ∃ a m, a.mode = some m ∧ validateAddr a = false := ⟨{ mode := some .n11 }, .n11, rfl, by decide⟩
example : ∃ a m h, a.mode = some m ∧ mkAddress a = .ok h ∧ noBoolArgs a = true :=
  ⟨{ mode := some .m29, ta := .int 1, sa := .int 2, ae := .int 3, physId := some 0x12345678 }, .m29, _, rfl, rfl, by decide⟩
example : ∃ a m h, a.mode = some m ∧ mkAddress a = .ok h ∧ h.txOnly = true :=
  ⟨{ mode := some .e11, txid := .int 0x123, ta := .int 1, txOnly := true }, .e11, _, rfl, rfl, rfl⟩

/-! ## `AsymmetricAddress.__init__` -/

/-- arguments of `AsymmetricAddress(tx_addr, rx_addr)`: two `Address` objects (opaque here: the constructor only stores them) -/
def asymEnv : Env := fun k =>
  match k with
  | "tx_addr" => some (.meth "tx")
  | "rx_addr" => some (.meth "rx")
  | "self" => some (.meth "self")
  | _ => constEnv k

/-- `isinstance(x, Address)` holds of both arguments (the model's `mkAsym` takes two `Half`s); `Address.is_tx_only` / `is_rx_only`
    return the `_tx_only` / `_rx_only` attribute (one-line getters, not in the dumped subset). -/
def asymMeths (tx rx : Half) : Meths where
  fn := fun name args _ =>
    match name, args with
    | "isinstance_Address", [_] => .ok (pbool true)
    | "tx_addr.is_tx_only", [] => .ok (pbool tx.txOnly)
    | "rx_addr.is_rx_only", [] => .ok (pbool rx.rxOnly)
    | n, _ => .error (.unsupported ("call " ++ n))
  proc := fun n _ _ => .error (.unsupported ("call " ++ n))

theorem evalBuiltin_isinstance_Address (args : List PV) : evalBuiltin "isinstance_Address" args = none := by
  unfold evalBuiltin; split <;> simp_all
theorem evalBuiltin_is_tx_only (args : List PV) : evalBuiltin "tx_addr.is_tx_only" args = none := by
  unfold evalBuiltin; split <;> simp_all
theorem evalBuiltin_is_rx_only (args : List PV) : evalBuiltin "rx_addr.is_rx_only" args = none := by
  unfold evalBuiltin; split <;> simp_all

/-- **`AsymmetricAddress.__init__` = `mkAsym`**: `ValueError` exactly when the model rejects the pair; otherwise the two halves are
    stored. -/
theorem AsymmetricAddress_init_agrees (tx rx : Half) :
    runFn (asymMeths tx rx) asymEnv Src.AsymmetricAddress_init =
      match mkAsym tx rx with
      | .ok _ => .ok (pnone, (asymEnv.set "self.tx_addr" (.meth "tx")).set "self.rx_addr" (.meth "rx"))
      | .error e => .error (.exc e) := by
  have g1 : asymEnv "tx_addr" = some (.meth "tx") := rfl
  have g2 : asymEnv "rx_addr" = some (.meth "rx") := rfl
  have m1 : ∀ v env, (asymMeths tx rx).fn "isinstance_Address" [v] env = .ok (pbool true) := fun _ _ => rfl
  have m2 : ∀ env, (asymMeths tx rx).fn "tx_addr.is_tx_only" [] env = .ok (pbool tx.txOnly) := fun _ => rfl
  have m3 : ∀ env, (asymMeths tx rx).fn "rx_addr.is_rx_only" [] env = .ok (pbool rx.rxOnly) := fun _ => rfl
  cases ht : tx.txOnly <;> cases hr : rx.rxOnly <;>
  simp [runFn, Src.AsymmetricAddress_init, execBlock, execStmt, eval, evalArgs, g1, g2, m1, m2, m3, ht, hr, mkAsym,
    evalBuiltin_isinstance_Address, evalBuiltin_is_tx_only, evalBuiltin_is_rx_only, set_get]

theorem AsymmetricAddress_init_raises_iff (tx rx : Half) :
    runFn (asymMeths tx rx) asymEnv Src.AsymmetricAddress_init = .error (.exc .ValueError) ↔ mkAsym tx rx = .error .ValueError := by
  rw [AsymmetricAddress_init_agrees]
  unfold mkAsym
  cases tx.txOnly <;> cases rx.rxOnly <;> simp

#print axioms Address_init_rejects
#print axioms Address_init_run
#print axioms Address_init_constructs_raw
#print axioms Address_init_constructs
#print axioms bool_argument_kept_as_bool
#print axioms AsymmetricAddress_init_agrees
#print axioms AsymmetricAddress_init_raises_iff

end Isotp.PyAgree
