import Isotp.Proofs.LockstepQueue
/-
  C01, liveness half for any number of queued messages, part 2: the receiving layer B with a non-empty rx queue
  (`recv()` is not called, the delivered payloads accumulate) and with the frames of SEVERAL messages in one pass.

  In the round in which the sender completes a message and starts the next ones (the chain, part 1), the receiver
  finds in its inbox: the remaining Consecutive Frames of the current message, then one Single Frame per queued
  Single Frame message, then possibly the First Frame of the first segmented message. It delivers the current
  payload, every Single Frame payload, opens the new session and answers with ContinueToSend — all in one pass.

  * `IdleB`, `SessAtQ` : receiver idle / in a session, with `del` already delivered (in the rx queue).
  * `chainMsgs`, `chainB`, `rxLoop_chainB` : the receive loop over the frames of a chain.
  * `ChainPostB`, `passB_chainTail` : the rest of that pass (Flow Control if a First Frame came last).
  * `passB_startQ`, `passB_finalQ`, `passB_boundaryQ`, `passB_plainQ` : `process()` of the receiver, pass by pass.
-/
namespace Isotp.LockstepQ
open Isotp Isotp.State Isotp.Spec Isotp.Proofs Isotp.Lockstep

section chainB
variable (ca cb : Cfg) (aa ab : Addr)

/-- receiver idle, nothing pending, `del` delivered so far -/
structure IdleB (del : List Bytes) (y : BP) : Prop where
  st    : y.rxState = .idle
  pend  : y.pendingFc = false
  queue : y.rxQueue = del
  timer : y.timerCf = none

/-- receiver in a session for `p` after `i` Consecutive Frames, nothing pending, N_Cr timer started at `t`,
    `del` delivered before -/
structure SessAtQ (del : List Bytes) (p : Bytes) (y : BP) (i t : Nat) : Prop where
  sess  : SessB ca aa p y i
  pend  : y.pendingFc = false
  queue : y.rxQueue = del
  timer : y.timerCf = some t

/-- the receiver after the First Frame of `p` (last entry of the inbox) -/
def bpFF (p : Bytes) (y : BP) : BP :=
  { y with inbox := [], log := .rx y.now (wireA ca aa p 0) :: y.log, rxState := .waitCf, rxFrameLen := p.length,
           rxBuf := p.take (carried (TxCfg.of ca aa) p.length 1), lastSeq := 0, rxBlockCnt := 0,
           actualRxdl := some ca.txDl, pendingFc := true, pendingFcStatus := some 0, timerCf := some y.now }

/-- the receiver after the Single Frame of `p` (`rest` still in the inbox) -/
def bpSF (p : Bytes) (rest : List (Nat × CanMsg)) (y : BP) : BP :=
  { y with inbox := rest, log := .deliver p :: .rx y.now (sfWire ca aa p) :: y.log, rxFrameLen := 0,
           timerCf := none, pendingFc := false, rxQueue := y.rxQueue ++ [p] }

/-- the frames of the chain over `l`, as inbox entries -/
def chainMsgs : List Msg → List (Nat × CanMsg)
  | [] => []
  | m :: rest =>
    if NeedsFF (TxCfg.of ca aa) m.2.length then [(0, wireA ca aa m.2 0)]
    else (0, sfWire ca aa m.2) :: chainMsgs rest

theorem chainMsgs_eq (l : List Msg) : chainMsgs ca aa l = toInbox (chainFrames ca aa l) := by
  induction l with
  | nil => rfl
  | cons m rest ih =>
    by_cases hff : NeedsFF (TxCfg.of ca aa) m.2.length
    · simp [chainMsgs, chainFrames, hff, toInbox]
    · simp [chainMsgs, chainFrames, hff, toInbox, ih]

/-- the receive loop over the frames of the chain, on the receiver parameters -/
def chainB : List Msg → BP → BP
  | [], y => { y with inbox := [], log := .rxNone y.now :: y.log }
  | m :: rest, y =>
    if NeedsFF (TxCfg.of ca aa) m.2.length then bpFF ca aa m.2 y
    else chainB rest (bpSF ca aa m.2 (chainMsgs ca aa rest) y)

/-- what the receiver side needs of the queued messages -/
def MsgOkB (l : List Msg) : Prop :=
  ∀ m ∈ l, 1 ≤ m.2.length ∧ m.2.length < 4294967296 ∧ m.2.length ≤ cb.maxFrameSize

theorem MsgOkB.tail {m : Msg} {l : List Msg} (h : MsgOkB cb (m :: l)) : MsgOkB cb l :=
  fun m' hm' => h m' (List.mem_cons_of_mem _ hm')

/-- `_process_rx` of the idle receiver on the Single Frame of `p` -/
theorem processRx_sfQ (hva : ca.valid = true) (hwA : aa.tx.txWf = true) (hmir : ab.rx = Spec.mirror aa.tx)
    (p : Bytes) (h1 : 1 ≤ p.length) (hsf : ¬ NeedsFF (TxCfg.of ca aa) p.length) (y : BP)
    (rest : List (Nat × CanMsg)) (hst : y.rxState = .idle) (hp : y.pendingFc = false) (ht : y.timerCf = none) :
    ab.rx.isForMe (sfWire ca aa p) = true ∧
    (arrived (mkB cb ab y) 0 (sfWire ca aa p) rest).processRx (sfWire ca aa p) =
      (mkB cb ab (bpSF ca aa p rest y), false, true) := by
  obtain ⟨d0, hseg⟩ : ∃ d0, segment (TxCfg.of ca aa) p = [d0] := by
    rcases not_ff_cases _ _ hsf with h | h
    · exact ⟨_, segment_sfShort _ p h⟩
    · exact ⟨_, segment_sfEscape _ p h⟩
  have hw := sfWire_eq ca aa p d0 hseg
  obtain ⟨esc, cdl, rdl, hdec, h8⟩ := sf_decodes ca aa p hva h1 hsf d0 hseg
  have hpre : ab.rx.rxPrefixSize = aa.tx.txPrefix.length := by rw [hmir, Compose.mirror_rxPrefixSize]
  have hme : ab.rx.isForMe (wireSf ca aa d0) = true := by rw [hmir]; exact wireSf_accepted ca aa p d0 hseg hwA
  refine ⟨by rw [hw]; exact hme, ?_⟩
  unfold bpSF
  rw [hw]
  rw [arrived_mkB cb ab y _ rest (Or.inl ht)]
  have hd : decode (wireSf ca aa d0).data
      (mkB cb ab { y with inbox := rest, log := .rx y.now (wireSf ca aa d0) :: y.log }).addr.rx.rxPrefixSize =
      some ⟨.sf p.length p esc, cdl, rdl⟩ := by
    show decode d0 ab.rx.rxPrefixSize = _
    rw [hpre]; exact hdec
  rw [Rx.processRx_sf_idle_eq _ _ p.length p esc cdl rdl hd h8 hst]
  have : (mkB cb ab { y with inbox := rest, log := .rx y.now (wireSf ca aa d0) :: y.log }).pendingFc = false := hp
  rw [this]
  simp only [mkB, Timer.stop, ht, hp]

/-- the receiver's view of a segmented queued message -/
theorem rxSetting_of (hva : ca.valid = true) (hwA : aa.tx.txWf = true) (hmir : ab.rx = Spec.mirror aa.tx)
    (p : Bytes) (hff : NeedsFF (TxCfg.of ca aa) p.length) (h32 : p.length < 4294967296)
    (hmax : p.length ≤ cb.maxFrameSize) : RxSetting ca cb aa ab p := ⟨hva, hwA, hmir, hff, h32, hmax⟩

/-- the receive loop over the frames of the chain -/
theorem rxLoop_chainB (hva : ca.valid = true) (hwA : aa.tx.txWf = true) (hmir : ab.rx = Spec.mirror aa.tx) :
    ∀ (l : List Msg) (del : List Bytes) (y : BP) (st : Stats), IdleB del y → MsgOkB cb l →
    ∃ st', rxLoop true (mkB cb ab y) st (chainMsgs ca aa l) = (mkB cb ab (chainB ca aa l y), st', false) := by
  intro l
  induction l with
  | nil =>
    intro del y st hI _
    exact ⟨st, rxLoop_nil_mkB cb ab y st (Or.inl hI.timer)⟩
  | cons m rest ih =>
    intro del y st hI hok
    obtain ⟨hm1, hm32, hmmax⟩ := hok m (List.mem_cons_self ..)
    by_cases hff : NeedsFF (TxCfg.of ca aa) m.2.length
    · have e1 : chainMsgs ca aa (m :: rest) = [(0, wireA ca aa m.2 0)] := by simp [chainMsgs, hff]
      have e2 : chainB ca aa (m :: rest) y = bpFF ca aa m.2 y := by simp [chainB, hff]
      rw [e1, e2]
      have hs := rxSetting_of ca cb aa ab hva hwA hmir m.2 hff hm32 hmmax
      have hprx : (arrived (mkB cb ab y) 0 (wireA ca aa m.2 0) []).processRx (wireA ca aa m.2 0) =
          (mkB cb ab (bpFF ca aa m.2 y), true, false) := by
        rw [arrived_mkB cb ab y _ [] (Or.inl hI.timer),
          processRx_ff ca cb aa ab m.2 hs { y with inbox := [], log := .rx y.now (wireA ca aa m.2 0) :: y.log } hI.st]
        rfl
      exact rxLoop_cons_imm _ st 0 _ [] _ _ (hs.forMe ca cb aa ab m.2 0) hprx
    · have e1 : chainMsgs ca aa (m :: rest) = (0, sfWire ca aa m.2) :: chainMsgs ca aa rest := by simp [chainMsgs, hff]
      have e2 : chainB ca aa (m :: rest) y = chainB ca aa rest (bpSF ca aa m.2 (chainMsgs ca aa rest) y) := by
        simp [chainB, hff]
      rw [e1, e2]
      obtain ⟨hme, hprx⟩ := processRx_sfQ ca cb aa ab hva hwA hmir m.2 hm1 hff y (chainMsgs ca aa rest) hI.st hI.pend hI.timer
      obtain ⟨st2, h2⟩ := rxLoop_cons_next (mkB cb ab y) st 0 _ (chainMsgs ca aa rest) _ _ hme hprx rfl
      have hI' : IdleB (del ++ [m.2]) (bpSF ca aa m.2 (chainMsgs ca aa rest) y) :=
        ⟨hI.st, rfl, by show y.rxQueue ++ [m.2] = _; rw [hI.queue], rfl⟩
      obtain ⟨st3, h3⟩ := ih _ _ st2 hI' hok.tail
      exact ⟨st3, by rw [h2, h3]⟩

/-- the receiver at the end of the pass in which the chain over `l` arrived (`del` delivered before; `base`: frames
    sent before in that pass; `t`: the time of the pass) -/
def ChainPostB (fcm : CanMsg) (t : Nat) (base : List CanMsg) : List Bytes → List Msg → BP → Prop
  | del, [], y => IdleB del y ∧ txsOf y.log = base
  | del, m :: rest, y =>
    if NeedsFF (TxCfg.of ca aa) m.2.length then SessAtQ ca aa del m.2 y 0 t ∧ txsOf y.log = base ++ [fcm]
    else ChainPostB fcm t base (del ++ [m.2]) rest y

/-- the rest of the pass after the receive loop went through the chain: a ContinueToSend goes out if the chain ended
    with a First Frame; then a quiet iteration -/
theorem passB_chainTail (hva : ca.valid = true) (hl : cb.listen = false) (h0 : cb.tCf ≠ 0) (fcm : CanMsg)
    (hm : makeFlowControl cb ab 0 = some fcm) (F : Nat) (s : State)
    (hsw : (!s.txQueue.isEmpty && decide (s.rxState = .idle) && decide (s.txState = .idle)) = false) :
    ∀ (l : List Msg) (del : List Bytes) (y0 : BP) (st : Stats), IdleB del y0 → MsgOkB cb l →
    (∀ st, ∃ st', rxLoop true s st s.inbox = (mkB cb ab (chainB ca aa l y0), st', false)) →
    ∃ st' y', processLoop (F + 1 + 1) true true s st = (mkB cb ab y', st', false) ∧
      ChainPostB ca aa fcm y0.now (txsOf y0.log) del l y' ∧ y'.now = y0.now ∧ y'.inbox = [] ∧
      (NoErr y0.log → NoErr y'.log) := by
  intro l
  induction l with
  | nil =>
    intro del y0 st hI _ hrx
    obtain ⟨st', h⟩ := processLoop_iter (F + 1) s st _
      (mkB cb ab (chainB ca aa [] y0)) false false hsw hrx
      (fun n => ⟨n, by
        rw [rlUpd_mkB, txFuel_eq]
        exact txLoop_none _ _ _ _ (processTx_idle_mkB cb ab _ hI.pend) rfl⟩) rfl
    refine ⟨st', chainB ca aa [] y0, by rw [h]; simp, ⟨⟨hI.st, hI.pend, hI.queue, hI.timer⟩, ?_⟩, rfl, rfl, ?_⟩
    · simp [chainB]
    · intro hne; exact NoErr_cons hne (by intro t e h; cases h)
  | cons m rest ih =>
    intro del y0 st hI hok hrx
    obtain ⟨hm1, hm32, hmmax⟩ := hok m (List.mem_cons_self ..)
    by_cases hff : NeedsFF (TxCfg.of ca aa) m.2.length
    · have e2 : chainB ca aa (m :: rest) y0 = bpFF ca aa m.2 y0 := by simp [chainB, hff]
      rw [e2] at hrx
      obtain ⟨st', h⟩ := fcTailB cb ab hl h0 fcm hm F st s (bpFF ca aa m.2 y0) hrx hsw rfl rfl rfl
      refine ⟨st', _, h, ?_, rfl, rfl, ?_⟩
      · simp only [ChainPostB, hff, if_true]
        refine ⟨⟨⟨rfl, rfl, rfl, carried_one_lt _ _ (valid_of ca aa hva) hff, rfl, rfl, rfl⟩, rfl, hI.queue, rfl⟩, ?_⟩
        simp [bpFF]
      · intro hne
        exact NoErr_cons (NoErr_cons (NoErr_cons hne (by intro t x h; cases h)) (by intro t x h; cases h))
          (by intro t x h; cases h)
    · have e2 : chainB ca aa (m :: rest) y0 = chainB ca aa rest (bpSF ca aa m.2 (chainMsgs ca aa rest) y0) := by
        simp [chainB, hff]
      rw [e2] at hrx
      have hI' : IdleB (del ++ [m.2]) (bpSF ca aa m.2 (chainMsgs ca aa rest) y0) :=
        ⟨hI.st, rfl, by show y0.rxQueue ++ [m.2] = _; rw [hI.queue], rfl⟩
      obtain ⟨st', y', i1, i2, i3, i4, i5⟩ := ih _ _ st hI' hok.tail hrx
      refine ⟨st', y', i1, ?_, i3, i4, ?_⟩
      · simp only [ChainPostB, hff, if_false]
        have : txsOf (bpSF ca aa m.2 (chainMsgs ca aa rest) y0).log = txsOf y0.log := by simp [bpSF]
        rw [this] at i2
        exact i2
      · intro hne
        exact i5 (NoErr_cons (NoErr_cons hne (by intro t x h; cases h)) (by intro t x h; cases h))

/-- the pass of the idle receiver in which the chain over `l` arrives -/
theorem passB_startQ (hva : ca.valid = true) (hwA : aa.tx.txWf = true) (hmir : ab.rx = Spec.mirror aa.tx)
    (hl : cb.listen = false) (h0 : cb.tCf ≠ 0) (fcm : CanMsg) (hm : makeFlowControl cb ab 0 = some fcm)
    (l : List Msg) (del : List Bytes) (y : BP) (hI : IdleB del y) (hok : MsgOkB cb l)
    (hib : y.inbox = chainMsgs ca aa l) (hlog : y.log = []) :
    ∃ y', ((mkB cb ab y).process true true).1 = mkB cb ab y' ∧ ChainPostB ca aa fcm y.now [] del l y' ∧
      y'.now = y.now ∧ y'.inbox = [] ∧ NoErr y'.log := by
  have hrx : ∀ st, ∃ st', rxLoop true (mkB cb ab y) st (mkB cb ab y).inbox =
      (mkB cb ab (chainB ca aa l y), st', false) := by
    intro st
    have : (mkB cb ab y).inbox = chainMsgs ca aa l := hib
    rw [this]
    exact rxLoop_chainB ca cb aa ab hva hwA hmir l del y st hI hok
  unfold State.process
  rw [processFuel_eq]
  obtain ⟨st', y', h1, h2, h3, h4, h5⟩ := passB_chainTail ca cb aa ab hva hl h0 fcm hm
    (2 * ((mkB cb ab y).inbox.length + (mkB cb ab y).txQueue.length) + 6) (mkB cb ab y) (sw_false_mkB cb ab y)
    l del y {} hI hok hrx
  rw [hlog] at h2 h5
  exact ⟨y', by rw [h1], h2, h3, h4, h5 NoErr_nil⟩

end chainB


/-! ## passes inside a session, `del` already delivered -/

section passB
variable (ca cb : Cfg) (aa ab : Addr) (p : Bytes)

/-- a pass that receives `c` plain Consecutive Frames, the last frame of the message and then the chain over `rest`:
    `p` and the Single Frame payloads are delivered, a new session is opened if a First Frame came last -/
theorem passB_finalQ (hs : RxSetting ca cb aa ab p) (hl : cb.listen = false) (h0 : cb.tCf ≠ 0) (fcm : CanMsg)
    (hm : makeFlowControl cb ab 0 = some fcm) (rest : List Msg) (hok : MsgOkB cb rest) (del : List Bytes)
    (y : BP) (i c t0 : Nat)
    (hy : SessAtQ ca aa del p y i t0) (ht : y.now ≤ t0 + cb.tCf) (hlog : y.log = [])
    (hib : y.inbox = cfMsgs ca aa p (i + 1) (c + 1) ++ chainMsgs ca aa rest) (hpl : PlainRun ca cb aa p i c)
    (hlast : carried (TxCfg.of ca aa) p.length (i + c + 2) = p.length) :
    ∃ y', ((mkB cb ab y).process true true).1 = mkB cb ab y' ∧
      ChainPostB ca aa fcm y.now [] (del ++ [p]) rest y' ∧ y'.now = y.now ∧ y'.inbox = [] ∧ NoErr y'.log := by
  obtain ⟨hy1, hp1, ht1, hn1, hq1, _, evs, hl1, he1, he2⟩ :=
    runPlain_spec ca cb aa p h0 c y i ((0, wireA ca aa p (i + 1 + c)) :: chainMsgs ca aa rest) hy.sess hy.pend
      (Or.inr ⟨t0, hy.timer, ht, h0⟩) hpl
  have hrun : ∀ st, ∃ st', rxLoop true (mkB cb ab y) st (mkB cb ab y).inbox =
      rxLoop true (mkB cb ab (runPlain ca aa p c y i ((0, wireA ca aa p (i + 1 + c)) :: chainMsgs ca aa rest))) st'
        ((0, wireA ca aa p (i + 1 + c)) :: chainMsgs ca aa rest) := by
    intro st
    have : (mkB cb ab y).inbox =
        cfMsgs ca aa p (i + 1) c ++ ((0, wireA ca aa p (i + 1 + c)) :: chainMsgs ca aa rest) := by
      show y.inbox = _
      rw [hib, cfMsgs_snoc, List.append_assoc]; rfl
    rw [this]
    exact rxLoop_plains ca cb aa ab p hs h0 c y i st _ hy.sess hy.pend (Or.inr ⟨t0, hy.timer, ht, h0⟩) hpl
  generalize runPlain ca aa p c y i ((0, wireA ca aa p (i + 1 + c)) :: chainMsgs ca aa rest) = y1 at *
  have hic : i + 1 + c = i + c + 1 := by omega
  rw [hic] at hrun
  let y2 : BP := { y1 with
    inbox := chainMsgs ca aa rest, log := .deliver p :: .rx y1.now (wireA ca aa p (i + c + 1)) :: y1.log,
    lastSeq := (i + c + 1) % 16, actualRxdl := none, rxState := .idle, rxBuf := [],
    pendingFc := false, timerCf := none, rxQueue := y1.rxQueue ++ [p] }
  have hy1' : SessB ca aa p
      { y1 with inbox := chainMsgs ca aa rest, log := .rx y1.now (wireA ca aa p (i + c + 1)) :: y1.log } (i + c) :=
    hy1.congr ca aa p rfl rfl rfl rfl rfl rfl
  have hprx : (arrived (mkB cb ab y1) 0 (wireA ca aa p (i + c + 1)) (chainMsgs ca aa rest)).processRx
      (wireA ca aa p (i + c + 1)) = (mkB cb ab y2, false, true) := by
    rw [arrived_mkB cb ab y1 _ _ ht1, processRx_last ca cb aa ab p hs _ (i + c) hy1' hlast]
  have hI2 : IdleB (del ++ [p]) y2 := ⟨rfl, rfl, by show y1.rxQueue ++ [p] = _; rw [hq1, hy.queue], rfl⟩
  have hrx : ∀ st, ∃ st', rxLoop true (mkB cb ab y) st (mkB cb ab y).inbox =
      (mkB cb ab (chainB ca aa rest y2), st', false) := by
    intro st
    obtain ⟨st1, h1⟩ := hrun st
    rw [h1]
    obtain ⟨st2, h2⟩ := rxLoop_cons_next (mkB cb ab y1) st1 0 _ (chainMsgs ca aa rest) _ _ (hs.forMe ca cb aa ab p _) hprx rfl
    rw [h2]
    exact rxLoop_chainB ca cb aa ab hs.va hs.wfA hs.mirror rest _ y2 st2 hI2 hok
  unfold State.process
  rw [processFuel_eq]
  obtain ⟨st', y', h1, h2, h3, h4, h5⟩ := passB_chainTail ca cb aa ab hs.va hl h0 fcm hm
    (2 * ((mkB cb ab y).inbox.length + (mkB cb ab y).txQueue.length) + 6) (mkB cb ab y) (sw_false_mkB cb ab y)
    rest (del ++ [p]) y2 {} hI2 hok hrx
  have hlog2 : txsOf y2.log = [] := by
    show txsOf (.deliver p :: .rx y1.now _ :: y1.log) = []
    rw [hl1, hlog]; simp [he1]
  have hne2 : NoErr y2.log := by
    show NoErr (.deliver p :: .rx y1.now _ :: y1.log)
    rw [hl1, hlog, List.append_nil]
    exact NoErr_cons (NoErr_cons he2 (by intro t x h; cases h)) (by intro t x h; cases h)
  rw [hlog2] at h2
  have hn2 : y2.now = y.now := hn1
  rw [hn2] at h2 h3
  exact ⟨y', by rw [h1], h2, h3, h4, h5 hne2⟩

/-- a pass that receives `c` plain Consecutive Frames and then the frame that completes a block: the next
    ContinueToSend goes out -/
theorem passB_boundaryQ (hs : RxSetting ca cb aa ab p) (hl : cb.listen = false) (h0 : cb.tCf ≠ 0) (fcm : CanMsg)
    (hm : makeFlowControl cb ab 0 = some fcm) (del : List Bytes) (y : BP) (i c t0 : Nat)
    (hy : SessAtQ ca aa del p y i t0) (ht : y.now ≤ t0 + cb.tCf) (hlog : y.log = [])
    (hib : y.inbox = cfMsgs ca aa p (i + 1) (c + 1)) (hpl : PlainRun ca cb aa p i c)
    (hmore : carried (TxCfg.of ca aa) p.length (i + c + 2) < p.length)
    (hb : 0 < cb.blocksize ∧ (i + c + 1) % cb.blocksize = 0) :
    ∃ y', ((mkB cb ab y).process true true).1 = mkB cb ab y' ∧ SessAtQ ca aa del p y' (i + c + 1) y.now ∧
      y'.now = y.now ∧ y'.inbox = [] ∧ txsOf y'.log = [fcm] ∧ NoErr y'.log := by
  obtain ⟨hy1, hp1, ht1, hn1, hq1, _, evs, hl1, he1, he2⟩ :=
    runPlain_spec ca cb aa p h0 c y i [(0, wireA ca aa p (i + 1 + c))] hy.sess hy.pend
      (Or.inr ⟨t0, hy.timer, ht, h0⟩) hpl
  have hrun : ∀ st, ∃ st', rxLoop true (mkB cb ab y) st (mkB cb ab y).inbox =
      rxLoop true (mkB cb ab (runPlain ca aa p c y i [(0, wireA ca aa p (i + 1 + c))])) st'
        [(0, wireA ca aa p (i + 1 + c))] := by
    intro st
    have : (mkB cb ab y).inbox = cfMsgs ca aa p (i + 1) c ++ [(0, wireA ca aa p (i + 1 + c))] := by
      show y.inbox = _
      rw [hib, cfMsgs_snoc]
    rw [this]
    exact rxLoop_plains ca cb aa ab p hs h0 c y i st _ hy.sess hy.pend (Or.inr ⟨t0, hy.timer, ht, h0⟩) hpl
  generalize runPlain ca aa p c y i [(0, wireA ca aa p (i + 1 + c))] = y1 at *
  have hic : i + 1 + c = i + c + 1 := by omega
  rw [hic] at hrun
  let y2 : BP := { y1 with
    inbox := [], log := .rx y1.now (wireA ca aa p (i + c + 1)) :: y1.log,
    lastSeq := (i + c + 1) % 16, rxBuf := p.take (carried (TxCfg.of ca aa) p.length (i + c + 2)),
    rxBlockCnt := i + c + 1, pendingFc := true, pendingFcStatus := some 0, timerCf := none }
  have hy1' : SessB ca aa p { y1 with inbox := [], log := .rx y1.now (wireA ca aa p (i + c + 1)) :: y1.log } (i + c) :=
    hy1.congr ca aa p rfl rfl rfl rfl rfl rfl
  have hprx : (arrived (mkB cb ab y1) 0 (wireA ca aa p (i + c + 1)) []).processRx (wireA ca aa p (i + c + 1)) =
      (mkB cb ab y2, true, false) := by
    rw [arrived_mkB cb ab y1 _ [] ht1, processRx_cf ca cb aa ab p hs _ (i + c) hy1' hmore, if_pos hb]
  have hrx : ∀ st, ∃ st', rxLoop true (mkB cb ab y) st (mkB cb ab y).inbox = (mkB cb ab y2, st', false) := by
    intro st
    obtain ⟨st1, h1⟩ := hrun st
    rw [h1]
    exact rxLoop_cons_imm (mkB cb ab y1) st1 0 _ [] _ _ (hs.forMe ca cb aa ab p _) hprx
  unfold State.process
  rw [processFuel_eq]
  obtain ⟨st', h⟩ := fcTailB cb ab hl h0 fcm hm _ {} (mkB cb ab y) y2 hrx (sw_false_mkB cb ab y) rfl rfl rfl
  rw [h]
  refine ⟨_, rfl, ⟨⟨hy1.st, hy1.fl, rfl, hmore, rfl, rfl, hy1.rxdl⟩, rfl, ?_, ?_⟩, hn1, rfl, ?_, ?_⟩
  · show y1.rxQueue = del
    rw [hq1, hy.queue]
  · show some y1.now = some y.now
    rw [hn1]
  · show txsOf (.rxNone y1.now :: .tx y1.now fcm :: .rx y1.now _ :: y1.log) = [fcm]
    rw [hl1, hlog]; simp [he1]
  · show NoErr (.rxNone y1.now :: .tx y1.now fcm :: .rx y1.now _ :: y1.log)
    rw [hl1, hlog, List.append_nil]
    exact NoErr_cons (NoErr_cons (NoErr_cons he2 (by intro t x h; cases h)) (by intro t x h; cases h))
      (by intro t x h; cases h)

/-- a pass that receives `c + 1` plain Consecutive Frames: the session advances, nothing is sent -/
theorem passB_plainQ (hs : RxSetting ca cb aa ab p) (h0 : cb.tCf ≠ 0) (del : List Bytes) (y : BP) (i c t0 : Nat)
    (hy : SessAtQ ca aa del p y i t0) (ht : y.now ≤ t0 + cb.tCf) (hlog : y.log = [])
    (hib : y.inbox = cfMsgs ca aa p (i + 1) (c + 1)) (hpl : PlainRun ca cb aa p i c)
    (hmore : carried (TxCfg.of ca aa) p.length (i + c + 2) < p.length)
    (hb : ¬ (0 < cb.blocksize ∧ (i + c + 1) % cb.blocksize = 0)) :
    ∃ y', ((mkB cb ab y).process true true).1 = mkB cb ab y' ∧ SessAtQ ca aa del p y' (i + c + 1) y.now ∧
      y'.now = y.now ∧ y'.inbox = [] ∧ txsOf y'.log = [] ∧ NoErr y'.log := by
  obtain ⟨hy1, hp1, ht1, hn1, hq1, _, evs, hl1, he1, he2⟩ :=
    runPlain_spec ca cb aa p h0 c y i [(0, wireA ca aa p (i + 1 + c))] hy.sess hy.pend
      (Or.inr ⟨t0, hy.timer, ht, h0⟩) hpl
  have hrun : ∀ st, ∃ st', rxLoop true (mkB cb ab y) st (mkB cb ab y).inbox =
      rxLoop true (mkB cb ab (runPlain ca aa p c y i [(0, wireA ca aa p (i + 1 + c))])) st'
        [(0, wireA ca aa p (i + 1 + c))] := by
    intro st
    have : (mkB cb ab y).inbox = cfMsgs ca aa p (i + 1) c ++ [(0, wireA ca aa p (i + 1 + c))] := by
      show y.inbox = _
      rw [hib, cfMsgs_snoc]
    rw [this]
    exact rxLoop_plains ca cb aa ab p hs h0 c y i st _ hy.sess hy.pend (Or.inr ⟨t0, hy.timer, ht, h0⟩) hpl
  generalize runPlain ca aa p c y i [(0, wireA ca aa p (i + 1 + c))] = y1 at *
  have hic : i + 1 + c = i + c + 1 := by omega
  rw [hic] at hrun
  let y2 : BP := stepPlain ca aa p y1 (i + c) []
  have ht2 : TimerOk cb y2 := Or.inr ⟨y1.now, rfl, Nat.le_add_right _ _, h0⟩
  have hrx : ∀ st, ∃ st', rxLoop true (mkB cb ab y) st (mkB cb ab y).inbox =
      (mkB cb ab { y2 with inbox := [], log := .rxNone y2.now :: y2.log }, st', false) := by
    intro st
    obtain ⟨st1, h1⟩ := hrun st
    rw [h1]
    obtain ⟨st2, h2⟩ := rxLoop_plain ca cb aa ab p hs y1 (i + c) st1 [] hy1 hp1 ht1 hmore hb
    rw [h2, rxLoop_nil_mkB cb ab y2 st2 ht2]
    exact ⟨st2, rfl⟩
  unfold State.process
  rw [processFuel_eq]
  obtain ⟨st', h⟩ := processLoop_iter _ (mkB cb ab y) {} _
    (mkB cb ab { y2 with inbox := [], log := .rxNone y2.now :: y2.log }) false false (sw_false_mkB cb ab y) hrx
    (fun n => ⟨n, by
      rw [rlUpd_mkB, txFuel_eq]
      exact txLoop_none _ _ _ _ (processTx_idle_mkB cb ab _ hp1) rfl⟩) rfl
  rw [h]
  refine ⟨_, rfl, ⟨⟨hy1.st, hy1.fl, rfl, hmore, rfl, rfl, hy1.rxdl⟩, hp1, ?_, ?_⟩, hn1, rfl, ?_, ?_⟩
  · show y1.rxQueue = del
    rw [hq1, hy.queue]
  · show some y1.now = some y.now
    rw [hn1]
  · show txsOf (.rxNone y1.now :: .rx y1.now _ :: y1.log) = []
    rw [hl1, hlog]; simp [he1]
  · show NoErr (.rxNone y1.now :: .rx y1.now _ :: y1.log)
    rw [hl1, hlog, List.append_nil]
    exact NoErr_cons (NoErr_cons he2 (by intro t x h; cases h)) (by intro t x h; cases h)

end passB

end Isotp.LockstepQ
