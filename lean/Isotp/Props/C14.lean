import Isotp.Proofs.Threaded
/-
  C14 — start/stop lifecycle of the threaded `TransportLayer` is clean, bounded and restartable.

  Model: `Isotp/Threaded.lean` (`TL`, one atomic step per public method call and per iteration of an
  internal thread).  A sequence of calls made by any number of user threads, interleaved with the two
  internal threads and with frames arriving on the bus, is a `List TL.Step` (`Proofs/Threaded.lean`).

  Real-time reading: `stop()` is one atomic step of the model under the named assumption `H-join`
  (a thread that has been asked to stop is observed dead within the `join` timeout).  `stop_is_join` and
  `threads_exit` justify that contract inside the model: once `stop_requested` is set each internal thread
  makes at most one more step, and `stop` is exactly "request; let the threads make that step; finalise".
-/
namespace Isotp.C14
open Isotp TL

/-! ### reference: the documented exceptions -/

/-- What the documentation allows a call to raise in state `t` (`none` = returns normally).
    * `start()`  : `RuntimeError` iff already started;
    * `reset()`, `process()` : `RuntimeError` iff started; a `process()` on a stopped layer is the plain
      `TransportLayerLogic.process` on the frames the user `rxfn` returns (whatever that call does);
    * `send()`   : `ValueError` (bad arguments), or `BlockingSendTimeout` with `blocking_send` only;
    * `stop()`, `recv()`, `stop_sending()`, `stop_receiving()` and the internal threads: never. -/
def Documented (t : TL) : Step → Option PyExc → Prop
  | .start, e => e = if t.started then some .RuntimeError else none
  | .reset, e => e = if t.started then some .RuntimeError else none
  | .process rx tx, e =>
      if t.started then e = some .RuntimeError
      else e = ((feed t.core t.bus).process rx tx).1.exc
  | .send _, e => e = none ∨ e = some .ValueError ∨ (e = some .BlockingSendTimeout ∧ t.core.cfg.blocking = true)
  | _, e => e = none

/-- **C14.1** Only the documented exceptions occur, in every state at all (in particular in every state
    reachable by any sequence of calls and any scheduling). -/
theorem exceptions_documented_any (t : TL) (s : Step) : Documented t s (t.step s).2 := by
  cases s
  case start => simp only [Documented, step, start]; split <;> rfl
  case stop => rfl
  case send a =>
    simp only [Documented, step, send_exc]
    by_cases hb : t.core.sendBad a = true
    · simp [hb]
    · by_cases hc : t.core.cfg.blocking = true <;> simp [hb, hc]
  case recv => rfl
  case process rx tx =>
    simp only [Documented, step, TL.process]
    split <;> rfl
  case reset => simp only [Documented, step, TL.reset]; split <;> rfl
  case stopSending =>
    simp only [Documented, step, stopSending]
    split
    · split <;> rfl
    · rfl
  case stopReceiving =>
    simp only [Documented, step, stopReceiving]
    split
    · split <;> rfl
    · rfl
  case relayStep => rfl
  case workerStep => rfl
  case busPut m => rfl

theorem exceptions_documented (c : Cfg) (a : Addr) (sched : List Step) (s : Step) :
    Documented ((TL.init c a).run sched) s (((TL.init c a).run sched).step s).2 :=
  exceptions_documented_any _ s

/-- `stop()` never raises: not on a layer that was never started (the `AttributeError` defect D3), not in
    the middle of a transfer, not when called twice. -/
theorem stop_never_raises (t : TL) : t.stop.2 = none := rfl

/-- a second `start()` raises `RuntimeError` and changes nothing -/
theorem start_twice (t : TL) : t.start.1.start = (t.start.1, some .RuntimeError) := TL.start_twice t

/-- `process()` / `reset()` on a started layer raise `RuntimeError` and change nothing -/
theorem guarded_while_started (t : TL) (h : t.started = true) (rx tx : Bool) :
    t.process rx tx = (t, some .RuntimeError) ∧ t.reset = (t, some .RuntimeError) := by
  simp [TL.process, TL.reset, h]

/-- In every reachable state the thread handles, the `started` flag and the installed `rxfn` agree and
    `stop_requested` is not left set. -/
theorem reachable_consistent (c : Cfg) (a : Addr) (sched : List Step) : ((TL.init c a).run sched).Wf :=
  run_wf _ _ (init_wf c a)

/-! ### `stop()` -/

/-- **C14.2** After `stop()` — from ANY state: never started, started, stopped twice, mid-transfer — the
    layer is not started, has no thread objects, an empty relay queue, both FSMs idle, empty tx and rx
    queues, no request in transmission, all events cleared and no unread input. -/
theorem stop_clean (t : TL) : t.stop.1.clean = true := TL.stop_clean t

/-- all FSM fields of the logic layer are back to their constructor values -/
theorem stop_fresh (t : TL) : t.stop.1.core.Fresh := stop_core_fresh t

/-- every request that was queued or in transmission is completed with `success = False`
    (so a blocked `send()` caller wakes up) -/
theorem stop_completes_requests (t : TL) (r : Req) (h : r ∈ t.core.txQueue ∨ t.core.active = some r) :
    Ev.done r.id false ∈ t.stop.1.core.log := TL.stop_completes_requests t r h

/-- …each exactly once, and nothing else is added to the history -/
theorem stop_log (t : TL) : t.stop.1.core.log = t.core.resetEvents ++ t.core.log := TL.stop_log t

/-- `stop()` is: set `stop_requested` and wake the worker; the two internal threads make their exit
    step (in either order); clear the events, reset, drain the relay queue. -/
theorem stop_is_join (t : TL) :
    t.stop.1 = stopEnd (workerStep (relayStep (stopBegin t))) ∧
    t.stop.1 = stopEnd (relayStep (workerStep (stopBegin t))) := stop_eq_join t

/-- **C14.4** Once `stop_requested` is set each thread makes at most one more effective step:
    the relay thread goes `running → finished`, the worker runs its `finally: reset()`; afterwards (and
    when the thread does not exist) the steps are the identity. -/
theorem threads_exit (t : TL) (h : t.ev.stopRequested = true) :
    (t.relayThread = .running → t.relayStep = { t with relayThread := .finished }) ∧
    (t.relayThread ≠ .running → t.relayStep = t) ∧
    t.relayStep.relayStep = t.relayStep ∧
    (t.mainThread = .running → t.workerStep = t.workerExit ∧ t.workerStep.mainThread = .finished) ∧
    (t.mainThread ≠ .running → t.workerStep = t) ∧
    t.workerStep.workerStep = t.workerStep :=
  ⟨relayStep_stopRequested t h, relayStep_of_not_running t, relayStep_idem t h,
   fun hr => ⟨workerStep_stopRequested t h hr, by rw [workerStep_stopRequested t h hr]; rfl⟩,
   workerStep_of_not_running t, workerStep_idem t h⟩

/-- bounded exit under any scheduling of the two threads: after the stop request no thread that has been
    scheduled once is alive, however the iterations interleave -/
theorem threads_dead_after_request (t : TL) (sched : List Step) (hs : ∀ s ∈ sched, s.isThread = true)
    (hw : Step.workerStep ∈ sched) (hr : Step.relayStep ∈ sched) :
    ((stopBegin t).run sched).mainThread ≠ .running ∧ ((stopBegin t).run sched).relayThread ≠ .running := by
  have := threads_dead_after (stopBegin t) sched hs rfl
  exact ⟨this.1 hw, this.2.1 hr⟩

/-! ### restart -/

/-- **C14.3** A stopped layer starts again: no exception, both threads running, `started`, the relay
    `rxfn` installed, only the two `ready` events set, empty relay queue, and a logic layer with every
    FSM field at its constructor value — the state `start()` gives on a freshly constructed layer. -/
theorem restartable (t : TL) :
    t.stop.1.start.2 = none ∧ t.stop.1.start.1.Started ∧ t.stop.1.start.1.core.Fresh ∧
    t.stop.1.start.1.relayQ = [] := restart_ok t

/-- the same facts for a freshly constructed layer -/
theorem fresh_start (c : Cfg) (a : Addr) :
    (TL.init c a).start.2 = none ∧ (TL.init c a).start.1.Started ∧ (TL.init c a).start.1.core.Fresh ∧
    (TL.init c a).start.1.relayQ = [] := by
  have h := start_ok (TL.init c a) rfl
  exact ⟨h.1, h.2.1, by rw [h.2.2.1]; exact State.init_fresh c a, by rw [h.2.2.2.1]; rfl⟩

/-- a restarted layer IS a freshly constructed and started one, except for the logic layer (which is
    `Fresh`; it keeps its clock, history and configuration) and for what is on the bus -/
theorem restart_eq_fresh_start (t : TL) (c : Cfg) (a : Addr) :
    t.stop.1.start.1 = { (TL.init c a).start.1 with core := t.stop.1.core, bus := t.bus } :=
  TL.restart_eq_fresh_start t c a

/-- stop – start – stop is clean again -/
theorem stop_start_stop_clean (t : TL) : t.stop.1.start.1.stop.1.clean = true := TL.stop_clean _

/-- `stop()` twice is harmless -/
theorem stop_stop_clean (t : TL) : t.stop.1.stop.1.clean = true ∧ t.stop.1.stop.2 = none :=
  ⟨TL.stop_clean _, rfl⟩

/-- after ANY sequence of calls under ANY scheduling, `stop()` returns normally and leaves a clean layer
    that can be started -/
theorem stop_after_anything (c : Cfg) (a : Addr) (sched : List Step) :
    let t := (TL.init c a).run (sched ++ [.stop])
    t.clean = true ∧ (t.step .start).2 = none ∧ (t.step .start).1.Started := by
  simp only [run_snoc, step]
  exact ⟨TL.stop_clean _, (restart_ok _).1, (restart_ok _).2.1⟩

/-! ### non-vacuity: concrete layers -/

def h11 : Half := { mode := .n11, txid := some 0x123, rxid := some 0x456, ta := none, sa := none, ae := none,
                    physId := 0, funcId := 0, rxOnly := false, txOnly := false }
def addr : Addr := { tx := h11, rx := h11 }
def cfg : Cfg := {}
/-- Single Frame carrying `01 02 03` addressed to the layer -/
def sf : CanMsg := { id := 0x456, ext := false, data := [3, 1, 2, 3] }
/-- First Frame announcing 20 bytes -/
def ff : CanMsg := { id := 0x456, ext := false, data := [0x10, 20, 1, 2, 3, 4, 5, 6] }
def args (n : Nat) : State.SendArgs := { id := n, size := 3, src := [7, 8, 9] }
def longArgs (n : Nat) : State.SendArgs := { id := n, size := 30, src := List.replicate 30 5 }

/-- a layer stopped in the middle of a reception, with a multi-frame transmission waiting for flow
    control and a second request queued: hypotheses of `stop_completes_requests` hold for both -/
def midTransfer : TL :=
  (TL.init cfg addr).run [.start, .send (longArgs 1), .workerStep, .send (args 2), .busPut ff, .relayStep, .workerStep, .workerStep]

example : midTransfer.core.rxState = .waitCf ∧ midTransfer.core.txState = .waitFc ∧
    (midTransfer.core.active.map (·.id)) = some 1 ∧ midTransfer.core.txQueue.map (·.id) = [2] ∧
    midTransfer.clean = false := by decide +kernel

example : (midTransfer.step .stop).2 = none ∧ (midTransfer.step .stop).1.clean = true ∧
    Ev.done 1 false ∈ (midTransfer.step .stop).1.core.log ∧
    Ev.done 2 false ∈ (midTransfer.step .stop).1.core.log := by decide +kernel

/-- never started: `stop()` is fine, and so is the layer afterwards -/
example : ((TL.init cfg addr).step .stop).2 = none ∧ ((TL.init cfg addr).step .stop).1.clean = true := by
  decide +kernel

/-- the documented exceptions do occur -/
example : (((TL.init cfg addr).run [.start]).step .start).2 = some .RuntimeError ∧
    (((TL.init cfg addr).run [.start]).step (.process true true)).2 = some .RuntimeError ∧
    (((TL.init cfg addr).run [.start]).step .reset).2 = some .RuntimeError ∧
    (((TL.init cfg addr).run [.start]).step (.send { id := 1, size := -1, src := [] })).2 = some .ValueError ∧
    (((TL.init { cfg with blocking := true } addr).run [.start]).step (.send (args 1))).2 = some .BlockingSendTimeout ∧
    (((TL.init cfg addr).run [.start, .stop]).step (.process true true)).2 = none := by decide +kernel

/-- a stopped-in-mid-transfer layer, started again, receives and transmits normally -/
example :
    let t := midTransfer.run [.stop, .start, .busPut sf, .relayStep, .workerStep, .send (args 3), .workerStep]
    t.recv.2 = some [1, 2, 3] ∧
    Ev.done 3 true ∈ t.core.log ∧
    (t.core.log.filterMap fun | .tx _ m => some m.data | _ => none).head? = some [3, 7, 8, 9] := by
  decide +kernel

/-- hypotheses of `threads_exit` / `threads_dead_after_request` on a concrete started layer -/
example : (stopBegin ((TL.init cfg addr).run [.start])).ev.stopRequested = true ∧
    (stopBegin ((TL.init cfg addr).run [.start])).mainThread = .running ∧
    (stopBegin ((TL.init cfg addr).run [.start])).relayThread = .running := by decide +kernel

/-! ### unread input is dropped by `stop()`

`core.inbox` holds the frames the worker has taken out of the relay queue for a `process` pass that has not
read them yet (the rx loop of `process` stops at a frame that asks for an immediate tx pass, e.g. a Flow
Control frame).  In the Python code those frames are still in `rx_relay_queue`, which `stop()` drains.  An
earlier version of the model kept them across `stop` (found here, repaired in `Threaded.lean`: `stop` sets
`core.inbox := []` and `clean` requires it to be empty). -/

/-- after `stop()` — from any state — the logic layer has no unread input left -/
theorem stop_inbox_empty (t : TL) : t.stop.1.core.inbox = [] := TL.stop_inbox t

def fc : CanMsg := { id := 0x456, ext := false, data := [0x30, 0, 0] }

/-- the former witness (a stray Flow Control frame followed by a Single Frame; the worker's `process` pass
    stops after the Flow Control frame, the Single Frame is unread input when `stop` comes): `stop` drops it,
    and after `stop; start; workerStep` nothing stale is delivered -/
theorem stop_drops_unread_input :
    let t0 := (TL.init cfg addr).run [.start, .busPut fc, .busPut sf, .relayStep, .relayStep, .workerStep]
    let t := t0.run [.stop]
    t0.core.inbox = [(0, sf)] ∧
    t.clean = true ∧ t.core.inbox = [] ∧
    (t.run [.start, .workerStep]).core.rxQueue = [] ∧ (t.run [.start, .workerStep]).recv.2 = none ∧
    Ev.deliver [1, 2, 3] ∉ (t.run [.start, .workerStep]).core.log := by decide +kernel

end Isotp.C14

#print axioms Isotp.C14.exceptions_documented_any
#print axioms Isotp.C14.exceptions_documented
#print axioms Isotp.C14.stop_never_raises
#print axioms Isotp.C14.start_twice
#print axioms Isotp.C14.guarded_while_started
#print axioms Isotp.C14.reachable_consistent
#print axioms Isotp.C14.stop_clean
#print axioms Isotp.C14.stop_fresh
#print axioms Isotp.C14.stop_completes_requests
#print axioms Isotp.C14.stop_log
#print axioms Isotp.C14.stop_is_join
#print axioms Isotp.C14.threads_exit
#print axioms Isotp.C14.threads_dead_after_request
#print axioms Isotp.C14.restartable
#print axioms Isotp.C14.fresh_start
#print axioms Isotp.C14.restart_eq_fresh_start
#print axioms Isotp.C14.stop_start_stop_clean
#print axioms Isotp.C14.stop_stop_clean
#print axioms Isotp.C14.stop_after_anything
#print axioms Isotp.C14.stop_inbox_empty
#print axioms Isotp.C14.stop_drops_unread_input
