import Isotp.PyAgree.Exec2Bridge
import Isotp.PyAgree.EvalLemmas
import Isotp.PyAgree.MiscLemmas
import Isotp.Frame
/-!
  Source agreement for the two stateful methods of `RateLimiter` (isotp/protocol.py):

  * `RateLimiter.update`            (a `while` with `break`; SECOND, fuelled semantics `run2`)   = `Limiter.update`
  * `RateLimiter.inform_byte_sent`  (no loop; FIRST semantics `runFn`, and `run2` through the bridge) = `Limiter.inform`

  for EVERY limiter state `l`, window `w`, clock value `now` (and `datalen`).

  Presentation (DESIGN 3.1: time is a float in the source and integer nanoseconds in the model; the harness's virtual `perf_counter()` is an
  exact rational of the integer clock, so `t - t2 > window` on floats is `tNs - t2Ns > wNs` on integers):
    `time.perf_counter()`     : `Meths.fn`, returns `pint now`
    `self.window_size_sec`    ↦ `pint w`        (the window in ns)
    `self.TIME_SLOT_LENGTH`   ↦ `pint slotNs`
    `self.burst_time`         ↦ `.list` of the ints `l.slots.map (·.1)`
    `self.burst_bitcount`     ↦ `.list` of the ints `l.slots.map (·.2)`
    `self.bit_total`          ↦ `pint l.bitTotal`
    `self.enabled`            ↦ `pbool l.enabled`
  The list primitives are `Meths` (`limMeths`): `x.pop(0)`, `n_to_remove = x.pop(0)`, `x.append(v)`, `x[-1]` (`__last__`), `x[-1] += v`.
  `self.reset()` is the INTERPRETED source `Src.RateLimiter_reset` (its run is `reset_run` below = `ratelimiter_reset_run` of
  LayerTxHelpers.lean section D, which ties it to `Limiter.reset`); it needs `self.mean_bitrate` (shown as an int, as there).

  Subtractions.  The source computes over Python ints, the model over truncated `Nat`:
  * `t - t2 > window` / `t - last_time > TIME_SLOT_LENGTH`: NO hypothesis is needed.  If the clock went backwards (`t < t2`) the Python
    difference is negative, hence not `>` a non-negative window, and the model's truncated `0` is not either (`sub_gt_cast`).
  * `self.bit_total -= n_to_remove`: the two DIFFER when `bit_total < n_to_remove` (Python goes negative, the model stops at 0).
    `Limiter.WF l` (`bitTotal ≥` the sum of the slot counts) excludes it; it holds of the initial / reset limiter and is preserved by
    `update`, `inform`, `reset` (`wf_reset`, `wf_update`, `wf_inform`, `wf_default`).  `update_run` describes the run WITHOUT the hypothesis
    (integer-valued `bit_total`, `expireZ`), `update_agrees` is the agreement under `WF`, and `update_needs_WF` is a witness that the
    agreement fails without it.  `inform_byte_sent` needs no well-formedness.

  Main results (`M = limMeths now`):
  * `loop_run`                     : the `while`, by induction on the slots, fuel `≥ |slots| + 8`: drops exactly the expired slots at the front
                                     of both lists (`expireZ`), `break`s on the first slot still in the window;
  * `update_run`                   : the whole of `update`, every state, integer total, fuel `≥ |slots| + 11`;
  * `update_agrees`                : `l.WF →` the run ends in an environment that shows `l.update w now` (+ frame `updateKeys`);
  * `update_needs_WF`              : witness (`bit_total = 0`, one expired slot of count 5): source `-5`, model `0`;
  * `update_drops_expired`         : what `Limiter.update` does to the lists (prefix of expired slots, first survivor not expired);
  * `addToLast_concat`, `addToLast_getLast` : `Limiter.addToLast` through the last slot (`getLast?` / `dropLast`);
  * `inform_byte_sent_agrees` (`runFn`), `inform_byte_sent_agrees_run2` (`run2`, fuel `≥ 13`): every state, every `datalen`;
  * `wf_default`, `wf_init`, `wf_reset`, `wf_update`, `wf_inform` : `Limiter.WF` is an invariant;
  * `update_example`, `update_fuel`, `inform_example`, the `example`s of section 5: non-vacuity, concrete runs, fuel.
-/

namespace Isotp

/-- well-formed limiter: the running total covers the counts of the slots still in the window (in the implementation the two are EQUAL
    between calls; `≥` is what the agreement needs and what is preserved). -/
def Limiter.WF (l : Limiter) : Prop := (l.slots.map (·.2)).sum ≤ l.bitTotal

end Isotp

namespace Isotp.PyAgree.Lim
open Isotp Isotp.Py Isotp.PyAgree

/-! ## 0. the model side -/

/-- sum of the counts of a slot list -/
def bitSum (sl : List (Nat × Nat)) : Nat := (sl.map (·.2)).sum

theorem bitSum_nil : bitSum [] = 0 := rfl
theorem bitSum_cons (t b : Nat) (rest : List (Nat × Nat)) : bitSum ((t, b) :: rest) = b + bitSum rest := by
  simp [bitSum]
theorem bitSum_append (a c : List (Nat × Nat)) : bitSum (a ++ c) = bitSum a + bitSum c := by
  simp [bitSum]

theorem wf_iff (l : Limiter) : l.WF ↔ bitSum l.slots ≤ l.bitTotal := Iff.rfl

/-- `expire` keeps the total above the sum of what is left -/
theorem expire_wf (w now : Nat) : ∀ (sl : List (Nat × Nat)) (bt : Nat), bitSum sl ≤ bt →
    bitSum (Limiter.expire w now sl bt).1 ≤ (Limiter.expire w now sl bt).2
  | [], bt, h => by simpa [Limiter.expire] using h
  | (t, b) :: rest, bt, h => by
    rw [bitSum_cons] at h
    unfold Limiter.expire
    split
    · exact expire_wf w now rest (bt - b) (by omega)
    · simpa [bitSum_cons] using h

/-- `expire` drops a prefix -/
theorem expire_suffix (w now : Nat) : ∀ (sl : List (Nat × Nat)) (bt : Nat),
    ∃ pre, sl = pre ++ (Limiter.expire w now sl bt).1 ∧ (∀ p ∈ pre, now - p.1 > w) ∧
      (Limiter.expire w now sl bt).2 = bt - bitSum pre ∧
      (∀ p, (Limiter.expire w now sl bt).1.head? = some p → ¬ now - p.1 > w)
  | [], bt => ⟨[], by simp [Limiter.expire, bitSum_nil]⟩
  | (t, b) :: rest, bt => by
    unfold Limiter.expire
    split
    · next hexp =>
      obtain ⟨pre, h1, h2, h3, h4⟩ := expire_suffix w now rest (bt - b)
      refine ⟨(t, b) :: pre, by rw [List.cons_append, ← h1], ?_, ?_, h4⟩
      · intro p hp
        rcases List.mem_cons.1 hp with rfl | hp
        · exact hexp
        · exact h2 p hp
      · rw [h3, bitSum_cons]; omega
    · next hexp =>
      exact ⟨[], by simp, by simp, by simp [bitSum_nil], by simpa using hexp⟩

/-- `addToLast` on a non-empty list, seen from its last slot -/
theorem addToLast_concat (now bits t b : Nat) : ∀ init : List (Nat × Nat),
    Limiter.addToLast now bits (init ++ [(t, b)]) =
      if now - t > slotNs then init ++ [(t, b), (now, bits)] else init ++ [(t, b + bits)]
  | [] => by simp [Limiter.addToLast]
  | [x] => by
    have : Limiter.addToLast now bits ([x] ++ [(t, b)]) = x :: Limiter.addToLast now bits ([] ++ [(t, b)]) := by
      simp [Limiter.addToLast]
    rw [this, addToLast_concat now bits t b []]
    split <;> rfl
  | x :: y :: rest => by
    have : Limiter.addToLast now bits ((x :: y :: rest) ++ [(t, b)]) = x :: Limiter.addToLast now bits ((y :: rest) ++ [(t, b)]) := by
      simp [Limiter.addToLast]
    rw [this, addToLast_concat now bits t b (y :: rest)]
    split <;> rfl

/-- **`addToLast` through `getLast?` / `dropLast`**: a new slot is opened iff the list is empty or its last slot is older than `slotNs`;
    otherwise the count of the last slot grows. -/
theorem addToLast_getLast (now bits : Nat) (sl : List (Nat × Nat)) :
    Limiter.addToLast now bits sl =
      match sl.getLast? with
      | none => [(now, bits)]
      | some (t, b) => if now - t > slotNs then sl ++ [(now, bits)] else sl.dropLast ++ [(t, b + bits)] := by
  rcases List.eq_nil_or_concat sl with rfl | ⟨init, ⟨t, b⟩, rfl⟩
  · rfl
  · simp only [List.concat_eq_append]
    rw [addToLast_concat]
    simp

theorem addToLast_bitSum (now bits : Nat) (sl : List (Nat × Nat)) :
    bitSum (Limiter.addToLast now bits sl) = bitSum sl + bits := by
  rcases List.eq_nil_or_concat sl with rfl | ⟨init, ⟨t, b⟩, rfl⟩
  · simp [Limiter.addToLast, bitSum]
  · simp only [List.concat_eq_append]
    rw [addToLast_concat]
    split <;> simp [bitSum] <;> omega

/-! ### `WF` is an invariant -/

theorem wf_default : (default : Limiter).WF := Nat.le_refl 0
theorem wf_init : ({} : Limiter).WF := Nat.le_refl 0
theorem wf_reset (l : Limiter) : l.reset.WF := by simp [Limiter.WF, Limiter.reset]
theorem wf_update (l : Limiter) (w now : Nat) (h : l.WF) : (l.update w now).WF := by
  unfold Limiter.update
  split
  · exact wf_reset l
  · exact expire_wf w now l.slots l.bitTotal h
theorem wf_inform (l : Limiter) (now datalen : Nat) (h : l.WF) : (l.inform now datalen).WF := by
  unfold Limiter.inform
  split
  · rw [wf_iff] at h ⊢
    simp only [addToLast_bitSum]
    omega
  · exact h

/-! ## 1. infrastructure (local copies of the generic steps of GenConsume.lean / LayerQueues.lean) -/

theorem set_get (env : Env) (k : String) (v : PV) (k' : String) :
    (env.set k v) k' = if k' = k then some v else env k' := rfl

/-- the names the interpreter treats as builtins; every other call goes to `Meths` -/
def builtinNames : List String :=
  ["len", "int", "bool", "min", "max", "bytes", "isinstance_int", "isinstance_bool", "isinstance_float", "isinstance_int_float"]

theorem evalBuiltin_none (fn : String) (args : List PV) (h : fn ∉ builtinNames) : evalBuiltin fn args = none := by
  simp only [builtinNames, List.mem_cons, List.not_mem_nil, or_false, not_or] at h
  unfold evalBuiltin; split <;> simp_all

theorem builtin_len_list (xs : List Sc) : evalBuiltin "len" [.list xs] = some (.ok (pint xs.length)) := by simp [evalBuiltin]

theorem natIdx_zero : natIdx (pint 0) = .ok 0 := rfl

/-- first semantics: a statement that falls through -/
theorem cons_next1 {M : Meths} {env env' : Env} {s : PStmt} {rest : PBlock}
    (h : execStmt M env s = .ok (.next env')) : execBlock M env (.cons s rest) = execBlock M env' rest := by
  simp only [execBlock, h, ok_bind]

/-- first semantics: `if c: t else: e` once the test is known -/
theorem ite_step1 (M : Meths) (env : Env) (c : PExpr) (t e : PBlock) (b : Bool) (h : eval M env c = .ok (pbool b)) :
    execStmt M env (.ite c t e) = if b then execBlock M env t else execBlock M env e := by
  simp only [execStmt, h, ok_bind, truthy_pbool]

/-- second semantics: a simple statement that falls through -/
theorem simple_next (n : Nat) (M : Meths) (env env1 : Env) (s : PStmt) (hs : isSimple s = true)
    (h : execStmt M env s = .ok (.next env1)) : exec2S (n + 1) M env s = .ok (.next env1) := by
  rw [exec2S_simple n M env s hs]; unfold simple2; rw [h]; rfl

theorem cons_next (n : Nat) (M : Meths) (env env1 : Env) (s : PStmt) (rest : PBlock)
    (h : exec2S n M env s = .ok (.next env1)) : exec2B (n + 1) M env (.cons s rest) = exec2B n M env1 rest := by
  rw [exec2B_cons, h]

theorem cons_brk (n : Nat) (M : Meths) (env env1 : Env) (s : PStmt) (rest : PBlock)
    (h : exec2S n M env s = .ok (.brk env1)) : exec2B (n + 1) M env (.cons s rest) = .ok (.brk env1) := by
  rw [exec2B_cons, h]

theorem cons_ret (n : Nat) (M : Meths) (env env1 : Env) (v : PV) (s : PStmt) (rest : PBlock)
    (h : exec2S n M env s = .ok (.ret v env1)) : exec2B (n + 1) M env (.cons s rest) = .ok (.ret v env1) := by
  rw [exec2B_cons, h]

theorem ite_step (n : Nat) (M : Meths) (env : Env) (c : PExpr) (t e : PBlock) (b : Bool) (h : eval M env c = .ok (pbool b)) :
    exec2S (n + 1) M env (.ite c t e) = if b then exec2B n M env t else exec2B n M env e := by
  rw [exec2S_ite, h]; rfl

/-- `while c: body` when the test is false -/
theorem while_false (n : Nat) (M : Meths) (env : Env) (c : PExpr) (body : PBlock) (h : eval M env c = .ok (pbool false)) :
    exec2S (n + 1) M env (.while_ c body) = .ok (.next env) := by
  rw [exec2S_while, h]; rfl

/-- one full iteration -/
theorem while_next (n : Nat) (M : Meths) (env env1 : Env) (c : PExpr) (body : PBlock) (h : eval M env c = .ok (pbool true))
    (hb : exec2B n M env body = .ok (.next env1)) :
    exec2S (n + 1) M env (.while_ c body) = exec2S n M env1 (.while_ c body) := by
  rw [exec2S_while, h]
  show (match exec2B n M env body with
    | .ok (.next env1) => exec2S n M env1 (.while_ c body)
    | .ok (.brk env1) => .ok (.next env1)
    | r => r) = _
  rw [hb]

/-- an iteration that ends with `break` -/
theorem while_brk (n : Nat) (M : Meths) (env env1 : Env) (c : PExpr) (body : PBlock) (h : eval M env c = .ok (pbool true))
    (hb : exec2B n M env body = .ok (.brk env1)) :
    exec2S (n + 1) M env (.while_ c body) = .ok (.next env1) := by
  rw [exec2S_while, h]
  show (match exec2B n M env body with
    | .ok (.next env1) => exec2S n M env1 (.while_ c body)
    | .ok (.brk env1) => .ok (.next env1)
    | r => r) = _
  rw [hb]

/-- **no hypothesis on the clock**: the integer comparison of the source (`t - t2 > w` over Python ints, negative when the clock went
    backwards) is the comparison of the model (truncated subtraction) -/
theorem sub_gt_cast (now t w : Nat) : decide ((w : Int) < (now : Int) - (t : Int)) = decide (now - t > w) := by
  by_cases h : now - t > w
  · rw [decide_eq_true h, decide_eq_true (by omega)]
  · rw [decide_eq_false h, decide_eq_false (by omega)]

/-! ## 2. the lists and their primitives -/

/-- a natural number as a list element -/
def natSc (n : Nat) : Sc := .py (.int n)
/-- `self.burst_time` of a slot list -/
def timesOf (sl : List (Nat × Nat)) : List Sc := (sl.map (·.1)).map natSc
/-- `self.burst_bitcount` of a slot list -/
def countsOf (sl : List (Nat × Nat)) : List Sc := (sl.map (·.2)).map natSc

theorem sc_natSc (n : Nat) : PV.sc (natSc n) = pint n := rfl
theorem timesOf_cons (t b : Nat) (rest : List (Nat × Nat)) : timesOf ((t, b) :: rest) = natSc t :: timesOf rest := rfl
theorem countsOf_cons (t b : Nat) (rest : List (Nat × Nat)) : countsOf ((t, b) :: rest) = natSc b :: countsOf rest := rfl
theorem timesOf_append (a c : List (Nat × Nat)) : timesOf (a ++ c) = timesOf a ++ timesOf c := by simp [timesOf]
theorem countsOf_append (a c : List (Nat × Nat)) : countsOf (a ++ c) = countsOf a ++ countsOf c := by simp [countsOf]
theorem timesOf_length (sl : List (Nat × Nat)) : (timesOf sl).length = sl.length := by simp [timesOf]

/-- the presentation used by LayerTxHelpers.lean (`limAttrs`) is the same list -/
theorem timesOf_eq (sl : List (Nat × Nat)) : timesOf sl = sl.map fun p => Sc.py (.int p.1) := by simp [timesOf, natSc]
theorem countsOf_eq (sl : List (Nat × Nat)) : countsOf sl = sl.map fun p => Sc.py (.int p.2) := by simp [countsOf, natSc]

/-- `x.pop(0)` on the list attribute `key` (`IndexError` on an empty list); with `bindTo = some v`: `v = x.pop(0)` -/
def popHead (key : String) (bindTo : Option String) (args : List PV) (env : Env) : Except PErr Env :=
  if args = [pint 0] then
    match env key with
    | some (.list (x :: xs)) =>
        .ok (match bindTo with
             | some v => (env.set key (.list xs)).set v (.sc x)
             | none => env.set key (.list xs))
    | some (.list []) => .error (.exc .IndexError)
    | _ => .error (.exc .AttributeError)
  else .error (.unsupported "pop(i) with i ≠ 0")

/-- `x.append(v)` -/
def appendTo (key : String) (args : List PV) (env : Env) : Except PErr Env :=
  match args, env key with
  | [.sc v], some (.list xs) => .ok (env.set key (.list (xs ++ [v])))
  | _, _ => .error (.unsupported "append")

/-- `x[-1]` -/
def lastOf (args : List PV) : Except PErr PV :=
  match args with
  | [.list xs] =>
    (match xs.getLast? with
     | some x => .ok (.sc x)
     | none => .error (.exc .IndexError))
  | _ => .error (.exc .TypeError)

/-- `x[-1] += v` on integers -/
def addLast (key : String) (args : List PV) (env : Env) : Except PErr Env :=
  match args, env key with
  | [v], some (.list xs) =>
    (match xs.getLast? with
     | none => .error (.exc .IndexError)
     | some x =>
       match asInt (.sc x), asInt v with
       | some a, some b => .ok (env.set key (.list (xs.dropLast ++ [.py (.int (a + b))])))
       | _, _ => .error (.unsupported "x[-1] += v on non-integers"))
  | _, _ => .error (.unsupported "x[-1] += v")

/-- the clock, the list primitives, and `self.reset()` = the interpreted source of `RateLimiter.reset` -/
def limMeths (now : Nat) : Meths where
  fn := fun name args _ =>
    match name with
    | "time.perf_counter" => if args = [] then .ok (pint now) else .error (.exc .TypeError)
    | "__last__" => lastOf args
    | n => .error (.unsupported ("call " ++ n))
  proc := fun name args env =>
    match name with
    | "self.burst_time.pop" => popHead "self.burst_time" none args env
    | "n_to_remove:=self.burst_bitcount.pop" => popHead "self.burst_bitcount" (some "n_to_remove") args env
    | "self.burst_time.append" => appendTo "self.burst_time" args env
    | "self.burst_bitcount.append" => appendTo "self.burst_bitcount" args env
    | "self.burst_bitcount[-1]+=" => addLast "self.burst_bitcount" args env
    | "self.reset" => if args = [] then envM noMeths env Src.RateLimiter_reset else .error (.exc .TypeError)
    | n => .error (.unsupported ("call " ++ n))

theorem limMeths_lookups (now : Nat) (args : List PV) (env : Env) :
    (limMeths now).fn "time.perf_counter" [] env = .ok (pint now) ∧
    (limMeths now).fn "__last__" args env = lastOf args ∧
    (limMeths now).proc "self.burst_time.pop" args env = popHead "self.burst_time" none args env ∧
    (limMeths now).proc "n_to_remove:=self.burst_bitcount.pop" args env =
      popHead "self.burst_bitcount" (some "n_to_remove") args env ∧
    (limMeths now).proc "self.burst_time.append" args env = appendTo "self.burst_time" args env ∧
    (limMeths now).proc "self.burst_bitcount.append" args env = appendTo "self.burst_bitcount" args env ∧
    (limMeths now).proc "self.burst_bitcount[-1]+=" args env = addLast "self.burst_bitcount" args env ∧
    (limMeths now).proc "self.reset" [] env = envM noMeths env Src.RateLimiter_reset :=
  ⟨rfl, rfl, rfl, rfl, rfl, rfl, rfl, rfl⟩

theorem popHead_cons (key : String) (env : Env) (x : Sc) (xs : List Sc) (h : env key = some (.list (x :: xs))) :
    popHead key none [pint 0] env = .ok (env.set key (.list xs)) := by
  unfold popHead; rw [if_pos rfl, h]

theorem popHead_bind_cons (key v : String) (env : Env) (x : Sc) (xs : List Sc) (h : env key = some (.list (x :: xs))) :
    popHead key (some v) [pint 0] env = .ok ((env.set key (.list xs)).set v (.sc x)) := by
  unfold popHead; rw [if_pos rfl, h]

theorem appendTo_list (key : String) (env : Env) (v : Sc) (xs : List Sc) (h : env key = some (.list xs)) :
    appendTo key [.sc v] env = .ok (env.set key (.list (xs ++ [v]))) := by
  unfold appendTo; rw [h]

theorem lastOf_concat (xs : List Sc) (x : Sc) : lastOf [.list (xs ++ [x])] = .ok (.sc x) := by
  simp [lastOf]

theorem addLast_concat (key : String) (env : Env) (xs : List Sc) (a b : Nat) (h : env key = some (.list (xs ++ [natSc a]))) :
    addLast key [pint b] env = .ok (env.set key (.list (xs ++ [natSc (a + b)]))) := by
  unfold addLast; rw [h]
  simp [natSc, asInt, Sc.isInt, Sc.intVal, PyVal.isInt, PyVal.intVal]

/-- `self.reset()`: the run of the interpreted source (same statement as `ratelimiter_reset_run` of LayerTxHelpers.lean, integer factors) -/
def resetEnv (env : Env) (b w : Nat) : Env :=
  (((env.set "self.burst_bitcount" (.list [])).set "self.burst_time" (.list [])).set "self.bit_total" (pint 0)).set
    "self.window_bit_max" (pint ((b : Int) * (w : Int)))

theorem reset_run (env : Env) (b w : Nat) (h1 : env "self.mean_bitrate" = some (pint b))
    (h2 : env "self.window_size_sec" = some (pint w)) :
    envM noMeths env Src.RateLimiter_reset = .ok (resetEnv env b w) := by
  simp [envM, runFn, Src.RateLimiter_reset, execBlock, execStmt, eval, evalArgs, set_get, h1, h2, resetEnv]

/-! ## 3. `update` -/

def c0 : PExpr := .not_ (.var "self.enabled")
def resetB : PBlock := .cons (.expr (.call "self.reset" .nil)) (.cons .retNone .nil)
def s0 : PStmt := .ite c0 resetB .nil
def s1 : PStmt := .assign "t" (.call "time.perf_counter" .nil)
def wc : PExpr := .cmp .gt (.call "len" (.cons (.var "self.burst_time") .nil)) (.int 0)
def b1 : PStmt := .assign "t2" (.index (.var "self.burst_time") (.int 0))
def ic : PExpr := .cmp .gt (.binop .sub (.var "t") (.var "t2")) (.var "self.window_size_sec")
def p1 : PStmt := .expr (.call "self.burst_time.pop" (.cons (.int 0) .nil))
def p2 : PStmt := .expr (.call "n_to_remove:=self.burst_bitcount.pop" (.cons (.int 0) .nil))
def p3 : PStmt := .assign "self.bit_total" (.binop .sub (.var "self.bit_total") (.var "n_to_remove"))
def popB : PBlock := .cons p1 (.cons p2 (.cons p3 .nil))
def brkB : PBlock := .cons .break_ .nil
def b2 : PStmt := .ite ic popB brkB
def body : PBlock := .cons b1 (.cons b2 .nil)
def loop : PStmt := .while_ wc body

/-- the dumped source is these statements (breaks, as it should, when the source changes) -/
theorem update_src : Src.RateLimiter_update = .cons s0 (.cons s1 (.cons loop .nil)) := rfl

/-- what the `while` loop of the SOURCE computes: `Limiter.expire` with an integer (not truncated) total -/
def expireZ (w now : Nat) : List (Nat × Nat) → Int → List (Nat × Nat) × Int
  | [], bt => ([], bt)
  | (t, b) :: rest, bt => if now - t > w then expireZ w now rest (bt - b) else ((t, b) :: rest, bt)

/-- on a well-formed limiter the truncation never happens -/
theorem expireZ_of_wf (w now : Nat) : ∀ (sl : List (Nat × Nat)) (bt : Nat), bitSum sl ≤ bt →
    expireZ w now sl bt = ((Limiter.expire w now sl bt).1, (((Limiter.expire w now sl bt).2 : Nat) : Int))
  | [], bt, _ => rfl
  | (t, b) :: rest, bt, h => by
    rw [bitSum_cons] at h
    unfold expireZ Limiter.expire
    split
    · have e : (bt : Int) - (b : Int) = ((bt - b : Nat) : Int) := by omega
      rw [e]
      exact expireZ_of_wf w now rest (bt - b) (by omega)
    · rfl

/-- the slots `expireZ` keeps are those `expire` keeps, whatever the totals -/
theorem expireZ_slots (w now : Nat) : ∀ (sl : List (Nat × Nat)) (bt : Int) (bt' : Nat),
    (expireZ w now sl bt).1 = (Limiter.expire w now sl bt').1
  | [], _, _ => rfl
  | (t, b) :: rest, bt, bt' => by
    unfold expireZ Limiter.expire
    split
    · exact expireZ_slots w now rest _ _
    · rfl

/-- what the loop reads and writes of the object, with an INTEGER total -/
structure Inv (w now : Nat) (env : Env) (sl : List (Nat × Nat)) (bt : Int) : Prop where
  times : env "self.burst_time" = some (.list (timesOf sl))
  counts : env "self.burst_bitcount" = some (.list (countsOf sl))
  total : env "self.bit_total" = some (pint bt)
  t : env "t" = some (pint now)
  window : env "self.window_size_sec" = some (pint w)

/-- the names the loop assigns -/
def loopKeys : List String := ["t2", "n_to_remove", "self.burst_time", "self.burst_bitcount", "self.bit_total"]

theorem eval_wc_nil (now : Nat) (env : Env) (h : env "self.burst_time" = some (.list [])) :
    eval (limMeths now) env wc = .ok (pbool false) := by
  simp [wc, eval, evalArgs, h, builtin_len_list, evalCmp_gt_pint]

theorem eval_wc_cons (now : Nat) (env : Env) (a : Sc) (xs : List Sc) (h : env "self.burst_time" = some (.list (a :: xs))) :
    eval (limMeths now) env wc = .ok (pbool true) := by
  simp [wc, eval, evalArgs, h, builtin_len_list, evalCmp_gt_pint]

theorem stmt_b1 (now : Nat) (env : Env) (a : Sc) (xs : List Sc) (h : env "self.burst_time" = some (.list (a :: xs))) :
    execStmt (limMeths now) env b1 = .ok (.next (env.set "t2" (.sc a))) := by
  simp [b1, execStmt, eval, h, natIdx_zero]

theorem eval_ic (now t w : Nat) (env : Env) (h1 : env "t" = some (pint now)) (h2 : env "t2" = some (pint t))
    (h3 : env "self.window_size_sec" = some (pint w)) :
    eval (limMeths now) env ic = .ok (pbool (decide (now - t > w))) := by
  simp only [ic, eval, h1, h2, h3, ok_bind, evalBinop_sub, evalCmp_gt_pint, sub_gt_cast]

theorem stmt_p1 (now : Nat) (env : Env) (a : Sc) (xs : List Sc) (h : env "self.burst_time" = some (.list (a :: xs))) :
    execStmt (limMeths now) env p1 = .ok (.next (env.set "self.burst_time" (.list xs))) := by
  simp [p1, execStmt, evalArgs, eval, evalBuiltin_none "self.burst_time.pop" _ (by decide),
    (limMeths_lookups now [pint 0] env).2.2.1, popHead_cons _ env a xs h]

theorem stmt_p2 (now : Nat) (env : Env) (a : Sc) (xs : List Sc) (h : env "self.burst_bitcount" = some (.list (a :: xs))) :
    execStmt (limMeths now) env p2 =
      .ok (.next ((env.set "self.burst_bitcount" (.list xs)).set "n_to_remove" (.sc a))) := by
  simp [p2, execStmt, evalArgs, eval, evalBuiltin_none "n_to_remove:=self.burst_bitcount.pop" _ (by decide),
    (limMeths_lookups now [pint 0] env).2.2.2.1, popHead_bind_cons _ _ env a xs h]

theorem stmt_p3 (now : Nat) (env : Env) (bt b : Int) (h1 : env "self.bit_total" = some (pint bt))
    (h2 : env "n_to_remove" = some (pint b)) :
    execStmt (limMeths now) env p3 = .ok (.next (env.set "self.bit_total" (pint (bt - b)))) := by
  simp only [p3, execStmt, eval, h1, h2, ok_bind, evalBinop_sub]

/-- the environment after one popping iteration -/
def popEnv (env : Env) (t b : Nat) (rest : List (Nat × Nat)) (bt : Int) : Env :=
  ((((env.set "t2" (pint t)).set "self.burst_time" (.list (timesOf rest))).set "self.burst_bitcount" (.list (countsOf rest))).set
    "n_to_remove" (pint b)).set "self.bit_total" (pint (bt - b))

theorem popEnv_inv (w now : Nat) (env : Env) (t b : Nat) (rest : List (Nat × Nat)) (bt : Int)
    (hi : Inv w now env ((t, b) :: rest) bt) : Inv w now (popEnv env t b rest bt) rest (bt - b) := by
  constructor <;> simp [popEnv, set_get, hi.t, hi.window]

theorem popEnv_frame (env : Env) (t b : Nat) (rest : List (Nat × Nat)) (bt : Int) (k : String) (hk : k ∉ loopKeys) :
    popEnv env t b rest bt k = env k := by
  simp only [loopKeys, List.mem_cons, List.not_mem_nil, or_false, not_or] at hk
  simp [popEnv, set_get, hk]

/-- an iteration on an expired head slot: the slot is popped from both lists and its count subtracted -/
theorem body_pop (w now : Nat) (env : Env) (t b : Nat) (rest : List (Nat × Nat)) (bt : Int) (m : Nat)
    (hi : Inv w now env ((t, b) :: rest) bt) (hexp : now - t > w) :
    exec2B (m + 8) (limMeths now) env body = .ok (.next (popEnv env t b rest bt)) := by
  have e1 : execStmt (limMeths now) env b1 = .ok (.next (env.set "t2" (pint t))) := stmt_b1 now env _ _ hi.times
  have hc := eval_ic now t w (env.set "t2" (pint t)) (by simp [set_get, hi.t]) (by simp [set_get])
    (by simp [set_get, hi.window])
  have e2 := stmt_p1 now (env.set "t2" (pint t)) (natSc t) (timesOf rest) (by simp [set_get, hi.times, timesOf_cons])
  have e3 := stmt_p2 now ((env.set "t2" (pint t)).set "self.burst_time" (.list (timesOf rest))) (natSc b) (countsOf rest)
    (by simp [set_get, hi.counts, countsOf_cons])
  have e4 := stmt_p3 now
    ((((env.set "t2" (pint t)).set "self.burst_time" (.list (timesOf rest))).set "self.burst_bitcount" (.list (countsOf rest))).set
      "n_to_remove" (.sc (natSc b))) bt b (by simp [set_get, hi.total]) (by simp [set_get, sc_natSc])
  have hpop : exec2B (m + 5) (limMeths now) (env.set "t2" (pint t)) popB = .ok (.next (popEnv env t b rest bt)) := by
    unfold popB
    rw [cons_next (m + 4) _ _ _ _ _ (simple_next (m + 3) _ _ _ _ rfl e2),
      cons_next (m + 3) _ _ _ _ _ (simple_next (m + 2) _ _ _ _ rfl e3),
      cons_next (m + 2) _ _ _ _ _ (simple_next (m + 1) _ _ _ _ rfl e4), exec2B_nil]
    rfl
  have hb2 : exec2S (m + 6) (limMeths now) (env.set "t2" (pint t)) b2 = .ok (.next (popEnv env t b rest bt)) := by
    unfold b2
    rw [ite_step (m + 5) _ _ _ _ _ _ hc, decide_eq_true hexp, if_pos rfl, hpop]
  unfold body
  rw [cons_next (m + 7) _ _ _ _ _ (simple_next (m + 6) _ _ _ _ rfl e1), cons_next (m + 6) _ _ _ _ _ hb2, exec2B_nil]

/-- an iteration on a head slot still in the window: `break` -/
theorem body_brk (w now : Nat) (env : Env) (t b : Nat) (rest : List (Nat × Nat)) (bt : Int) (m : Nat)
    (hi : Inv w now env ((t, b) :: rest) bt) (hexp : ¬ now - t > w) :
    exec2B (m + 5) (limMeths now) env body = .ok (.brk (env.set "t2" (pint t))) := by
  have e1 : execStmt (limMeths now) env b1 = .ok (.next (env.set "t2" (pint t))) := stmt_b1 now env _ _ hi.times
  have hc := eval_ic now t w (env.set "t2" (pint t)) (by simp [set_get, hi.t]) (by simp [set_get])
    (by simp [set_get, hi.window])
  have hb2 : exec2S (m + 3) (limMeths now) (env.set "t2" (pint t)) b2 = .ok (.brk (env.set "t2" (pint t))) := by
    unfold b2 brkB
    rw [ite_step (m + 2) _ _ _ _ _ _ hc, decide_eq_false hexp, if_neg (by simp),
      cons_brk (m + 1) _ _ _ _ _ (exec2S_break m _ _)]
  unfold body
  rw [cons_next (m + 4) _ _ _ _ _ (simple_next (m + 3) _ _ _ _ rfl e1), cons_brk (m + 3) _ _ _ _ _ hb2]

/-- **the loop**, by induction on the slots: with `|slots| + 8` units of fuel it ends normally, having dropped exactly the expired slots
    from the front of both lists and subtracted their counts (over the integers); it stops at the first slot still in the window. -/
theorem loop_run (w now : Nat) : ∀ (sl : List (Nat × Nat)) (bt : Int) (env : Env) (n : Nat),
    Inv w now env sl bt → sl.length + 8 ≤ n →
    ∃ env', exec2S n (limMeths now) env loop = .ok (.next env') ∧
      Inv w now env' (expireZ w now sl bt).1 (expireZ w now sl bt).2 ∧ ∀ k, k ∉ loopKeys → env' k = env k
  | [], bt, env, n, hi, hn => by
    obtain ⟨m, rfl⟩ : ∃ m, n = m + 1 := ⟨n - 1, by omega⟩
    exact ⟨env, while_false m _ _ _ _ (eval_wc_nil now env hi.times), hi, fun _ _ => rfl⟩
  | (t, b) :: rest, bt, env, n, hi, hn => by
    obtain ⟨m, rfl⟩ : ∃ m, n = m + 9 := ⟨n - 9, by simp only [List.length_cons] at hn; omega⟩
    have hc := eval_wc_cons now env _ _ hi.times
    by_cases hexp : now - t > w
    · obtain ⟨env', h1, h2, h3⟩ := loop_run w now rest (bt - b) (popEnv env t b rest bt) (m + 8) (popEnv_inv w now env t b rest bt hi)
        (by simp only [List.length_cons] at hn; omega)
      refine ⟨env', ?_, ?_, ?_⟩
      · unfold loop at h1 ⊢
        rw [while_next (m + 8) _ _ _ _ _ hc (body_pop w now env t b rest bt m hi hexp)]
        exact h1
      · simpa only [expireZ, hexp, if_true] using h2
      · intro k hk
        rw [h3 k hk, popEnv_frame env t b rest bt k hk]
    · refine ⟨env.set "t2" (pint t), ?_, ?_, ?_⟩
      · unfold loop
        rw [while_brk (m + 8) _ _ _ _ _ hc (body_brk w now env t b rest bt (m + 3) hi hexp)]
      · simp only [expireZ, hexp, if_false]
        constructor <;> simp [set_get, hi.times, hi.counts, hi.total, hi.t, hi.window]
      · intro k hk
        simp only [loopKeys, List.mem_cons, List.not_mem_nil, or_false, not_or] at hk
        simp [set_get, hk]

/-! ### the whole of `update` -/

/-- what an environment shows of a limiter - with an INTEGER total, so that the run can be described without well-formedness -/
structure ShowsZ (env : Env) (en : Bool) (sl : List (Nat × Nat)) (bt : Int) (w : Nat) : Prop where
  enabled : env "self.enabled" = some (pbool en)
  bitTotal : env "self.bit_total" = some (pint bt)
  times : env "self.burst_time" = some (.list (timesOf sl))
  counts : env "self.burst_bitcount" = some (.list (countsOf sl))
  window : env "self.window_size_sec" = some (pint w)
  slot : env "self.TIME_SLOT_LENGTH" = some (pint slotNs)

/-- the environment shows the model's limiter `l` (window `w` ns) -/
def Shows (env : Env) (l : Limiter) (w : Nat) : Prop := ShowsZ env l.enabled l.slots l.bitTotal w

/-- what the SOURCE of `update` computes (integer total) -/
def updateZ (en : Bool) (sl : List (Nat × Nat)) (bt : Int) (w now : Nat) : List (Nat × Nat) × Int :=
  if en then expireZ w now sl bt else ([], 0)

/-- the names `update` may assign (the last one only through `reset()`, on a disabled limiter) -/
def updateKeys : List String :=
  ["t", "t2", "n_to_remove", "self.burst_time", "self.burst_bitcount", "self.bit_total", "self.window_bit_max"]

theorem eval_c0 (now : Nat) (env : Env) (en : Bool) (h : env "self.enabled" = some (pbool en)) :
    eval (limMeths now) env c0 = .ok (pbool (!en)) := by
  simp only [c0, eval, h, ok_bind, truthy_pbool]

theorem stmt_reset (now : Nat) (env : Env) (b w : Nat) (h1 : env "self.mean_bitrate" = some (pint b))
    (h2 : env "self.window_size_sec" = some (pint w)) :
    execStmt (limMeths now) env (.expr (.call "self.reset" .nil)) = .ok (.next (resetEnv env b w)) := by
  simp [execStmt, evalArgs, evalBuiltin_none "self.reset" _ (by decide), (limMeths_lookups now [] env).2.2.2.2.2.2.2,
    reset_run env b w h1 h2]

theorem stmt_clock (now : Nat) (env : Env) : execStmt (limMeths now) env s1 = .ok (.next (env.set "t" (pint now))) := by
  simp [s1, execStmt, eval, evalArgs, evalBuiltin_none "time.perf_counter" _ (by decide), (limMeths_lookups now [] env).1]

theorem retNone_step (n : Nat) (M : Meths) (env : Env) : exec2S (n + 1) M env .retNone = .ok (.ret pnone env) := rfl

/-- **the run of `update`, without any well-formedness**: with fuel `≥ |slots| + 11` the call returns `None` in an environment that shows
    what the source computes over the integers (`updateZ`: disabled → `reset()`; enabled → the expired slots dropped from the front, their
    counts subtracted), every other attribute unchanged.  `self.mean_bitrate` is only read by `reset()` (disabled limiter). -/
theorem update_run (en : Bool) (sl : List (Nat × Nat)) (bt : Int) (w now b : Nat) (env : Env) (n : Nat)
    (hs : ShowsZ env en sl bt w) (hmb : en = false → env "self.mean_bitrate" = some (pint b)) (hn : sl.length + 11 ≤ n) :
    ∃ env', run2 n (limMeths now) env Src.RateLimiter_update = .ok (.ret pnone env') ∧
      ShowsZ env' en (updateZ en sl bt w now).1 (updateZ en sl bt w now).2 w ∧ ∀ k, k ∉ updateKeys → env' k = env k := by
  obtain ⟨m, rfl⟩ : ∃ m, n = m + 11 := ⟨n - 11, by omega⟩
  have hc := eval_c0 now env en hs.enabled
  cases en with
  | false =>
    refine ⟨resetEnv env b w, ?_, ?_, ?_⟩
    · have h0 : exec2S (m + 10) (limMeths now) env s0 = .ok (.ret pnone (resetEnv env b w)) := by
        unfold s0 resetB
        rw [ite_step (m + 9) _ _ _ _ _ _ hc]
        simp only [Bool.not_false, if_true]
        rw [cons_next (m + 8) _ _ _ _ _ (simple_next (m + 7) _ _ _ _ rfl (stmt_reset now env b w (hmb rfl) hs.window)),
          cons_ret (m + 7) _ _ _ _ _ _ (retNone_step (m + 6) _ _)]
      unfold run2
      rw [update_src, cons_ret (m + 10) _ _ _ _ _ _ h0]
    · constructor <;> simp [updateZ, resetEnv, set_get, hs.enabled, hs.window, hs.slot, timesOf, countsOf]
    · intro k hk
      simp only [updateKeys, List.mem_cons, List.not_mem_nil, or_false, not_or] at hk
      simp [resetEnv, set_get, hk]
  | true =>
    have h0 : exec2S (m + 10) (limMeths now) env s0 = .ok (.next env) := by
      unfold s0
      rw [ite_step (m + 9) _ _ _ _ _ _ hc]
      simp only [Bool.not_true, Bool.false_eq_true, if_false]
      rfl
    have hi : Inv w now (env.set "t" (pint now)) sl bt := by
      constructor <;> simp [set_get, hs.times, hs.counts, hs.bitTotal, hs.window]
    obtain ⟨env', h1, h2, h3⟩ := loop_run w now sl bt (env.set "t" (pint now)) (m + 8) hi (by omega)
    refine ⟨env', ?_, ?_, ?_⟩
    · unfold run2
      rw [update_src, cons_next (m + 10) _ _ _ _ _ h0,
        cons_next (m + 9) _ _ _ _ _ (simple_next (m + 8) _ _ _ _ rfl (stmt_clock now env)),
        cons_next (m + 8) _ _ _ _ _ h1, exec2B_nil]
    · have he := h3 "self.enabled" (by decide)
      have hsl := h3 "self.TIME_SLOT_LENGTH" (by decide)
      simp only [updateZ, if_true]
      exact ⟨by rw [he]; simp [set_get, hs.enabled], h2.total, h2.times, h2.counts, h2.window,
        by rw [hsl]; simp [set_get, hs.slot]⟩
    · intro k hk
      simp only [updateKeys, List.mem_cons, List.not_mem_nil, or_false, not_or] at hk
      rw [h3 k (by simp [loopKeys, hk])]
      simp [set_get, hk]

/-- the model's `update`, field by field -/
theorem update_fields (l : Limiter) (w now : Nat) :
    (l.update w now).enabled = l.enabled ∧
    (l.update w now).slots = (if l.enabled then (Limiter.expire w now l.slots l.bitTotal).1 else []) ∧
    (l.update w now).bitTotal = (if l.enabled then (Limiter.expire w now l.slots l.bitTotal).2 else 0) := by
  cases he : l.enabled <;> simp [Limiter.update, Limiter.reset, he]

/-- on a well-formed limiter the source computes the model's `update` -/
theorem updateZ_of_wf (l : Limiter) (w now : Nat) (h : l.WF) :
    updateZ l.enabled l.slots l.bitTotal w now = ((l.update w now).slots, ((l.update w now).bitTotal : Int)) := by
  obtain ⟨-, h2, h3⟩ := update_fields l w now
  rw [h2, h3]
  unfold updateZ
  cases l.enabled
  · rfl
  · simp only [if_true]
    exact expireZ_of_wf w now l.slots l.bitTotal h

/-- **`RateLimiter.update` agrees with `Limiter.update`**: for every WELL-FORMED limiter `l`, window `w`, clock value `now`, every
    environment that shows `l` (and `self.mean_bitrate`, read by `reset()` when the limiter is disabled) and every fuel `≥ |slots| + 11`, the
    call returns `None` in an environment that shows `l.update w now`; only the names of `updateKeys` may have changed.
    No hypothesis on the clock (`now` may be smaller than a slot time).  `WF` cannot be dropped: `update_needs_WF`. -/
theorem update_agrees (l : Limiter) (w now b : Nat) (env : Env) (n : Nat) (hs : Shows env l w)
    (hmb : l.enabled = false → env "self.mean_bitrate" = some (pint b)) (hwf : l.WF) (hn : l.slots.length + 11 ≤ n) :
    ∃ env', run2 n (limMeths now) env Src.RateLimiter_update = .ok (.ret pnone env') ∧
      Shows env' (l.update w now) w ∧ ∀ k, k ∉ updateKeys → env' k = env k := by
  obtain ⟨env', h1, h2, h3⟩ := update_run l.enabled l.slots l.bitTotal w now b env n hs hmb hn
  refine ⟨env', h1, ?_, h3⟩
  rw [updateZ_of_wf l w now hwf] at h2
  unfold Shows
  rw [(update_fields l w now).1]
  exact h2

/-- what the agreement says about the lists: exactly the expired slots at the front are gone, the first slot left (if any) is still in the
    window, and the total lost their counts -/
theorem update_drops_expired (l : Limiter) (w now : Nat) (he : l.enabled = true) :
    ∃ pre, l.slots = pre ++ (l.update w now).slots ∧ (∀ p ∈ pre, now - p.1 > w) ∧
      (l.update w now).bitTotal = l.bitTotal - bitSum pre ∧
      (∀ p, (l.update w now).slots.head? = some p → ¬ now - p.1 > w) := by
  obtain ⟨-, h2, h3⟩ := update_fields l w now
  rw [h2, h3, he]
  exact expire_suffix w now l.slots l.bitTotal

/-- **`WF` is needed**: an enabled limiter whose total (0) is below the count (5) of an expired slot.  In EVERY environment that shows it,
    the source ends with `bit_total = -5`, the model's `update` says `0`: the final environment does not show `l.update`. -/
theorem update_needs_WF :
    let l : Limiter := { enabled := true, slots := [(0, 5)], bitTotal := 0 }
    ¬ l.WF ∧ (l.update 0 1).bitTotal = 0 ∧
    ∀ (env : Env) (n : Nat), Shows env l 0 → 12 ≤ n →
      ∃ env', run2 n (limMeths 1) env Src.RateLimiter_update = .ok (.ret pnone env') ∧
        env' "self.bit_total" = some (pint (-5)) ∧ ¬ Shows env' (l.update 0 1) 0 := by
  refine ⟨by simp [Limiter.WF], rfl, ?_⟩
  intro env n hs hn
  obtain ⟨env', h1, h2, -⟩ := update_run true [(0, 5)] 0 0 1 0 env n hs (fun h => by cases h) hn
  have hb : env' "self.bit_total" = some (pint (-5)) := h2.bitTotal
  refine ⟨env', h1, hb, ?_⟩
  intro h
  have := h.bitTotal
  rw [hb] at this
  cases this

/-! ## 4. `inform_byte_sent` -/

def i1 : PStmt := .assign "bytelen" (.binop .mul (.var "datalen") (.int 8))
def i3 : PStmt := .assign "self.bit_total" (.binop .add (.var "self.bit_total") (.var "bytelen"))
def a1 : PStmt := .expr (.call "self.burst_time.append" (.cons (.var "t") .nil))
def a2 : PStmt := .expr (.call "self.burst_bitcount.append" (.cons (.var "bytelen") .nil))
def newB : PBlock := .cons a1 (.cons a2 .nil)
def ec : PExpr := .cmp .eq (.call "len" (.cons (.var "self.burst_time") .nil)) (.int 0)
def j1 : PStmt := .assign "last_time" (.call "__last__" (.cons (.var "self.burst_time") .nil))
def sc : PExpr := .cmp .gt (.binop .sub (.var "t") (.var "last_time")) (.var "self.TIME_SLOT_LENGTH")
def a3 : PStmt := .expr (.call "self.burst_bitcount[-1]+=" (.cons (.var "bytelen") .nil))
def addB : PBlock := .cons a3 .nil
def j2 : PStmt := .ite sc newB addB
def i4 : PStmt := .ite ec newB (.cons j1 (.cons j2 .nil))
def onB : PBlock := .cons i1 (.cons s1 (.cons i3 (.cons i4 .nil)))

/-- the dumped source is these statements (`s1` is `t = time.perf_counter()`, the same statement as in `update`) -/
theorem inform_src : Src.RateLimiter_inform_byte_sent = .cons (.ite (.var "self.enabled") onB .nil) .nil := rfl

/-- the names `inform_byte_sent` may assign -/
def informKeys : List String := ["bytelen", "t", "last_time", "self.bit_total", "self.burst_time", "self.burst_bitcount"]

theorem stmt_i1 (now : Nat) (env : Env) (d : Nat) (h : env "datalen" = some (pint d)) :
    execStmt (limMeths now) env i1 = .ok (.next (env.set "bytelen" (pint ((d * 8 : Nat) : Int)))) := by
  simp only [i1, execStmt, eval, h, ok_bind, evalBinop_mul, Int.natCast_mul]
  rfl

theorem stmt_i3 (now : Nat) (env : Env) (bt bits : Nat) (h1 : env "self.bit_total" = some (pint bt))
    (h2 : env "bytelen" = some (pint bits)) :
    execStmt (limMeths now) env i3 = .ok (.next (env.set "self.bit_total" (pint ((bt + bits : Nat) : Int)))) := by
  simp only [i3, execStmt, eval, h1, h2, ok_bind, evalBinop_add, Int.natCast_add]

theorem eval_ec_nil (now : Nat) (env : Env) (h : env "self.burst_time" = some (.list [])) :
    eval (limMeths now) env ec = .ok (pbool true) := by
  simp [ec, eval, evalArgs, h, builtin_len_list]

theorem eval_ec_concat (now : Nat) (env : Env) (xs : List Sc) (a : Sc) (h : env "self.burst_time" = some (.list (xs ++ [a]))) :
    eval (limMeths now) env ec = .ok (pbool false) := by
  simp [ec, eval, evalArgs, h, builtin_len_list]
  omega

theorem stmt_a1 (now : Nat) (env : Env) (v : Sc) (xs : List Sc) (h1 : env "t" = some (.sc v))
    (h2 : env "self.burst_time" = some (.list xs)) :
    execStmt (limMeths now) env a1 = .ok (.next (env.set "self.burst_time" (.list (xs ++ [v])))) := by
  simp [a1, execStmt, evalArgs, eval, h1, evalBuiltin_none "self.burst_time.append" _ (by decide),
    (limMeths_lookups now [.sc v] env).2.2.2.2.1, appendTo_list _ env v xs h2]

theorem stmt_a2 (now : Nat) (env : Env) (v : Sc) (ys : List Sc) (h1 : env "bytelen" = some (.sc v))
    (h2 : env "self.burst_bitcount" = some (.list ys)) :
    execStmt (limMeths now) env a2 = .ok (.next (env.set "self.burst_bitcount" (.list (ys ++ [v])))) := by
  simp [a2, execStmt, evalArgs, eval, h1, evalBuiltin_none "self.burst_bitcount.append" _ (by decide),
    (limMeths_lookups now [.sc v] env).2.2.2.2.2.1, appendTo_list _ env v ys h2]

/-- `self.burst_time.append(t); self.burst_bitcount.append(bytelen)`: a new slot -/
theorem newB_run (now : Nat) (env : Env) (bits : Nat) (xs ys : List Sc) (h1 : env "t" = some (pint now))
    (h2 : env "bytelen" = some (pint bits)) (h3 : env "self.burst_time" = some (.list xs))
    (h4 : env "self.burst_bitcount" = some (.list ys)) :
    execBlock (limMeths now) env newB =
      .ok (.next ((env.set "self.burst_time" (.list (xs ++ [natSc now]))).set "self.burst_bitcount" (.list (ys ++ [natSc bits])))) := by
  unfold newB
  rw [cons_next1 (stmt_a1 now env (natSc now) xs h1 h3),
    cons_next1 (stmt_a2 now _ (natSc bits) ys (by simp [set_get, h2, sc_natSc]) (by simp [set_get, h4]))]
  rfl

theorem stmt_j1 (now : Nat) (env : Env) (xs : List Sc) (a : Sc) (h : env "self.burst_time" = some (.list (xs ++ [a]))) :
    execStmt (limMeths now) env j1 = .ok (.next (env.set "last_time" (.sc a))) := by
  simp [j1, execStmt, evalArgs, eval, h, evalBuiltin_none "__last__" _ (by decide),
    (limMeths_lookups now [.list (xs ++ [a])] env).2.1, lastOf_concat]

theorem eval_sc (now tl : Nat) (env : Env) (h1 : env "t" = some (pint now)) (h2 : env "last_time" = some (pint tl))
    (h3 : env "self.TIME_SLOT_LENGTH" = some (pint slotNs)) :
    eval (limMeths now) env sc = .ok (pbool (decide (now - tl > slotNs))) := by
  simp only [sc, eval, h1, h2, h3, ok_bind, evalBinop_sub, evalCmp_gt_pint, sub_gt_cast]

/-- `self.burst_bitcount[-1] += bytelen` -/
theorem addB_run (now : Nat) (env : Env) (bits bl : Nat) (ys : List Sc) (h2 : env "bytelen" = some (pint bits))
    (h4 : env "self.burst_bitcount" = some (.list (ys ++ [natSc bl]))) :
    execBlock (limMeths now) env addB = .ok (.next (env.set "self.burst_bitcount" (.list (ys ++ [natSc (bl + bits)])))) := by
  have e : execStmt (limMeths now) env a3 = .ok (.next (env.set "self.burst_bitcount" (.list (ys ++ [natSc (bl + bits)])))) := by
    simp [a3, execStmt, evalArgs, eval, h2, evalBuiltin_none "self.burst_bitcount[-1]+=" _ (by decide),
      (limMeths_lookups now [pint bits] env).2.2.2.2.2.2.1, addLast_concat _ env ys bl bits h4]
  unfold addB
  rw [cons_next1 e]
  rfl

/-- `if len(self.burst_time) == 0:` on an empty list: a new slot -/
theorem i4_nil (now : Nat) (env : Env) (bits : Nat) (ys : List Sc) (h1 : env "t" = some (pint now))
    (h2 : env "bytelen" = some (pint bits)) (h3 : env "self.burst_time" = some (.list []))
    (h4 : env "self.burst_bitcount" = some (.list ys)) :
    execStmt (limMeths now) env i4 =
      .ok (.next ((env.set "self.burst_time" (.list ([] ++ [natSc now]))).set "self.burst_bitcount" (.list (ys ++ [natSc bits])))) := by
  unfold i4
  rw [ite_step1 _ _ _ _ _ true (eval_ec_nil now env h3), if_pos rfl]
  exact newB_run now env bits _ _ h1 h2 h3 h4

/-- `else:` branch, the last slot is older than `TIME_SLOT_LENGTH`: a new slot -/
theorem i4_new (now : Nat) (env : Env) (bits tl : Nat) (xs ys : List Sc) (h1 : env "t" = some (pint now))
    (h2 : env "bytelen" = some (pint bits)) (h3 : env "self.burst_time" = some (.list (xs ++ [natSc tl])))
    (h4 : env "self.burst_bitcount" = some (.list ys)) (h5 : env "self.TIME_SLOT_LENGTH" = some (pint slotNs))
    (hold : now - tl > slotNs) :
    execStmt (limMeths now) env i4 =
      .ok (.next (((env.set "last_time" (pint tl)).set "self.burst_time" (.list ((xs ++ [natSc tl]) ++ [natSc now]))).set
        "self.burst_bitcount" (.list (ys ++ [natSc bits])))) := by
  have ej : execStmt (limMeths now) env j1 = .ok (.next (env.set "last_time" (pint tl))) := stmt_j1 now env _ _ h3
  have hc := eval_sc now tl (env.set "last_time" (pint tl)) (by simp [set_get, h1]) (by simp [set_get]) (by simp [set_get, h5])
  have e2 : execStmt (limMeths now) (env.set "last_time" (pint tl)) j2 =
      .ok (.next (((env.set "last_time" (pint tl)).set "self.burst_time" (.list ((xs ++ [natSc tl]) ++ [natSc now]))).set
        "self.burst_bitcount" (.list (ys ++ [natSc bits])))) := by
    unfold j2
    rw [ite_step1 _ _ _ _ _ _ hc, decide_eq_true hold, if_pos rfl]
    exact newB_run now _ bits _ _ (by simp [set_get, h1]) (by simp [set_get, h2]) (by simp [set_get, h3]) (by simp [set_get, h4])
  unfold i4
  rw [ite_step1 _ _ _ _ _ false (eval_ec_concat now env _ _ h3), if_neg (by simp), cons_next1 ej, cons_next1 e2]
  rfl

/-- `else:` branch, the last slot is recent: its count grows -/
theorem i4_add (now : Nat) (env : Env) (bits tl bl : Nat) (xs ys : List Sc) (h1 : env "t" = some (pint now))
    (h2 : env "bytelen" = some (pint bits)) (h3 : env "self.burst_time" = some (.list (xs ++ [natSc tl])))
    (h4 : env "self.burst_bitcount" = some (.list (ys ++ [natSc bl]))) (h5 : env "self.TIME_SLOT_LENGTH" = some (pint slotNs))
    (hold : ¬ now - tl > slotNs) :
    execStmt (limMeths now) env i4 =
      .ok (.next ((env.set "last_time" (pint tl)).set "self.burst_bitcount" (.list (ys ++ [natSc (bl + bits)])))) := by
  have ej : execStmt (limMeths now) env j1 = .ok (.next (env.set "last_time" (pint tl))) := stmt_j1 now env _ _ h3
  have hc := eval_sc now tl (env.set "last_time" (pint tl)) (by simp [set_get, h1]) (by simp [set_get]) (by simp [set_get, h5])
  have e2 : execStmt (limMeths now) (env.set "last_time" (pint tl)) j2 =
      .ok (.next ((env.set "last_time" (pint tl)).set "self.burst_bitcount" (.list (ys ++ [natSc (bl + bits)])))) := by
    unfold j2
    rw [ite_step1 _ _ _ _ _ _ hc, decide_eq_false hold, if_neg (by simp)]
    exact addB_run now _ bits bl _ (by simp [set_get, h2]) (by simp [set_get, h4])
  unfold i4
  rw [ite_step1 _ _ _ _ _ false (eval_ec_concat now env _ _ h3), if_neg (by simp), cons_next1 ej, cons_next1 e2]
  rfl

/-- the body of `if self.enabled:` on an enabled limiter (no well-formedness needed: the total only grows) -/
theorem onB_run (sl : List (Nat × Nat)) (bt w now d : Nat) (env : Env) (hs : ShowsZ env true sl bt w)
    (hd : env "datalen" = some (pint d)) :
    ∃ env', execBlock (limMeths now) env onB = .ok (.next env') ∧
      ShowsZ env' true (Limiter.addToLast now (d * 8) sl) ((bt + d * 8 : Nat) : Int) w ∧
      ∀ k, k ∉ informKeys → env' k = env k := by
  let env3 : Env := ((env.set "bytelen" (pint ((d * 8 : Nat) : Int))).set "t" (pint now)).set "self.bit_total"
    (pint ((bt + d * 8 : Nat) : Int))
  have e1 := stmt_i1 now env d hd
  have e2 := stmt_clock now (env.set "bytelen" (pint ((d * 8 : Nat) : Int)))
  have e3 : execStmt (limMeths now) ((env.set "bytelen" (pint ((d * 8 : Nat) : Int))).set "t" (pint now)) i3 = .ok (.next env3) :=
    stmt_i3 now _ bt (d * 8) (by simp [set_get, hs.bitTotal]) (by simp [set_get])
  have l1 : env3 "t" = some (pint now) := by simp [env3, set_get]
  have l2 : env3 "bytelen" = some (pint ((d * 8 : Nat) : Int)) := by simp [env3, set_get]
  have l3 : env3 "self.burst_time" = some (.list (timesOf sl)) := by simp [env3, set_get, hs.times]
  have l4 : env3 "self.burst_bitcount" = some (.list (countsOf sl)) := by simp [env3, set_get, hs.counts]
  have l5 : env3 "self.TIME_SLOT_LENGTH" = some (pint slotNs) := by simp [env3, set_get, hs.slot]
  have hfr3 : ∀ k, k ∉ informKeys → env3 k = env k := by
    intro k hk
    simp only [informKeys, List.mem_cons, List.not_mem_nil, or_false, not_or] at hk
    simp [env3, set_get, hk]
  have hsh3 : env3 "self.enabled" = some (pbool true) ∧ env3 "self.bit_total" = some (pint ((bt + d * 8 : Nat) : Int)) ∧
      env3 "self.window_size_sec" = some (pint w) := by
    refine ⟨?_, ?_, ?_⟩ <;> simp [env3, set_get, hs.enabled, hs.window]
  -- it is enough to run the last statement from `env3`
  suffices h : ∃ env', execStmt (limMeths now) env3 i4 = .ok (.next env') ∧
      env' "self.burst_time" = some (.list (timesOf (Limiter.addToLast now (d * 8) sl))) ∧
      env' "self.burst_bitcount" = some (.list (countsOf (Limiter.addToLast now (d * 8) sl))) ∧
      ∀ k, k ≠ "last_time" → k ≠ "self.burst_time" → k ≠ "self.burst_bitcount" → env' k = env3 k by
    obtain ⟨env', h1, h2, h3, h4⟩ := h
    refine ⟨env', ?_, ?_, ?_⟩
    · unfold onB
      rw [cons_next1 e1, cons_next1 e2, cons_next1 e3, cons_next1 h1]
      rfl
    · exact ⟨by rw [h4 _ (by decide) (by decide) (by decide)]; exact hsh3.1,
        by rw [h4 _ (by decide) (by decide) (by decide)]; exact hsh3.2.1, h2, h3,
        by rw [h4 _ (by decide) (by decide) (by decide)]; exact hsh3.2.2,
        by rw [h4 _ (by decide) (by decide) (by decide)]; exact l5⟩
    · intro k hk
      have hk' := hk
      simp only [informKeys, List.mem_cons, List.not_mem_nil, or_false, not_or] at hk'
      rw [h4 k hk'.2.2.1 hk'.2.2.2.2.1 hk'.2.2.2.2.2, hfr3 k hk]
  rcases List.eq_nil_or_concat sl with rfl | ⟨init, ⟨tl, bl⟩, rfl⟩
  · -- no slot yet: a new one
    refine ⟨_, i4_nil now env3 (d * 8) _ l1 l2 l3 l4, ?_, ?_, ?_⟩
    · simp [set_get, Limiter.addToLast, timesOf]
    · simp [set_get, Limiter.addToLast, countsOf]
    · intro k _ hk2 hk3; simp [set_get, hk2, hk3]
  · -- the last slot is `(tl, bl)`
    simp only [List.concat_eq_append] at l3 l4 ⊢
    have l3' : env3 "self.burst_time" = some (.list (timesOf init ++ [natSc tl])) := by rw [l3, timesOf_append]; rfl
    have l4' : env3 "self.burst_bitcount" = some (.list (countsOf init ++ [natSc bl])) := by rw [l4, countsOf_append]; rfl
    rw [addToLast_concat]
    by_cases hold : now - tl > slotNs
    · -- older than a time slot: a new one
      refine ⟨_, i4_new now env3 (d * 8) tl _ _ l1 l2 l3' l4' l5 hold, ?_, ?_, ?_⟩
      · simp [hold, set_get, timesOf, countsOf]
      · simp [hold, set_get, timesOf, countsOf]
      · intro k hk1 hk2 hk3; simp [set_get, hk1, hk2, hk3]
    · -- same time slot: its count grows
      refine ⟨_, i4_add now env3 (d * 8) tl bl _ _ l1 l2 l3' l4' l5 hold, ?_, ?_, ?_⟩
      · simp [hold, set_get, timesOf, l3']
      · simp [hold, set_get, countsOf]
      · intro k hk1 _ hk3; simp [set_get, hk1, hk3]

/-- the model's `inform`, field by field -/
theorem inform_fields (l : Limiter) (now d : Nat) :
    (l.inform now d).enabled = l.enabled ∧
    (l.inform now d).slots = (if l.enabled then Limiter.addToLast now (d * 8) l.slots else l.slots) ∧
    (l.inform now d).bitTotal = (if l.enabled then l.bitTotal + d * 8 else l.bitTotal) := by
  cases he : l.enabled <;> simp [Limiter.inform, he]

/-- **`RateLimiter.inform_byte_sent` agrees with `Limiter.inform`** (first semantics): for EVERY limiter `l` (no well-formedness), window
    `w`, clock value `now`, `datalen`, and every environment that shows `l` and binds `datalen`, the call returns `None` in an environment
    that shows `l.inform now datalen`; only the names of `informKeys` may have changed (none of them on a disabled limiter). -/
theorem inform_byte_sent_agrees (l : Limiter) (w now datalen : Nat) (env : Env) (hs : Shows env l w)
    (hd : env "datalen" = some (pint datalen)) :
    ∃ env', runFn (limMeths now) env Src.RateLimiter_inform_byte_sent = .ok (pnone, env') ∧
      Shows env' (l.inform now datalen) w ∧ (∀ k, k ∉ informKeys → env' k = env k) ∧ (l.enabled = false → env' = env) := by
  obtain ⟨f1, f2, f3⟩ := inform_fields l now datalen
  have hc : eval (limMeths now) env (.var "self.enabled") = .ok (pbool l.enabled) := by simp only [eval, hs.enabled]
  unfold Shows at hs ⊢
  rw [f1, f2, f3]
  cases he : l.enabled with
  | false =>
    rw [he] at hs hc
    refine ⟨env, ?_, ?_, fun _ _ => rfl, fun _ => rfl⟩
    · unfold runFn
      rw [inform_src, cons_next1 (env' := env) (by rw [ite_step1 _ _ _ _ _ _ hc]; rfl)]
      rfl
    · simpa using hs
  | true =>
    rw [he] at hs hc
    obtain ⟨env', h1, h2, h3⟩ := onB_run l.slots l.bitTotal w now datalen env hs hd
    refine ⟨env', ?_, ?_, h3, fun h => by cases h⟩
    · unfold runFn
      rw [inform_src, cons_next1 (env' := env') (by rw [ite_step1 _ _ _ _ _ _ hc, if_pos rfl]; exact h1)]
      rfl
    · simpa using h2

theorem inform_shape : loopFreeB Src.RateLimiter_inform_byte_sent = true ∧ dumperShapeB Src.RateLimiter_inform_byte_sent = true ∧
    depthB Src.RateLimiter_inform_byte_sent = 13 := ⟨rfl, rfl, rfl⟩

/-- the same in the second semantics (through the bridge `run2_eq_runFn`: the body is loop-free) -/
theorem inform_byte_sent_agrees_run2 (l : Limiter) (w now datalen : Nat) (env : Env) (n : Nat) (hs : Shows env l w)
    (hd : env "datalen" = some (pint datalen)) (hn : 13 ≤ n) :
    ∃ env', run2 n (limMeths now) env Src.RateLimiter_inform_byte_sent = .ok (.ret pnone env') ∧
      Shows env' (l.inform now datalen) w ∧ (∀ k, k ∉ informKeys → env' k = env k) ∧ (l.enabled = false → env' = env) := by
  obtain ⟨env', h1, h2⟩ := inform_byte_sent_agrees l w now datalen env hs hd
  exact ⟨env', run2_eq_runFn _ _ n env env' pnone inform_shape.1 inform_shape.2.1 (by rw [inform_shape.2.2]; exact hn) h1, h2⟩

/-! ## 5. the hypotheses are satisfiable; concrete runs -/

/-- an environment that shows `l` and binds what the two methods read besides -/
def limEnv (l : Limiter) (w b datalen : Nat) : Env := fun k =>
  match k with
  | "self.enabled" => some (pbool l.enabled)
  | "self.bit_total" => some (pint l.bitTotal)
  | "self.burst_time" => some (.list (timesOf l.slots))
  | "self.burst_bitcount" => some (.list (countsOf l.slots))
  | "self.window_size_sec" => some (pint w)
  | "self.TIME_SLOT_LENGTH" => some (pint slotNs)
  | "self.mean_bitrate" => some (pint b)
  | "datalen" => some (pint datalen)
  | _ => none

theorem limEnv_shows (l : Limiter) (w b datalen : Nat) : Shows (limEnv l w b datalen) l w := ⟨rfl, rfl, rfl, rfl, rfl, rfl⟩

/-- `update_agrees` applies to every well-formed limiter -/
example (l : Limiter) (w now b : Nat) (h : l.WF) :
    ∃ env', run2 (l.slots.length + 11) (limMeths now) (limEnv l w b 0) Src.RateLimiter_update = .ok (.ret pnone env') ∧
      Shows env' (l.update w now) w := by
  obtain ⟨env', h1, h2, -⟩ := update_agrees l w now b (limEnv l w b 0) _ (limEnv_shows l w b 0) (fun _ => rfl) h (Nat.le_refl _)
  exact ⟨env', h1, h2⟩

/-- `inform_byte_sent_agrees` applies to every limiter -/
example (l : Limiter) (w now d : Nat) :
    ∃ env', runFn (limMeths now) (limEnv l w 0 d) Src.RateLimiter_inform_byte_sent = .ok (pnone, env') ∧
      Shows env' (l.inform now d) w := by
  obtain ⟨env', h1, h2, -⟩ := inform_byte_sent_agrees l w now d (limEnv l w 0 d) (limEnv_shows l w 0 d) rfl
  exact ⟨env', h1, h2⟩

/-- the well-formedness hypothesis holds of every state reached from the initial limiter by the three operations -/
example (w now d : Nat) : ((({} : Limiter).inform now d).update w (now + 1)).reset.WF :=
  wf_reset _

example (w now d : Nat) : ((({ enabled := true } : Limiter).inform now d).update w (now + 1)).WF :=
  wf_update _ w (now + 1) (wf_inform _ now d wf_init)

/-- a concrete `update`: two expired slots are dropped, the loop `break`s on the third (window 50, clock 100) -/
theorem update_example :
    let l : Limiter := { enabled := true, slots := [(10, 8), (20, 16), (95, 24)], bitTotal := 48 }
    l.WF ∧ l.update 50 100 = { enabled := true, slots := [(95, 24)], bitTotal := 24 } ∧
    ∃ env', run2 14 (limMeths 100) (limEnv l 50 0 0) Src.RateLimiter_update = .ok (.ret pnone env') ∧
      env' "self.burst_time" = some (.list [natSc 95]) ∧ env' "self.burst_bitcount" = some (.list [natSc 24]) ∧
      env' "self.bit_total" = some (pint 24) ∧ env' "t2" = some (pint 95) := by
  intro l
  have hwf : l.WF := by simp [l, Limiter.WF]
  have hu : l.update 50 100 = { enabled := true, slots := [(95, 24)], bitTotal := 24 } := by decide
  refine ⟨hwf, hu, ?_⟩
  obtain ⟨env', h1, h2, -⟩ := update_agrees l 50 100 0 (limEnv l 50 0 0) 14 (limEnv_shows l 50 0 0) (fun _ => rfl) hwf (by decide)
  rw [hu] at h2
  refine ⟨env', h1, h2.times, h2.counts, h2.bitTotal, ?_⟩
  -- `t2` is the head the loop stopped at: read it off the run itself
  have hrun : run2 14 (limMeths 100) (limEnv l 50 0 0) Src.RateLimiter_update =
      .ok (.ret pnone ((popEnv (popEnv ((limEnv l 50 0 0).set "t" (pint 100)) 10 8 [(20, 16), (95, 24)] 48) 20 16 [(95, 24)] 40).set
        "t2" (pint 95))) := rfl
  rw [hrun] at h1
  injection h1 with h1
  injection h1 with _ h1
  rw [← h1]
  rfl

/-- fuel: with every slot expired, `|slots| + 10` units are what the run needs (the theorem asks for one more) -/
theorem update_fuel :
    let l : Limiter := { enabled := true, slots := [(10, 8), (20, 16)], bitTotal := 24 }
    run2 11 (limMeths 100) (limEnv l 50 0 0) Src.RateLimiter_update = .error .outOfFuel ∧
    ∃ env', run2 12 (limMeths 100) (limEnv l 50 0 0) Src.RateLimiter_update = .ok (.ret pnone env') ∧
      env' "self.burst_time" = some (.list []) ∧ env' "self.bit_total" = some (pint 0) :=
  ⟨rfl, _, rfl, rfl, rfl⟩

/-- a concrete `inform_byte_sent` in each of the three branches (clock in ns, `slotNs = 5000000`) -/
theorem inform_example :
    let l0 : Limiter := { enabled := true }
    let l1 := l0.inform 1000 7            -- empty list: a new slot
    let l2 := l1.inform 2000 1            -- same time slot: the count grows
    let l3 := l2.inform 6000000 2         -- more than 5 ms later: a new slot
    l1 = { enabled := true, slots := [(1000, 56)], bitTotal := 56 } ∧
    l2 = { enabled := true, slots := [(1000, 64)], bitTotal := 64 } ∧
    l3 = { enabled := true, slots := [(1000, 64), (6000000, 16)], bitTotal := 80 } ∧
    (∃ env', runFn (limMeths 6000000) (limEnv l2 0 0 2) Src.RateLimiter_inform_byte_sent = .ok (pnone, env') ∧
      env' "self.burst_time" = some (.list [natSc 1000, natSc 6000000]) ∧
      env' "self.burst_bitcount" = some (.list [natSc 64, natSc 16]) ∧ env' "self.bit_total" = some (pint 80)) := by
  intro l0 l1 l2 l3
  have e1 : l1 = { enabled := true, slots := [(1000, 56)], bitTotal := 56 } := by decide
  have e2 : l2 = { enabled := true, slots := [(1000, 64)], bitTotal := 64 } := by decide
  have e3 : l3 = { enabled := true, slots := [(1000, 64), (6000000, 16)], bitTotal := 80 } := by decide
  refine ⟨e1, e2, e3, ?_⟩
  obtain ⟨env', h1, h2, -⟩ := inform_byte_sent_agrees l2 0 6000000 2 (limEnv l2 0 0 2) (limEnv_shows l2 0 0 2) rfl
  have e3' : l2.inform 6000000 2 = { enabled := true, slots := [(1000, 64), (6000000, 16)], bitTotal := 80 } := e3
  rw [e3'] at h2
  exact ⟨env', h1, h2.times, h2.counts, h2.bitTotal⟩

end Isotp.PyAgree.Lim

#print axioms Isotp.PyAgree.Lim.addToLast_concat
#print axioms Isotp.PyAgree.Lim.addToLast_getLast
#print axioms Isotp.PyAgree.Lim.expire_suffix
#print axioms Isotp.PyAgree.Lim.wf_default
#print axioms Isotp.PyAgree.Lim.wf_reset
#print axioms Isotp.PyAgree.Lim.wf_update
#print axioms Isotp.PyAgree.Lim.wf_inform
#print axioms Isotp.PyAgree.Lim.sub_gt_cast
#print axioms Isotp.PyAgree.Lim.reset_run
#print axioms Isotp.PyAgree.Lim.loop_run
#print axioms Isotp.PyAgree.Lim.update_run
#print axioms Isotp.PyAgree.Lim.update_agrees
#print axioms Isotp.PyAgree.Lim.update_drops_expired
#print axioms Isotp.PyAgree.Lim.update_needs_WF
#print axioms Isotp.PyAgree.Lim.onB_run
#print axioms Isotp.PyAgree.Lim.inform_byte_sent_agrees
#print axioms Isotp.PyAgree.Lim.inform_byte_sent_agrees_run2
#print axioms Isotp.PyAgree.Lim.update_example
#print axioms Isotp.PyAgree.Lim.update_fuel
#print axioms Isotp.PyAgree.Lim.inform_example
