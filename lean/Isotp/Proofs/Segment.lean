import Isotp.Spec.Segment
/-
  Helper lemmas for C01 (Spec level): the reference segmentation `Spec.segment` always produces a
  `Spec.WellFormed` stream, and a reference decoder `Spec.reassemble` inverts every well-formed
  stream. Self-contained: imports only the (frozen) reference definitions.
-/
namespace Isotp.Spec

/-- A valid transmit configuration (what `Params.validate` and the address classes guarantee):
    `tx_data_length` is a CAN FD size, `tx_data_min_length` (if set) is a legal non-zero CAN length not
    above `tx_data_length`, the padding byte is a byte, the address prefix is 0 or 1 byte. -/
def TxCfg.valid (c : TxCfg) : Prop :=
  validTxDl c.txDl ∧
  (match c.minLen with
    | none => True
    | some m => ((1 ≤ m ∧ m ≤ 8) ∨ validTxDl m) ∧ m ≤ c.txDl) ∧
  (match c.padding with
    | none => True
    | some b => b ≤ 255) ∧
  c.pre.length ≤ 1

instance (c : TxCfg) : Decidable c.valid := by
  unfold TxCfg.valid
  cases c.minLen <;> cases c.padding <;> exact inferInstance

/-! ### reference decoder (the inverse of a well-formed stream) -/

/-- payload bytes of a run of Consecutive Frames that must be numbered sn, sn+1, … (mod 16):
    strip the prefix, check the PCI byte, concatenate the data (padding of the last frame included) -/
def reassembleCfs (preLen : Nat) : Nat → List Bytes → Option Bytes
  | _, [] => some []
  | sn, f :: fs =>
    match f.drop preLen with
    | [] => none
    | pci :: d =>
      if pci = UInt8.ofNat (0x20 + sn % 16) then (reassembleCfs preLen (sn + 1) fs).map (d ++ ·)
      else none

/-- truncate the collected bytes to the announced length -/
def finish (n : Nat) (all : Bytes) : Option Bytes :=
  if 1 ≤ n ∧ n ≤ all.length then some (all.take n) else none

/-- Reference ISO-TP decoder of one complete frame sequence (data fields of the CAN frames):
    Single Frame (length in the low nibble, or escape form with the length in the second byte), or
    First Frame (12-bit length, or 32-bit escape form) followed by Consecutive Frames. -/
def reassemble (preLen : Nat) (frames : List Bytes) : Option Bytes :=
  match frames with
  | [] => none
  | f :: rest =>
    match f.drop preLen with
    | [] => none
    | pci :: body =>
      if pci.toNat / 16 = 0 then
        match rest with
        | _ :: _ => none
        | [] =>
          if pci.toNat % 16 ≠ 0 then finish (pci.toNat % 16) body
          else
            match body with
            | [] => none
            | l :: b => finish l.toNat b
      else if pci.toNat / 16 = 1 then
        match body with
        | [] => none
        | b1 :: b =>
          match reassembleCfs preLen 1 rest with
          | none => none
          | some t =>
            if pci.toNat % 16 * 256 + b1.toNat ≠ 0 then finish (pci.toNat % 16 * 256 + b1.toNat) (b ++ t)
            else
              match b with
              | a3 :: a2 :: a1 :: a0 :: b' =>
                finish (a3.toNat * 16777216 + a2.toNat * 65536 + a1.toNat * 256 + a0.toNat) (b' ++ t)
              | _ => none
      else none

end Isotp.Spec

namespace Isotp.Proofs.Seg
open Isotp Isotp.Spec

/-! ### legal lengths -/

theorem legal_iff (n : Nat) :
    legal n ↔ (n ≤ 8 ∨ n = 12 ∨ n = 16 ∨ n = 20 ∨ n = 24 ∨ n = 32 ∨ n = 48 ∨ n = 64) := by
  simp only [legal, legalLens, List.mem_cons, List.not_mem_nil, or_false]
  omega

theorem validTxDl_iff (n : Nat) :
    Spec.validTxDl n ↔ (n = 8 ∨ n = 12 ∨ n = 16 ∨ n = 20 ∨ n = 24 ∨ n = 32 ∨ n = 48 ∨ n = 64) := by
  simp [Spec.validTxDl]

theorem leastLegal_small : ∀ n : Fin 65, leastLegal n.val =
    if n.val ≤ 8 then n.val else if n.val ≤ 12 then 12 else if n.val ≤ 16 then 16 else if n.val ≤ 20 then 20
    else if n.val ≤ 24 then 24 else if n.val ≤ 32 then 32 else if n.val ≤ 48 then 48 else 64 := by
  decide

theorem leastLegal_big (n : Nat) (h : 64 < n) : leastLegal n = n := by
  have hk : ∀ k, k ≤ 64 → decide (n ≤ k) = false := by intro k hk; simp; omega
  have h0 : decide (n = 0) = false := by simp; omega
  simp [leastLegal, legalLens, List.find?, hk, h0]

/-- omega-friendly characterisation of `Spec.leastLegal` -/
theorem leastLegal_spec (x : Nat) :
    (x ≤ 8 → leastLegal x = x) ∧ (8 < x ∧ x ≤ 12 → leastLegal x = 12) ∧ (12 < x ∧ x ≤ 16 → leastLegal x = 16) ∧
    (16 < x ∧ x ≤ 20 → leastLegal x = 20) ∧ (20 < x ∧ x ≤ 24 → leastLegal x = 24) ∧
    (24 < x ∧ x ≤ 32 → leastLegal x = 32) ∧ (32 < x ∧ x ≤ 48 → leastLegal x = 48) ∧
    (48 < x ∧ x ≤ 64 → leastLegal x = 64) ∧ (64 < x → leastLegal x = x) := by
  by_cases h : x ≤ 64
  · have := leastLegal_small ⟨x, by omega⟩
    simp only at this
    rw [this]
    repeat' split
    all_goals omega
  · have := leastLegal_big x (by omega)
    omega

theorem leastLegal_ge (n : Nat) : n ≤ leastLegal n := by
  have := leastLegal_spec n; omega

theorem leastLegal_legal (n : Nat) (h : n ≤ 64) : legal (leastLegal n) := by
  rw [legal_iff]; have := leastLegal_spec n; omega

theorem leastLegal_of_le_8 (n : Nat) (h : n ≤ 8) : leastLegal n = n :=
  (leastLegal_spec n).1 h

theorem leastLegal_of_legal (n : Nat) (h : legal n) : leastLegal n = n := by
  rw [legal_iff] at h; have := leastLegal_spec n; omega

/-- `leastLegal n` is the least legal length that is at least `n` -/
theorem leastLegal_least (n m : Nat) (hm : legal m) (hnm : n ≤ m) : leastLegal n ≤ m := by
  rw [legal_iff] at hm; have := leastLegal_spec n; omega

theorem leastLegal_mono (a b : Nat) (h : a ≤ b) : leastLegal a ≤ leastLegal b := by
  have := leastLegal_spec a; have := leastLegal_spec b; omega

theorem leastLegal_le_8_iff (n : Nat) : leastLegal n ≤ 8 ↔ n ≤ 8 := by
  have := leastLegal_spec n; omega

/-! ### consequences of validity, in a form `omega` can use -/

structure Facts (c : TxCfg) : Prop where
  txDl : c.txDl = 8 ∨ c.txDl = 12 ∨ c.txDl = 16 ∨ c.txDl = 20 ∨ c.txDl = 24 ∨ c.txDl = 32 ∨ c.txDl = 48 ∨ c.txDl = 64
  floor : floorLen c ≤ 8 ∨ floorLen c = 12 ∨ floorLen c = 16 ∨ floorLen c = 20 ∨ floorLen c = 24 ∨
          floorLen c = 32 ∨ floorLen c = 48 ∨ floorLen c = 64
  floor_le : floorLen c ≤ c.txDl
  pre : c.pre.length ≤ 1

theorem facts (c : TxCfg) (hv : c.valid) : Facts c := by
  obtain ⟨h1, h2, -, h4⟩ := hv
  rw [validTxDl_iff] at h1
  refine ⟨h1, ?_, ?_, h4⟩
  · unfold floorLen
    cases hm : c.minLen with
    | none => simp only []; split <;> omega
    | some m =>
      rw [hm] at h2; simp only [validTxDl_iff] at h2 ⊢; omega
  · unfold floorLen
    cases hm : c.minLen with
    | none => simp only []; split <;> omega
    | some m =>
      rw [hm] at h2; simp only at h2 ⊢; omega

/-- `valid` in quantified form (matches `Proofs.ValidTx` of Proofs/Pad.lean plus the byte range of the
    padding value) — convenient for deriving it from the model's `Cfg.valid` -/
theorem valid_iff (c : TxCfg) : c.valid ↔
    Spec.validTxDl c.txDl ∧
    (∀ m, c.minLen = some m → ((1 ≤ m ∧ m ≤ 8) ∨ Spec.validTxDl m) ∧ m ≤ c.txDl) ∧
    (∀ b, c.padding = some b → b ≤ 255) ∧ c.pre.length ≤ 1 := by
  unfold TxCfg.valid
  cases c.minLen <;> cases c.padding <;> simp

theorem txDl_legal (c : TxCfg) (hv : c.valid) : legal c.txDl := by
  rw [legal_iff]; have := (facts c hv).txDl; omega

/-! ### padTarget / padFrame -/

theorem padTarget_ge (c : TxCfg) (n : Nat) : n ≤ padTarget c n := by
  unfold padTarget; have := leastLegal_ge (max n (floorLen c)); omega

theorem padTarget_ge_floor (c : TxCfg) (n : Nat) : floorLen c ≤ padTarget c n := by
  unfold padTarget; have := leastLegal_ge (max n (floorLen c)); omega

theorem padTarget_le (c : TxCfg) (hv : c.valid) (n : Nat) (hn : n ≤ c.txDl) : padTarget c n ≤ c.txDl := by
  unfold padTarget
  have f := facts c hv
  have := f.txDl; have := f.floor_le
  have := leastLegal_spec (max n (floorLen c)); omega

theorem padTarget_legal (c : TxCfg) (hv : c.valid) (n : Nat) (hn : n ≤ c.txDl) : legal (padTarget c n) := by
  unfold padTarget
  have f := facts c hv
  have := f.txDl; have := f.floor_le
  exact leastLegal_legal _ (by omega)

/-- a frame that already has the full link-layer size gets no padding -/
theorem padTarget_txDl (c : TxCfg) (hv : c.valid) : padTarget c c.txDl = c.txDl := by
  unfold padTarget
  have f := facts c hv
  have := f.txDl; have := f.floor_le
  have := leastLegal_spec (max c.txDl (floorLen c)); omega

/-- `padTarget` is the least legal length above both the data length and the floor -/
theorem padTarget_least (c : TxCfg) (n m : Nat) (hm : legal m) (hn : n ≤ m) (hf : floorLen c ≤ m) :
    padTarget c n ≤ m := by
  unfold padTarget; exact leastLegal_least _ _ hm (by omega)

theorem padFrame_eq (c : TxCfg) (d : Bytes) :
    padFrame c d = d ++ List.replicate (padTarget c d.length - d.length) (Spec.padByte c) := rfl

theorem length_padFrame (c : TxCfg) (d : Bytes) : (padFrame c d).length = padTarget c d.length := by
  have := padTarget_ge c d.length
  simp only [padFrame, List.length_append, List.length_replicate]; omega

theorem padFrame_prefix (c : TxCfg) (d : Bytes) : (padFrame c d).take d.length = d := by
  simp [padFrame]

theorem padFrame_full (c : TxCfg) (hv : c.valid) (d : Bytes) (hd : d.length = c.txDl) : padFrame c d = d := by
  simp [padFrame, hd, padTarget_txDl c hv]

/-! ### chunks -/

theorem chunksAux_fuel (k : Nat) (hk : 1 ≤ k) : ∀ (f g : Nat) (l : Bytes), l.length ≤ f → l.length ≤ g →
    chunksAux k f l = chunksAux k g l := by
  intro f
  induction f with
  | zero =>
    intro g l hf _
    have hl : l = [] := List.eq_nil_of_length_eq_zero (by omega)
    subst hl
    cases g <;> simp [chunksAux]
  | succ f ih =>
    intro g l hf hg
    cases g with
    | zero =>
      have hl : l = [] := List.eq_nil_of_length_eq_zero (by omega)
      subst hl
      simp [chunksAux]
    | succ g =>
      simp only [chunksAux]
      split
      · rfl
      · rename_i hne
        have hpos : 1 ≤ l.length := by
          cases l with
          | nil => simp at hne
          | cons a t => simp
        rw [ih g (l.drop k) (by simp only [List.length_drop]; omega) (by simp only [List.length_drop]; omega)]

/-- the defining equation of `chunks` (for a chunk size k ≥ 1) -/
theorem chunks_eq (k : Nat) (hk : 1 ≤ k) (l : Bytes) :
    chunks k l = if l = [] then [] else l.take k :: chunks k (l.drop k) := by
  cases l with
  | nil => rfl
  | cons a t =>
    simp only [chunks, List.length_cons, chunksAux, List.isEmpty_cons, Bool.false_eq_true, if_false,
      reduceCtorEq]
    rw [chunksAux_fuel k hk t.length _ _ (by simp only [List.length_drop, List.length_cons]; omega) (Nat.le_refl _)]

theorem chunks_nil (k : Nat) : chunks k [] = [] := rfl

theorem chunks_eq_nil_iff (k : Nat) (hk : 1 ≤ k) (l : Bytes) : chunks k l = [] ↔ l = [] := by
  rw [chunks_eq k hk]
  by_cases h : l = [] <;> simp [h]

theorem chunks_flatten (k : Nat) (hk : 1 ≤ k) : ∀ (n : Nat) (l : Bytes), l.length = n → (chunks k l).flatten = l := by
  intro n
  induction n using Nat.strongRecOn with
  | _ n ih =>
    intro l hl
    rw [chunks_eq k hk]
    by_cases h : l = []
    · simp [h]
    · have hpos : 1 ≤ l.length := by
        cases l with
        | nil => exact absurd rfl h
        | cons a t => simp
      simp only [h, if_false, List.flatten_cons]
      rw [ih (l.drop k).length (by simp only [List.length_drop]; omega) _ rfl, List.take_append_drop]

/-- shape of `chunks k l` for non-empty `l`: full chunks followed by one last chunk of 1..k bytes -/
theorem chunks_struct (k : Nat) (hk : 1 ≤ k) : ∀ (n : Nat) (l : Bytes), l.length = n → l ≠ [] →
    ∃ ds dl, chunks k l = ds ++ [dl] ∧ (∀ d ∈ ds, d.length = k) ∧ 1 ≤ dl.length ∧ dl.length ≤ k ∧
      ds.length * k + dl.length = l.length := by
  intro n
  induction n using Nat.strongRecOn with
  | _ n ih =>
    intro l hl hne
    have hpos : 1 ≤ l.length := by
      cases l with
      | nil => exact absurd rfl hne
      | cons a t => simp
    rw [chunks_eq k hk]
    simp only [hne, if_false]
    by_cases hle : l.length ≤ k
    · refine ⟨[], l, ?_, by simp, hpos, hle, by simp⟩
      rw [List.drop_eq_nil_of_le hle, chunks_nil, List.take_of_length_le hle]; rfl
    · have hne' : l.drop k ≠ [] := by
        intro h
        have := congrArg List.length h
        simp only [List.length_drop, List.length_nil] at this; omega
      obtain ⟨ds, dl, h1, h2, h3, h4, h5⟩ :=
        ih (l.drop k).length (by simp only [List.length_drop]; omega) (l.drop k) rfl hne'
      refine ⟨l.take k :: ds, dl, by rw [h1]; rfl, ?_, h3, h4, ?_⟩
      · intro d hd
        rcases List.mem_cons.mp hd with rfl | hd
        · simp only [List.length_take]; omega
        · exact h2 d hd
      · simp only [List.length_drop] at h5
        simp only [List.length_cons, Nat.add_mul]; omega

/-- number of chunks = ⌈|l| / k⌉ -/
theorem chunks_length (k : Nat) (hk : 1 ≤ k) (l : Bytes) : (chunks k l).length = (l.length + k - 1) / k := by
  by_cases h : l = []
  · subst h
    simp only [chunks_nil, List.length_nil, Nat.zero_add]
    exact (Nat.div_eq_of_lt (by omega)).symm
  · obtain ⟨ds, dl, h1, -, h3, h4, h5⟩ := chunks_struct k hk _ l rfl h
    rw [h1, ← h5]
    simp only [List.length_append, List.length_cons, List.length_nil]
    symm
    apply Nat.div_eq_of_lt_le
    · rw [Nat.add_mul]; omega
    · rw [Nat.add_mul, Nat.add_mul]; omega

theorem chunks_mem_length (k : Nat) (hk : 1 ≤ k) (l : Bytes) (d : Bytes) (hd : d ∈ chunks k l) :
    1 ≤ d.length ∧ d.length ≤ k := by
  by_cases h : l = []
  · subst h; simp [chunks_nil] at hd
  · obtain ⟨ds, dl, h1, h2, h3, h4, -⟩ := chunks_struct k hk _ l rfl h
    rw [h1] at hd
    rcases List.mem_append.mp hd with hd | hd
    · have := h2 d hd; omega
    · simp only [List.mem_cons, List.not_mem_nil, or_false] at hd; subst hd; omega

/-- every chunk but the last is full -/
theorem chunks_getElem_length (k : Nat) (hk : 1 ≤ k) (l : Bytes) (i : Nat) (hi : i + 1 < (chunks k l).length) :
    ((chunks k l)[i]'(by omega)).length = k := by
  have h : l ≠ [] := by intro h; subst h; simp [chunks_nil] at hi
  obtain ⟨ds, dl, h1, h2, -, -, -⟩ := chunks_struct k hk _ l rfl h
  have hi' : i < ds.length := by
    rw [h1] at hi; simp only [List.length_append, List.length_cons, List.length_nil] at hi; omega
  have : (chunks k l)[i]'(by omega) = ds[i] := by
    simp only [h1]; exact List.getElem_append_left hi'
  rw [this]
  exact h2 _ (List.getElem_mem hi')

/-- the last chunk carries between 1 and k bytes -/
theorem chunks_getLast_length (k : Nat) (hk : 1 ≤ k) (l : Bytes) (h : chunks k l ≠ []) :
    1 ≤ ((chunks k l).getLast h).length ∧ ((chunks k l).getLast h).length ≤ k :=
  chunks_mem_length k hk l _ (List.getLast_mem h)

/-! ### Consecutive Frames -/

theorem cfFrames_append (c : TxCfg) : ∀ (ds : List Bytes) (sn : Nat) (es : List Bytes),
    cfFrames c sn (ds ++ es) = cfFrames c sn ds ++ cfFrames c (sn + ds.length) es := by
  intro ds
  induction ds with
  | nil => intro sn es; simp [cfFrames]
  | cons d ds ih =>
    intro sn es
    simp only [List.cons_append, cfFrames, ih, List.length_cons]
    rw [show sn + 1 + ds.length = sn + (ds.length + 1) by omega]

theorem length_cfFrames (c : TxCfg) : ∀ (ds : List Bytes) (sn : Nat), (cfFrames c sn ds).length = ds.length := by
  intro ds
  induction ds with
  | nil => intro sn; rfl
  | cons d ds ih => intro sn; simp only [cfFrames, List.length_cons, ih]

theorem cfRoom_add (c : TxCfg) (hv : c.valid) : c.pre.length + 1 + cfRoom c = c.txDl := by
  have f := facts c hv
  have := f.txDl; have := f.pre
  unfold cfRoom; omega

theorem cfRoom_pos (c : TxCfg) (hv : c.valid) : 1 ≤ cfRoom c := by
  have f := facts c hv
  have := f.txDl; have := f.pre
  unfold cfRoom; omega

/-- full Consecutive Frames get no padding -/
theorem cfFrames_full (c : TxCfg) (hv : c.valid) : ∀ (ds : List Bytes) (sn : Nat),
    (∀ d ∈ ds, d.length = cfRoom c) →
    cfFrames c sn ds =
      (List.range ds.length).map (fun i => c.pre ++ [UInt8.ofNat (0x20 + (i + sn) % 16)] ++ ds.getD i []) := by
  intro ds
  induction ds with
  | nil => intro sn _; rfl
  | cons d ds ih =>
    intro sn hall
    have hd : d.length = cfRoom c := hall d (List.mem_cons_self)
    have hds : ∀ e ∈ ds, e.length = cfRoom c := fun e he => hall e (List.mem_cons_of_mem _ he)
    simp only [cfFrames, List.length_cons, List.range_succ_eq_map, List.map_cons, List.map_map]
    congr 1
    · rw [padFrame_full c hv]
      · simp
      · have := cfRoom_add c hv
        simp only [List.length_append, List.length_cons, List.length_nil]; omega
    · rw [ih (sn + 1) hds]
      apply List.map_congr_left
      intro i _
      simp only [Function.comp, List.getD_cons_succ]
      rw [show i + (sn + 1) = i + 1 + sn by omega]

/-! ### the three forms of the segmentation -/

theorem ffRoom_lt_of_not_sf (c : TxCfg) (hv : c.valid) (n : Nat) (h1 : ¬ sfShort c n) (h2 : ¬ sfEscape c n) :
    ffRoom c n < n := by
  have f := facts c hv
  have := f.txDl; have := f.pre
  have h3 : ¬ (c.pre.length + 2 + n ≤ c.txDl) := fun h => h2 ⟨h1, h⟩
  unfold ffRoom; split <;> omega

theorem ffHeader_length (n : Nat) : (ffHeader n).length = if n ≤ 4095 then 2 else 6 := by
  unfold ffHeader; split <;> rfl

theorem ffHeader_add_ffRoom (c : TxCfg) (hv : c.valid) (n : Nat) :
    c.pre.length + (ffHeader n).length + ffRoom c n = c.txDl := by
  have f := facts c hv
  have := f.txDl; have := f.pre
  rw [ffHeader_length]; unfold ffRoom; split <;> omega

theorem segment_cases (c : TxCfg) (p : Bytes) :
    (sfShort c p.length ∧ segment c p = [padFrame c (c.pre ++ [UInt8.ofNat p.length] ++ p)]) ∨
    (¬ sfShort c p.length ∧ sfEscape c p.length ∧
        segment c p = [padFrame c (c.pre ++ [0x00, UInt8.ofNat p.length] ++ p)]) ∨
    (¬ sfShort c p.length ∧ ¬ sfEscape c p.length ∧
        segment c p = padFrame c (c.pre ++ ffHeader p.length ++ p.take (ffRoom c p.length))
          :: cfFrames c 1 (chunks (cfRoom c) (p.drop (ffRoom c p.length)))) := by
  unfold segment
  by_cases h1 : sfShort c p.length
  · left; simp [h1]
  · by_cases h2 : sfEscape c p.length
    · right; left; simp [h1, h2]
    · right; right; simp [h1, h2]

/-- arithmetic reading of `sfShort`: the unpadded Single Frame fits 8 bytes and the padding floor does
    not push it above 8 -/
theorem sfShort_iff (c : TxCfg) (n : Nat) : sfShort c n ↔ c.pre.length + 1 + n ≤ 8 ∧ floorLen c ≤ 8 := by
  unfold sfShort padTarget
  rw [leastLegal_le_8_iff]; omega

/-- with classic CAN frames (`txDl = 8`) the escape form is never used -/
theorem not_sfEscape_of_txDl_8 (c : TxCfg) (hv : c.valid) (h8 : c.txDl = 8) (n : Nat) : ¬ sfEscape c n := by
  have f := facts c hv
  have := f.floor_le
  rintro ⟨h1, h2⟩
  rw [sfShort_iff] at h1; omega

/-! ### the reference segmentation is well-formed -/

theorem wf_short (c : TxCfg) (p : Bytes) (hp : 1 ≤ p.length) (h : sfShort c p.length) :
    WfSfShort c.pre p [padFrame c (c.pre ++ [UInt8.ofNat p.length] ++ p)] := by
  refine ⟨List.replicate (padTarget c (c.pre ++ [UInt8.ofNat p.length] ++ p).length -
      (c.pre ++ [UInt8.ofNat p.length] ++ p).length) (Spec.padByte c), hp, ?_, ?_, rfl⟩
  · rw [sfShort_iff] at h; omega
  · have h1 := length_padFrame c (c.pre ++ [UInt8.ofNat p.length] ++ p)
    rw [padFrame_eq] at h1
    rw [h1]
    unfold sfShort at h
    rwa [show (c.pre ++ [UInt8.ofNat p.length] ++ p).length = c.pre.length + 1 + p.length by
      simp only [List.length_append, List.length_cons, List.length_nil]]

theorem wf_escape (c : TxCfg) (hv : c.valid) (p : Bytes) (hp : 1 ≤ p.length)
    (hs : ¬ sfShort c p.length) (h : sfEscape c p.length) :
    WfSfEscape c.pre p [padFrame c (c.pre ++ [0x00, UInt8.ofNat p.length] ++ p)] := by
  have hlen : (c.pre ++ [0x00, UInt8.ofNat p.length] ++ p).length = c.pre.length + 2 + p.length := by
    simp only [List.length_append, List.length_cons, List.length_nil]
  have h1 := length_padFrame c (c.pre ++ [0x00, UInt8.ofNat p.length] ++ p)
  rw [padFrame_eq] at h1
  refine ⟨List.replicate (padTarget c (c.pre ++ [0x00, UInt8.ofNat p.length] ++ p).length -
      (c.pre ++ [0x00, UInt8.ofNat p.length] ++ p).length) (Spec.padByte c), hp, ?_, ?_, rfl⟩
  · rw [h1, hlen]
    rw [sfShort_iff] at hs
    have := padTarget_ge c (c.pre.length + 2 + p.length)
    have := padTarget_ge_floor c (c.pre.length + 2 + p.length)
    have : ¬ (padTarget c (c.pre.length + 2 + p.length) ≤ 8) := by
      unfold padTarget; rw [leastLegal_le_8_iff]; omega
    omega
  · rw [h1, hlen]
    exact padTarget_legal c hv _ h.2

theorem wf_segmented (c : TxCfg) (hv : c.valid) (p : Bytes) (hp : p.length < 4294967296)
    (hs : ¬ sfShort c p.length) (he : ¬ sfEscape c p.length) :
    WfSegmented c.pre p (padFrame c (c.pre ++ ffHeader p.length ++ p.take (ffRoom c p.length))
          :: cfFrames c 1 (chunks (cfRoom c) (p.drop (ffRoom c p.length)))) := by
  have hgt := ffRoom_lt_of_not_sf c hv p.length hs he
  have hne : p.drop (ffRoom c p.length) ≠ [] := by
    intro h
    have := congrArg List.length h
    simp only [List.length_drop, List.length_nil] at this; omega
  obtain ⟨ds, dl, h1, h2, h3, h4, -⟩ := chunks_struct (cfRoom c) (cfRoom_pos c hv) _ _ rfl hne
  have hadd := cfRoom_add c hv
  have hdl : c.pre.length + 1 + dl.length ≤ c.txDl := by omega
  have hpt := padTarget_ge c (c.pre.length + 1 + dl.length)
  refine ⟨c.txDl, List.replicate (padTarget c (c.pre.length + 1 + dl.length) - (c.pre.length + 1 + dl.length))
      (Spec.padByte c), ds, dl, hv.1, hp, hgt, h1, ?_, ?_, ?_⟩
  · rw [List.length_replicate]
    have := padTarget_legal c hv _ hdl
    rwa [show c.pre.length + 1 + dl.length + (padTarget c (c.pre.length + 1 + dl.length) - (c.pre.length + 1 + dl.length))
      = padTarget c (c.pre.length + 1 + dl.length) by omega]
  · rw [List.length_replicate]
    have := padTarget_le c hv _ hdl
    omega
  · show _ = (c.pre ++ ffHeader p.length ++ p.take (ffRoom c p.length))
        :: ((List.range ds.length).map (fun i => cfOf c.pre i (ds.getD i []))) ++ _
    rw [padFrame_full c hv]
    · rw [h1, cfFrames_append, cfFrames_full c hv ds 1 h2]
      simp only [cfFrames, padFrame_eq, cfOf, List.cons_append, List.length_append, List.length_cons,
        List.length_nil, List.append_assoc]
      rw [show 1 + ds.length = ds.length + 1 by omega,
        show c.pre.length + (0 + dl.length + 1) = c.pre.length + 1 + dl.length by omega]
    · have := ffHeader_add_ffRoom c hv p.length
      simp only [List.length_append, List.length_take]
      omega

/-- main bridge theorem: the reference segmentation of a valid configuration is always a stream that
    every conforming receiver must accept -/
theorem segment_wellFormed (c : TxCfg) (hv : c.valid) (p : Bytes) (h1 : 1 ≤ p.length) (h2 : p.length < 4294967296) :
    WellFormed c.pre p (segment c p) := by
  rcases segment_cases c p with ⟨hs, heq⟩ | ⟨hs, he, heq⟩ | ⟨hs, he, heq⟩
  · rw [heq]; exact Or.inl (wf_short c p h1 hs)
  · rw [heq]; exact Or.inr (Or.inl (wf_escape c hv p h1 hs he))
  · rw [heq]; exact Or.inr (Or.inr (wf_segmented c hv p h2 hs he))

/-! ### frame lengths and frame count (C02 at the Spec level) -/

theorem padFrame_length_ok (c : TxCfg) (hv : c.valid) (d : Bytes) (hd : d.length ≤ c.txDl) :
    legal (padFrame c d).length ∧ (padFrame c d).length ≤ c.txDl ∧ floorLen c ≤ (padFrame c d).length := by
  rw [length_padFrame]
  exact ⟨padTarget_legal c hv _ hd, padTarget_le c hv _ hd, padTarget_ge_floor c _⟩

theorem cfFrames_length_ok (c : TxCfg) (hv : c.valid) : ∀ (ds : List Bytes) (sn : Nat),
    (∀ d ∈ ds, d.length ≤ cfRoom c) →
    ∀ f ∈ cfFrames c sn ds, legal f.length ∧ f.length ≤ c.txDl ∧ floorLen c ≤ f.length := by
  intro ds
  induction ds with
  | nil => intro sn _ f hf; simp [cfFrames] at hf
  | cons d ds ih =>
    intro sn hall f hf
    simp only [cfFrames, List.mem_cons] at hf
    rcases hf with rfl | hf
    · apply padFrame_length_ok c hv
      have := cfRoom_add c hv
      have := hall d List.mem_cons_self
      simp only [List.length_append, List.length_cons, List.length_nil]; omega
    · exact ih (sn + 1) (fun e he => hall e (List.mem_cons_of_mem _ he)) f hf

theorem segment_frame_lengths (c : TxCfg) (hv : c.valid) (p : Bytes) :
    ∀ f ∈ segment c p, legal f.length ∧ f.length ≤ c.txDl ∧ floorLen c ≤ f.length := by
  have fc := facts c hv
  have := fc.txDl
  intro f hf
  rcases segment_cases c p with ⟨hs, heq⟩ | ⟨hs, he, heq⟩ | ⟨hs, he, heq⟩
  · rw [heq] at hf
    simp only [List.mem_cons, List.not_mem_nil, or_false] at hf; subst hf
    apply padFrame_length_ok c hv
    rw [sfShort_iff] at hs
    simp only [List.length_append, List.length_cons, List.length_nil]; omega
  · rw [heq] at hf
    simp only [List.mem_cons, List.not_mem_nil, or_false] at hf; subst hf
    apply padFrame_length_ok c hv
    have := he.2
    simp only [List.length_append, List.length_cons, List.length_nil]; omega
  · rw [heq] at hf
    rcases List.mem_cons.mp hf with rfl | hf
    · apply padFrame_length_ok c hv
      have := ffHeader_add_ffRoom c hv p.length
      simp only [List.length_append, List.length_take]; omega
    · exact cfFrames_length_ok c hv _ 1
        (fun d hd => (chunks_mem_length _ (cfRoom_pos c hv) _ d hd).2) f hf

theorem segment_count (c : TxCfg) (hv : c.valid) (p : Bytes) :
    (segment c p).length =
      if sfShort c p.length ∨ sfEscape c p.length then 1
      else 1 + (p.length - ffRoom c p.length + cfRoom c - 1) / cfRoom c := by
  rcases segment_cases c p with ⟨hs, heq⟩ | ⟨hs, he, heq⟩ | ⟨hs, he, heq⟩
  · rw [heq]; simp [hs]
  · rw [heq]; simp [he]
  · rw [heq]
    simp only [hs, he, or_self, if_false, List.length_cons, length_cfFrames,
      chunks_length _ (cfRoom_pos c hv), List.length_drop]
    omega

/-! ### the reference decoder inverts every well-formed stream -/

/-- unpadded Consecutive Frames numbered sn, sn+1, … -/
def plainCfs (pre : Bytes) : Nat → List Bytes → List Bytes
  | _, [] => []
  | sn, d :: ds => (pre ++ [UInt8.ofNat (0x20 + sn % 16)] ++ d) :: plainCfs pre (sn + 1) ds

theorem plainCfs_eq_map (pre : Bytes) : ∀ (ds : List Bytes) (sn : Nat),
    (List.range ds.length).map (fun i => pre ++ [UInt8.ofNat (0x20 + (i + sn) % 16)] ++ ds.getD i []) =
      plainCfs pre sn ds := by
  intro ds
  induction ds with
  | nil => intro sn; rfl
  | cons d ds ih =>
    intro sn
    simp only [plainCfs, List.length_cons, List.range_succ_eq_map, List.map_cons, List.map_map]
    congr 1
    · simp
    · rw [← ih (sn + 1)]
      apply List.map_congr_left
      intro i _
      simp only [Function.comp, List.getD_cons_succ]
      rw [show i + (sn + 1) = i + 1 + sn by omega]

theorem reassembleCfs_plain (pre : Bytes) : ∀ (ds : List Bytes) (sn : Nat) (rest : List Bytes),
    reassembleCfs pre.length sn (plainCfs pre sn ds ++ rest) =
      (reassembleCfs pre.length (sn + ds.length) rest).map (ds.flatten ++ ·) := by
  intro ds
  induction ds with
  | nil => intro sn rest; simp [plainCfs]
  | cons d ds ih =>
    intro sn rest
    simp only [plainCfs, List.cons_append, reassembleCfs, List.append_assoc, List.drop_left,
      List.nil_append, if_true, ih, List.length_cons, List.flatten_cons, Option.map_map]
    rw [show sn + 1 + ds.length = sn + (ds.length + 1) by omega]
    congr 1

theorem finish_take (n : Nat) (p pad : Bytes) (hn : 1 ≤ n) (hp : p.length = n) : finish n (p ++ pad) = some p := by
  unfold finish
  rw [if_pos ⟨hn, by simp only [List.length_append]; omega⟩, List.take_left' hp]

theorem toNat_ofNat (n : Nat) : (UInt8.ofNat n).toNat = n % 256 := UInt8.toNat_ofNat'

theorem reassemble_short (pre p : Bytes) (frames : List Bytes) (h : WfSfShort pre p frames) :
    reassemble pre.length frames = some p := by
  obtain ⟨pad, h1, h2, -, rfl⟩ := h
  have hb : (UInt8.ofNat p.length).toNat = p.length := by rw [toNat_ofNat]; omega
  have e : pre ++ [UInt8.ofNat p.length] ++ p ++ pad = pre ++ (UInt8.ofNat p.length :: (p ++ pad)) := by simp
  rw [e]
  simp only [reassemble, List.drop_left, hb]
  rw [if_pos (by omega), if_pos (by omega), show p.length % 16 = p.length by omega]
  exact finish_take _ _ _ h1 rfl

theorem reassemble_escape (pre p : Bytes) (frames : List Bytes) (h : WfSfEscape pre p frames) :
    reassemble pre.length frames = some p := by
  obtain ⟨pad, h1, -, h3, rfl⟩ := h
  have hlen : p.length ≤ 62 := by
    rw [legal_iff] at h3
    simp only [List.length_append, List.length_cons, List.length_nil] at h3; omega
  have hb : (UInt8.ofNat p.length).toNat = p.length := by rw [toNat_ofNat]; omega
  have h0 : (0x00 : UInt8).toNat = 0 := rfl
  have e : pre ++ [0x00, UInt8.ofNat p.length] ++ p ++ pad = pre ++ (0x00 :: UInt8.ofNat p.length :: (p ++ pad)) := by simp
  rw [e]
  simp only [reassemble, List.drop_left, h0, hb]
  simp only [Nat.zero_div, if_true, Nat.zero_mod, ne_eq, not_true_eq_false, if_false]
  exact finish_take _ _ _ h1 rfl

theorem ffHeader_decode_short (n : Nat) (hn : n ≤ 4095) :
    ∃ b0 b1 : UInt8, ffHeader n = [b0, b1] ∧ b0.toNat / 16 = 1 ∧ b0.toNat % 16 * 256 + b1.toNat = n := by
  refine ⟨_, _, by unfold ffHeader; rw [if_pos hn], ?_, ?_⟩
  · rw [toNat_ofNat]; omega
  · rw [toNat_ofNat, toNat_ofNat]; omega

theorem ffHeader_decode_long (n : Nat) (hn : 4095 < n) (hn2 : n < 4294967296) :
    ∃ b0 b1 a3 a2 a1 a0 : UInt8, ffHeader n = [b0, b1, a3, a2, a1, a0] ∧ b0.toNat / 16 = 1 ∧
      b0.toNat % 16 * 256 + b1.toNat = 0 ∧
      a3.toNat * 16777216 + a2.toNat * 65536 + a1.toNat * 256 + a0.toNat = n := by
  refine ⟨_, _, _, _, _, _, by unfold ffHeader be32; rw [if_neg (by omega)]; rfl, by decide, by decide, ?_⟩
  simp only [toNat_ofNat]; omega

theorem reassemble_segmented (pre p : Bytes) (hpre : pre.length ≤ 6) (frames : List Bytes)
    (h : WfSegmented pre p frames) : reassemble pre.length frames = some p := by
  obtain ⟨txDl, pad, ds, dl, h1, h2, h3, h4, -, -, rfl⟩ := h
  rw [validTxDl_iff] at h1
  have hk : 1 ≤ cfRoom (streamCfg txDl pre) := by
    show 1 ≤ txDl - 1 - pre.length
    omega
  generalize hR : ffRoom (streamCfg txDl pre) p.length = R at *
  have hflat := chunks_flatten _ hk _ (p.drop R) rfl
  rw [h4] at hflat
  -- the Consecutive Frames decode to the remaining payload followed by the padding
  have hcfs : reassembleCfs pre.length 1
      ((List.range ds.length).map (fun i => cfOf pre i (ds.getD i [])) ++ [cfOf pre ds.length (dl ++ pad)])
      = some (p.drop R ++ pad) := by
    have := plainCfs_eq_map pre ds 1
    simp only [cfOf] at this ⊢
    rw [this, reassembleCfs_plain]
    rw [show 1 + ds.length = ds.length + 1 by omega]
    simp only [reassembleCfs, List.append_assoc, List.drop_left, List.cons_append, List.nil_append,
      if_true, Option.map_some, List.append_nil]
    rw [← hflat]; simp
  have hall : ∀ (hd : Bytes), hd ++ p.take R ++ (p.drop R ++ pad) = hd ++ (p ++ pad) := by
    intro hd
    rw [List.append_assoc, ← List.append_assoc (p.take R), List.take_append_drop]
  by_cases hn : p.length ≤ 4095
  · obtain ⟨b0, b1, e, e1, e2⟩ := ffHeader_decode_short p.length hn
    rw [e]
    have e' : pre ++ [b0, b1] ++ p.take R = pre ++ (b0 :: b1 :: p.take R) := by simp
    simp only [List.cons_append, e', reassemble, List.drop_left, e1, hcfs, e2]
    rw [if_pos trivial, if_pos (show p.length ≠ 0 by omega)]
    have := hall []
    simp only [List.nil_append] at this
    rw [this]
    exact finish_take _ _ _ (by omega) rfl
  · obtain ⟨b0, b1, a3, a2, a1, a0, e, e1, e2, e3⟩ := ffHeader_decode_long p.length (by omega) h2
    rw [e]
    have e' : pre ++ [b0, b1, a3, a2, a1, a0] ++ p.take R = pre ++ (b0 :: b1 :: a3 :: a2 :: a1 :: a0 :: p.take R) := by simp
    simp only [List.cons_append, e', reassemble, List.drop_left, e1, hcfs, e2, e3]
    rw [if_pos trivial, if_neg (show ¬ (0 ≠ 0) by omega)]
    have := hall []
    simp only [List.nil_append] at this
    rw [this]
    exact finish_take _ _ _ (by omega) rfl

/-- the reference decoder inverts every well-formed stream (prefix of at most 6 bytes, so that a
    Consecutive Frame of the smallest link-layer size still carries at least one payload byte) -/
theorem reassemble_wellFormed (pre p : Bytes) (hpre : pre.length ≤ 6) (frames : List Bytes)
    (h : WellFormed pre p frames) : reassemble pre.length frames = some p := by
  rcases h with h | h | h
  · exact reassemble_short pre p frames h
  · exact reassemble_escape pre p frames h
  · exact reassemble_segmented pre p hpre frames h

theorem reassemble_segment (c : TxCfg) (hv : c.valid) (p : Bytes) (h1 : 1 ≤ p.length) (h2 : p.length < 4294967296) :
    reassemble c.pre.length (segment c p) = some p :=
  reassemble_wellFormed c.pre p (by have := (facts c hv).pre; omega) _ (segment_wellFormed c hv p h1 h2)

/-- a stream is a well-formed encoding of at most one payload -/
theorem wellFormed_unique (pre p q : Bytes) (hpre : pre.length ≤ 6) (frames : List Bytes)
    (hp : WellFormed pre p frames) (hq : WellFormed pre q frames) : p = q := by
  have h1 := reassemble_wellFormed pre p hpre frames hp
  have h2 := reassemble_wellFormed pre q hpre frames hq
  rw [h1] at h2
  exact Option.some.inj h2

theorem segment_injective (c : TxCfg) (hv : c.valid) (p q : Bytes)
    (hp1 : 1 ≤ p.length) (hp2 : p.length < 4294967296) (hq1 : 1 ≤ q.length) (hq2 : q.length < 4294967296)
    (h : segment c p = segment c q) : p = q := by
  have h1 := reassemble_segment c hv p hp1 hp2
  have h2 := reassemble_segment c hv q hq1 hq2
  rw [h, h2] at h1
  exact (Option.some.inj h1).symm

/-- Without a bound on the prefix length `WellFormed` is not functional: with a 7-byte prefix and
    8-byte frames neither the First Frame nor a Consecutive Frame has room for payload
    (`ffRoom = cfRoom = 0`, truncated subtraction), and the same two frames are a "well-formed"
    encoding of every 1-byte payload. (`WellFormed` is documented for a prefix of 0 or 1 byte.) -/
theorem wellFormed_long_prefix_ambiguous :
    WellFormed [1, 2, 3, 4, 5, 6, 7] [1] [[1, 2, 3, 4, 5, 6, 7, 0x10, 0x01], [1, 2, 3, 4, 5, 6, 7, 0x21]] ∧
    WellFormed [1, 2, 3, 4, 5, 6, 7] [2] [[1, 2, 3, 4, 5, 6, 7, 0x10, 0x01], [1, 2, 3, 4, 5, 6, 7, 0x21]] := by
  constructor
  · exact Or.inr (Or.inr ⟨8, [], [], [], by decide, by decide, by decide, by decide, by decide, by decide, by decide⟩)
  · exact Or.inr (Or.inr ⟨8, [], [], [], by decide, by decide, by decide, by decide, by decide, by decide, by decide⟩)

end Isotp.Proofs.Seg
