import Isotp.Proofs.Tx
import Isotp.Proofs.Segment
import Isotp.Proofs.NetTxLog
import Isotp.Proofs.NetRecv
/-
  Network-level safety (C01 / C10), part 5: the sending role of a layer.

  `SendInv` (`sender_stream`): as long as no error is reported, the data frames (everything but the Flow Control
  frames) the layer has handed to `txfn` are, in order, the segmentations of the payloads of the accepted `send()`
  calls, in the order of the calls: all the frames of the completed ones, then a prefix of the frames of the one in
  transmission; and every frame carries the identifier / address prefix of the layer's transmit address.
  Built on C02 (`Proofs.processTx_pass`: one `_process_tx` pass emits the next frame of `Spec.segment`), C12
  (`accounted`: the request queue is FIFO), C16b (`Safe`: no exception).
-/
namespace Isotp.NetP
open Isotp Isotp.State

/-! ### Flow Control frames versus data frames -/

theorem byteAt_drop_prefix (pre : Bytes) (b : UInt8) (rest : Bytes) :
    byteAt ((pre ++ b :: rest).drop pre.length) 0 = b.toNat := by
  rw [List.drop_left]
  exact Rx.byteAt_cons_zero b rest

/-- the Flow Control frame built by `_make_flow_control` has N_PCI type 3 -/
theorem isFc_fcMsg (s : State) (st : Nat) : isFc s.addr.tx.txPrefix.length (Proofs.fcMsg s st) = true := by
  have : (Proofs.fcMsg s st).data =
      s.addr.tx.txPrefix ++ u8 (0x30 + st % 16) :: ([u8 (s.cfg.blocksize % 256), u8 (s.cfg.stmin % 256)] ++
        List.replicate (Spec.padTarget (Spec.TxCfg.of s.cfg s.addr)
          (s.addr.tx.txPrefix ++ fcData st s.cfg.blocksize s.cfg.stmin).length -
          (s.addr.tx.txPrefix ++ fcData st s.cfg.blocksize s.cfg.stmin).length) (Spec.padByte (Spec.TxCfg.of s.cfg s.addr))) := by
    simp [Proofs.fcMsg, Proofs.frameMsg, Spec.padFrame, fcData]
  unfold isFc
  rw [this, byteAt_drop_prefix, Rx.u8_toNat]
  have : (0x30 + st % 16) % 256 / 16 = 3 := by omega
  simp [this]

theorem isFc_of_data (k : Nat) (m : CanMsg) (pre : Bytes) (b : UInt8) (rest : Bytes) (hk : pre.length = k)
    (hd : m.data = pre ++ b :: rest) : isFc k m = (b.toNat / 16 == 3) := by
  unfold isFc
  rw [hd, ← hk, byteAt_drop_prefix]

theorem toNat_ofNat_lt (n : Nat) (h : n < 256) : (UInt8.ofNat n).toNat = n := by
  rw [UInt8.toNat_ofNat']; omega

theorem padFrame_head (c : Spec.TxCfg) (pre : Bytes) (hdr : Bytes) (b : UInt8) (rest : Bytes) :
    ∃ tail, Spec.padFrame c (pre ++ (b :: hdr) ++ rest) = pre ++ b :: tail :=
  ⟨hdr ++ rest ++ List.replicate (Spec.padTarget c (pre ++ (b :: hdr) ++ rest).length - (pre ++ (b :: hdr) ++ rest).length)
    (Spec.padByte c), by simp [Spec.padFrame]⟩

theorem cfFrames_pci (c : Spec.TxCfg) : ∀ (ds : List Bytes) (sn : Nat) (d : Bytes), d ∈ Spec.cfFrames c sn ds →
    ∃ b rest, d = c.pre ++ b :: rest ∧ b.toNat / 16 = 2 := by
  intro ds
  induction ds with
  | nil => intro sn d h; simp [Spec.cfFrames] at h
  | cons x xs ih =>
    intro sn d h
    simp only [Spec.cfFrames, List.mem_cons] at h
    rcases h with rfl | h
    · obtain ⟨tail, ht⟩ := padFrame_head c c.pre [] (UInt8.ofNat (0x20 + sn % 16)) x
      refine ⟨_, tail, ht, ?_⟩
      rw [toNat_ofNat_lt _ (by omega)]; omega
    · exact ih _ _ h

/-- every frame of the reference segmentation starts, after the address prefix, with N_PCI type 0, 1 or 2 -/
theorem segment_pci (c : Spec.TxCfg) (p d : Bytes) (hd : d ∈ Spec.segment c p) :
    ∃ b rest, d = c.pre ++ b :: rest ∧ b.toNat / 16 ≠ 3 := by
  rcases Proofs.Seg.segment_cases c p with ⟨hs, heq⟩ | ⟨_, _, heq⟩ | ⟨_, _, heq⟩
  · rw [heq] at hd; simp only [List.mem_cons, List.not_mem_nil, or_false] at hd; subst hd
    obtain ⟨tail, ht⟩ := padFrame_head c c.pre [] (UInt8.ofNat p.length) p
    refine ⟨_, tail, ht, ?_⟩
    have := (Proofs.Seg.sfShort_iff c p.length).mp hs
    rw [toNat_ofNat_lt _ (by omega)]; omega
  · rw [heq] at hd; simp only [List.mem_cons, List.not_mem_nil, or_false] at hd; subst hd
    obtain ⟨tail, ht⟩ := padFrame_head c c.pre [UInt8.ofNat p.length] 0x00 p
    exact ⟨_, tail, ht, by decide⟩
  · rw [heq] at hd
    rcases List.mem_cons.mp hd with rfl | hd
    · unfold Spec.ffHeader
      split
      · rename_i hn
        obtain ⟨tail, ht⟩ := padFrame_head c c.pre [UInt8.ofNat (p.length % 256)] (UInt8.ofNat (0x10 + p.length / 256))
          (p.take (Spec.ffRoom c p.length))
        refine ⟨_, tail, ht, ?_⟩
        rw [toNat_ofNat_lt _ (by omega)]; omega
      · obtain ⟨tail, ht⟩ := padFrame_head c c.pre (0x00 :: Spec.be32 p.length) 0x10 (p.take (Spec.ffRoom c p.length))
        exact ⟨_, tail, ht, by decide⟩
    · obtain ⟨b, rest, h1, h2⟩ := cfFrames_pci c _ _ _ hd
      exact ⟨b, rest, h1, by omega⟩

theorem isFc_segment (c : Spec.TxCfg) (p : Bytes) (m : CanMsg) (hd : m.data ∈ Spec.segment c p) :
    isFc c.pre.length m = false := by
  obtain ⟨b, rest, h1, h2⟩ := segment_pci c p _ hd
  rw [isFc_of_data _ m c.pre b rest rfl h1]
  simpa using h2

/-! ### small list facts -/

theorem suffix_eq_drop {α : Type} {l1 l : List α} (h : l1 <:+ l) : l1 = l.drop (l.length - l1.length) := by
  obtain ⟨t, rfl⟩ := h
  simp

theorem suffix_eq_of_length {α : Type} {l1 l2 l : List α} (h1 : l1 <:+ l) (h2 : l2 <:+ l)
    (hl : l1.length = l2.length) : l1 = l2 := by
  rw [suffix_eq_drop h1, suffix_eq_drop h2, hl]

theorem doneL_noDone (evs : List Ev) (h : Proofs.NoDone evs) : C12.doneL evs = [] := by
  unfold C12.doneL
  rw [List.filterMap_eq_nil_iff]
  intro e he
  have := h e (List.mem_reverse.mp he)
  cases e <;> simp_all [C12.doneOf]

/-- number of requests the layer still owes an outcome to -/
def pend (s : State) : Nat := (C12.optId s.active).length + s.txQueue.length

/-- one transmit pass: completions logged + requests still pending = requests pending before -/
theorem pend_processTx (s : State) (hi : C12.Idle s) (new : List Ev) (hl : s.processTx.1.log = new ++ s.log) :
    (C12.doneL new).length + pend s.processTx.1 = pend s := by
  have h := C12.processTx_acc s hi
  rw [C12.accounted_eq, C12.accounted_eq, hl, C12.doneL_append, List.append_assoc] at h
  have h' := congrArg List.length (List.append_cancel_left h)
  simp only [List.length_append, C12.ids, List.length_map] at h'
  unfold pend
  omega


/-! ### `SafeOk` (C16b) along the micro-steps -/

theorem SafeOk.micro {s s' : State} (h : SafeOk s) (hm : Micro s s') : SafeOk s' := by
  have I := SafeOk.stepInv
  cases hm with
  | frame dt m rest hin =>
    have h1 : SafeOk (arrive s dt m rest).checkTimeoutsRx := I.timeout _ (I.rxEv _ _ _ (I.env s rest (s.now + dt) h))
    unfold rxOne
    split
    · exact I.rx _ _ h1
    · exact h1
  | rxEnd hin => exact I.timeout _ (I.rxNone _ _ (I.env s [] s.now h))
  | rl => exact I.rl s _ h
  | tx hx =>
    unfold afterTxfn
    cases ho : s.processTx.2.1 with
    | none => exact I.tx s h
    | some m => exact I.txEmit s m h ho
  | txExc hx => exact I.tx s h

/-! ### the sender invariant -/

/-- a queued request for the payload `p`: nothing pulled yet, the generator yields all of `p`, `p` is sendable -/
def ReqOk (r : Req) (p : Bytes) : Prop :=
  Proofs.Fresh r p ∧ Proofs.Full r p ∧ 1 ≤ p.length ∧ p.length < 4294967296

/-- data fields of the frames handed to `txfn` that are not Flow Control frames (`k`: length of the address prefix) -/
def dataOut (k : Nat) (evs : List Ev) : List Bytes := ((Net.txOf evs).filter (fun m => !isFc k m)).map (·.data)

/-- a frame of the sender with transmit address `a.tx`: identifier (either target address type), identifier width,
    address prefix -/
def FrameOk (a : Addr) (m : CanMsg) : Prop :=
  (∃ t, m.id = a.tx.txId t) ∧ m.ext = a.tx.mode.is29 ∧ ∃ r, m.data = a.tx.txPrefix ++ r

/-- the reference segmentation for configuration `c` and address `a` -/
abbrev segA (c : Cfg) (a : Addr) : Bytes → List Bytes := Spec.segment (Spec.TxCfg.of c a)

/-- where the transmit side is in the list `ps` of accepted payloads, and what it has emitted (`out`) -/
inductive Progress (c : Cfg) (a : Addr) (s : State) (ps : List Bytes) (out : List Bytes) : Prop
  | idle : s.txState = .idle → s.active = none → s.txQueue = [] → out = Compose.stream (segA c a) ps →
      Progress c a s ps out
  | busy (dn rest : List Bytes) (p : Bytes) (r0 : Req) (rq : List Req) (k : Nat) :
      ps = dn ++ p :: rest → ReqOk r0 p → List.Forall₂ ReqOk rq rest → Proofs.TxInv0 s r0 p k →
      out = Compose.stream (segA c a) dn ++ (segA c a p).take k →
      (s.active = none → s.txQueue = r0 :: rq) → (s.active ≠ none → s.txQueue = rq) → Progress c a s ps out

theorem Progress.same {c : Cfg} {a : Addr} {s s' : State} {ps out : List Bytes} (h : Progress c a s ps out)
    (hs : Proofs.TxSame s s') (hq : s'.txQueue = s.txQueue) : Progress c a s' ps out := by
  cases h with
  | idle h1 h2 h3 h4 => exact .idle (hs.txState.trans h1) (hs.active.trans h2) (hq.trans h3) h4
  | busy dn rest p r0 rq k h1 h2 h3 h4 h5 h6 h7 =>
    refine .busy dn rest p r0 rq k h1 h2 h3 ?_ h5 ?_ ?_
    · rcases h4 with ⟨hk, hst, hact, rest', hq'⟩ | hi
      · exact Or.inl ⟨hk, hs.txState.trans hst, hs.active.trans hact, rest', hq.trans hq'⟩
      · exact Or.inr (hs.inv _ _ _ hi)
    · intro ha; rw [hq]; exact h6 (hs.active ▸ ha)
    · intro ha; rw [hq]; exact h7 (hs.active ▸ ha)

structure SendOk (c : Cfg) (a : Addr) (s : State) (L : List Ev) (ps : List Bytes) : Prop where
  cfg : s.cfg = c
  addr : s.addr = a
  frames : ∀ m ∈ Net.txOf (s.log ++ L).reverse, FrameOk a m
  prog : Progress c a s ps (dataOut a.tx.txPrefix.length (s.log ++ L).reverse)

/-- **Sender invariant.** `L`: events of the earlier operations (newest first); `ps`: payloads accepted so far. -/
def SendInv (c : Cfg) (a : Addr) (s : State) (L : List Ev) (ps : List Bytes) : Prop :=
  noErr (s.log ++ L) = true → SendOk c a s L ps

theorem IntExt.dataOut {l l' : List Ev} (h : IntExt l l') (k : Nat) (L : List Ev) :
    dataOut k (l' ++ L).reverse = dataOut k (l ++ L).reverse := by
  simp only [NetP.dataOut, h.txOf L]

theorem SendOk.neutral {c : Cfg} {a : Addr} {s s' : State} {L : List Ev} {ps : List Bytes} (h : SendOk c a s L ps)
    (hs : Proofs.TxSame s s') (hq : s'.txQueue = s.txQueue) (hl : IntExt s.log s'.log) : SendOk c a s' L ps :=
  ⟨hs.cfg.trans h.cfg, hs.addr.trans h.addr, by rw [hl.txOf L]; exact h.frames,
    by rw [hl.dataOut _ L]; exact h.prog.same hs hq⟩

theorem SendInv.neutral {c : Cfg} {a : Addr} {s s' : State} {L : List Ev} {ps : List Bytes} (h : SendInv c a s L ps)
    (hs : Proofs.TxSame s s') (hq : s'.txQueue = s.txQueue) (hl : IntExt s.log s'.log) : SendInv c a s' L ps :=
  fun hn => (h (hl.noErr L hn)).neutral hs hq hl

theorem txSame_of_rxFrame {s s' : State} (h : RxFrame s s') : Proofs.TxSame s s' :=
  ⟨h.cfg, h.addr, h.active, h.standby, h.txFrameLen, h.txSeq, h.txState, h.remoteBs⟩

theorem SendInv.rxFrame {c : Cfg} {a : Addr} {s s' : State} {L : List Ev} {ps : List Bytes} (h : SendInv c a s L ps)
    (hf : RxFrame s s') : SendInv c a s' L ps :=
  h.neutral (txSame_of_rxFrame hf) hf.txQueue (IntExt.of_rx hf.log)

/-! ### one transmit pass -/

theorem frameOk_msgFor (s : State) (r0 : Req) (p d : Bytes) (hd : d ∈ Proofs.segOf s p) :
    FrameOk s.addr (Proofs.msgFor s r0 p d) :=
  ⟨⟨_, rfl⟩, rfl, Compose.segment_prefix _ p d hd⟩

theorem frameOk_fcMsg (s : State) (st : Nat) : FrameOk s.addr (Proofs.fcMsg s st) :=
  ⟨⟨_, rfl⟩, rfl, by
    obtain ⟨r, hr⟩ := Compose.padFrame_prefix (Spec.TxCfg.of s.cfg s.addr) s.addr.tx.txPrefix
      (fcData st s.cfg.blocksize s.cfg.stmin)
    exact ⟨r, hr⟩⟩

/-- what the message returned by a transmit pass adds to the data frames -/
def outData (k : Nat) (out : Option CanMsg) : List Bytes :=
  match out with
  | some m => if isFc k m then [] else [m.data]
  | none => []

theorem pend_busy {s : State} {r0 : Req} {rq : List Req} (h6 : s.active = none → s.txQueue = r0 :: rq)
    (h7 : s.active ≠ none → s.txQueue = rq) : pend s = 1 + rq.length := by
  unfold pend
  cases ha : s.active with
  | none => rw [h6 ha]; simp
  | some r => rw [h7 (by rw [ha]; simp)]; simp

/-- the queue after a pass that completed `n` requests -/
theorem queue_after {s s1 : State} {r0 : Req} {rq : List Req} (hsfx : s1.txQueue <:+ s.txQueue)
    (h6 : s.active = none → s.txQueue = r0 :: rq) (h7 : s.active ≠ none → s.txQueue = rq) :
    (pend s1 = 1 + rq.length → (s1.active = none → s1.txQueue = r0 :: rq) ∧ (s1.active ≠ none → s1.txQueue = rq)) ∧
    (pend s1 = rq.length → s1.active = none → s1.txQueue = rq) := by
  have hrq : rq <:+ s.txQueue := by
    cases ha : s.active with
    | none => rw [h6 ha]; exact List.suffix_cons _ _
    | some r => rw [h7 (by rw [ha]; simp)]; exact List.suffix_refl _
  have hlen := hsfx.length_le
  refine ⟨fun hp => ⟨fun ha1 => ?_, fun ha1 => ?_⟩, fun hp ha1 => ?_⟩
  · have hl : s1.txQueue.length = 1 + rq.length := by simpa [pend, ha1] using hp
    cases ha : s.active with
    | none =>
      have := h6 ha
      rw [this] at hsfx
      exact hsfx.eq_of_length (by rw [hl]; simp; omega)
    | some r =>
      have := h7 (by rw [ha]; simp)
      rw [this] at hlen; omega
  · obtain ⟨r, hr⟩ := Option.ne_none_iff_exists'.mp ha1
    have hl : s1.txQueue.length = rq.length := by
      have : pend s1 = 1 + s1.txQueue.length := by simp [pend, hr]; omega
      omega
    exact suffix_eq_of_length hsfx hrq hl
  · have hl : s1.txQueue.length = rq.length := by simpa [pend, ha1] using hp
    exact suffix_eq_of_length hsfx hrq hl

theorem take_succ_of_getElem? {α : Type} (l : List α) (k : Nat) (d : α) (h : l[k]? = some d) :
    l.take (k + 1) = l.take k ++ [d] := by
  rw [List.take_succ, h]; rfl

theorem mem_of_getElem?' {α : Type} (l : List α) (k : Nat) (d : α) (h : l[k]? = some d) : d ∈ l :=
  List.mem_of_getElem? h

/-- **One transmit pass** on a state satisfying the sender invariant, when the pass reports no error: the progress
    invariant holds again, with the data frame returned by the pass (if any) appended to the emitted ones; and the
    returned frame carries the sender's identifier and prefix. -/
theorem progress_tx (c : Cfg) (a : Addr) (s : State) (ps o : List Bytes) (hsafe : SafeOk s) (hcfg : s.cfg = c)
    (haddr : s.addr = a) (hp : Progress c a s ps o) (hn : noErr s.processTx.1.log = true) :
    Progress c a s.processTx.1 ps (o ++ outData a.tx.txPrefix.length s.processTx.2.1) ∧
    (∀ m, s.processTx.2.1 = some m → FrameOk a m) := by
  have hvs : s.cfg.valid = true := hsafe.1.cfg_valid
  have hfcok : Proofs.FcOk s := hsafe.1.pend
  have hexc : s.exc = none := hsafe.2
  subst hcfg haddr
  by_cases hd : Proofs.fcPass s = true
  · -- the pass only sends the Flow Control frame requested by the receive side
    obtain ⟨st, hst, he⟩ := Proofs.processTx_fc s hvs hfcok hd
    rw [he]
    refine ⟨?_, ?_⟩
    · simp only [outData, isFc_fcMsg, if_true, List.append_nil]
      exact hp.same (Proofs.afterFcReq_same s st) (Proofs.afterFcReq_queue s st).1
    · intro m hm
      simp only [Option.some.injEq] at hm
      subst hm
      exact frameOk_fcMsg s st
  · have hd' : Proofs.fcPass s = false := by simpa using hd
    cases hp with
    | idle h1 h2 h3 h4 =>
      obtain ⟨hq1, hout⟩ := Quiet.processTx (s := s) ⟨h3, h1, h2⟩
      have hnone : s.processTx.2.1 = none := by
        cases ho : s.processTx.2.1 with
        | none => rfl
        | some m =>
          obtain ⟨hpf, hl, -⟩ := hout m ho
          simp [Proofs.fcPass, hpf, hl] at hd'
      rw [hnone]
      exact ⟨by simpa [outData] using Progress.idle hq1.2.1 hq1.2.2 hq1.1 h4, by intro m hm; cases hm⟩
    | busy dn rest p r0 rq k h1 h2 h3 h4 h5 h6 h7 =>
      have hpass := Proofs.processTx_pass s r0 p k hvs h2.1 h2.2.2.1 h2.2.2.2 hexc hfcok hd' h4
      have hstep := TxStep.processTx s
      obtain ⟨new, hnew, hfail⟩ := hstep.log
      have hnn : noErr new = true := by
        rw [hnew, noErr_append] at hn
        exact (Bool.and_eq_true _ _ ▸ hn).1
      have hidle : C12.Idle s := by
        intro hi
        rcases h4 with ⟨-, -, hact, -⟩ | hi'
        · exact hact
        · exact absurd hi hi'.not_idle
      have hpend := pend_processTx s hidle new hnew
      rw [pend_busy h6 h7] at hpend
      have hqa := queue_after hstep.queue h6 h7
      have hnewEq : ∀ evs, s.processTx.1.log = evs ++ s.log → evs = new := by
        intro evs he
        rw [hnew] at he
        exact (List.append_cancel_right he).symm
      rcases hpass with ⟨ho, hi1, hq⟩ | ⟨d, hdk, ho, hi1, hq⟩ | ⟨d, hdk, hlen, ho, hfin, -⟩ | hfailed
      · -- nothing emitted
        obtain ⟨evs, hevs, hnd⟩ := hq.log
        have := hnewEq evs hevs
        subst this
        rw [doneL_noDone _ hnd] at hpend
        obtain ⟨q1, q2⟩ := hqa.1 (by simpa using hpend)
        rw [ho]
        exact ⟨by simpa [outData] using Progress.busy dn rest p r0 rq k h1 h2 h3 hi1 h5 q1 q2, by intro m hm; cases hm⟩
      · -- frame `k` emitted, more to come
        obtain ⟨evs, hevs, hnd⟩ := hq.log
        have := hnewEq evs hevs
        subst this
        rw [doneL_noDone _ hnd] at hpend
        obtain ⟨q1, q2⟩ := hqa.1 (by simpa using hpend)
        have hmem : d ∈ Proofs.segOf s p := List.mem_of_getElem? hdk
        have hnfc : isFc s.addr.tx.txPrefix.length (Proofs.msgFor s r0 p d) = false :=
          isFc_segment (Spec.TxCfg.of s.cfg s.addr) p _ hmem
        rw [ho]
        refine ⟨?_, ?_⟩
        · simp only [outData, hnfc, Bool.false_eq_true, if_false]
          refine Progress.busy dn rest p r0 rq (k + 1) h1 h2 h3 hi1 ?_ q1 q2
          rw [h5, List.append_assoc, take_succ_of_getElem? _ k d hdk]
          rfl
        · intro m hm
          simp only [Option.some.injEq] at hm
          subst hm
          exact frameOk_msgFor s r0 p d hmem
      · -- the last frame: the request completes
        obtain ⟨evs, hevs, hnd⟩ := hfin.log
        have := hnewEq (Ev.done r0.id true :: evs) (by rw [hevs]; rfl)
        subst this
        rw [C12.doneL_done, doneL_noDone _ hnd] at hpend
        have hq1 := hqa.2 (by simpa using hpend) hfin.active
        have hmem : d ∈ Proofs.segOf s p := List.mem_of_getElem? hdk
        have hnfc : isFc s.addr.tx.txPrefix.length (Proofs.msgFor s r0 p d) = false :=
          isFc_segment (Spec.TxCfg.of s.cfg s.addr) p _ hmem
        have hall : (segA s.cfg s.addr p).take k ++ [d] = segA s.cfg s.addr p := by
          rw [← take_succ_of_getElem? _ k d hdk]
          exact List.take_of_length_le (by
            show (Proofs.segOf s p).length ≤ k + 1
            omega)
        have hout : Compose.stream (segA s.cfg s.addr) dn ++ (segA s.cfg s.addr p).take k ++ [d] =
            Compose.stream (segA s.cfg s.addr) (dn ++ [p]) := by
          rw [List.append_assoc, hall, Compose.stream_append]
          simp
        rw [ho]
        refine ⟨?_, ?_⟩
        · simp only [outData, hnfc, Bool.false_eq_true, if_false]
          rw [h5, hout]
          cases h3 with
          | nil =>
            refine Progress.idle hfin.txState hfin.active hq1 ?_
            rw [h1]
          | @cons r1 p1 rq' rest' hr1 hrest =>
            refine Progress.busy (dn ++ [p]) rest' p1 r1 rq' 0 (by rw [h1]; simp) hr1 hrest
              (Or.inl ⟨rfl, hfin.txState, hfin.active, rq', hq1⟩) (by simp) (fun _ => hq1)
              (fun hne => absurd hfin.active hne)
        · intro m hm
          simp only [Option.some.injEq] at hm
          subst hm
          exact frameOk_msgFor s r0 p d hmem
      · -- the transfer failed: an error was reported
        obtain ⟨evs, hevs, hmem⟩ := hfailed.log
        have := hnewEq evs hevs
        subst this
        obtain ⟨t, x, hx⟩ := hfail ⟨_, hmem⟩
        have : noErr evs = false := by
          simp only [noErr, List.all_eq_false]
          exact ⟨_, hx, by simp [Ev.isErr]⟩
        rw [this] at hnn
        cases hnn

end Isotp.NetP
