import Isotp.Spec.Config
import Isotp.Frame
/-
  Helper lemmas for C16: per-value lemmas connecting the model's checkers
  (`byteOk`, `idOk`, `PyVal.isNone`, `PyVal.pyEq`, `intIn`, …) with the documentation-level
  predicates of `Isotp.Spec`, then the two big equivalences.
-/
namespace Isotp.C16
open Isotp Isotp.Spec

/-! ### per-value lemmas, address side -/

theorem isNone_eq (v : PyVal) : v.isNone = !given v := by
  cases v <;> rfl

theorem byteOk_eq (v : PyVal) : byteOk v = noneOr isAddrByte v := by
  cases v <;> try rfl
  case bool b => cases b <;> rfl

theorem idOk_eq (m : Mode) (v : PyVal) : idOk m.is29 v = noneOr (isCanId m) v := by
  cases v <;> try (cases m <;> rfl)
  case bool b => cases b <;> cases m <;> rfl
  case int i =>
    cases m <;> simp [idOk, noneOr, isCanId, is11bit, intBetween, intAtLeast, asInt, given,
      PyVal.isNone, PyVal.isInt, PyVal.intVal, Mode.is29] <;> rfl

/-- Python `==` on two values that passed the identifier check. -/
theorem pyEq_of_idOk (b : Bool) (x y : PyVal) (hx : idOk b x = true) (hy : idOk b y = true) :
    y.pyEq x = ((!given x && !given y) || !idsDiffer x y) := by
  rcases x with _ | (_|_) | i | _ | _ | _ | _ | _ | _ <;>
  rcases y with _ | (_|_) | j | _ | _ | _ | _ | _ | _ <;>
    simp_all [idOk, PyVal.pyEq, given, idsDiffer, asInt, PyVal.isNone, PyVal.isInt, PyVal.intVal]
  all_goals grind

/-- The model's `Address.validate` accepts exactly the documented combinations. -/
theorem validateAddr_eq_doc (a : AddrArgs) : validateAddr a = docValidAddress a := by
  unfold validateAddr docValidAddress
  cases hm : a.mode with
  | none => rfl
  | some m =>
    simp only []
    by_cases hx : idOk m.is29 a.txid = true
    · by_cases hy : idOk m.is29 a.rxid = true
      · have he := pyEq_of_idOk _ _ _ hx hy
        have hx' := hx
        have hy' := hy
        rw [idOk_eq] at hx' hy'
        generalize hD : idsDiffer a.txid a.rxid = D at he
        cases m <;> cases hr : a.rxOnly <;> cases ht : a.txOnly <;>
          simp only [hx, hy, hx', hy', byteOk_eq, List.all_cons, List.all_nil, argOf, Bool.and_true,
            presenceOk, kindOf, he, isNone_eq, required, usesIds, hr, ht] <;>
          generalize noneOr isAddrByte a.ta = bta <;>
          generalize noneOr isAddrByte a.sa = bsa <;>
          generalize noneOr isAddrByte a.ae = bae <;>
          generalize given a.txid = gx <;>
          generalize given a.rxid = gy <;>
          generalize given a.ta = gta <;>
          generalize given a.sa = gsa <;>
          generalize given a.ae = gae <;>
          clear hx hy hx' hy' he hD hm hr ht <;>
          revert gx gy gta gsa gae bta bsa bae D <;> decide
      · have hy0 : idOk m.is29 a.rxid = false := by simpa using hy
        have hy' := hy0
        rw [idOk_eq] at hy'
        cases kindOf a.rxOnly a.txOnly <;> simp [hy0, hy', argOf]
    · have hx0 : idOk m.is29 a.txid = false := by simpa using hx
      have hx' := hx0
      rw [idOk_eq] at hx'
      cases kindOf a.rxOnly a.txOnly <;> simp [hx0, hx', argOf]

/-! ### the constructed object -/

theorem optNat_of_byteOk (v : PyVal) (h : byteOk v = true) : optNat v = storedNat v := by
  rcases v with _ | (_|_) | i | _ | _ | _ | _ | _ | _ <;>
    simp_all [byteOk, optNat, storedNat, asInt, PyVal.isNone, PyVal.isInt, PyVal.intVal]

theorem optNat_of_idOk (b : Bool) (v : PyVal) (h : idOk b v = true) : optNat v = storedNat v := by
  rcases v with _ | (_|_) | i | _ | _ | _ | _ | _ | _ <;>
    simp_all [idOk, optNat, storedNat, asInt, PyVal.isNone, PyVal.isInt, PyVal.intVal]

/-- the object `Address(...)` builds from accepted arguments, in documentation terms -/
def docHalf (a : AddrArgs) (m : Mode) : Half :=
  { mode := m, txid := storedNat a.txid, rxid := storedNat a.rxid, ta := storedNat a.ta,
    sa := storedNat a.sa, ae := storedNat a.ae,
    physId := docPhysId m a.physId, funcId := docFuncId m a.funcId,
    rxOnly := a.rxOnly, txOnly := a.txOnly }

theorem validateAddr_parts (a : AddrArgs) (m : Mode) (hm : a.mode = some m)
    (hv : validateAddr a = true) :
    byteOk a.ta = true ∧ byteOk a.sa = true ∧ byteOk a.ae = true ∧
    idOk m.is29 a.txid = true ∧ idOk m.is29 a.rxid = true := by
  simp [validateAddr, hm] at hv
  simp [hv]

theorem mkAddress_of_valid (a : AddrArgs) (m : Mode) (hm : a.mode = some m)
    (hv : validateAddr a = true) : mkAddress a = .ok (docHalf a m) := by
  obtain ⟨h1, h2, h3, h4, h5⟩ := validateAddr_parts a m hm hv
  simp only [mkAddress, hm, hv, if_true, docHalf, optNat_of_byteOk _ h1, optNat_of_byteOk _ h2,
    optNat_of_byteOk _ h3, optNat_of_idOk _ _ h4, optNat_of_idOk _ _ h5]
  cases m <;> cases a.physId <;> cases a.funcId <;> rfl

theorem mkAddress_error (a : AddrArgs) (e : PyExc) (h : mkAddress a = .error e) : e = .ValueError := by
  unfold mkAddress at h
  split at h
  · cases h; rfl
  · split at h
    · cases h
    · cases h; rfl

theorem mkAddress_ok_iff' (a : AddrArgs) (h : Half) :
    mkAddress a = .ok h ↔ ∃ m, a.mode = some m ∧ validateAddr a = true ∧ h = docHalf a m := by
  constructor
  · intro hk
    cases hm : a.mode with
    | none => simp [mkAddress, hm] at hk
    | some m =>
      cases hv : validateAddr a with
      | false => simp [mkAddress, hm, hv] at hk
      | true =>
        rw [mkAddress_of_valid a m hm hv] at hk
        exact ⟨m, rfl, rfl, by cases hk; rfl⟩
  · rintro ⟨m, hm, hv, rfl⟩
    exact mkAddress_of_valid a m hm hv

/-! ### what an accepted `Address` object looks like -/

def halfField (h : Half) : AParam → Option Nat
  | .txid => h.txid | .rxid => h.rxid | .ta => h.ta | .sa => h.sa | .ae => h.ae

theorem byte_isSome (v : PyVal) (hg : given v = true) (h : noneOr isAddrByte v = true) :
    (storedNat v).isSome = true := by
  rcases v with _ | (_|_) | i | _ | _ | _ | _ | _ | _ <;>
    simp_all [noneOr, isAddrByte, intBetween, storedNat, asInt, given]

theorem id_isSome (m : Mode) (v : PyVal) (hg : given v = true) (h : noneOr (isCanId m) v = true) :
    (storedNat v).isSome = true := by
  rcases v with _ | (_|_) | i | _ | _ | _ | _ | _ | _ <;> cases m <;>
    simp_all [noneOr, isCanId, is11bit, intBetween, intAtLeast, storedNat, asInt, given]

theorem byte_le (v : PyVal) (n : Nat) (h : noneOr isAddrByte v = true) (hs : storedNat v = some n) :
    n ≤ 255 := by
  rcases v with _ | (_|_) | i | _ | _ | _ | _ | _ | _ <;>
    simp_all [noneOr, isAddrByte, intBetween, storedNat, asInt, given]
  all_goals omega

theorem id_le (m : Mode) (v : PyVal) (n : Nat) (h11 : is11bit m = true)
    (h : noneOr (isCanId m) v = true) (hs : storedNat v = some n) : n ≤ 0x7FF := by
  rcases v with _ | (_|_) | i | _ | _ | _ | _ | _ | _ <;>
    simp_all [noneOr, isCanId, intBetween, storedNat, asInt, given]
  all_goals omega

theorem ids_ne (m : Mode) (x y : PyVal) (i j : Nat)
    (hx : noneOr (isCanId m) x = true) (hy : noneOr (isCanId m) y = true)
    (hd : idsDiffer x y = true) (hi : storedNat x = some i) (hj : storedNat y = some j) : i ≠ j := by
  have hx' : ∀ k, asInt x = some k → 0 ≤ k := by
    rcases x with _ | (_|_) | i | _ | _ | _ | _ | _ | _ <;> cases m <;>
      simp_all [noneOr, isCanId, is11bit, intBetween, intAtLeast, asInt, given]
  have hy' : ∀ k, asInt y = some k → 0 ≤ k := by
    rcases y with _ | (_|_) | i | _ | _ | _ | _ | _ | _ <;> cases m <;>
      simp_all [noneOr, isCanId, is11bit, intBetween, intAtLeast, asInt, given]
  unfold idsDiffer at hd
  unfold storedNat at hi hj
  cases hax : asInt x with
  | none => simp [hax] at hi
  | some a =>
    cases hay : asInt y with
    | none => simp [hay] at hj
    | some b =>
      have := hx' a hax
      have := hy' b hay
      simp [hax, hay] at hd hi hj
      omega

/-- Everything the documentation promises about an accepted `Address`, on the object. -/
theorem docHalf_facts (a : AddrArgs) (m : Mode) (hm : a.mode = some m)
    (hv : docValidAddress a = true) :
    ∃ k, kindOf a.rxOnly a.txOnly = some k ∧
      (∀ p ∈ required m k, (halfField (docHalf a m) p).isSome = true) ∧
      (∀ p ∈ [AParam.ta, .sa, .ae], ∀ n, halfField (docHalf a m) p = some n → n ≤ 0xFF) ∧
      (is11bit m = true → ∀ p ∈ [AParam.txid, .rxid], ∀ n, halfField (docHalf a m) p = some n → n ≤ 0x7FF) ∧
      (usesIds m = true → ∀ i j, (docHalf a m).txid = some i → (docHalf a m).rxid = some j → i ≠ j) := by
  unfold docValidAddress at hv
  rw [hm] at hv
  cases hk : kindOf a.rxOnly a.txOnly with
  | none => simp [hk] at hv
  | some k =>
    simp only [hk, Bool.and_eq_true, List.all_cons, List.all_nil, argOf, Bool.and_true,
      Bool.or_eq_true, Bool.not_eq_true'] at hv
    obtain ⟨⟨⟨hreq, hta, hsa, hae⟩, htx, hrx⟩, hdiff⟩ := hv
    refine ⟨k, rfl, ?_, ?_, ?_, ?_⟩
    · intro p hp
      have hg : given (argOf a p) = true := (List.all_eq_true.1 hreq) p hp
      cases p <;> simp only [halfField, docHalf, argOf] at hg ⊢
      · exact id_isSome m _ hg htx
      · exact id_isSome m _ hg hrx
      · exact byte_isSome _ hg hta
      · exact byte_isSome _ hg hsa
      · exact byte_isSome _ hg hae
    · intro p hp n hn
      simp only [List.mem_cons, List.not_mem_nil, or_false] at hp
      rcases hp with rfl | rfl | rfl <;> simp only [halfField, docHalf] at hn
      · exact byte_le _ _ hta hn
      · exact byte_le _ _ hsa hn
      · exact byte_le _ _ hae hn
    · intro h11 p hp n hn
      simp only [List.mem_cons, List.not_mem_nil, or_false] at hp
      rcases hp with rfl | rfl <;> simp only [halfField, docHalf] at hn
      · exact id_le m _ _ h11 htx hn
      · exact id_le m _ _ h11 hrx hn
    · intro hu i j hi hj
      simp only [docHalf] at hi hj
      rcases hdiff with h | h
      · simp [hu] at h
      · exact ids_ne m _ _ i j htx hrx h hi hj

/-! ### per-value lemmas, params side -/

theorem intIn_eq (v : PyVal) (lo hi : Int) : intIn v lo hi = intBetween lo hi v := by
  rcases v with _ | (_|_) | i | _ | _ | _ | _ | _ | _ <;>
    simp [intIn, intBetween, asInt, PyVal.isInt, PyVal.intVal]
  rfl

theorem intGe_eq (v : PyVal) (lo : Int) : intGe v lo = intAtLeast lo v := by
  rcases v with _ | (_|_) | i | _ | _ | _ | _ | _ | _ <;>
    simp [intGe, intAtLeast, asInt, PyVal.isInt, PyVal.intVal]
  rfl

theorem txDlOk_eq (v : PyVal) : txDlOk v = intOneOf linkSizes v := by
  rcases v with _ | (_|_) | i | _ | _ | _ | _ | _ | _ <;>
    simp [txDlOk, intOneOf, linkSizes, asInt, PyVal.isInt, PyVal.intVal]

theorem minLenOk_eq (v : PyVal) : minLenOk v = intOneOf minLengths v := by
  rcases v with _ | (_|_) | i | _ | _ | _ | _ | _ | _ <;>
    simp [minLenOk, intOneOf, minLengths, asInt, PyVal.isInt, PyVal.intVal]

theorem isBool_eq (v : PyVal) : v.isBool = isBoolean v := by
  cases v <;> rfl

theorem ovr_eq (v : PyVal) (f : Bool) :
    (v.isNone || ((v.isInt || v.isFloat) && !v.isBool && !v.ltZero && v.isFinite && f)) =
    (noneOr nonNegFiniteNumber v && (!given v || f)) := by
  rcases v with _ | (_|_) | i | _ | _ | _ | _ | _ | _ <;>
    simp [noneOr, nonNegFiniteNumber, given, PyVal.isNone, PyVal.isInt, PyVal.isFloat, PyVal.isBool,
      PyVal.ltZero, PyVal.isFinite]
  all_goals grind

theorem tat_eq (v : PyVal) :
    (v.isInt && (decide (v.intVal = 0) || decide (v.intVal = 1))) = intOneOf [0, 1] v := by
  rcases v with _ | (_|_) | i | _ | _ | _ | _ | _ | _ <;>
    simp [intOneOf, asInt, PyVal.isInt, PyVal.intVal]
  rfl

theorem bitrate_eq (v : PyVal) : (v.isInt && decide (0 < v.intVal)) = intAtLeast 1 v := by
  rcases v with _ | (_|_) | i | _ | _ | _ | _ | _ | _ <;>
    simp [intAtLeast, asInt, PyVal.isInt, PyVal.intVal]
  all_goals grind

theorem window_eq (v : PyVal) :
    (((v.isFloat || v.isInt) && !v.leZero && v != .nan) && v.isFinite) = positiveFiniteNumber v := by
  rcases v with _ | (_|_) | i | _ | _ | _ | _ | _ | _ <;>
    simp [positiveFiniteNumber, asInt, PyVal.isInt, PyVal.isFloat, PyVal.leZero, PyVal.isFinite]
  all_goals grind

theorem txDlOk_int (v : PyVal) (h : txDlOk v = true) : ∃ d, v = .int d := by
  rcases v with _ | (_|_) | i | _ | _ | _ | _ | _ | _ <;>
    simp_all [txDlOk, PyVal.isInt, PyVal.intVal]

theorem minLen_eq (v : PyVal) (d : Int) :
    (v.isNone || (minLenOk v && decide (v.intVal ≤ (PyVal.int d).intVal))) =
    (noneOr (intOneOf minLengths) v && minLenFits v (.int d)) := by
  rcases v with _ | (_|_) | i | _ | _ | _ | _ | _ | _ <;>
    simp [minLenOk, noneOr, intOneOf, minLengths, minLenFits, given, asInt, PyVal.isNone, PyVal.isInt,
      PyVal.intVal]
  rfl

theorem prod_eq (v : PyVal) (d : Int) :
    (v.isFinite && !(v.ltInt ((PyVal.int d).intVal * 8))) = windowCarriesOneFrame v (.int d) := by
  rcases v with _ | (_|_) | i | _ | _ | _ | _ | _ | _ <;>
    simp [windowCarriesOneFrame, finiteAtLeast, asInt, PyVal.isFinite, PyVal.ltInt, PyVal.intVal]
  all_goals grind

theorem validateParams_eq_doc (p : ParamArgs) : validateParams p = docValidParams p := by
  by_cases hd : txDlOk p.txDl = true
  · obtain ⟨d, hd'⟩ := txDlOk_int _ hd
    have hW := window_eq p.rlWindow
    have hP := prod_eq p.prod d
    unfold validateParams docValidParams paramTable
    simp only [ovr_eq]
    simp only [List.all_cons, List.all_nil, hd', intIn_eq, intGe_eq, txDlOk_eq, minLen_eq, isBool_eq,
      tat_eq, bitrate_eq, Bool.and_true]
    rw [← hW, ← hP]
    simp only [isNone_eq, noneOr]
    ac_rfl
  · have hd0 : txDlOk p.txDl = false := by simpa using hd
    have hd1 := hd0
    rw [txDlOk_eq] at hd1
    simp [validateParams, docValidParams, paramTable, hd0, hd1]

/-! ### from accepted parameters to a valid `Cfg` -/

/-- The data invariant of `PyVal.float` (Address.lean: "den > 0"). -/
def floatWf : PyVal → Prop
  | .float _ d => 0 < d
  | _ => True

instance (v : PyVal) : Decidable (floatWf v) := by
  cases v <;> unfold floatWf <;> infer_instance

/-- `math.floor(v)` of a finite number as a natural number (0 for anything negative or
    non-numeric; exact on the rational `n/d`). -/
def floorNat : PyVal → Nat
  | .float n d => (n / (d : Int)).toNat
  | .int i => i.toNat
  | .bool b => if b then 1 else 0
  | _ => 0

def boolOf (v : PyVal) : Bool := v == .bool true

def tatOf (v : PyVal) : Tat := if v.intVal = 1 then .functional else .physical

/-- The `Cfg` the layer runs with after `Params.validate` accepted `p`. The two
    nanosecond conversions of float parameters (`override_receiver_stmin`,
    `rate_limit_window_size`) are done by Python (DESIGN §3.1) and passed in; `Cfg.valid`
    does not constrain them. `rlBitMax = ⌊rate_limit_max_bitrate * rate_limit_window_size⌋`
    is computed exactly from `p.prod`. -/
def cfgOfParams (p : ParamArgs) (ovrNs : Option Nat) (winNs : Nat) : Cfg :=
  { stmin := p.stmin.intVal.toNat
    blocksize := p.blocksize.intVal.toNat
    overrideStminNs := ovrNs
    tFc := p.tFc.intVal.toNat * 1000000
    tCf := p.tCf.intVal.toNat * 1000000
    txPadding := optNat p.txPadding
    wftmax := p.wftmax.intVal.toNat
    txDl := p.txDl.intVal.toNat
    txMinLen := optNat p.txMinLen
    maxFrameSize := p.maxFrameSize.intVal.toNat
    canFd := boolOf p.canFd
    brs := boolOf p.brs
    defaultTat := tatOf p.defaultTat
    rlEnable := boolOf p.rlEnable
    rlWindowNs := winNs
    rlBitMax := floorNat p.prod
    listen := boolOf p.listen
    blocking := boolOf p.blocking }

theorem intIn_toNat_le (v : PyVal) (h : intIn v 0 0xFF = true) : v.intVal.toNat ≤ 255 := by
  simp [intIn] at h
  omega

theorem txDlOk_valid (v : PyVal) (h : txDlOk v = true) : validTxDl v.intVal.toNat = true := by
  simp [txDlOk] at h
  rcases h.2 with h | h | h | h | h | h | h | h <;> rw [h] <;> decide

theorem minLenOk_valid (v : PyVal) (h : minLenOk v = true) : validMinLen v.intVal.toNat = true := by
  simp [minLenOk] at h
  rcases h.2 with h | h | h | h | h | h | h | h | h | h | h | h | h | h | h <;> rw [h] <;> decide

theorem floorNat_ge (v : PyVal) (k : Int) (hwf : floatWf v) (hf : v.isFinite = true)
    (hk : v.ltInt k = false) : k.toNat ≤ floorNat v := by
  cases v with
  | float n d =>
    simp only [floatWf] at hwf
    simp only [PyVal.ltInt, decide_eq_false_iff_not, Int.not_lt] at hk
    have hd : (0 : Int) < (d : Int) := by omega
    have := (Int.le_ediv_iff_mul_le hd).2 hk
    simp only [floorNat]
    omega
  | int i =>
    simp only [PyVal.ltInt, decide_eq_false_iff_not, Int.not_lt] at hk
    simp only [floorNat]
    omega
  | bool b =>
    cases b <;> simp [PyVal.ltInt] at hk <;> simp [floorNat] <;> omega
  | _ => simp [PyVal.isFinite] at hf

theorem pad_ok (v : PyVal) (h : v.isNone = true ∨ intIn v 0 0xFF = true) :
    (match optNat v with | none => true | some p => decide (p ≤ 255)) = true := by
  unfold optNat
  cases hn : v.isNone with
  | true => simp
  | false =>
    rcases h with h | h
    · simp [hn] at h
    · have := intIn_toNat_le _ h
      simp [this]

theorem minLen_ok (v dl : PyVal)
    (h : v.isNone = true ∨ minLenOk v = true ∧ decide (v.intVal ≤ dl.intVal) = true) :
    (match optNat v with
      | none => true
      | some m => validMinLen m && decide (m ≤ dl.intVal.toNat)) = true := by
  unfold optNat
  cases hn : v.isNone with
  | true => simp
  | false =>
    rcases h with h | ⟨hm, hle⟩
    · simp [hn] at h
    · have h1 := minLenOk_valid _ hm
      have h2 : v.intVal ≤ dl.intVal := by simpa using hle
      have h3 : v.intVal.toNat ≤ dl.intVal.toNat := by omega
      simp [h1, h3]

theorem validateParams_parts (p : ParamArgs) (h : validateParams p = true) :
    (p.txPadding.isNone = true ∨ intIn p.txPadding 0 0xFF = true) ∧
    intIn p.stmin 0 0xFF = true ∧ intIn p.blocksize 0 0xFF = true ∧ txDlOk p.txDl = true ∧
    (p.txMinLen.isNone = true ∨
      minLenOk p.txMinLen = true ∧ decide (p.txMinLen.intVal ≤ p.txDl.intVal) = true) ∧
    p.prod.isFinite = true ∧ p.prod.ltInt (p.txDl.intVal * 8) = false := by
  simp only [validateParams, Bool.and_eq_true, Bool.or_eq_true, Bool.not_eq_true'] at h
  obtain ⟨⟨⟨⟨⟨⟨⟨⟨⟨⟨⟨⟨⟨⟨⟨⟨⟨⟨⟨_, _⟩, hpad⟩, hst⟩, hbs⟩, _⟩, _⟩, hdl⟩, hmin⟩, _⟩, _⟩, _⟩, _⟩, _⟩, _⟩, ⟨_, hpf⟩⟩, _⟩, hlt⟩, _⟩, _⟩ := h
  exact ⟨hpad, hst, hbs, hdl, hmin, hpf, hlt⟩

theorem cfgOfParams_valid (p : ParamArgs) (ovrNs : Option Nat) (winNs : Nat)
    (hwf : floatWf p.prod) (h : validateParams p = true) :
    (cfgOfParams p ovrNs winNs).valid = true := by
  obtain ⟨hpad, hst, hbs, hdl, hmin, hpf, hlt⟩ := validateParams_parts p h
  have h1 := txDlOk_valid _ hdl
  have h2 := intIn_toNat_le _ hst
  have h3 := intIn_toNat_le _ hbs
  have h4 := floorNat_ge _ _ hwf hpf hlt
  have h5 := pad_ok _ hpad
  have h6 := minLen_ok _ _ hmin
  have h7 : p.txDl.intVal.toNat * 8 ≤ floorNat p.prod := by
    have : (p.txDl.intVal * 8).toNat = p.txDl.intVal.toNat * 8 := by omega
    omega
  simp only [Cfg.valid, cfgOfParams, Bool.and_eq_true]
  exact ⟨⟨⟨⟨⟨h1, decide_eq_true h2⟩, decide_eq_true h3⟩, h5⟩, h6⟩, decide_eq_true h7⟩

theorem params_ranges (p : ParamArgs) (h : validateParams p = true) :
    txDlOk p.txDl = true ∧ validTxDl p.txDl.intVal.toNat = true ∧
    p.stmin.intVal.toNat ≤ 255 ∧ p.blocksize.intVal.toNat ≤ 255 ∧
    (∀ n, optNat p.txPadding = some n → n ≤ 255) ∧
    (∀ m, optNat p.txMinLen = some m → validMinLen m = true ∧ m ≤ p.txDl.intVal.toNat) := by
  obtain ⟨hpad, hst, hbs, hdl, hmin, -, -⟩ := validateParams_parts p h
  refine ⟨hdl, txDlOk_valid _ hdl, intIn_toNat_le _ hst, intIn_toNat_le _ hbs, ?_, ?_⟩
  · intro n hn
    have := pad_ok _ hpad
    rw [hn] at this
    simpa using this
  · intro m hm
    have := minLen_ok _ _ hmin
    rw [hm] at this
    simpa using this

end Isotp.C16
