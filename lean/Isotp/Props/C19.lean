import Isotp.Proofs.Sock
/-
  C19 — Socket option setters write the exact kernel ABI and keep unspecified fields.

  Reference definitions: `Isotp/Spec/Sock.lean` (`Spec.mergeOpts`, `Spec.argsOk`, `Spec.optionsImage`, …).
  Helper lemmas: `Isotp/Proofs/Sock.lean`.

  Reading guide.  `s : Sock` is the wrapper object, `s.k : Kernel` the option store of the (fake)
  kernel socket, `s.calls` the list of calls issued so far (newest first).  The setters return
  `Except PyExc (Sock × opts)`: an `.error` result carries **no** new socket state, i.e. the model
  of a raising call issues no `setsockopt` at all.
-/
namespace Isotp.C19
open Isotp Isotp.Sock

/-! ## 0. the in-range invariant -/

/-- a freshly created socket has an in-range option store -/
theorem init_wf : ({} : Sock).k.wf := Sock.init_wf

/-- every successful setter keeps the store in range -/
theorem wf_preserved (s : Sock) (hk : s.k.wf) :
    (∀ a s' o, writeOpts s a = .ok (s', o) → s'.k.wf) ∧
    (∀ x y z s' o, writeFc s x y z = .ok (s', o) → s'.k.wf) ∧
    (∀ x y z s' o, writeLl s x y z = .ok (s', o) → s'.k.wf) := by
  refine ⟨?_, ?_, ?_⟩
  · intro a s' o h
    cases ha : Spec.argsOk a
    · rw [writeOpts_reject s a ha] at h; cases h
    · rw [writeOpts_accept s a hk.1 ha] at h
      injection h with h; injection h with h1 h2
      subst h1; exact afterOpts_wf s a hk ha
  · intro x y z s' o h
    cases ha : Spec.args3Ok x y z
    · rw [writeFc_reject s x y z ha] at h; cases h
    · rw [writeFc_accept s x y z hk.2.1 ha] at h
      injection h with h; injection h with h1 h2
      subst h1; exact afterFc_wf s x y z hk ha
  · intro x y z s' o h
    cases ha : Spec.args3Ok x y z
    · rw [writeLl_reject s x y z ha] at h; cases h
    · rw [writeLl_accept s x y z hk.2.2.1 ha] at h
      injection h with h; injection h with h1 h2
      subst h1; exact afterLl_wf s x y z hk ha

/-! ## 1. layouts -/

/-- getsockopt + unpack returns the stored values; the layouts have the uapi sizes -/
theorem layout_roundtrip :
    (∀ o : KOpts, o.wf → parseOpts (layoutOpts o) = o) ∧
    (∀ o : KFc, o.wf → parseFc (layoutFc o) = o) ∧
    (∀ o : KLl, o.wf → parseLl (layoutLl o) = o) ∧
    (∀ n, n < 2^32 → rd32 (le32 n) 0 = n) ∧
    (∀ o : KOpts, (layoutOpts o).length = 12) ∧ (∀ o : KFc, (layoutFc o).length = 3) ∧
    (∀ o : KLl, (layoutLl o).length = 3) ∧ (∀ n, (le32 n).length = 4) :=
  ⟨parse_layout_opts, parse_layout_fc, parse_layout_ll, rd32_le32,
   fun _ => rfl, fun _ => rfl, fun _ => rfl, fun _ => rfl⟩

/-- the model's byte images are the reference images of the four uapi objects (generic
    little-endian encoder, fields in struct order, no padding) -/
theorem layout_is_uapi :
    (∀ o, layoutOpts o = Spec.optionsImage o) ∧ (∀ o, layoutFc o = Spec.fcImage o) ∧
    (∀ o, layoutLl o = Spec.llImage o) ∧ (∀ n, le32 n = Spec.stminImage n) :=
  ⟨layoutOpts_eq, layoutFc_eq, layoutLl_eq, le32_eq⟩

/-- the generic encoder is exact: decoding `w` little-endian bytes gives the value back -/
theorem leBytes_exact (w n : Nat) (h : n < 256^w) :
    Spec.leValue (Spec.leBytes w n) = n ∧ (Spec.leBytes w n).length = w :=
  ⟨leValue_leBytes w n h, length_leBytes w n⟩

/-- level and option numbers used by the model are those of `linux/can/isotp.h` -/
theorem abi_numbers :
    solCanIsotp = 106 ∧ Spec.SOL_CAN_ISOTP = 106 ∧ optOPTS = Spec.CAN_ISOTP_OPTS ∧
    optRECV_FC = Spec.CAN_ISOTP_RECV_FC ∧ optTX_STMIN = Spec.CAN_ISOTP_TX_STMIN ∧
    optLL_OPTS = Spec.CAN_ISOTP_LL_OPTS := by decide

/-! ## 2. set_opts: merge, byte images, calls -/

/-- the model's `orFlag` is bitwise or for every single-bit flag, for all `a` -/
theorem orFlag_eq_lor (a : Nat) :
    orFlag a fEXTEND_ADDR = a ||| Spec.EXTEND_ADDR ∧ orFlag a fTX_PADDING = a ||| Spec.TX_PADDING ∧
    orFlag a fRX_PADDING = a ||| Spec.RX_PADDING ∧ orFlag a fRX_EXT_ADDR = a ||| Spec.RX_EXT_ADDR ∧
    orFlag a fFORCE_TXSTMIN = a ||| Spec.FORCE_TXSTMIN ∧ (∀ k, orFlag a (2^k) = a ||| 2^k) :=
  ⟨orFlag_EXTEND a, orFlag_TXPAD a, orFlag_RXPAD a, orFlag_RXEXT a, orFlag_TXSTMIN a,
   orFlag_two_pow a⟩

/-- `hasFlag` / the reference `flags & f != 0` are `testBit` -/
theorem hasFlag_is_testBit (a k : Nat) :
    hasFlag a (2^k) = a.testBit k ∧ Spec.flagSet a (2^k) = a.testBit k :=
  ⟨hasFlag_two_pow a k, flagSet_two_pow a k⟩

/-- `argsOk` spelled out: every argument is `None` or a Python int (bool included) in range -/
theorem fieldOk_iff (v : PyVal) (hi : Nat) :
    Spec.fieldOk v hi = true ↔
      v = .none ∨ (∃ n : Nat, n ≤ hi ∧ v = .int n) ∨ (v = .bool false) ∨ (v = .bool true ∧ 1 ≤ hi) := by
  cases v <;> simp [Spec.fieldOk, Spec.natOf]
  case bool b => cases b <;> simp
  case int i =>
    constructor
    · intro h
      by_cases h0 : 0 ≤ i
      · simp [h0] at h
        exact ⟨i.toNat, by omega, by omega⟩
      · simp [h0] at h
    · rintro ⟨n, hn, rfl⟩
      simp [hn]

/-- **set_opts, accepted.** If every given argument is in range, `writeOpts` succeeds, returns
    the reference merge, and the new socket is exactly `Spec.afterOpts`. -/
theorem writeOpts_ok_eq (s : Sock) (a : OptsArgs) (hk : s.k.wf) (ha : Spec.argsOk a = true) :
    writeOpts s a = .ok (Spec.afterOpts s a, Spec.mergeOpts s.k.opts a) :=
  writeOpts_accept s a hk.1 ha

/-- the same, spelled out field by field -/
theorem writeOpts_ok (s : Sock) (a : OptsArgs) (hk : s.k.wf) (ha : Spec.argsOk a = true) :
    ∃ s', writeOpts s a = .ok (s', Spec.mergeOpts s.k.opts a) ∧
      -- the calls appended (newest first): [TX_STMIN if given], then OPTS
      s'.calls = Call.setopt 106 optOPTS (layoutOpts (Spec.mergeOpts s.k.opts a)) ::
                  ((if a.txStmin = .none then []
                    else [Call.setopt 106 optTX_STMIN (le32 (Spec.pick a.txStmin 0))]) ++ s.calls) ∧
      -- the kernel store afterwards
      s'.k.opts = Spec.mergeOpts s.k.opts a ∧
      s'.k.txStmin = Spec.pick a.txStmin s.k.txStmin ∧
      s'.k.fc = s.k.fc ∧ s'.k.ll = s.k.ll ∧ s'.k.bound = s.k.bound ∧
      s'.bound = s.bound ∧ s'.closed = s.closed ∧ s'.k.wf := by
  refine ⟨Spec.afterOpts s a, writeOpts_accept s a hk.1 ha, ?_, rfl, rfl, rfl, rfl, rfl, rfl, rfl,
    afterOpts_wf s a hk ha⟩
  simp only [Spec.afterOpts, Spec.optsCalls, layoutOpts_eq, le32_eq, Spec.stminImage]
  split <;> simp [Spec.SOL_CAN_ISOTP, optOPTS, Spec.CAN_ISOTP_OPTS, optTX_STMIN, Spec.CAN_ISOTP_TX_STMIN]

/-- every call a setter appends is a `setsockopt` at level SOL_CAN_ISOTP = 106 -/
theorem calls_level (s : Sock) (a : OptsArgs) (c : Call)
    (hc : c ∈ Spec.optsCalls a (Spec.mergeOpts s.k.opts a)) : ∃ opt d, c = .setopt 106 opt d := by
  unfold Spec.optsCalls at hc
  split at hc <;> simp at hc
  · exact ⟨_, _, hc⟩
  · rcases hc with hc | hc <;> exact ⟨_, _, hc⟩

/-! ## 3. set_opts: rejection -/

/-- **set_opts, refused.** A given argument that is not an in-range int gives `ValueError`;
    the result carries no socket state (no setsockopt was issued). -/
theorem writeOpts_reject (s : Sock) (a : OptsArgs) (ha : Spec.argsOk a = false) :
    writeOpts s a = .error .ValueError ∧ ∀ r, writeOpts s a ≠ .ok r := by
  have h := Sock.writeOpts_reject s a ha
  exact ⟨h, fun r hr => by rw [h] at hr; cases hr⟩

/-- `writeOpts` succeeds **iff** all seven argument checks pass. In particular the TX_STMIN
    `setsockopt` (which only exists inside an `.ok` result) is issued only after *all* checks. -/
theorem writeOpts_ok_iff (s : Sock) (a : OptsArgs) (hk : s.k.wf) :
    (∃ r, writeOpts s a = .ok r) ↔ Spec.argsOk a = true := by
  constructor
  · rintro ⟨r, hr⟩
    cases ha : Spec.argsOk a
    · rw [Sock.writeOpts_reject s a ha] at hr; cases hr
    · rfl
  · intro ha; exact ⟨_, writeOpts_accept s a hk.1 ha⟩

/-- the TX_STMIN call appears in the result only when the whole argument list was valid,
    whatever the state (no `wf` needed) -/
theorem txStmin_call_only_after_checks (s s' : Sock) (a : OptsArgs) (o : KOpts)
    (h : writeOpts s a = .ok (s', o)) : Spec.argsOk a = true := by
  cases ha : Spec.argsOk a
  · rw [Sock.writeOpts_reject s a ha] at h; cases h
  · rfl

/-! ## 4. set_fc_opts / set_ll_opts -/

theorem writeFc_ok (s : Sock) (x y z : PyVal) (hk : s.k.wf) (ha : Spec.args3Ok x y z = true) :
    ∃ s', writeFc s x y z = .ok (s', Spec.mergeFc s.k.fc x y z) ∧
      s'.calls = Call.setopt 106 optRECV_FC (layoutFc (Spec.mergeFc s.k.fc x y z)) :: s.calls ∧
      s'.k.fc = Spec.mergeFc s.k.fc x y z ∧ s'.k.opts = s.k.opts ∧ s'.k.ll = s.k.ll ∧
      s'.k.txStmin = s.k.txStmin ∧ s'.k.bound = s.k.bound ∧ s'.bound = s.bound ∧
      s'.closed = s.closed ∧ s'.k.wf := by
  refine ⟨Spec.afterFc s x y z, writeFc_accept s x y z hk.2.1 ha, ?_, rfl, rfl, rfl, rfl, rfl, rfl, rfl,
    afterFc_wf s x y z hk ha⟩
  simp [Spec.afterFc, layoutFc_eq, Spec.SOL_CAN_ISOTP, optRECV_FC, Spec.CAN_ISOTP_RECV_FC]

theorem writeFc_reject (s : Sock) (x y z : PyVal) (ha : Spec.args3Ok x y z = false) :
    writeFc s x y z = .error .ValueError ∧ ∀ r, writeFc s x y z ≠ .ok r := by
  have h := Sock.writeFc_reject s x y z ha
  exact ⟨h, fun r hr => by rw [h] at hr; cases hr⟩

theorem writeLl_ok (s : Sock) (x y z : PyVal) (hk : s.k.wf) (ha : Spec.args3Ok x y z = true) :
    ∃ s', writeLl s x y z = .ok (s', Spec.mergeLl s.k.ll x y z) ∧
      s'.calls = Call.setopt 106 optLL_OPTS (layoutLl (Spec.mergeLl s.k.ll x y z)) :: s.calls ∧
      s'.k.ll = Spec.mergeLl s.k.ll x y z ∧ s'.k.opts = s.k.opts ∧ s'.k.fc = s.k.fc ∧
      s'.k.txStmin = s.k.txStmin ∧ s'.k.bound = s.k.bound ∧ s'.bound = s.bound ∧
      s'.closed = s.closed ∧ s'.k.wf := by
  refine ⟨Spec.afterLl s x y z, writeLl_accept s x y z hk.2.2.1 ha, ?_, rfl, rfl, rfl, rfl, rfl, rfl, rfl,
    afterLl_wf s x y z hk ha⟩
  simp [Spec.afterLl, layoutLl_eq, Spec.SOL_CAN_ISOTP, optLL_OPTS, Spec.CAN_ISOTP_LL_OPTS]

theorem writeLl_reject (s : Sock) (x y z : PyVal) (ha : Spec.args3Ok x y z = false) :
    writeLl s x y z = .error .ValueError ∧ ∀ r, writeLl s x y z ≠ .ok r := by
  have h := Sock.writeLl_reject s x y z ha
  exact ⟨h, fun r hr => by rw [h] at hr; cases hr⟩

/-! ## 5. get after set, and whole call histories -/

/-- reading back (getsockopt + unpack) after a successful setter returns what was written,
    which is the reference merge -/
theorem get_after_set (s : Sock) (hk : s.k.wf) :
    (∀ a s' o, writeOpts s a = .ok (s', o) →
        parseOpts (layoutOpts s'.k.opts) = o ∧ o = Spec.mergeOpts s.k.opts a) ∧
    (∀ x y z s' o, writeFc s x y z = .ok (s', o) →
        parseFc (layoutFc s'.k.fc) = o ∧ o = Spec.mergeFc s.k.fc x y z) ∧
    (∀ x y z s' o, writeLl s x y z = .ok (s', o) →
        parseLl (layoutLl s'.k.ll) = o ∧ o = Spec.mergeLl s.k.ll x y z) := by
  refine ⟨?_, ?_, ?_⟩
  · intro a s' o h
    have ha := txStmin_call_only_after_checks s s' a o h
    rw [writeOpts_accept s a hk.1 ha] at h
    injection h with h; injection h with h1 h2
    subst h1; subst h2
    exact ⟨parse_layout_opts _ (mergeOpts_wf _ _ hk.1 ha), rfl⟩
  · intro x y z s' o h
    cases ha : Spec.args3Ok x y z
    · rw [Sock.writeFc_reject s x y z ha] at h; cases h
    · rw [writeFc_accept s x y z hk.2.1 ha] at h
      injection h with h; injection h with h1 h2
      subst h1; subst h2
      exact ⟨parse_layout_fc _ (mergeFc_wf _ _ _ _ hk.2.1 ha), rfl⟩
  · intro x y z s' o h
    cases ha : Spec.args3Ok x y z
    · rw [Sock.writeLl_reject s x y z ha] at h; cases h
    · rw [writeLl_accept s x y z hk.2.2.1 ha] at h
      injection h with h; injection h with h1 h2
      subst h1; subst h2
      exact ⟨parse_layout_ll _ (mergeLl_wf _ _ _ _ hk.2.2.1 ha), rfl⟩

/-- **refinement.** For every history of `set_opts` / `set_fc_opts` / `set_ll_opts` calls on an
    unbound socket (raising calls included), the kernel store equals the fold of the abstract
    "None means unchanged" store, stays in range, and `get_*` return the abstract values. -/
theorem runCalls_refines (s : Sock) (cs : List Spec.SetCall) (hb : s.bound = false) (hk : s.k.wf) :
    let st := cs.foldl Spec.Store.apply (Spec.storeOf s.k)
    let s' := Spec.runCalls s cs
    Spec.storeOf s'.k = st ∧ s'.k.wf ∧
      parseOpts (layoutOpts s'.k.opts) = st.opts ∧ parseFc (layoutFc s'.k.fc) = st.fc ∧
      parseLl (layoutLl s'.k.ll) = st.ll := by
  obtain ⟨h1, h2, _⟩ := Sock.runCalls_refines cs s hb hk
  refine ⟨h1, h2, ?_, ?_, ?_⟩
  · rw [parse_layout_opts _ h2.1, ← h1]; rfl
  · rw [parse_layout_fc _ h2.2.1, ← h1]; rfl
  · rw [parse_layout_ll _ h2.2.2.1, ← h1]; rfl

/-! ## 6. flags are sticky -/

/-- a later `set_opts` without `optflag` never clears a flag bit that was set -/
theorem flag_sticky (s s' : Sock) (a : OptsArgs) (o' : KOpts) (k : Nat) (hk : s.k.wf)
    (hn : a.optflag = .none) (h : writeOpts s a = .ok (s', o'))
    (hf : hasFlag s.k.opts.flags (2^k) = true) :
    hasFlag o'.flags (2^k) = true ∧ hasFlag s'.k.opts.flags (2^k) = true := by
  have ha := txStmin_call_only_after_checks s s' a o' h
  rw [writeOpts_accept s a hk.1 ha] at h
  injection h with h; injection h with h1 h2
  subst h1; subst h2
  rw [hasFlag_two_pow] at hf ⊢
  exact ⟨mergeOpts_sticky _ _ hn k hf, by rw [hasFlag_two_pow]; exact mergeOpts_sticky _ _ hn k hf⟩

/-- the D6 scenario: FORCE_TXSTMIN survives a later `set_opts(rxpad=…)` -/
theorem force_txstmin_survives (s s' : Sock) (v : PyVal) (o' : KOpts) (hk : s.k.wf)
    (h : writeOpts s { rxpad := v } = .ok (s', o'))
    (hf : hasFlag s.k.opts.flags fFORCE_TXSTMIN = true) :
    hasFlag s'.k.opts.flags fFORCE_TXSTMIN = true :=
  (flag_sticky s s' { rxpad := v } o' 7 hk rfl h hf).2

/-! ## non-vacuity -/

-- in-range and out-of-range arguments of every kind
example : Spec.argsOk { rxpad := .int 0x55, txStmin := .int 5000 } = true := by decide
example : Spec.argsOk { optflag := .int 0x400, frameTxtime := .int 0xFFFFFFFF, extAddress := .int 0xFF,
                        txpad := .bool true, rxpad := .int 0, rxExtAddress := .int 7 } = true := by decide
example : Spec.argsOk { rxpad := .int 256 } = false := by decide            -- too large
example : Spec.argsOk { rxpad := .int (-1) } = false := by decide           -- negative
example : Spec.argsOk { txStmin := .int 0x100000000 } = false := by decide  -- > u32
example : Spec.argsOk { txpad := .str 0 } = false := by decide              -- str
example : Spec.argsOk { txpad := .float 1 1 } = false := by decide          -- 1.0
example : Spec.argsOk { frameTxtime := .nan } = false := by decide
example : Spec.argsOk { extAddress := .other 3 } = false := by decide
example : Spec.args3Ok (.int 8) .none (.int 255) = true := by decide
example : Spec.args3Ok (.int 8) (.int 300) .none = false := by decide

-- concrete images (little-endian u32 flags, u32 frame_txtime, four u8)
example : layoutOpts { flags := 0x288, frameTxtime := 0x01020304, extAddress := 0x11, txpad := 0xAA,
                       rxpad := 0x55, rxExtAddress := 0x22 }
          = [0x88, 0x02, 0, 0, 0x04, 0x03, 0x02, 0x01, 0x11, 0xAA, 0x55, 0x22] := by decide
example : layoutFc { bs := 8, stmin := 5, wftmax := 1 } = [8, 5, 1] := by decide
example : layoutLl { mtu := 72, txDl := 64, txFlags := 1 } = [72, 64, 1] := by decide
example : le32 5000 = [0x88, 0x13, 0, 0] := by decide

-- set_opts(tx_stmin=5000) on a fresh socket: two calls, TX_STMIN first; flag 0x80 set
example : (writeOpts {} { txStmin := .int 5000 }).toOption.map (fun r => (r.1.calls, r.2.flags, r.1.k.txStmin))
    = some ([.setopt 106 1 [0x80, 0, 0, 0, 0, 0, 0, 0, 0, 0xCC, 0xCC, 0], .setopt 106 3 [0x88, 0x13, 0, 0]],
            0x80, 5000) := by decide

-- … then set_opts(rxpad=0x55): FORCE_TXSTMIN (0x80) is still there, RX_PADDING (0x08) added
example : (Spec.runCalls {} [.opts { txStmin := .int 5000 }, .opts { rxpad := .int 0x55 }]).k.opts
    = { flags := 0x88, rxpad := 0x55 } := by decide

-- a non-trivial in-range state (hypothesis `s.k.wf` of the theorems above), with a flag set (hypothesis of
-- `flag_sticky`)
example : (Spec.runCalls {} [.opts { txStmin := .int 5000 }]).k.wf ∧
    hasFlag (Spec.runCalls {} [.opts { txStmin := .int 5000 }]).k.opts.flags fFORCE_TXSTMIN = true := by decide

-- a raising call in the middle of a history changes nothing
example : (Spec.runCalls {} [.fc (.int 8) .none .none, .fc (.int 300) (.int 1) .none, .ll .none (.int 64) .none]).k
    = { fc := { bs := 8 }, ll := { txDl := 64 } } := by decide

-- a rejected call returns no state
example : writeOpts {} { rxpad := .int 0x55, txStmin := .str 1 } = .error .ValueError := by
  exact (writeOpts_reject _ _ (by decide)).1

end Isotp.C19

#print axioms Isotp.C19.init_wf
#print axioms Isotp.C19.wf_preserved
#print axioms Isotp.C19.layout_roundtrip
#print axioms Isotp.C19.layout_is_uapi
#print axioms Isotp.C19.leBytes_exact
#print axioms Isotp.C19.abi_numbers
#print axioms Isotp.C19.orFlag_eq_lor
#print axioms Isotp.C19.hasFlag_is_testBit
#print axioms Isotp.C19.fieldOk_iff
#print axioms Isotp.C19.writeOpts_ok_eq
#print axioms Isotp.C19.writeOpts_ok
#print axioms Isotp.C19.calls_level
#print axioms Isotp.C19.writeOpts_reject
#print axioms Isotp.C19.writeOpts_ok_iff
#print axioms Isotp.C19.txStmin_call_only_after_checks
#print axioms Isotp.C19.writeFc_ok
#print axioms Isotp.C19.writeFc_reject
#print axioms Isotp.C19.writeLl_ok
#print axioms Isotp.C19.writeLl_reject
#print axioms Isotp.C19.get_after_set
#print axioms Isotp.C19.runCalls_refines
#print axioms Isotp.C19.flag_sticky
#print axioms Isotp.C19.force_txstmin_survives
