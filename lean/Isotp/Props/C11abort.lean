import Isotp.Proofs.RxAbortRun
import Isotp.Props.C11
/-
  C11, abort-robust form — "If one CAN frame anywhere in a multi-message exchange is lost or duplicated, every
  payload that is delivered is still byte-identical to a payload that was sent and in sending order (never
  truncated, merged or corrupted) … Both layers return to idle within the configured timeouts, the loss of a
  multi-frame message is reported as an error on at least one side, and all messages after the fault are delivered
  normally."

  Props/C11.lean proves the containment for frames fed with reception-NEUTRAL steps in between (`Rx.Feeds`: no N_Cr
  timeout, no `stop_receiving()` between two frames). Here the environment is arbitrary. Helper lemmas:
  Isotp/Proofs/RxAbort.lean, RxAbortFault.lean, RxAbortRun.lean (built on Proofs/Compose.lean, Proofs/Rx.lean,
  Proofs/Timers.lean).

  Setting (as in C01 / C11): `Compose.Link ca aa sb` — sender configuration `ca` (validated), sender address `aa`,
  receiving layer `sb` with the mirrored receive address; `ps` are `Compose.Sendable` payloads (non-empty, < 2^32
  bytes, ≤ the receiver's max_frame_size); `encOf ca aa = Spec.segment (Spec.TxCfg.of ca aa)`;
  `F = Compose.stream (encOf ca aa) ps` = the data fields of all the frames on the wire, in sending order.

  `RxAbort.FeedsA s fs bl s'` — the generalised feeding relation: the frames `fs` are handed to `processRx` in order;
  before every frame, and after the last one, the environment does ANY number of `RxAbort.EnvStep`s:
      same     any reception-neutral step (`RxSame`: exactly what `Rx.Feeds` allows — send, recv, clock, …)
      check    `checkTimeoutsRx` at ANY time, expired or not
      stop     `stopReceiving`
      fc       `processRx` on a Flow Control frame
      advance  the clock advances
      tx       a `processTx` pass
  Each frame carries the flag (`RxAbort.Gap`) of the gap before it, `bl` is the flag of the gap after the last
  frame: `quiet` (nothing that touches the reception FSM happened), `stopped` (a `stop_receiving()` and no
  timeout), `timedOut` (an expired timeout check fired). The flags are what lets the theorems say WHICH messages
  may be missing. `RxAbort.Fault` = none | drop k | dup k (copy next to the original) is the fault of C11.

  Result of the case analysis asked for (abort + duplicated First Frame + Consecutive Frames with matching sequence
  numbers, sequence-number wrap after an abort, …): NO corrupted / merged / truncated delivery exists in the model;
  `contained_any_aborts` holds without any extra hypothesis. Reason (the invariant of the proofs): at every point the
  receiver is idle, or in `Rx.RxSession g s p i` for the message `p` whose frames are being fed, with exactly the
  First Frame and the first `i` Consecutive Frames buffered; an abort makes it idle and only a First Frame can
  open a session again, and no First Frame of `p` follows except the adjacent copy — which restarts `p` from its
  beginning. Inside a session the next frame on the wire is Consecutive Frame `i` (accepted), `i − 1` (the copy) or
  `i + 1` (after the lost one): never `i ± 16` (`C11.sn_index`).
-/
namespace Isotp.C11
open Isotp Isotp.Rx Isotp.Compose Isotp.RxAbort

/-- the sender's segmentation -/
abbrev encOf (ca : Cfg) (aa : Addr) : Bytes → List Bytes := Spec.segment (Spec.TxCfg.of ca aa)

/-! ## 1. `FeedsA` generalises `Feeds` -/

/-- every `Rx.Feeds` run is a `FeedsA` run in which all the gaps are quiet -/
theorem feedsA_generalises_feeds (s s' : State) (fs : List Bytes) (h : Feeds s fs s') :
    FeedsA s (fs.map (fun d => (Gap.quiet, d))) .quiet s' := feedsA_of_feeds h

/-! ## 2. containment, robust to arbitrary aborts -/

/-- `contained_any_aborts` — the robust never-corrupt theorem. The stream `F` suffers the fault `φ` (nothing, frame
    `k` lost, frame `k` doubled) and is fed to an idle receiver through `FeedsA`: arbitrary environment steps —
    timeouts at any time, `stop_receiving()`, transmit passes, Flow Control frames, clock — anywhere. Then what is
    delivered, `L`, satisfies `RxAbort.Outcome`:
      no fault:  `L` is a subsequence of `ps`;
      drop `k`:  frame `k` belongs to `p`, `ps = A ++ p :: B`, and `L = LA ++ LB` with `LA`, `LB` subsequences of `A`, `B`;
      dup `k`:   `L = LA ++ Lp ++ LB`, `Lp = [p, p]` if `p` is a Single Frame message, else `Lp` is `[p]` or `[]`
                 (`[p]` only if the First Frame or the last Consecutive Frame is the doubled one).
    In particular every delivered payload is one of `ps`, byte-identical — never truncated, merged or corrupted —,
    the order is the sending order, nothing is delivered twice except a doubled Single Frame. Any number of
    messages may be missing (each abort kills the reception in progress): which ones — `missing_only_if_hit_or_aborted`. -/
theorem contained_any_aborts (ca : Cfg) (aa : Addr) (sb sb' : State) (h : Link ca aa sb) (ps : List Bytes)
    (hs : Sendable sb ps) (hidle : sb.rxState = .idle) (φ : Fault)
    (hφ : φ.inRange (stream (encOf ca aa) ps).length) (fs : List (Gap × Bytes))
    (hfs : fs.map (·.2) = φ.apply (stream (encOf ca aa) ps)) (bl : Gap) (hf : FeedsA sb fs bl sb') :
    ∃ L, delivered sb' = delivered sb ++ L ∧ Outcome (encOf ca aa) ps φ L ∧ (∀ q ∈ L, q ∈ ps) ∧
      (L.Sublist ps ∨
        ∃ A p B k, φ = .dup k ∧ ps = A ++ p :: B ∧ (encOf ca aa p).length = 1 ∧ L.Sublist (A ++ [p, p] ++ B)) := by
  have ha := h.admissible ps hs
  obtain ⟨L, hL, a, _⟩ := faulted_run aa.tx.txPrefix (encOf ca aa) sb.cfg sb.addr ha.hpre ps ha.hwf ha.hmax φ hφ fs hfs
    bl sb sb' ⟨hidle, rfl, rfl, rfl⟩ hf
  exact ⟨L, a.del, hL, outcome_mem _ _ _ _ hL, outcome_sublist _ _ _ _ hL⟩

/-- the same in the words of the property: `F'` is `F`, or `F` with frame `k` dropped, or with frame `k` doubled -/
theorem contained_any_aborts_frames (ca : Cfg) (aa : Addr) (sb sb' : State) (h : Link ca aa sb) (ps : List Bytes)
    (hs : Sendable sb ps) (hidle : sb.rxState = .idle) (k : Nat) (F' : List Bytes)
    (hF : F' = stream (encOf ca aa) ps ∨ (k < (stream (encOf ca aa) ps).length ∧
      (F' = dropAt k (stream (encOf ca aa) ps) ∨ F' = dupAt k (stream (encOf ca aa) ps))))
    (fs : List (Gap × Bytes)) (hfs : fs.map (·.2) = F') (bl : Gap) (hf : FeedsA sb fs bl sb') :
    ∃ L, delivered sb' = delivered sb ++ L ∧ (∀ q ∈ L, q ∈ ps) ∧
      (L.Sublist ps ∨
        ∃ A p B, F' = dupAt k (stream (encOf ca aa) ps) ∧ ps = A ++ p :: B ∧ (encOf ca aa p).length = 1 ∧
          L.Sublist (A ++ [p, p] ++ B)) := by
  rcases hF with hF | ⟨hk, hF | hF⟩
  · obtain ⟨L, h1, _, h3, h4⟩ := contained_any_aborts ca aa sb sb' h ps hs hidle .none trivial fs (by rw [hfs, hF]; rfl)
      bl hf
    refine ⟨L, h1, h3, Or.inl ?_⟩
    rcases h4 with h4 | ⟨_, _, _, _, h5, _⟩
    · exact h4
    · cases h5
  · obtain ⟨L, h1, _, h3, h4⟩ := contained_any_aborts ca aa sb sb' h ps hs hidle (.drop k) hk fs (by rw [hfs, hF]; rfl)
      bl hf
    refine ⟨L, h1, h3, Or.inl ?_⟩
    rcases h4 with h4 | ⟨_, _, _, _, h5, _⟩
    · exact h4
    · cases h5
  · obtain ⟨L, h1, _, h3, h4⟩ := contained_any_aborts ca aa sb sb' h ps hs hidle (.dup k) hk fs (by rw [hfs, hF]; rfl)
      bl hf
    refine ⟨L, h1, h3, ?_⟩
    rcases h4 with h4 | ⟨A, p, B, k2, h5, h6, h7, h8⟩
    · exact Or.inl h4
    · exact Or.inr ⟨A, p, B, hF, h6, h7, h8⟩

/-- … and in terms of the rx queue, for an executable schedule (`RxAbort.runA`: before each CAN message a list of
    `RxAbort.Op`s — timeout check, `stop_receiving()`, clock, transmit pass, Flow Control frame —, and a last list
    after the last one): what `recv()` will return is exactly `L`. (All these frames pass the receiver's address
    filter: `Compose.linkFeed_stream`.) -/
theorem contained_any_aborts_queue (ca : Cfg) (aa : Addr) (sb : State) (h : Link ca aa sb) (ps : List Bytes)
    (hs : Sendable sb ps) (hidle : sb.rxState = .idle) (φ : Fault)
    (hφ : φ.inRange (stream (encOf ca aa) ps).length) (sched : List (List Op × CanMsg)) (fin : List Op)
    (hdata : sched.map (·.2.data) = φ.apply (stream (encOf ca aa) ps)) :
    ∃ L, (runA sb sched fin).1.rxQueue = sb.rxQueue ++ L ∧ Outcome (encOf ca aa) ps φ L ∧ (∀ q ∈ L, q ∈ ps) := by
  obtain ⟨L, h1, h2, h3, _⟩ := contained_any_aborts ca aa sb _ h ps hs hidle φ hφ _
    ((runA_data sched fin sb).trans hdata) _ (feedsA_runA sched fin sb)
  exact ⟨L, runA_queue sched fin sb L h1, h2, h3⟩

/-! ## 2b. which messages may be missing -/

/-- The fate of a message `p` that is NOT hit by the fault (`ps = A ++ p :: B`; the frames before it, `fa`, are those
    of `A` with the fault `φA`, its own frames `fp` are all there, the frames after it, `fb`, are those of `B` with
    the fault `φB`; for C11 one of `φA`, `φB` is `.none`): it is delivered — intact, exactly once, at its place
    between what is delivered of `A` and of `B` — if and only if no abort step (expired `checkTimeoutsRx` or
    `stopReceiving`) occurs after its First Frame and before its last frame (`innerQuiet fp`; aborts before its
    first frame or after its last one are harmless). -/
theorem message_fate (ca : Cfg) (aa : Addr) (sb sb' : State) (h : Link ca aa sb) (A B : List Bytes) (p : Bytes)
    (hs : Sendable sb (A ++ p :: B)) (hidle : sb.rxState = .idle) (φA φB : Fault)
    (hφA : φA.inRange (stream (encOf ca aa) A).length) (hφB : φB.inRange (stream (encOf ca aa) B).length)
    (fa fp fb : List (Gap × Bytes)) (hfa : fa.map (·.2) = φA.apply (stream (encOf ca aa) A))
    (hfp : fp.map (·.2) = encOf ca aa p) (hfb : fb.map (·.2) = φB.apply (stream (encOf ca aa) B)) (bl : Gap)
    (hf : FeedsA sb (fa ++ fp ++ fb) bl sb') :
    ∃ LA LB, Outcome (encOf ca aa) A φA LA ∧ Outcome (encOf ca aa) B φB LB ∧
      delivered sb' = delivered sb ++ (LA ++ (if innerQuiet fp = true then [p] else []) ++ LB) := by
  have ha := h.admissible _ hs
  obtain ⟨LA, LB, h1, h2, a⟩ := RxAbort.message_fate aa.tx.txPrefix (encOf ca aa) sb.cfg sb.addr ha.hpre A B p ha.hwf
    ha.hmax φA φB hφA hφB fa fp fb hfa hfp hfb bl sb sb' ⟨hidle, rfl, rfl, rfl⟩ hf
  exact ⟨LA, LB, h1, h2, a.del⟩

/-- "A message is missing only if (a) its frames were hit by the fault or (b) an abort step occurred between its
    First Frame and its last frame": if neither, it IS delivered, at its place. -/
theorem missing_only_if_hit_or_aborted (ca : Cfg) (aa : Addr) (sb sb' : State) (h : Link ca aa sb) (A B : List Bytes)
    (p : Bytes) (hs : Sendable sb (A ++ p :: B)) (hidle : sb.rxState = .idle) (φA φB : Fault)
    (hφA : φA.inRange (stream (encOf ca aa) A).length) (hφB : φB.inRange (stream (encOf ca aa) B).length)
    (fa fp fb : List (Gap × Bytes)) (hfa : fa.map (·.2) = φA.apply (stream (encOf ca aa) A))
    (hfp : fp.map (·.2) = encOf ca aa p) (hfb : fb.map (·.2) = φB.apply (stream (encOf ca aa) B)) (bl : Gap)
    (hno : ∀ x ∈ fp.tail, x.1 = Gap.quiet) (hf : FeedsA sb (fa ++ fp ++ fb) bl sb') :
    ∃ LA LB, Outcome (encOf ca aa) A φA LA ∧ Outcome (encOf ca aa) B φB LB ∧
      delivered sb' = delivered sb ++ (LA ++ p :: LB) := by
  obtain ⟨LA, LB, h1, h2, h3⟩ := message_fate ca aa sb sb' h A B p hs hidle φA φB hφA hφB fa fp fb hfa hfp hfb bl hf
  have hq : innerQuiet fp = true := by
    unfold innerQuiet quietAll
    rw [List.all_eq_true]
    intro x hx
    rw [hno x hx]; rfl
  refine ⟨LA, LB, h1, h2, ?_⟩
  rw [h3, hq]; simp

/-- … and the condition is sharp: one abort step after its First Frame and the message is not delivered (nothing of
    it: no truncated payload) -/
theorem aborted_message_missing (ca : Cfg) (aa : Addr) (sb sb' : State) (h : Link ca aa sb) (A B : List Bytes)
    (p : Bytes) (hs : Sendable sb (A ++ p :: B)) (hidle : sb.rxState = .idle) (φA φB : Fault)
    (hφA : φA.inRange (stream (encOf ca aa) A).length) (hφB : φB.inRange (stream (encOf ca aa) B).length)
    (fa fp fb : List (Gap × Bytes)) (hfa : fa.map (·.2) = φA.apply (stream (encOf ca aa) A))
    (hfp : fp.map (·.2) = encOf ca aa p) (hfb : fb.map (·.2) = φB.apply (stream (encOf ca aa) B)) (bl : Gap)
    (x : Gap × Bytes) (hx : x ∈ fp.tail) (hab : x.1 ≠ Gap.quiet) (hf : FeedsA sb (fa ++ fp ++ fb) bl sb') :
    ∃ LA LB, Outcome (encOf ca aa) A φA LA ∧ Outcome (encOf ca aa) B φB LB ∧
      delivered sb' = delivered sb ++ (LA ++ LB) := by
  obtain ⟨LA, LB, h1, h2, h3⟩ := message_fate ca aa sb sb' h A B p hs hidle φA φB hφA hφB fa fp fb hfa hfp hfb bl hf
  have hq : innerQuiet fp = false := by
    cases hq : innerQuiet fp
    · rfl
    · unfold innerQuiet quietAll at hq
      rw [List.all_eq_true] at hq
      have := hq x hx
      cases hx1 : x.1 <;> simp_all [Gap.isQuiet]
  refine ⟨LA, LB, h1, h2, ?_⟩
  rw [h3, hq]; simp

/-! ## 3. the loss of a multi-frame message is reported -/

/-- `loss_detected`. Frame `k'` of the multi-frame message `p` (`ps = A ++ p :: B`) is lost; no other fault; arbitrary
    environment steps. When everything has been fed, one of:
    (1) a reception error has been logged on the receiver side since the start (`errs` counts the `Ev.err` events
        of a reception class: `errs_lt_logged`). Exactly: First Frame lost → its Consecutive Frames arrive while idle:
        `UnexpectedConsecutiveFrame`; another Consecutive Frame lost → the next one is rejected with
        `WrongSequenceNumber` (or `UnexpectedConsecutiveFrame` after an abort); last Consecutive Frame lost → the
        next message's first frame logs `InterruptedWithFirstFrame` / `InterruptedWithSingleFrame`, or an expired
        timeout check logs `ConsecutiveFrameTimeout`;
    (2) `p` is the LAST message, its LAST frame is the lost one, and the session is still open with everything but
        that frame buffered — then N_Cr is running and the next late timeout check reports
        `ConsecutiveFrameTimeout`: `open_session_times_out`;
    (3) the application itself called `stop_receiving()` (some gap is flagged `stopped`) — the only way to make the
        loss silent. -/
theorem loss_detected (ca : Cfg) (aa : Addr) (sb sb' : State) (h : Link ca aa sb) (A B : List Bytes) (p : Bytes)
    (hs : Sendable sb (A ++ p :: B)) (hidle : sb.rxState = .idle) (k' : Nat)
    (hk' : k' < (encOf ca aa p).length) (hmulti : 2 ≤ (encOf ca aa p).length) (fs : List (Gap × Bytes))
    (hfs : fs.map (·.2) = stream (encOf ca aa) A ++ dropAt k' (encOf ca aa p) ++ stream (encOf ca aa) B)
    (bl : Gap) (hf : FeedsA sb fs bl sb') :
    errs sb < errs sb' ∨
    (B = [] ∧ ∃ g n, (encOf ca aa p).length = n + 2 ∧ k' = n + 1 ∧ InSession g sb.cfg sb.addr (rxTrace sb') p n sb') ∨
    (∃ x ∈ fs, x.1 = Gap.stopped) ∨ bl = Gap.stopped := by
  have ha := h.admissible _ hs
  rcases loss_detected_a aa.tx.txPrefix (encOf ca aa) sb.cfg sb.addr ha.hpre A B p ha.hwf ha.hmax k' hk' hmulti fs hfs
    bl sb sb' ⟨hidle, rfl, rfl, rfl⟩ hf with h1 | h1 | h1
  · exact Or.inl (by omega)
  · exact Or.inr (Or.inl h1)
  · right; right
    simp only [Bool.or_eq_true] at h1
    rcases h1 with h1 | h1
    · left
      unfold hasStop at h1
      rw [List.any_eq_true] at h1
      obtain ⟨x, hx, hx2⟩ := h1
      exact ⟨x, hx, by cases hx1 : x.1 <;> simp_all [Gap.isStop]⟩
    · right
      cases bl <;> simp_all [Gap.isStop]

/-- without `stop_receiving()` calls: error logged, or the last message's session still open -/
theorem loss_detected_no_stop (ca : Cfg) (aa : Addr) (sb sb' : State) (h : Link ca aa sb) (A B : List Bytes) (p : Bytes)
    (hs : Sendable sb (A ++ p :: B)) (hidle : sb.rxState = .idle) (k' : Nat)
    (hk' : k' < (encOf ca aa p).length) (hmulti : 2 ≤ (encOf ca aa p).length) (fs : List (Gap × Bytes))
    (hfs : fs.map (·.2) = stream (encOf ca aa) A ++ dropAt k' (encOf ca aa p) ++ stream (encOf ca aa) B)
    (bl : Gap) (hns : ∀ x ∈ fs, x.1 ≠ Gap.stopped) (hnb : bl ≠ Gap.stopped) (hf : FeedsA sb fs bl sb') :
    (∃ t e, Ev.err t e ∈ sb'.log ∧ isRxErr e = true) ∨
    (B = [] ∧ ∃ g n, (encOf ca aa p).length = n + 2 ∧ k' = n + 1 ∧ InSession g sb.cfg sb.addr (rxTrace sb') p n sb') := by
  rcases loss_detected ca aa sb sb' h A B p hs hidle k' hk' hmulti fs hfs bl hf with h1 | h1 | ⟨x, hx, h1⟩ | h1
  · exact Or.inl (errs_lt_logged sb sb' h1)
  · exact Or.inr h1
  · exact absurd h1 (hns x hx)
  · exact absurd h1 hnb

/-! ## 4. the receiver returns to idle within N_Cr -/

/-- Receiver half of "both layers return to idle within the configured timeouts". A layer in the middle of a
    reception, in any state satisfying the timer invariant `State.RxInv` (true of every reachable state:
    `C07.reachable_timer_inv`): after the next transmit pass N_Cr is running since `t0` (its old start, or now), and
    the first timeout check later than `t0 + tCf` leaves the receiver idle with an empty buffer and the timer
    stopped, logs exactly `ConsecutiveFrameTimeout`, and delivers nothing. (Any frame that ends the session — last
    Consecutive Frame, wrong sequence number, Single Frame, undecodable frame — also leaves it idle with an empty
    buffer: `C06.wrong_sequence_number`, `C06.interrupted_with_single_frame`, `C06.invalid_can_data`,
    `RxAbort.idle_has_empty_buffer`; while idle a late check does nothing: `RxAbort.idle_check_quiet`.)
    Sender half: `C07.tx_timeout_fires` (N_Bs expires → `FlowControlTimeout`, transmitter idle) and
    `C04.no_wedged_state`. -/
theorem returns_to_idle (s : State) (h : State.RxInv s) (hw : s.rxState = .waitCf) :
    ∃ t0, s.processTx.1.timerCf.start = some t0 ∧ (s.timerCf.start = some t0 ∨ t0 = s.now) ∧
      ∀ dt, s.now + dt > t0 + s.cfg.tCf →
        ((s.processTx.1.advance dt).checkTimeoutsRx).rxState = .idle ∧
        ((s.processTx.1.advance dt).checkTimeoutsRx).rxBuf = [] ∧
        ((s.processTx.1.advance dt).checkTimeoutsRx).timerCf.start = none ∧
        ((s.processTx.1.advance dt).checkTimeoutsRx).log =
          .err (s.now + dt) .ConsecutiveFrameTimeout :: s.processTx.1.log ∧
        delivered ((s.processTx.1.advance dt).checkTimeoutsRx) = delivered s :=
  RxAbort.returns_to_idle s h hw

/-- the timeout check itself, at any instant later than `tCf` after the last (re)start of N_Cr -/
theorem timeout_check_closes (s : State) (t0 : Nat) (hto : s.timerCf.timeout = s.cfg.tCf)
    (h0 : s.timerCf.start = some t0) (hlate : s.now > t0 + s.cfg.tCf) :
    s.checkTimeoutsRx.rxState = .idle ∧ s.checkTimeoutsRx.rxBuf = [] ∧ s.checkTimeoutsRx.timerCf.start = none ∧
    s.checkTimeoutsRx.log = .err s.now .ConsecutiveFrameTimeout :: s.log ∧
    delivered s.checkTimeoutsRx = delivered s := timeout_closes s t0 hto h0 hlate

/-- case (2) of `loss_detected`: the session left open by the lost last frame of the last message is closed by the
    timeout, with the error -/
theorem open_session_times_out (g : Spec.TxCfg) (c0 : Cfg) (a0 : Addr) (T : List RxEv) (p : Bytes) (n : Nat)
    (s : State) (hsess : InSession g c0 a0 T p n s) (h : State.RxInv s) (dt : Nat) (hdt : dt > s.cfg.tCf)
    (hnow : ∀ t0, s.timerCf.start = some t0 → t0 ≤ s.now) :
    ((s.processTx.1.advance dt).checkTimeoutsRx).rxState = .idle ∧
    ((s.processTx.1.advance dt).checkTimeoutsRx).log = .err (s.now + dt) .ConsecutiveFrameTimeout :: s.processTx.1.log ∧
    delivered ((s.processTx.1.advance dt).checkTimeoutsRx) = delivered s := by
  obtain ⟨t0, _, hor, hall⟩ := returns_to_idle s h hsess.sess.state
  have hle : t0 ≤ s.now := by
    rcases hor with hor | hor
    · exact hnow t0 hor
    · omega
  obtain ⟨h1, _, _, h4, h5⟩ := hall dt (by omega)
  exact ⟨h1, h4, h5⟩

/-! ## Non-vacuity: concrete exchanges (receiver `sB`, sender `exCa` / `exA` of Props/C11.lean) -/

/-- three messages: 20 bytes (First Frame + 2 Consecutive Frames), 3 bytes (Single Frame), 125 bytes (First Frame +
    17 Consecutive Frames, sequence numbers 1..15, 0, 1) -/
def abPs : List Bytes := [exP1, exP2, exLong]
/-- the 22 frames on the wire: 0–2, 3, 4–21 (frame 4 + i = Consecutive Frame #i of the third message) -/
def abF : List CanMsg := (abPs.map (wire exCa exA)).flatten
/-- a transmit pass before every frame (the Flow Control goes out, N_Cr restarts) -/
def abQuiet (ms : List CanMsg) : List (List Op × CanMsg) := ms.map (fun m => ([Op.tx], m))

theorem abLink : Link exCa exA sB := ⟨by decide, by decide, rfl⟩
theorem abSendable : Sendable sB abPs := by unfold Sendable abPs; decide +kernel
theorem abData : abF.map (·.data) = stream (encOf exCa exA) abPs := wire_data exCa exA abPs

example : abF.length = 22 ∧ (abF[20]?).map (·.data) = some [0x20, 111, 112, 113, 114, 115, 116, 117] ∧
    (abF[21]?).map (·.data) = some [0x21, 118, 119, 120, 121, 122, 123, 124] := by decide +kernel

/-- no fault, no abort: everything is delivered -/
example : (runA sB (abQuiet abF) []).1.rxQueue = [exP1, exP2, exLong] ∧
    (runA sB (abQuiet abF) []).2.1.map (·.1) = List.replicate 22 Gap.quiet := by decide +kernel

/-- Scenario 1: Consecutive Frame #16 (sequence number 0, frame 20) of the third message is lost; 2 s later the
    timeout check runs (N_Cr = 1 s), then the last Consecutive Frame arrives. -/
def abSched1 : List (List Op × CanMsg) :=
  abQuiet (abF.take 20) ++ (abF.drop 21).map (fun m => ([Op.tx, Op.advance 2000000000, Op.check], m))

example : abSched1.map (·.2.data) = Fault.apply (.drop 20) (stream (encOf exCa exA) abPs) := by decide +kernel
/-- the first two messages are delivered, the third is not (nothing of it); the timeout is reported, the late last
    frame is rejected; the gap before it is flagged `timedOut`; the receiver is idle -/
example : (runA sB abSched1 []).1.rxQueue = [exP1, exP2] ∧
    rxTrace (runA sB abSched1 []).1 =
      [.deliver exP1, .deliver exP2, .err .ConsecutiveFrameTimeout, .err .UnexpectedConsecutiveFrame] ∧
    (runA sB abSched1 []).2.1.map (·.1) = List.replicate 20 Gap.quiet ++ [Gap.timedOut] ∧
    (runA sB abSched1 []).1.rxState = .idle ∧ (runA sB abSched1 []).1.rxBuf = [] := by decide +kernel
/-- `contained_any_aborts` on scenario 1 -/
example : ∃ L, delivered (runA sB abSched1 []).1 = delivered sB ++ L ∧ Outcome (encOf exCa exA) abPs (.drop 20) L ∧
    (∀ q ∈ L, q ∈ abPs) := by
  obtain ⟨L, h1, h2, h3, _⟩ := contained_any_aborts exCa exA sB _ abLink abPs abSendable (by decide) (.drop 20)
    (by show 20 < _; decide +kernel) _ ((runA_data abSched1 [] sB).trans (by decide +kernel)) _
    (feedsA_runA abSched1 [] sB)
  exact ⟨L, h1, h2, h3⟩
/-- `loss_detected` on scenario 1 (`A` = the first two messages, `p` = the third, `B` empty, its frame 16 lost): here
    case (1) — two errors were logged -/
example : errs sB < errs (runA sB abSched1 []).1 ∨
    (([] : List Bytes) = [] ∧ ∃ g n, (encOf exCa exA exLong).length = n + 2 ∧ 16 = n + 1 ∧
      InSession g sB.cfg sB.addr (rxTrace (runA sB abSched1 []).1) exLong n (runA sB abSched1 []).1) ∨
    (∃ x ∈ (runA sB abSched1 []).2.1, x.1 = Gap.stopped) ∨ (runA sB abSched1 []).2.2 = Gap.stopped :=
  loss_detected exCa exA sB _ abLink [exP1, exP2] [] exLong abSendable (by decide) 16 (by decide +kernel)
    (by decide +kernel) _ ((runA_data abSched1 [] sB).trans (by decide +kernel)) _ (feedsA_runA abSched1 [] sB)
example : errs sB = 0 ∧ errs (runA sB abSched1 []).1 = 2 := by decide +kernel

/-- Scenario 2: the First Frame of the first message is doubled, and `stop_receiving()` is called right after the
    copy. -/
def abSched2 : List (List Op × CanMsg) :=
  abQuiet ((dupAt 0 abF).take 2) ++ (((dupAt 0 abF).drop 2).take 1).map (fun m => ([Op.stop], m)) ++
    abQuiet ((dupAt 0 abF).drop 3)

example : abSched2.map (·.2.data) = Fault.apply (.dup 0) (stream (encOf exCa exA) abPs) := by decide +kernel
/-- the first message is lost (its two Consecutive Frames are rejected), the other two are delivered intact -/
example : (runA sB abSched2 []).1.rxQueue = [exP2, exLong] ∧
    rxTrace (runA sB abSched2 []).1 =
      [.err .InterruptedWithFirstFrame, .err .UnexpectedConsecutiveFrame, .err .UnexpectedConsecutiveFrame,
       .deliver exP2, .deliver exLong] ∧
    ((runA sB abSched2 []).2.1.map (·.1)).take 4 = [Gap.quiet, Gap.quiet, Gap.stopped, Gap.quiet] := by
  decide +kernel
example : ∃ L, (runA sB abSched2 []).1.rxQueue = sB.rxQueue ++ L ∧ Outcome (encOf exCa exA) abPs (.dup 0) L ∧
    (∀ q ∈ L, q ∈ abPs) :=
  contained_any_aborts_queue exCa exA sB abLink abPs abSendable (by decide) (.dup 0) (by show 0 < _; decide +kernel)
    abSched2 [] (by decide +kernel)

/-- Scenario 2b: the abort falls BETWEEN the First Frame and its copy: the copy restarts the message, everything is
    delivered. -/
def abSched2b : List (List Op × CanMsg) :=
  abQuiet ((dupAt 0 abF).take 1) ++ (((dupAt 0 abF).drop 1).take 1).map (fun m => ([Op.stop], m)) ++
    abQuiet ((dupAt 0 abF).drop 2)
example : (runA sB abSched2b []).1.rxQueue = [exP1, exP2, exLong] ∧
    ((runA sB abSched2b []).2.1.map (·.1)).take 3 = [Gap.quiet, Gap.stopped, Gap.quiet] := by decide +kernel

/-- Scenario 3 (the sequence-number wrap-around worry): no frame fault; the reception of the 125-byte message is
    aborted by a timeout after its Consecutive Frame #3; the remaining 14 Consecutive Frames — sequence numbers
    4..15, 0, 1, the wrapped ones included — are all rejected; nothing of the message is delivered. -/
def abSched3 : List (List Op × CanMsg) :=
  abQuiet (abF.take 8) ++ ((abF.drop 8).take 1).map (fun m => ([Op.advance 2000000000, Op.check], m)) ++
    abQuiet (abF.drop 9)
example : abSched3.map (·.2) = abF := by decide +kernel
example : (runA sB abSched3 []).1.rxQueue = [exP1, exP2] ∧
    rxTrace (runA sB abSched3 []).1 = [.deliver exP1, .deliver exP2, .err .ConsecutiveFrameTimeout] ++
      List.replicate 14 (.err .UnexpectedConsecutiveFrame) := by decide +kernel

/-- Scenario 4 ("any number may be missing"): no frame fault, `stop_receiving()` in the middle of the first and of
    the third message: only the Single Frame message survives. -/
def abSched4 : List (List Op × CanMsg) :=
  abQuiet (abF.take 2) ++ ((abF.drop 2).take 1).map (fun m => ([Op.stop], m)) ++ abQuiet ((abF.drop 3).take 7) ++
    ((abF.drop 10).take 1).map (fun m => ([Op.stop], m)) ++ abQuiet (abF.drop 11)
example : abSched4.map (·.2) = abF := by decide +kernel
example : (runA sB abSched4 []).1.rxQueue = [exP2] := by decide +kernel

/-- Scenario 5: the LAST frame of the LAST message is lost, nothing else happens: case (2) of `loss_detected` — the
    session is open, N_Cr is running; one transmit pass, 1 s + 1 ns, a timeout check: idle, error reported. -/
def abSched5 : List (List Op × CanMsg) := abQuiet (abF.take 21)
def abS5 : State := (runA sB abSched5 []).1
example : abSched5.map (·.2.data) = Fault.apply (.drop 21) (stream (encOf exCa exA) abPs) := by decide +kernel
example : abS5.rxState = .waitCf ∧ abS5.rxQueue = [exP1, exP2] ∧ errs abS5 = 0 ∧ abS5.rxBuf = exLong.take 118 := by
  decide +kernel
example : State.RxInv abS5 := by
  unfold State.RxInv State.RxTimerInv State.RxPendInv State.RxTimerInv2; decide +kernel
example : ((abS5.processTx.1.advance 1000000001).checkTimeoutsRx).rxState = .idle ∧
    ((abS5.processTx.1.advance 1000000001).checkTimeoutsRx).rxBuf = [] ∧
    (((abS5.processTx.1.advance 1000000001).checkTimeoutsRx).log.head? =
      some (.err 1000000001 .ConsecutiveFrameTimeout)) := by decide +kernel

/-- case (2) of `loss_detected` does occur: on scenario 5 no error was logged and nobody called `stop_receiving()`, so
    the theorem yields the open session … -/
example : ∃ g n, InSession g sB.cfg sB.addr (rxTrace abS5) exLong n abS5 := by
  have he : errs sB = 0 ∧ errs abS5 = 0 := by decide +kernel
  have hq : ∀ x ∈ (runA sB abSched5 []).2.1, x.1 = Gap.quiet := by decide +kernel
  have hb : (runA sB abSched5 []).2.2 = Gap.quiet := by decide +kernel
  rcases loss_detected exCa exA sB _ abLink [exP1, exP2] [] exLong abSendable (by decide) 17 (by decide +kernel)
    (by decide +kernel) _ ((runA_data abSched5 [] sB).trans (by decide +kernel)) _ (feedsA_runA abSched5 [] sB)
    with h | ⟨_, g, n, _, _, h⟩ | ⟨x, hx, h⟩ | h
  · have : errs sB < errs abS5 := h
    omega
  · exact ⟨g, n, h⟩
  · rw [hq x hx] at h; cases h
  · rw [hb] at h; cases h
/-- … and `returns_to_idle` / `open_session_times_out` apply to it (here N_Cr is stopped — the block of 8 Consecutive
    Frames is complete and the ContinueToSend is still pending —, the transmit pass starts it) -/
example := returns_to_idle abS5 (by unfold State.RxInv State.RxTimerInv State.RxPendInv State.RxTimerInv2; decide +kernel)
  (by decide +kernel)
example (g : Spec.TxCfg) (n : Nat) (h : InSession g sB.cfg sB.addr (rxTrace abS5) exLong n abS5) :=
  open_session_times_out g _ _ _ _ n abS5 h
    (by unfold State.RxInv State.RxTimerInv State.RxPendInv State.RxTimerInv2; decide +kernel) 1000000001
    (by decide +kernel)
    (by intro t0 h0; have : abS5.timerCf.start = none := by decide +kernel
        rw [this] at h0; cases h0)
example : abS5.timerCf.start = none ∧ abS5.pendingFc = true ∧ abS5.processTx.1.timerCf.start = some 0 := by
  decide +kernel
/-- `timeout_check_closes` on scenario 1: the state in which the check fires -/
example : ∃ s : State, s.timerCf.timeout = s.cfg.tCf ∧ s.timerCf.start = some 0 ∧ s.now > 0 + s.cfg.tCf ∧
    s.rxState = .waitCf :=
  ⟨((runA sB (abQuiet (abF.take 20)) []).1.processTx.1.advance 2000000000), by decide +kernel⟩

/-- `loss_detected_no_stop` on scenario 1 (no gap is flagged `stopped`) -/
example : (∃ t e, Ev.err t e ∈ (runA sB abSched1 []).1.log ∧ isRxErr e = true) ∨
    (([] : List Bytes) = [] ∧ ∃ g n, (encOf exCa exA exLong).length = n + 2 ∧ 16 = n + 1 ∧
      InSession g sB.cfg sB.addr (rxTrace (runA sB abSched1 []).1) exLong n (runA sB abSched1 []).1) :=
  loss_detected_no_stop exCa exA sB _ abLink [exP1, exP2] [] exLong abSendable (by decide) 16 (by decide +kernel)
    (by decide +kernel) _ ((runA_data abSched1 [] sB).trans (by decide +kernel)) _ (by decide +kernel)
    (by decide +kernel) (feedsA_runA abSched1 [] sB)

/-- `contained_any_aborts_frames` on scenario 2 (`F'` = the stream with frame 0 doubled) -/
example : ∃ L, delivered (runA sB abSched2 []).1 = delivered sB ++ L ∧ (∀ q ∈ L, q ∈ abPs) := by
  obtain ⟨L, h1, h2, _⟩ := contained_any_aborts_frames exCa exA sB _ abLink abPs abSendable (by decide) 0
    (dupAt 0 (stream (encOf exCa exA) abPs)) (Or.inr ⟨by decide +kernel, Or.inr rfl⟩) _
    ((runA_data abSched2 [] sB).trans (by decide +kernel)) _ (feedsA_runA abSched2 [] sB)
  exact ⟨L, h1, h2⟩

/-- `aborted_message_missing` on scenario 3 (no frame fault; the third message is aborted before its Consecutive
    Frame #4, i.e. the gap before frame 8 is flagged `timedOut`) -/
example : ∃ LA LB, Outcome (encOf exCa exA) [exP1, exP2] .none LA ∧ Outcome (encOf exCa exA) [] .none LB ∧
    delivered (runA sB abSched3 []).1 = delivered sB ++ (LA ++ LB) :=
  aborted_message_missing exCa exA sB _ abLink [exP1, exP2] [] exLong abSendable (by decide) .none .none trivial trivial
    ((runA sB abSched3 []).2.1.take 4) ((runA sB abSched3 []).2.1.drop 4) [] (by decide +kernel) (by decide +kernel)
    (by decide +kernel) _ (Gap.timedOut, [0x24, 27, 28, 29, 30, 31, 32, 33]) (by decide +kernel) (by decide)
    (by
      have := feedsA_runA abSched3 [] sB
      have e : (runA sB abSched3 []).2.1 = (runA sB abSched3 []).2.1.take 4 ++ (runA sB abSched3 []).2.1.drop 4 ++ [] := by
        decide +kernel
      rwa [e] at this)

/-- hypotheses of `message_fate` / `missing_only_if_hit_or_aborted` on scenario 1: the second message (`A` = [first],
    `B` = [third] with its frame 16 lost) is not hit and not aborted: delivered at its place -/
example : ∃ LA LB, Outcome (encOf exCa exA) [exP1] .none LA ∧ Outcome (encOf exCa exA) [exLong] (.drop 16) LB ∧
    delivered (runA sB abSched1 []).1 = delivered sB ++ (LA ++ exP2 :: LB) :=
  missing_only_if_hit_or_aborted exCa exA sB _ abLink [exP1] [exLong] exP2 abSendable (by decide) .none (.drop 16)
    trivial (by show 16 < _; decide +kernel) ((runA sB abSched1 []).2.1.take 3) (((runA sB abSched1 []).2.1.drop 3).take 1)
    ((runA sB abSched1 []).2.1.drop 4) (by decide +kernel) (by decide +kernel) (by decide +kernel) _
    (by decide +kernel)
    (by
      have := feedsA_runA abSched1 [] sB
      have e : (runA sB abSched1 []).2.1 = (runA sB abSched1 []).2.1.take 3 ++
          ((runA sB abSched1 []).2.1.drop 3).take 1 ++ (runA sB abSched1 []).2.1.drop 4 := by decide +kernel
      rwa [e] at this)

end Isotp.C11

#print axioms Isotp.C11.feedsA_generalises_feeds
#print axioms Isotp.C11.contained_any_aborts
#print axioms Isotp.C11.contained_any_aborts_frames
#print axioms Isotp.C11.contained_any_aborts_queue
#print axioms Isotp.C11.message_fate
#print axioms Isotp.C11.missing_only_if_hit_or_aborted
#print axioms Isotp.C11.aborted_message_missing
#print axioms Isotp.C11.loss_detected
#print axioms Isotp.C11.loss_detected_no_stop
#print axioms Isotp.C11.returns_to_idle
#print axioms Isotp.C11.timeout_check_closes
#print axioms Isotp.C11.open_session_times_out
