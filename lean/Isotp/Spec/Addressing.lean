import Isotp.Address
/-
  Reference definitions for property C09 (addressing), written from
  /repo/doc/source/isotp/addressing.rst ("Condition to receive a message (discarded if not met)",
  "A message arbitration ID sent in ... is encoded like the following") and from the docstring of
  `isotp.Address`, *not* from the model's `Half.isForMe` / `Half.txId`.

  The identifier arithmetic is deliberately written in another form than the model:
  bit fields are cut out with `%` first and `/` second, the 28..16 field is obtained by
  subtraction, and a Python-style `|`/`<<` version of the emitted identifier is given too.
-/
namespace Isotp.Spec
open Isotp

/-! ### The five documented addressing schemes and the identifier width of each mode -/

/-- The five sections of addressing.rst. -/
inductive Scheme where
  | normal | normalFixed | extended | mixed11 | mixed29
  deriving DecidableEq, Repr

/-- Which section of the documentation describes an `AddressingMode` member. -/
def scheme : Mode → Scheme
  | .n11 => .normal   | .n29 => .normal
  | .nf29 => .normalFixed
  | .e11 => .extended | .e29 => .extended
  | .m11 => .mixed11
  | .m29 => .mixed29

/-- "This mode is possible in both legislated 11-bits and extended 29-bits CAN identifiers" /
    "This mode is only possible with extended 29-bits CAN identifiers": the identifier type a
    frame must have (and that emitted frames have) in each mode, from the member names. -/
def uses29bitIds : Mode → Bool
  | .n11 => false | .e11 => false | .m11 => false
  | .n29 => true  | .nf29 => true | .e29 => true | .m29 => true

/-! ### Bit fields of a 29-bit identifier `0x18DA<TA><SA>` -/

/-- bits 7..0 of an identifier: the frame's Source Address in the fixed schemes. -/
def idSourceField (id : Nat) : Nat := id % 256

/-- bits 15..8 of an identifier: the frame's Target Address in the fixed schemes. -/
def idTargetField (id : Nat) : Nat := id % 65536 / 256

/-- the identifier with everything except bits 28..16 cleared (`0x18DA0000` part). -/
def idBasePart (id : Nat) : Nat := id % 536870912 - id % 65536

/-- bits 28..16 of an identifier as a 13-bit number (`0x18DA`). -/
def idBaseField (id : Nat) : Nat := id % 536870912 / 65536

/-! ### Reception condition -/

/-- "`field` must match receiver `param`": the parameter must be set and equal. -/
def isParam (field : Nat) : Option Nat → Bool
  | some v => decide (field = v)
  | none => false

/-- "Payload first byte must match receiver `param`" (no first byte: not met). -/
def firstByteIs (d : Bytes) (param : Option Nat) : Bool :=
  match d with
  | [] => false
  | b :: _ => isParam b.toNat param

/-- Normal fixed / mixed 29: the identifier is `<physical or functional base><TA><SA>` with
    "Message Target Address must match receiver `source_address`" and
    "Message Source Address must match the receiver `target_address`". -/
def fixedIdOk (h : Half) (id : Nat) : Bool :=
  (decide (idBasePart id = h.physId) || decide (idBasePart id = h.funcId)) &&
  isParam (idTargetField id) h.sa &&
  isParam (idSourceField id) h.ta

/-- The documented "Condition to receive a message (discarded if not met)" of an address,
    including the 11/29-bit identifier type of the mode. -/
def receptionCondition (h : Half) (m : CanMsg) : Bool :=
  decide (m.ext = uses29bitIds h.mode) &&
  match scheme h.mode with
  | .normal      => isParam m.id h.rxid
  | .extended    => isParam m.id h.rxid && firstByteIs m.data h.sa
  | .normalFixed => fixedIdOk h m.id
  | .mixed11     => isParam m.id h.rxid && firstByteIs m.data h.ae
  | .mixed29     => fixedIdOk h m.id && firstByteIs m.data h.ae

/-! ### Emitted identifier and payload prefix -/

/-- value of a parameter that the mode requires (0 when it was left unset, which the
    constructor excludes for the parameters a transmitting address needs). -/
def param : Option Nat → Nat
  | some v => v
  | none => 0

/-- `0x18DA0000` (physical) / `0x18DB0000` (functional) or the user supplied bases. -/
def baseFor (h : Half) : Tat → Nat
  | .physical => h.physId
  | .functional => h.funcId

/-- The documented transmit identifier: `txid` in the Normal, Extended and Mixed-11 schemes
    (for both target address types), `<base><TA><SA>` in the fixed schemes. -/
def emittedId (h : Half) (t : Tat) : Nat :=
  match scheme h.mode with
  | .normalFixed => baseFor h t + (256 * param h.ta + param h.sa)
  | .mixed29     => baseFor h t + (256 * param h.ta + param h.sa)
  | .normal      => param h.txid
  | .extended    => param h.txid
  | .mixed11     => param h.txid

/-- The same identifier as address.py computes it: `bits28_16 | (target_address << 8) | source_address`.
    (Agrees with `emittedId` for well-formed addresses: `emittedId_eq_bitwise`.) -/
def emittedIdBitwise (h : Half) (t : Tat) : Nat :=
  match scheme h.mode with
  | .normalFixed => baseFor h t ||| (param h.ta <<< 8) ||| param h.sa
  | .mixed29     => baseFor h t ||| (param h.ta <<< 8) ||| param h.sa
  | _            => param h.txid

/-- "The additional addresses will be added as the first byte of each CAN message sent":
    `target_address` in Extended, `address_extension` in Mixed, nothing otherwise. -/
def emittedPrefix (h : Half) : Bytes :=
  match scheme h.mode with
  | .extended => [UInt8.ofNat (param h.ta)]
  | .mixed11  => [UInt8.ofNat (param h.ae)]
  | .mixed29  => [UInt8.ofNat (param h.ae)]
  | .normal   => []
  | .normalFixed => []

/-- What the documentation says about every frame a layer emits for target address type `t`. -/
def EmittedFrameOk (h : Half) (t : Tat) (msg : CanMsg) : Prop :=
  msg.id = emittedId h t ∧ msg.ext = uses29bitIds h.mode ∧ emittedPrefix h <+: msg.data

/-- … for one of the two target address types. -/
def EmittedFrameOkAny (h : Half) (msg : CanMsg) : Prop :=
  EmittedFrameOk h .physical msg ∨ EmittedFrameOk h .functional msg

/-! ### The peer's address -/

/-- The address of the peer: what I transmit on it receives on and vice versa
    (`txid`↔`rxid`, `target_address`↔`source_address`, tx-only↔rx-only); same mode, same
    `address_extension`, same physical / functional bases. -/
def mirror (h : Half) : Half :=
  { mode := h.mode
    txid := h.rxid, rxid := h.txid
    ta := h.sa, sa := h.ta
    ae := h.ae
    physId := h.physId, funcId := h.funcId
    rxOnly := h.txOnly, txOnly := h.rxOnly }

/-! ### Well-formed addresses (what `Address.validate` + the constructor guarantee) -/

/-- an optional parameter is unset or at most `b` -/
def atMost (o : Option Nat) (b : Nat) : Bool :=
  match o with
  | none => true
  | some v => decide (v ≤ b)

/-- a base identifier only has bits 28..16 (`x & 0x1FFF0000 = x`) -/
def baseOk (x : Nat) : Bool := decide (x % 65536 = 0) && decide (x < 536870912)

/-- the presence rules of the table "Address required parameters" -/
def presence (h : Half) : Bool :=
  match scheme h.mode with
  | .normal      => (h.txOnly || h.rxid.isSome) && (h.rxOnly || h.txid.isSome)
  | .normalFixed => h.ta.isSome && h.sa.isSome
  | .extended    => (h.rxOnly || (h.ta.isSome && h.txid.isSome)) &&
                    (h.txOnly || (h.sa.isSome && h.rxid.isSome))
  | .mixed11     => h.ae.isSome && (h.txOnly || h.rxid.isSome) && (h.rxOnly || h.txid.isSome)
  | .mixed29     => h.ta.isSome && h.sa.isSome && h.ae.isSome

/-- "txid and rxid must be different" (schemes with explicit identifiers). -/
def idsDiffer (h : Half) : Bool :=
  match scheme h.mode with
  | .normal | .extended | .mixed11 => decide (h.rxid ≠ h.txid)
  | _ => true

end Isotp.Spec

namespace Isotp.Half
open Isotp.Spec

/-- Decidable well-formedness of a constructed address: the three address bytes are bytes,
    11-bit identifiers are at most 0x7FF (29-bit `txid`/`rxid` are *not* range checked by
    address.py), the bases only have bits 28..16, not both partial flags, the presence rules,
    `txid ≠ rxid`. `mkAddress` establishes it (`C09.mkAddress_wf`). -/
def wf (h : Half) : Bool :=
  atMost h.ta 255 && atMost h.sa 255 && atMost h.ae 255 &&
  (uses29bitIds h.mode || (atMost h.txid 2047 && atMost h.rxid 2047)) &&
  baseOk h.physId && baseOk h.funcId &&
  !(h.rxOnly && h.txOnly) && presence h && idsDiffer h

/-- well-formed and able to transmit (not constructed with `rx_only=True`). -/
def txWf (h : Half) : Bool := h.wf && !h.rxOnly

end Isotp.Half
