#!/venv/bin/python
"""Runs seedtool.detect for every seeded mutant (on a scratch worktree or /repo) and prints the detection matrix.
   seedmatrix.py run [--scratch <wt>] [--only-missing] [--tier quick]   |   seedmatrix.py show"""
import os, sys, json
sys.path.insert(0, os.path.dirname(os.path.abspath(__file__)))
import seedtool
VERIF = seedtool.VERIF
ALL = ['C%02d' % i for i in range(1, 21)]


def show():
    d = os.path.join(VERIF, 'seeded')
    rows = []
    for name in sorted(os.listdir(d)):
        p = os.path.join(d, name, 'detection.json')
        if not os.path.exists(p):
            rows.append((name, None, None, None))
            continue
        r = json.load(open(p))
        target = name[:3]
        rows.append((name, target in r['detected_by'], r['detected_by'], r['with_failing_input']))
    for name, hit, by, wi in rows:
        if by is None:
            print('%-42s (not run)' % name)
        else:
            print('%-42s target:%-5s by=%s  failing-input=%s' % (name, 'HIT' if hit else 'MISS', ','.join(by), ','.join(wi)))
    return rows


def main():
    a = sys.argv[1:]
    if a[0] == 'show':
        show()
        return
    scratch, tier, only_missing = None, 'quick', '--only-missing' in a
    if '--scratch' in a:
        scratch = a[a.index('--scratch') + 1]
    if '--tier' in a:
        tier = a[a.index('--tier') + 1]
    part = None
    if '--part' in a:
        k, n = a[a.index('--part') + 1].split('/')
        part = (int(k), int(n))
    d = os.path.join(VERIF, 'seeded')
    names = [x for x in sorted(os.listdir(d)) if os.path.isdir(os.path.join(d, x))]
    for idx, name in enumerate(names):
        if part and idx % part[1] != part[0]:
            continue
        if only_missing and os.path.exists(os.path.join(d, name, 'detection.json')):
            continue
        print('=====', name, flush=True)
        props = [p for p in ALL if p not in ('C13', 'C14') or name.startswith(p)]
        if '--target-only' in a:
            try:
                props = [json.load(open(os.path.join(d, name, 'meta.json'))).get('checked_by') or name[:3]]
            except Exception:
                props = [name[:3]]
        try:
            seedtool.detect(name, props, scratch, tier)
        except SystemExit as e:
            print('skipped:', e)
    show()


if __name__ == '__main__':
    main()
