import Isotp.Process
/-
  Helper lemmas for C07 (timeouts) and C18 (listen mode).
-/
set_option linter.unusedSimpArgs false
set_option linter.unusedVariables false

namespace Isotp
namespace State

/-! ## `processTx` cut in four stages (definitionally the same function) -/

/-- stage 1: the Flow Control requested by the receive side -/
def txPend (s : State) : State × Option (Option CanMsg) :=
  if s.pendingFc then
    let s := { s with pendingFc := false }
    match s.pendingFcStatus with
    | none => (s.raise .AttributeError, some none)
    | some st =>
      let s := if st = 0 then s.startRxCfTimer else s
      if !s.cfg.listen then
        match makeFlowControl s.cfg s.addr st with
        | none => (s.raise .ValueError, some none)
        | some msg => (s, some (some msg))
      else (s, none)
  else (s, none)

/-- stage 2: the Flow Control mailbox is consumed -/
def txFc (s : State) : State × Bool :=
  let fc := s.lastFc
  let s := { s with lastFc := none }
  match fc with
  | some f => if f.status = 2 then (((s.stopSending false).error .Overflow), true) else (s.handleFc f, false)
  | none => (s, false)

/-- stage 3: the N_Bs check -/
def txTimeout (s : State) : State :=
  if s.timerFc.timedOut s.now then (s.error .FlowControlTimeout).stopSending false else s

/-- stage 4a: a depleted generator with nothing in standby ends the transmission -/
def txDeplete (s : State) : State :=
  if s.txState ≠ .idle && (match s.active with | some r => r.depleted | none => false) && s.standby.isNone
  then s.stopSending true else s

/-- stage 4b: the transmit FSM proper -/
def txCore (s : State) (allowed : Nat) : State × Option CanMsg × Bool :=
  match s.txState with
  | .idle =>
    let (s, out) := s.readTxQueue allowed s.txQueue
    (s, out, false)
  | .sfStandby | .ffStandby =>
    match s.standby with
    | some msg =>
      if msg.data.length ≤ allowed then
        let s := { s with standby := none }
        if s.txState = .ffStandby then
          (({ s.startRxFcTimer with txState := .waitFc }), some msg, false)
        else (s.stopSending true, some msg, false)
      else (s, none, false)
    | none => (s, none, false)
  | .waitFc => (s, none, false)
  | .transmitCf => s.transmitCf allowed

/-- stage 4c: an exception discards the output; otherwise the rate limiter is informed -/
def txFinish (r : State × Option CanMsg × Bool) : State × Option CanMsg × Bool :=
  if r.1.exc.isSome then (r.1, none, false) else
  match r.2.1 with
  | some msg => ({ r.1 with rl := r.1.rl.inform r.1.now msg.data.length }, some msg, r.2.2)
  | none => (r.1, none, r.2.2)

/-- stage 4: the transmit FSM -/
def txFsm (s : State) (allowed : Nat) : State × Option CanMsg × Bool :=
  if s.txState ≠ .idle && s.active.isNone then (s.raise .AssertionError, none, false) else
  txFinish (s.txDeplete.txCore allowed)

theorem processTx_eq (s : State) :
    s.processTx =
      match s.txPend with
      | (s1, some none) => (s1, none, false)
      | (s1, some (some msg)) => (s1, some msg, true)
      | (s1, none) =>
        match s1.txFc with
        | (s2, true) => (s2, none, false)
        | (s2, false) => s2.txTimeout.txFsm (s.rl.allowedBytes s.cfg.rlBitMax) := by
  rfl

/-! ## the timer invariants -/

/-- N_Cr: no timer while no reception is in progress; the timeout value is the configured one -/
def RxTimerInv (s : State) : Prop :=
  (s.rxState = .idle → s.timerCf.start = none) ∧ s.timerCf.timeout = s.cfg.tCf

/-- an idle receiver never has a ContinueToSend Flow Control pending (the only pending one can be the
    Overflow answer to a too long First Frame) -/
def RxPendInv (s : State) : Prop :=
  s.rxState = .idle → s.pendingFc = true → s.pendingFcStatus ≠ some 0

/-- a reception with a stopped N_Cr timer is waiting for its own ContinueToSend to go out -/
def RxTimerInv2 (s : State) : Prop :=
  s.rxState = .waitCf → s.timerCf.start = none → s.pendingFc = true ∧ s.pendingFcStatus = some 0

def RxInv (s : State) : Prop := RxTimerInv s ∧ RxPendInv s ∧ RxTimerInv2 s

/-- N_Bs: the timer runs exactly in WAIT_FC -/
def TxTimerInv (s : State) : Prop :=
  (s.txState ≠ .waitFc → s.timerFc.start = none) ∧ (s.txState = .waitFc → s.timerFc.start ≠ none) ∧
  s.timerFc.timeout = s.cfg.tFc

theorem RxInv_init (c : Cfg) (a : Addr) : RxInv (State.init c a) := by
  simp [RxInv, RxTimerInv, RxPendInv, RxTimerInv2, State.init]

theorem TxTimerInv_init (c : Cfg) (a : Addr) : TxTimerInv (State.init c a) := by
  simp [TxTimerInv, State.init]

theorem RxInv_processRx (s : State) (m : CanMsg) (h : RxInv s) : RxInv (s.processRx m).1 := by
  unfold RxInv RxTimerInv RxPendInv RxTimerInv2 at *
  unfold processRx startReception
  obtain ⟨⟨h1, h2⟩, h3, h4⟩ := h
  cases hs : s.rxState <;> simp only [hs] at h1 h3 h4 ⊢ <;>
  repeat' split
  all_goals
    simp_all [deliver, stopReceiving, State.error, emit, requestFc, startRxCfTimer, Timer.stop]

theorem RxInv_checkTimeoutsRx (s : State) (h : RxInv s) : RxInv s.checkTimeoutsRx := by
  unfold RxInv RxTimerInv RxPendInv RxTimerInv2 at *
  unfold checkTimeoutsRx
  grind [stopReceiving, State.error, emit, Timer.stop]

/-! ## frame conditions: what the transmit side does not touch, and conversely -/

/-- everything `processRx` / `checkTimeoutsRx` read or write, except the mailbox and the log -/
structure RxView where
  cfg : Cfg
  addr : Addr
  now : Nat
  rxState : RxSt
  rxBuf : Bytes
  rxFrameLen : Nat
  lastSeq : Nat
  rxBlockCnt : Nat
  actualRxdl : Option Nat
  timerCf : Timer
  pendingFc : Bool
  pendingFcStatus : Option Nat
  rxQueue : List Bytes

def rxView (s : State) : RxView :=
  { cfg := s.cfg, addr := s.addr, now := s.now, rxState := s.rxState, rxBuf := s.rxBuf,
    rxFrameLen := s.rxFrameLen, lastSeq := s.lastSeq, rxBlockCnt := s.rxBlockCnt,
    actualRxdl := s.actualRxdl, timerCf := s.timerCf, pendingFc := s.pendingFc,
    pendingFcStatus := s.pendingFcStatus, rxQueue := s.rxQueue }

/-- everything the transmit FSM owns -/
structure TxView where
  cfg : Cfg
  addr : Addr
  now : Nat
  txState : TxSt
  txQueue : List Req
  active : Option Req
  standby : Option CanMsg
  txFrameLen : Nat
  txSeq : Nat
  txBlockCnt : Nat
  remoteBs : Option Nat
  wftCnt : Nat
  timerFc : Timer
  timerStmin : Timer
  rl : Limiter
  exc : Option PyExc

def txView (s : State) : TxView :=
  { cfg := s.cfg, addr := s.addr, now := s.now, txState := s.txState, txQueue := s.txQueue,
    active := s.active, standby := s.standby, txFrameLen := s.txFrameLen, txSeq := s.txSeq,
    txBlockCnt := s.txBlockCnt, remoteBs := s.remoteBs, wftCnt := s.wftCnt, timerFc := s.timerFc,
    timerStmin := s.timerStmin, rl := s.rl, exc := s.exc }

theorem rxView_stopSending (s : State) (b : Bool) : (s.stopSending b).rxView = s.rxView := by
  unfold stopSending; split <;> simp [rxView, emit]

theorem rxView_handleFc (s : State) (f : FcFrame) : (s.handleFc f).rxView = s.rxView := by
  unfold handleFc
  repeat' split
  all_goals simp [rxView, State.error, emit, stopSending, startRxFcTimer]
  all_goals split <;> simp

theorem rxView_consumeActive (s : State) (r : Req) (n : Nat) (e : Bool) :
    (s.consumeActive r n e).1.rxView = s.rxView := by
  unfold consumeActive; simp only []; split <;> simp [rxView, emit]

theorem rxView_startTx (s : State) (r : Req) (a : Nat) : (s.startTx r a).1.rxView = s.rxView := by
  unfold startTx
  grind [rxView, rxView_consumeActive, rxView_stopSending, State.error, emit, State.raise, startRxFcTimer]

theorem rxView_readTxQueue (s : State) (a : Nat) (l : List Req) :
    (s.readTxQueue a l).1.rxView = s.rxView := by
  induction l generalizing s with
  | nil => simp [readTxQueue, rxView]
  | cons r rest ih =>
    unfold readTxQueue
    simp only []
    split
    · rw [ih]; simp [rxView, emit]
    · rw [rxView_startTx]; simp [rxView]

theorem rxView_transmitCf (s : State) (a : Nat) : (s.transmitCf a).1.rxView = s.rxView := by
  unfold transmitCf
  grind [rxView, rxView_consumeActive, rxView_stopSending, State.error, emit, State.raise, startRxFcTimer]

theorem rxView_txTimeout (s : State) : s.txTimeout.rxView = s.rxView := by
  unfold txTimeout
  grind [rxView, rxView_stopSending, State.error, emit]

theorem rxView_txFc (s : State) : s.txFc.1.rxView = s.rxView := by
  unfold txFc
  grind [rxView, rxView_stopSending, rxView_handleFc, State.error, emit]

theorem rxView_txFsm (s : State) (a : Nat) : (s.txFsm a).1.rxView = s.rxView := by
  unfold txFsm txFinish txCore txDeplete
  grind [rxView, rxView_stopSending, rxView_readTxQueue, rxView_transmitCf, State.error, emit,
    State.raise, startRxFcTimer]

/-- after the pending-FC stage the rest of `processTx` leaves the receive side alone -/
theorem rxView_processTx_of_txPend (s : State) :
    s.processTx.1.rxView = s.txPend.1.rxView := by
  rw [processTx_eq]
  split
  · simp_all
  · simp_all
  · next s1 h =>
    split
    · next s2 h2 => rw [h]; simp only []; rw [← rxView_txFc s1, h2]
    · next s2 h2 => rw [h]; simp only []; rw [rxView_txFsm, rxView_txTimeout, ← rxView_txFc s1, h2]

theorem txView_startReception (s : State) (l : Nat) (d : Bytes) (r : Nat) :
    (s.startReception l d r).1.txView = s.txView := by
  unfold startReception
  grind [txView, stopReceiving, State.error, emit, requestFc, startRxCfTimer]

theorem txView_processRx (s : State) (m : CanMsg) : (s.processRx m).1.txView = s.txView := by
  unfold processRx
  grind [txView, txView_startReception, deliver, stopReceiving, State.error, emit, requestFc,
    startRxCfTimer]

theorem txView_checkTimeoutsRx (s : State) : s.checkTimeoutsRx.txView = s.txView := by
  unfold checkTimeoutsRx; split <;> simp [txView, stopReceiving, State.error, emit]

theorem RxInv_of_rxView {s s' : State} (h : s'.rxView = s.rxView) (hi : RxInv s) : RxInv s' := by
  unfold RxInv RxTimerInv RxPendInv RxTimerInv2 at *
  simp only [rxView, RxView.mk.injEq] at h
  grind

theorem TxTimerInv_of_txView {s s' : State} (h : s'.txView = s.txView) (hi : TxTimerInv s) :
    TxTimerInv s' := by
  unfold TxTimerInv at *
  simp only [txView, TxView.mk.injEq] at h
  grind

theorem RxInv_txPend (s : State) (h : RxInv s) : RxInv s.txPend.1 := by
  unfold RxInv RxTimerInv RxPendInv RxTimerInv2 at *
  unfold txPend
  grind [State.raise, startRxCfTimer]

theorem RxInv_processTx (s : State) (h : RxInv s) : RxInv s.processTx.1 :=
  RxInv_of_rxView (rxView_processTx_of_txPend s) (RxInv_txPend s h)

theorem TxTimerInv_processRx (s : State) (m : CanMsg) (h : TxTimerInv s) :
    TxTimerInv (s.processRx m).1 := TxTimerInv_of_txView (txView_processRx s m) h

theorem TxTimerInv_checkTimeoutsRx (s : State) (h : TxTimerInv s) :
    TxTimerInv s.checkTimeoutsRx := TxTimerInv_of_txView (txView_checkTimeoutsRx s) h

/-! ## N_Bs invariant through the transmit side -/

theorem TxTimerInv_stopSending (s : State) (b : Bool) (h : TxTimerInv s) :
    TxTimerInv (s.stopSending b) := by
  unfold TxTimerInv at *; unfold stopSending; split <;> simp_all [emit, Timer.stop]

theorem TxTimerInv_consumeActive (s : State) (r : Req) (n : Nat) (e : Bool) (h : TxTimerInv s) :
    TxTimerInv (s.consumeActive r n e).1 := by
  unfold TxTimerInv at *; unfold consumeActive; simp only []; split <;> simp_all [emit]

theorem TxTimerInv_handleFc (s : State) (f : FcFrame) (h : TxTimerInv s) :
    TxTimerInv (s.handleFc f) := by
  unfold handleFc
  grind [TxTimerInv, TxTimerInv_stopSending, State.error, emit, startRxFcTimer, Timer.stop]

theorem consumeActive_fc (s : State) (r : Req) (n : Nat) (e : Bool) :
    (s.consumeActive r n e).1.txState = s.txState ∧ (s.consumeActive r n e).1.timerFc = s.timerFc ∧
    (s.consumeActive r n e).1.cfg = s.cfg ∧ (s.consumeActive r n e).1.now = s.now := by
  unfold consumeActive; simp only []; split <;> simp [emit]

theorem stopSending_fc (s : State) (b : Bool) :
    (s.stopSending b).txState = .idle ∧ (s.stopSending b).timerFc = s.timerFc.stop ∧
    (s.stopSending b).cfg = s.cfg ∧ (s.stopSending b).now = s.now := by
  unfold stopSending; split <;> simp [emit]

theorem TxTimerInv_startTx (s : State) (r : Req) (a : Nat) (h : TxTimerInv s) (hi : s.txState = .idle) :
    TxTimerInv (s.startTx r a).1 := by
  unfold TxTimerInv at *
  unfold startTx
  simp only []
  repeat' split
  all_goals simp_all [consumeActive_fc, stopSending_fc, State.error, emit, State.raise, startRxFcTimer, Timer.stop]

theorem TxTimerInv_readTxQueue (s : State) (a : Nat) (l : List Req) (h : TxTimerInv s)
    (hi : s.txState = .idle) : TxTimerInv (s.readTxQueue a l).1 := by
  induction l generalizing s with
  | nil => simpa [readTxQueue, TxTimerInv] using h
  | cons r rest ih =>
    unfold readTxQueue
    simp only []
    split
    · apply ih
      · simpa [TxTimerInv, emit] using h
      · simpa [emit] using hi
    · apply TxTimerInv_startTx
      · simpa [TxTimerInv] using h
      · simpa using hi

theorem TxTimerInv_transmitCf (s : State) (a : Nat) (h : TxTimerInv s) (hi : s.txState = .transmitCf) :
    TxTimerInv (s.transmitCf a).1 := by
  unfold TxTimerInv at *
  unfold transmitCf
  simp only []
  repeat' split
  all_goals simp_all [consumeActive_fc, stopSending_fc, State.error, emit, State.raise, startRxFcTimer, Timer.stop]

theorem TxTimerInv_txTimeout (s : State) (h : TxTimerInv s) : TxTimerInv s.txTimeout := by
  unfold txTimeout; split
  · exact TxTimerInv_stopSending _ _ (by simpa [TxTimerInv, State.error, emit] using h)
  · exact h

theorem TxTimerInv_txFc (s : State) (h : TxTimerInv s) : TxTimerInv s.txFc.1 := by
  have h0 : TxTimerInv { s with lastFc := none } := by simpa [TxTimerInv] using h
  unfold txFc
  simp only []
  split
  · split
    · have := TxTimerInv_stopSending _ false h0
      simpa [TxTimerInv, State.error, emit] using this
    · exact TxTimerInv_handleFc _ _ h0
  · exact h0

theorem TxTimerInv_txPend (s : State) (h : TxTimerInv s) : TxTimerInv s.txPend.1 := by
  unfold TxTimerInv at *
  unfold txPend
  grind [State.raise, startRxCfTimer]

theorem TxTimerInv_txDeplete (s : State) (h : TxTimerInv s) : TxTimerInv s.txDeplete := by
  unfold txDeplete
  generalize (decide (s.txState ≠ .idle) && (match s.active with | some r => r.depleted | none => false) && s.standby.isNone) = c
  cases c
  · exact h
  · exact TxTimerInv_stopSending _ _ h

theorem TxTimerInv_txCore (s : State) (a : Nat) (h : TxTimerInv s) : TxTimerInv (s.txCore a).1 := by
  unfold txCore
  cases hs : s.txState <;> simp only []
  · exact TxTimerInv_readTxQueue _ _ _ h hs
  · exact h
  · exact TxTimerInv_transmitCf _ _ h hs
  all_goals
    cases hb : s.standby <;> simp only []
    · exact h
    · split
      · first
          | (simp only [hs, reduceCtorEq, ite_false]
             exact TxTimerInv_stopSending _ _ (by unfold TxTimerInv at *; simp_all))
          | (unfold TxTimerInv at *; simp_all [startRxFcTimer])
      · exact h

theorem TxTimerInv_txFinish (r : State × Option CanMsg × Bool) (h : TxTimerInv r.1) :
    TxTimerInv (txFinish r).1 := by
  unfold txFinish; split
  · exact h
  · split
    · simpa [TxTimerInv] using h
    · exact h

theorem TxTimerInv_txFsm (s : State) (a : Nat) (h : TxTimerInv s) : TxTimerInv (s.txFsm a).1 := by
  unfold txFsm
  split
  · simpa [TxTimerInv, State.raise] using h
  · exact TxTimerInv_txFinish _ (TxTimerInv_txCore _ _ (TxTimerInv_txDeplete _ h))

theorem TxTimerInv_processTx (s : State) (h : TxTimerInv s) : TxTimerInv s.processTx.1 := by
  rw [processTx_eq]
  have h1 := TxTimerInv_txPend s h
  split
  · next h' => rw [h'] at h1; exact h1
  · next h' => rw [h'] at h1; exact h1
  · next s1 h' =>
    rw [h'] at h1
    have h2 := TxTimerInv_txFc s1 h1
    split
    · next h'' => rw [h''] at h2; exact h2
    · next h'' => rw [h''] at h2; exact TxTimerInv_txFsm _ _ (TxTimerInv_txTimeout _ h2)

/-! ## both invariants through the public operations and the `process` loops -/

/-- the two timer invariants together -/
def TimerInv (s : State) : Prop := RxInv s ∧ TxTimerInv s

/-- the fields the invariants read -/
def timerFields (s : State) :=
  (s.rxState, s.timerCf, s.pendingFc, s.pendingFcStatus, s.cfg, s.txState, s.timerFc)

theorem TimerInv_of_fields {s s' : State} (h : s'.timerFields = s.timerFields) (hi : TimerInv s) :
    TimerInv s' := by
  unfold TimerInv RxInv RxTimerInv RxPendInv RxTimerInv2 TxTimerInv at *
  simp only [timerFields, Prod.mk.injEq] at h
  obtain ⟨h1, h2, h3, h4, h5, h6, h7⟩ := h
  rw [h1, h2, h3, h4, h5, h6, h7]; exact hi

theorem TimerInv_init (c : Cfg) (a : Addr) : TimerInv (State.init c a) :=
  ⟨RxInv_init c a, TxTimerInv_init c a⟩

theorem TimerInv_processRx (s : State) (m : CanMsg) (h : TimerInv s) : TimerInv (s.processRx m).1 :=
  ⟨RxInv_processRx s m h.1, TxTimerInv_processRx s m h.2⟩

theorem TimerInv_checkTimeoutsRx (s : State) (h : TimerInv s) : TimerInv s.checkTimeoutsRx :=
  ⟨RxInv_checkTimeoutsRx s h.1, TxTimerInv_checkTimeoutsRx s h.2⟩

theorem TimerInv_processTx (s : State) (h : TimerInv s) : TimerInv s.processTx.1 :=
  ⟨RxInv_processTx s h.1, TxTimerInv_processTx s h.2⟩

theorem TimerInv_stopSending (s : State) (b : Bool) (h : TimerInv s) : TimerInv (s.stopSending b) :=
  ⟨RxInv_of_rxView (rxView_stopSending s b) h.1, TxTimerInv_stopSending s b h.2⟩

theorem TimerInv_stopReceiving (s : State) (h : TimerInv s) : TimerInv s.stopReceiving := by
  unfold TimerInv RxInv RxTimerInv RxPendInv RxTimerInv2 TxTimerInv at *
  simp_all [stopReceiving, Timer.stop]

theorem TimerInv_send (s : State) (a : SendArgs) (h : TimerInv s) : TimerInv (s.send a).1 := by
  unfold send
  simp only []
  repeat' split
  all_goals first | exact h | exact TimerInv_of_fields (by simp [timerFields]) h

theorem TimerInv_recv (s : State) (h : TimerInv s) : TimerInv s.recv.1 := by
  unfold recv; split
  · exact h
  · exact TimerInv_of_fields (by simp [timerFields]) h

theorem TimerInv_advance (s : State) (dt : Nat) (h : TimerInv s) : TimerInv (s.advance dt) :=
  TimerInv_of_fields (by simp [timerFields, advance]) h

theorem TimerInv_pushFrame (s : State) (dt : Nat) (m : CanMsg) (h : TimerInv s) :
    TimerInv (s.pushFrame dt m) :=
  TimerInv_of_fields (by simp [timerFields, pushFrame]) h

theorem clearTxQueue_fields (s : State) (l : List Req) :
    (s.clearTxQueue l).timerFields = s.timerFields := by
  induction l generalizing s with
  | nil => simp [clearTxQueue, timerFields]
  | cons r rest ih => simp [clearTxQueue, ih]; simp [timerFields, emit]

theorem TimerInv_reset (s : State) (h : TimerInv s) : TimerInv s.reset := by
  unfold reset
  simp only []
  apply TimerInv_of_fields (s := (((({ s with rxQueue := [] } : State).clearTxQueue s.txQueue).stopSending false).stopReceiving))
  · simp [timerFields]
  · apply TimerInv_stopReceiving
    apply TimerInv_stopSending
    exact TimerInv_of_fields (by rw [clearTxQueue_fields]; simp [timerFields]) h

/-- what a predicate must satisfy to be carried through `process` -/
structure LoopInv (I : State → Prop) : Prop where
  glue : ∀ (s : State) ib now, I s → I { s with inbox := ib, now := now }
  rxEv : ∀ (s : State) m, I s → I (s.emit (.rx s.now m))
  rxNone : ∀ (s : State), I s → I (s.emit (.rxNone s.now))
  chk : ∀ (s : State), I s → I s.checkTimeoutsRx
  prx : ∀ (s : State) m, I s → I (s.processRx m).1
  rl : ∀ (s : State) l, I s → I { s with rl := l }
  ptx : ∀ (s : State), I s → I s.processTx.1
  txEv : ∀ (s : State) m, I s → s.processTx.2.1 = some m →
    I (s.processTx.1.emit (.tx s.processTx.1.now m))

theorem LoopInv.rxLoop {I : State → Prop} (hI : LoopInv I) (doTx : Bool) (s : State) (st : Stats)
    (l : List (Nat × CanMsg)) (h : I s) : I (rxLoop doTx s st l).1 := by
  induction l generalizing s st with
  | nil => exact hI.chk _ (hI.rxNone _ (hI.glue s [] s.now h))
  | cons x rest ih =>
    obtain ⟨dt, m⟩ := x
    have h2 : I ((({ s with inbox := rest, now := s.now + dt } : State).emit
        (.rx (s.now + dt) m)).checkTimeoutsRx) :=
      hI.chk _ (hI.rxEv _ m (hI.glue s rest (s.now + dt) h))
    unfold State.rxLoop
    simp only []
    split
    · have h3 := hI.prx _ m h2
      split
      · exact h3
      · split
        · exact h3
        · exact ih _ _ h3
    · split
      · exact h2
      · exact ih _ _ h2

theorem LoopInv.txLoop {I : State → Prop} (hI : LoopInv I) (f : Nat) (s : State) (n : Nat)
    (h : I s) : I (txLoop f s n).1 := by
  induction f generalizing s n with
  | zero => exact h
  | succ f ih =>
    unfold State.txLoop
    have h1 := hI.ptx s h
    have h2 := hI.txEv s
    generalize s.processTx = r at h1 h2
    obtain ⟨s1, out, imm⟩ := r
    simp only [] at h1 h2 ⊢
    split
    · exact h1
    · cases out with
      | none =>
        simp only []
        split
        · exact h1
        · simp; exact h1
      | some m =>
        have h3 := h2 m h rfl
        simp only []
        split
        · exact h3
        · simp; exact ih _ _ h3

theorem LoopInv.processLoop {I : State → Prop} (hI : LoopInv I) (f : Nat) (doRx doTx : Bool)
    (s : State) (st : Stats) (h : I s) : I (processLoop f doRx doTx s st).1 := by
  induction f generalizing s st with
  | zero => exact h
  | succ f ih =>
    unfold State.processLoop
    simp only []
    generalize (doTx && !s.txQueue.isEmpty && decide (s.rxState = .idle) && decide (s.txState = .idle)) = sw
    have h1 : I (if (doRx && !sw) = true then State.rxLoop doTx s st s.inbox else (s, st, false)).1 := by
      split
      · exact hI.rxLoop _ _ _ _ h
      · exact h
    generalize (if (doRx && !sw) = true then State.rxLoop doTx s st s.inbox else (s, st, false)) = r1 at h1
    obtain ⟨s1, st1, rxRun⟩ := r1
    simp only [] at h1 ⊢
    have h2 := hI.rl s1 (s1.rl.update s1.cfg.rlWindowNs s1.now) h1
    generalize ({ s1 with rl := s1.rl.update s1.cfg.rlWindowNs s1.now } : State) = s2 at h2
    cases doTx with
    | false =>
      simp only [Bool.false_eq_true, ite_false]
      repeat' split
      all_goals first | exact h2 | exact ih _ _ h2
    | true =>
      simp only [ite_true]
      have h3 := hI.txLoop s2.txFuel s2 st1.sent h2
      generalize State.txLoop s2.txFuel s2 st1.sent = r3 at h3
      obtain ⟨s3, n3, run3, oof3⟩ := r3
      simp only [] at h3 ⊢
      repeat' split
      all_goals first | exact h3 | exact ih _ _ h3

theorem LoopInv.process {I : State → Prop} (hI : LoopInv I) (doRx doTx : Bool)
    (s : State) (h : I s) : I (s.process doRx doTx).1 :=
  hI.processLoop _ _ _ _ _ h

theorem TimerInv_loopInv : LoopInv TimerInv where
  glue s ib now h := TimerInv_of_fields (by simp [timerFields]) h
  rxEv s m h := TimerInv_of_fields (by simp [timerFields, emit]) h
  rxNone s h := TimerInv_of_fields (by simp [timerFields, emit]) h
  chk := TimerInv_checkTimeoutsRx
  prx := TimerInv_processRx
  rl s l h := TimerInv_of_fields (by simp [timerFields]) h
  ptx := TimerInv_processTx
  txEv s m h _ := TimerInv_of_fields (by simp [timerFields, emit]) (TimerInv_processTx s h)

/-! ## log extensions -/

/-- `s'` has the log of `s` plus newer events which all satisfy `P` (the log is newest first) -/
def LogExt (P : Ev → Prop) (s s' : State) : Prop :=
  ∃ new, s'.log = new ++ s.log ∧ ∀ e ∈ new, P e

theorem LogExt.refl (P : Ev → Prop) (s : State) : LogExt P s s := ⟨[], rfl, by simp⟩

theorem LogExt.of_eq {P : Ev → Prop} {s s' : State} (h : s'.log = s.log) : LogExt P s s' :=
  ⟨[], by simpa using h, by simp⟩

theorem LogExt.trans {P : Ev → Prop} {s s' s'' : State} (h1 : LogExt P s s') (h2 : LogExt P s' s'') :
    LogExt P s s'' := by
  obtain ⟨n1, e1, p1⟩ := h1
  obtain ⟨n2, e2, p2⟩ := h2
  refine ⟨n2 ++ n1, by rw [e2, e1, List.append_assoc], ?_⟩
  intro e he
  rcases List.mem_append.mp he with h | h
  · exact p2 e h
  · exact p1 e h

theorem LogExt.mono {P Q : Ev → Prop} {s s' : State} (hpq : ∀ e, P e → Q e) (h : LogExt P s s') :
    LogExt Q s s' := by
  obtain ⟨n, e, p⟩ := h
  exact ⟨n, e, fun x hx => hpq x (p x hx)⟩

theorem LogExt.ext1 {P : Ev → Prop} {s s' : State} {e : Ev} (h : s'.log = e :: s.log) (he : P e) :
    LogExt P s s' := ⟨[e], by simpa using h, by simpa using he⟩

theorem LogExt.ext2 {P : Ev → Prop} {s s' : State} {e1 e2 : Ev} (h : s'.log = e1 :: e2 :: s.log)
    (h1 : P e1) (h2 : P e2) : LogExt P s s' :=
  ⟨[e1, e2], by simpa using h, by simp [h1, h2]⟩

theorem LogExt.ext3 {P : Ev → Prop} {s s' : State} {e1 e2 e3 : Ev}
    (h : s'.log = e1 :: e2 :: e3 :: s.log) (h1 : P e1) (h2 : P e2) (h3 : P e3) : LogExt P s s' :=
  ⟨[e1, e2, e3], by simpa using h, by simp [h1, h2, h3]⟩

/-- error classes `processRx` can report -/
def rxErr (c : Err) : Bool :=
  c = .InvalidCanData || c = .MissingEscapeSequence || c = .InterruptedWithSingleFrame ||
  c = .InterruptedWithFirstFrame || c = .UnexpectedConsecutiveFrame || c = .ChangingInvalidRXDL ||
  c = .WrongSequenceNumber || c = .FrameTooLong || c = .InvalidCanFdFirstFrameRXDL

/-- events `processRx` can log: a delivery or one of its error classes -/
def RxEv (e : Ev) : Prop :=
  match e with
  | .deliver _ => True
  | .err _ c => rxErr c = true
  | _ => False

/-- error classes `processTx` can report besides the N_Bs timeout -/
def txErr (c : Err) : Bool :=
  c = .BadGenerator || c = .UnexpectedFlowControl || c = .UnsupportedWaitFrame ||
  c = .MaximumWaitFrameReached || c = .Overflow

/-- events `processTx` can log besides the N_Bs timeout -/
def TxEv (e : Ev) : Prop :=
  match e with
  | .done _ _ => True
  | .pull _ _ => True
  | .err _ c => txErr c = true
  | _ => False

macro "log_ext" : tactic =>
  `(tactic| first
    | exact LogExt.of_eq rfl
    | exact LogExt.ext1 rfl (by simp [RxEv, rxErr, TxEv, txErr])
    | exact LogExt.ext2 rfl (by simp [RxEv, rxErr, TxEv, txErr]) (by simp [RxEv, rxErr, TxEv, txErr])
    | exact LogExt.ext3 rfl (by simp [RxEv, rxErr, TxEv, txErr]) (by simp [RxEv, rxErr, TxEv, txErr])
        (by simp [RxEv, rxErr, TxEv, txErr]))

theorem LogExt_startReception (s : State) (l : Nat) (d : Bytes) (r : Nat) :
    LogExt RxEv s (s.startReception l d r).1 := by
  unfold startReception
  simp only []
  repeat' split
  all_goals log_ext

theorem LogExt_processRx (s : State) (m : CanMsg) : LogExt RxEv s (s.processRx m).1 := by
  unfold processRx
  simp only []
  repeat' split
  all_goals first
    | log_ext
    | (apply LogExt.trans (s' := (State.startReception _ _ _ _).1) ?_ (by log_ext)
       exact LogExt.trans (LogExt.of_eq rfl) (LogExt_startReception _ _ _ _))

theorem LogExt_checkTimeoutsRx (s : State) :
    LogExt (fun e => e = .err s.now .ConsecutiveFrameTimeout) s s.checkTimeoutsRx := by
  unfold checkTimeoutsRx; split
  · exact LogExt.ext1 rfl rfl
  · exact LogExt.refl _ _

/-- a record update that keeps the log -/
theorem LogExt.mk_r {P : Ev → Prop} {s s' : State} (h : LogExt P s s') {f0 : Cfg} {f1 : Addr} {f2 : Nat} {f3 : RxSt} {f4 : Bytes} {f5 : Nat} {f6 : Nat} {f7 : Nat} {f8 : (Option Nat)} {f9 : Timer} {f10 : Bool} {f11 : (Option Nat)} {f12 : (List Bytes)} {f13 : TxSt} {f14 : (List Req)} {f15 : (Option Req)} {f16 : (Option CanMsg)} {f17 : Nat} {f18 : Nat} {f19 : Nat} {f20 : (Option Nat)} {f21 : Nat} {f22 : Timer} {f23 : Timer} {f24 : (Option FcFrame)} {f25 : Limiter} {f26 : (List (Nat × CanMsg))}
    {x : Option PyExc} : LogExt P s ⟨f0, f1, f2, f3, f4, f5, f6, f7, f8, f9, f10, f11, f12, f13, f14, f15, f16, f17, f18, f19, f20, f21, f22, f23, f24, f25, f26, s'.log, x⟩ := by
  obtain ⟨n, e, p⟩ := h; exact ⟨n, e, p⟩

/-- a record update that adds one event -/
theorem LogExt.mk_cons_r {P : Ev → Prop} {s s' : State} {ev : Ev} (hp : P ev) (h : LogExt P s s') {f0 : Cfg} {f1 : Addr} {f2 : Nat} {f3 : RxSt} {f4 : Bytes} {f5 : Nat} {f6 : Nat} {f7 : Nat} {f8 : (Option Nat)} {f9 : Timer} {f10 : Bool} {f11 : (Option Nat)} {f12 : (List Bytes)} {f13 : TxSt} {f14 : (List Req)} {f15 : (Option Req)} {f16 : (Option CanMsg)} {f17 : Nat} {f18 : Nat} {f19 : Nat} {f20 : (Option Nat)} {f21 : Nat} {f22 : Timer} {f23 : Timer} {f24 : (Option FcFrame)} {f25 : Limiter} {f26 : (List (Nat × CanMsg))}
    {x : Option PyExc} : LogExt P s ⟨f0, f1, f2, f3, f4, f5, f6, f7, f8, f9, f10, f11, f12, f13, f14, f15, f16, f17, f18, f19, f20, f21, f22, f23, f24, f25, f26, ev :: s'.log, x⟩ := by
  obtain ⟨n, e, p⟩ := h
  exact ⟨ev :: n, by simp [e], by intro y hy; rcases List.mem_cons.mp hy with h | h; exact h ▸ hp; exact p y h⟩

theorem LogExt.emit_r {P : Ev → Prop} {s s' : State} {ev : Ev} (hp : P ev) (h : LogExt P s s') :
    LogExt P s (s'.emit ev) := LogExt.mk_cons_r hp h

theorem LogExt.error_r {P : Ev → Prop} {s s' : State} {c : Err} (hp : P (.err s'.now c))
    (h : LogExt P s s') : LogExt P s (s'.error c) := LogExt.mk_cons_r hp h

theorem LogExt.raise_r {P : Ev → Prop} {s s' : State} {c : PyExc} (h : LogExt P s s') :
    LogExt P s (s'.raise c) := LogExt.mk_r h

theorem LogExt_stopSending (s : State) (b : Bool) : LogExt TxEv s (s.stopSending b) := by
  unfold stopSending; split <;> log_ext

theorem LogExt_consumeActive (s : State) (r : Req) (n : Nat) (e : Bool) :
    LogExt TxEv s (s.consumeActive r n e).1 := by
  unfold consumeActive; simp only []; split <;> log_ext

theorem LogExt.stopSending_r {s s' : State} {b : Bool} (h : LogExt TxEv s s') :
    LogExt TxEv s (s'.stopSending b) := h.trans (LogExt_stopSending _ _)

theorem LogExt.consumeActive_r {s s' : State} {r : Req} {n : Nat} {e : Bool} (h : LogExt TxEv s s') :
    LogExt TxEv s (s'.consumeActive r n e).1 := h.trans (LogExt_consumeActive _ _ _ _)

/-- peel the outermost state transformer off a `LogExt TxEv s _` goal -/
macro "peel" : tactic =>
  `(tactic| first
    | exact LogExt.refl _ _
    | apply LogExt.stopSending_r
    | apply LogExt.consumeActive_r
    | apply LogExt.raise_r
    | apply LogExt.error_r (by simp [TxEv, txErr])
    | apply LogExt.emit_r (by simp [TxEv, txErr])
    | apply LogExt.mk_r
    | apply LogExt.mk_cons_r (by simp [TxEv, txErr]))

theorem LogExt_handleFc (s : State) (f : FcFrame) : LogExt TxEv s (s.handleFc f) := by
  unfold handleFc startRxFcTimer
  simp only []
  repeat' split
  all_goals repeat peel

theorem LogExt_startTx (s : State) (r : Req) (a : Nat) : LogExt TxEv s (s.startTx r a).1 := by
  unfold startTx startRxFcTimer
  simp only []
  repeat' split
  all_goals repeat peel

theorem LogExt_readTxQueue (s : State) (a : Nat) (l : List Req) :
    LogExt TxEv s (s.readTxQueue a l).1 := by
  induction l generalizing s with
  | nil => exact LogExt.of_eq rfl
  | cons r rest ih =>
    unfold readTxQueue
    simp only []
    split
    · exact LogExt.trans (by repeat peel) (ih _)
    · exact LogExt.trans (LogExt.of_eq rfl) (LogExt_startTx _ _ _)

theorem LogExt_transmitCf (s : State) (a : Nat) : LogExt TxEv s (s.transmitCf a).1 := by
  unfold transmitCf startRxFcTimer
  simp only []
  repeat' split
  all_goals repeat peel

end State
end Isotp
