import Isotp.Process
/-
  C12 — property theorems (see DESIGN.md §6). Helper lemmas live in Isotp/Proofs.
-/
namespace Isotp.C12
open Isotp State

end Isotp.C12
