import Isotp.Proofs.Fc
/-
  C08 — Separation time (STmin) requested by the receiver is honoured.
  Property theorems only; helper lemmas live in Isotp/Proofs/Fc.lean.

  Vocabulary (all defined in Proofs/Fc.lean):
  * `sepOf c fc`      separation time (ns) a ContinueToSend `fc` puts in force under config `c`
                      (`override_receiver_stmin` wins over the STmin byte);
  * `ctsHonoured s fc` the guard under which `handleFc` honours a ContinueToSend;
  * `EmitsCf s msg`   `processTx s` runs the TRANSMIT_CF branch and hands `msg` out;
  * `sepInForce s`    separation time in force once `processTx s` has handled its mailbox;
  * `SepInv s t`      "`t` is the hand-over time of the previous Consecutive Frame".
-/
namespace Isotp.C08
open Isotp State Fc

/-! ### Concrete states used by the non-vacuity examples -/

def exHalf : Half :=
  { mode := .n11, txid := some 0x123, rxid := some 0x456, ta := none, sa := none, ae := none,
    physId := 0, funcId := 0, rxOnly := false, txOnly := false }
def exAddr : Addr := ⟨exHalf, exHalf⟩
def exReq : Req := { id := 7, size := 20, src := List.replicate 20 0x55 }
/-- idle layer with one 20-byte request queued -/
def ex0 : State := { State.init {} exAddr with txQueue := [exReq] }
/-- after the First Frame (sent at t = 0): WAIT_FC -/
def ex1 : State := ex0.processTx.1
/-- a ContinueToSend (BS = 2, STmin = 10 ms) is in the mailbox 1 ms later -/
def ex2 : State := { ex1 with now := 1000000, lastFc := some ⟨0, 2, 10⟩ }
/-- it has been honoured: TRANSMIT_CF, STmin timer started at 1 ms with 10 ms -/
def ex3 : State := ex2.processTx.1
/-- 5 ms later: too early -/
def ex3early : State := ex3.advance 5000000
/-- 10 ms + 1 ns after the timer start: due -/
def ex3due : State := ex3.advance 10000001
/-- the first Consecutive Frame has been handed over at 11.000001 ms -/
def ex4 : State := ex3due.processTx.1
/-- same as `ex2` but the receiver asks for STmin = 0 -/
def ex2z : State := { ex1 with now := 1000000, lastFc := some ⟨0, 2, 0⟩ }

/-! ### 1. `stminNs_nominal`: decoding of the STmin byte -/

/-- 0x00–0x7F: that many milliseconds. -/
theorem stminNs_nominal_ms (b : Nat) (h : b ≤ 0x7F) : stminNs b = b * 1000000 :=
  stminNs_ms b h

/-- 0xF1–0xF9: 100–900 microseconds. -/
theorem stminNs_nominal_us (b : Nat) (h1 : 0xF1 ≤ b) (h2 : b ≤ 0xF9) :
    stminNs b = (b - 0xF0) * 100000 ∧ 100000 ≤ stminNs b ∧ stminNs b ≤ 900000 := by
  rw [stminNs_us b h1 h2]
  omega

example : stminNs 127 = 127000000 ∧ stminNs 0xF1 = 100000 ∧ stminNs 0xF9 = 900000 := by decide

/-- every other byte value is reserved. -/
theorem validStmin_exact (b : Nat) : validStmin b = true ↔ b ≤ 0x7F ∨ (0xF1 ≤ b ∧ b ≤ 0xF9) :=
  validStmin_iff b

/-- a Flow Control frame with a reserved STmin byte is rejected by the decoder
    (`ValueError` in `PDU.__init__`, reported as `InvalidCanDataError`), whatever FS and BS. -/
theorem reserved_stmin_rejected (pci bs b : UInt8) (h0 : pci.toNat / 16 = 3)
    (h : validStmin b.toNat = false) : decodeBody [pci, bs, b] = none := by
  apply decodeBody_reserved_stmin
  · simpa [byteAt] using h0
  · simpa [byteAt] using h

example : decodeBody [0x30, 8, 0x80] = none :=
  reserved_stmin_rejected 0x30 8 0x80 (by decide) (by decide)
example : decodeBody [0x30, 8, 0xFA] = none :=
  reserved_stmin_rejected 0x30 8 0xFA (by decide) (by decide)

/-- whatever the data field, a decoded Flow Control carries a valid STmin byte and FS ≤ 2 -/
theorem decoded_fc_valid {d : Bytes} {st bs stm : Nat} (h : decodeBody d = some (.fc st bs stm)) :
    validStmin stm = true ∧ st < 3 :=
  ⟨(decodeBody_fc h).1, (decodeBody_fc h).2.1⟩

example : decodeBody [0x30, 8, 0x14] = some (.fc 0 8 20) := by decide

/-- the mailbox read by `_process_tx` only ever holds Flow Controls with a valid STmin byte:
    `_process_rx` keeps the old content, empties it, or stores a valid frame. -/
theorem mailbox_fc_valid (s : State) (m : CanMsg) (fc : FcFrame)
    (h : (s.processRx m).1.lastFc = some fc) :
    s.lastFc = some fc ∨ (validStmin fc.stmin = true ∧ fc.status < 3) :=
  processRx_lastFc s m fc h

/-! ### 2. `cts_sets_separation` -/

/-- An honoured ContinueToSend sets the STmin timer's timeout to the requested separation time,
    or to `override_receiver_stmin` when that is configured; the FSM is then in TRANSMIT_CF with
    the granted block size. -/
theorem cts_sets_separation (s : State) (fc : FcFrame) (h : ctsHonoured s fc = true) :
    (s.handleFc fc).timerStmin.timeout = sepOf s.cfg fc ∧
    (s.handleFc fc).txState = .transmitCf ∧ (s.handleFc fc).remoteBs = some fc.bs := by
  rw [handleFc_cts s fc h]
  refine ⟨?_, rfl, rfl⟩
  simp only
  split <;> rfl

/-- without override: the decoded STmin byte -/
theorem sepOf_no_override (c : Cfg) (fc : FcFrame) (h : c.overrideStminNs = none) :
    sepOf c fc = stminNs fc.stmin := by
  simp [sepOf, h]

/-- with `override_receiver_stmin`: that value, whatever the receiver asked for -/
theorem sepOf_override (c : Cfg) (fc : FcFrame) (o : Nat) (h : c.overrideStminNs = some o) :
    sepOf c fc = o := by
  simp [sepOf, h]

example : ctsHonoured ex2 ⟨0, 2, 10⟩ = true := by decide
example : ex3.timerStmin = { start := some 1000000, timeout := 10000000 } := by decide
example : sepOf { overrideStminNs := some 250000 } ⟨0, 2, 10⟩ = 250000 := by decide

/-- whatever Flow Control is handled, the STmin timeout afterwards is the honoured
    ContinueToSend's value, or unchanged -/
theorem stmin_timeout_after_fc (s : State) (fc : FcFrame) :
    (s.handleFc fc).timerStmin.timeout =
      if ctsHonoured s fc then sepOf s.cfg fc else s.timerStmin.timeout :=
  handleFc_stmin_timeout s fc

/-- and over a whole `processTx` call: only an honoured ContinueToSend changes it
    (`sepInForce` unfolds to exactly that case distinction) -/
theorem stmin_timeout_after_processTx (s : State) :
    s.processTx.1.timerStmin.timeout = sepInForce s :=
  processTx_stmin_timeout s

theorem sepInForce_unchanged (s : State) (hp : s.pendingFc = false) (hfc : s.lastFc = none) :
    sepInForce s = s.timerStmin.timeout := by
  simp [sepInForce, fcSendPhase_not_pending hp, sepAfterFc, hfc]

theorem sepInForce_cts (s : State) (fc : FcFrame) (hp : s.pendingFc = false) (hfc : s.lastFc = some fc)
    (h : ctsHonoured s fc = true) : sepInForce s = sepOf s.cfg fc := by
  simp [sepInForce, fcSendPhase_not_pending hp, sepAfterFc, hfc, h]

/-- `_process_rx` never touches the STmin timer (nor anything else of the transmit side) -/
theorem processRx_keeps_stmin (s : State) (m : CanMsg) :
    (s.processRx m).1.timerStmin = s.timerStmin := by
  have := processRx_txView s m
  simp only [txView, Prod.mk.injEq] at this
  exact this.2.2.2.2.1

/-! ### 3. `cf_requires_elapsed` -/

/-- `transmitCf` hands a Consecutive Frame out only if the STmin timer has expired: it was
    started at some `t0` and strictly more than its timeout has elapsed (or the timeout is zero).
    Afterwards, unless the message is finished, the timer has been restarted at the current
    time with the same timeout. -/
theorem cf_requires_elapsed {s s' : State} {allowed : Nat} {msg : CanMsg} {imm : Bool}
    (h : s.transmitCf allowed = (s', some msg, imm)) :
    (∃ t0, s.timerStmin.start = some t0 ∧
      (s.now - t0 > s.timerStmin.timeout ∨ s.timerStmin.timeout = 0)) ∧
    s'.timerStmin.timeout = s.timerStmin.timeout ∧ s'.now = s.now ∧
    (s'.txState = .idle ∨ s'.timerStmin.start = some s.now) := by
  obtain ⟨k1, _, _, k4, k5, k6⟩ := transmitCf_some h
  refine ⟨(Timer_timedOut_iff _ _).1 k1, k4, k5, ?_⟩
  rcases k6 with k6 | k6
  · exact Or.inl k6
  · exact Or.inr k6.1

/-- too early: nothing is sent and nothing changes -/
theorem cf_not_before (s : State) (allowed : Nat) (h : s.timerStmin.timedOut s.now = false)
    (hb : s.remoteBs.isSome) (ha : s.active.isSome) : s.transmitCf allowed = (s, none, false) := by
  cases hb' : s.remoteBs with
  | none => simp [hb'] at hb
  | some bs =>
    cases ha' : s.active with
    | none => simp [ha'] at ha
    | some r => rw [transmitCf_eq s allowed bs r hb' ha']; simp [h]

example : ex3early.timerStmin.timedOut ex3early.now = false := by decide
example : ex3early.processTx.2.1 = none := by decide
example : ex3due.processTx.2.1.map (·.data) = some [0x21, 0x55, 0x55, 0x55, 0x55, 0x55, 0x55, 0x55] := by
  decide
example : ex4.timerStmin = { start := some 11000001, timeout := 10000000 } := by decide

/-! ### 4. `gap`: the trace-level statement -/

/-- **Gap theorem.** Let `t` be the time at which the previous Consecutive Frame of the message
    was handed over (`SepInv s t`). If this `processTx` call hands over the next Consecutive
    Frame, then strictly more than the separation time in force has elapsed since `t`, unless that
    separation time is zero; the hand-over happens at `s.now`, and `SepInv` holds again for
    `s.now`. -/
theorem gap (s : State) (t : Nat) (msg : CanMsg) (hinv : SepInv s t) (hcf : EmitsCf s msg) :
    (sepInForce s = 0 ∨ s.now - t > sepInForce s) ∧
    s.processTx.1.now = s.now ∧ SepInv s.processTx.1 s.now :=
  ⟨(gap_of_emits s t msg hinv hcf).1, processTx_now s, (gap_of_emits s t msg hinv hcf).2⟩

/-- in every case at least the separation time has elapsed -/
theorem gap_ge (s : State) (t : Nat) (msg : CanMsg) (hinv : SepInv s t) (hcf : EmitsCf s msg) :
    s.now - t ≥ sepInForce s := by
  rcases (gap s t msg hinv hcf).1 with h | h <;> omega

/-- reading for a receiver asking for `b` milliseconds (no override): at least `b` ms between the
    two hand-overs -/
theorem gap_ms (s : State) (t : Nat) (msg : CanMsg) (b : Nat) (hb : b ≤ 0x7F)
    (hsep : sepInForce s = stminNs b) (hinv : SepInv s t) (hcf : EmitsCf s msg) :
    s.now - t ≥ b * 1000000 := by
  have := gap_ge s t msg hinv hcf
  rw [hsep, stminNs_ms b hb] at this
  exact this

/-- reading for 0xF1–0xF9: at least 100–900 µs -/
theorem gap_us (s : State) (t : Nat) (msg : CanMsg) (b : Nat) (h1 : 0xF1 ≤ b) (h2 : b ≤ 0xF9)
    (hsep : sepInForce s = stminNs b) (hinv : SepInv s t) (hcf : EmitsCf s msg) :
    s.now - t ≥ (b - 0xF0) * 100000 := by
  have := gap_ge s t msg hinv hcf
  rw [hsep, stminNs_us b h1 h2] at this
  exact this

/-- The invariant is established by the First Frame's flow-control answer (any time `t` not in
    the future works when the FSM is not in TRANSMIT_CF, e.g. the First Frame's hand-over time) … -/
theorem sepInv_outside_cf (s : State) (t : Nat) (h1 : t ≤ s.now) (h2 : s.txState ≠ .transmitCf) :
    SepInv s t :=
  SepInv_of_not_cf h1 h2

/-- … and kept by every operation of the layer, however irregularly they are interleaved:
    `processTx` (emitting or not, including a ContinueToSend consumed mid-block and a block
    boundary WAIT_FC → TRANSMIT_CF, where the timer is restarted at a later time), -/
theorem sepInv_processTx (s : State) (t : Nat) (h : SepInv s t) : SepInv s.processTx.1 t :=
  SepInv_processTx s t h
/-- `processRx`, -/
theorem sepInv_processRx (s : State) (m : CanMsg) (t : Nat) (h : SepInv s t) :
    SepInv (s.processRx m).1 t :=
  SepInv_processRx s m t h
/-- the passing of time, -/
theorem sepInv_advance (s : State) (dt t : Nat) (h : SepInv s t) : SepInv (s.advance dt) t :=
  SepInv_advance s dt t h
/-- `send`, -/
theorem sepInv_send (s : State) (a : SendArgs) (t : Nat) (h : SepInv s t) : SepInv (s.send a).1 t :=
  SepInv_send s a t h
/-- `reset`, -/
theorem sepInv_reset (s : State) (t : Nat) (h : SepInv s t) : SepInv s.reset t :=
  SepInv_reset s t h
/-- and a whole `process()` call (rx loop with its blocking reads advancing the clock, limiter
    update, tx loop, repeated). -/
theorem sepInv_process (s : State) (doRx doTx : Bool) (t : Nat) (h : SepInv s t) :
    SepInv (s.process doRx doTx).1 t :=
  process_stable (SepInv_loopStable t) s doRx doTx h

example : SepInv ex1 0 := by
  refine ⟨by decide, ?_⟩
  intro h; exact absurd h (by decide)
example : SepInv ex3due 0 := sepInv_advance _ _ _ (sepInv_processTx ex2 0 ⟨by decide, fun h => absurd h (by decide)⟩)
example : cfBranch ex3due = true := by decide
example : EmitsCf ex3due (ex3due.processTx.2.1.get (by decide)) := ⟨by decide, by simp⟩
example : sepInForce ex3due = 10000000 := by decide

/-! ### 5. `zero_not_delayed` -/

/-- with a zero separation time the running STmin timer is expired at every instant -/
theorem zero_always_due (t : Timer) (t0 now : Nat) (h0 : t.timeout = 0) (hs : t.start = some t0) :
    t.timedOut now = true :=
  timedOut_of_zero h0 hs now

/-- … so the first transmit pass (mailbox empty, limiter letting the frame through, valid
    configuration, no exception raised before) hands the due Consecutive Frame out — or ends the
    message — without any delay, and does not raise. -/
theorem zero_not_delayed (s : State) (r : Req) (hw : TxWf s) (hs : s.txState = .transmitCf)
    (h0 : s.timerStmin.timeout = 0) (hp : s.pendingFc = false) (hfc : s.lastFc = none)
    (ha : s.active = some r) (hd : r.depleted = false) (hl : cfPayloadLen s r ≤ (allowedNow s))
    (hv : s.cfg.valid = true) (he : s.exc = none) :
    s.processTx.1.exc = none ∧
    (s.processTx.1.txState = .idle ∨
     (∃ msg r', s.processTx.2.1 = some msg ∧ s.processTx.1.active = some r' ∧
       r'.remaining < r.remaining ∧ r'.id = r.id ∧ r'.size = r.size)) := by
  have hst : s.timerStmin.start.isSome := (hw.2.2.1 hs).1
  cases hstart : s.timerStmin.start with
  | none => simp [hstart] at hst
  | some t0 =>
    exact processTx_cf_progress_valid s r hw hs hp hfc ha hd (timedOut_of_zero h0 hstart _) hl hv he

/-- the same without assuming a valid configuration or a clean exception flag: the pass may then
    also end with the exception flag set -/
theorem zero_not_delayed_any_cfg (s : State) (r : Req) (hw : TxWf s) (hs : s.txState = .transmitCf)
    (h0 : s.timerStmin.timeout = 0) (hp : s.pendingFc = false) (hfc : s.lastFc = none)
    (ha : s.active = some r) (hd : r.depleted = false) (hl : cfPayloadLen s r ≤ (allowedNow s))
    (hdl : s.txPrefixLen + 2 ≤ s.cfg.txDl) :
    s.processTx.1.exc.isSome ∨ s.processTx.1.txState = .idle ∨
    (∃ msg r', s.processTx.2.1 = some msg ∧ s.processTx.1.active = some r' ∧
      r'.remaining < r.remaining ∧ r'.id = r.id ∧ r'.size = r.size) := by
  have hst : s.timerStmin.start.isSome := (hw.2.2.1 hs).1
  cases hstart : s.timerStmin.start with
  | none => simp [hstart] at hst
  | some t0 =>
    exact processTx_cf_progress s r hw hs hp hfc ha hd (timedOut_of_zero h0 hstart _) hl hdl

example : ex2z.processTx.1.txState = .transmitCf ∧ ex2z.processTx.1.timerStmin.timeout = 0 ∧
    ex2z.processTx.1.cfg.valid = true ∧ ex2z.processTx.1.exc = none := by decide

/-- the same pass that honours a ContinueToSend with STmin = 0 already sends the first frame of
    the block (concrete run) -/
example : ex2z.processTx.2.1.map (·.data) = some [0x21, 0x55, 0x55, 0x55, 0x55, 0x55, 0x55, 0x55] := by
  decide
example : ex2z.processTx.1.processTx.2.1.map (·.data) =
    some [0x22, 0x55, 0x55, 0x55, 0x55, 0x55, 0x55, 0x55] := by decide

end Isotp.C08

#print axioms Isotp.C08.stminNs_nominal_ms
#print axioms Isotp.C08.stminNs_nominal_us
#print axioms Isotp.C08.validStmin_exact
#print axioms Isotp.C08.reserved_stmin_rejected
#print axioms Isotp.C08.decoded_fc_valid
#print axioms Isotp.C08.mailbox_fc_valid
#print axioms Isotp.C08.cts_sets_separation
#print axioms Isotp.C08.sepOf_no_override
#print axioms Isotp.C08.sepOf_override
#print axioms Isotp.C08.stmin_timeout_after_fc
#print axioms Isotp.C08.stmin_timeout_after_processTx
#print axioms Isotp.C08.sepInForce_unchanged
#print axioms Isotp.C08.sepInForce_cts
#print axioms Isotp.C08.processRx_keeps_stmin
#print axioms Isotp.C08.cf_requires_elapsed
#print axioms Isotp.C08.cf_not_before
#print axioms Isotp.C08.gap
#print axioms Isotp.C08.gap_ge
#print axioms Isotp.C08.gap_ms
#print axioms Isotp.C08.gap_us
#print axioms Isotp.C08.sepInv_outside_cf
#print axioms Isotp.C08.sepInv_processTx
#print axioms Isotp.C08.sepInv_processRx
#print axioms Isotp.C08.sepInv_advance
#print axioms Isotp.C08.sepInv_send
#print axioms Isotp.C08.sepInv_reset
#print axioms Isotp.C08.sepInv_process
#print axioms Isotp.C08.zero_always_due
#print axioms Isotp.C08.zero_not_delayed
#print axioms Isotp.C08.zero_not_delayed_any_cfg
