import Isotp.Basic
/-
  Model of isotp/address.py: `Address.__init__` + `validate`, the derived
  identifiers / prefix, the five `_is_for_me_*` predicates, `AsymmetricAddress`.
-/
namespace Isotp

/-- Python values as the constructors type-check them. `str`/`other` carry a tag so that
    two of them can be equal or different. Floats are exact rationals or the specials. -/
inductive PyVal where
  | none
  | bool (b : Bool)
  | int (i : Int)
  | float (num : Int) (den : Nat)     -- finite float = num/den, den > 0
  | nan | posInf | negInf
  | str (tag : Nat)
  | other (tag : Nat)
  deriving DecidableEq, Repr, Inhabited

namespace PyVal
/-- `isinstance(v, int)` (true for bool, as in Python). -/
def isInt : PyVal → Bool
  | .bool _ => true | .int _ => true | _ => false
/-- integer value of an `int`/`bool`. -/
def intVal : PyVal → Int
  | .bool b => if b then 1 else 0
  | .int i => i
  | _ => 0
def isNone : PyVal → Bool
  | .none => true | _ => false
/-- Python `==` on the value kinds the harness uses. -/
def pyEq : PyVal → PyVal → Bool
  | .none, .none => true
  | .str a, .str b => a == b
  | .other a, .other b => a == b
  | .nan, _ => false
  | _, .nan => false
  | .posInf, .posInf => true
  | .negInf, .negInf => true
  | .float n d, .float n' d' => n * d' == n' * d
  | .float n d, b => b.isInt && (n == b.intVal * d)
  | a, .float n d => a.isInt && (n == a.intVal * d)
  | a, b => a.isInt && b.isInt && a.intVal == b.intVal
end PyVal

inductive Mode where
  | n11 | n29 | nf29 | e11 | e29 | m11 | m29
  deriving DecidableEq, Repr, Inhabited

def Mode.is29 : Mode → Bool
  | .n29 | .nf29 | .e29 | .m29 => true
  | _ => false

def Mode.hasPrefix : Mode → Bool
  | .e11 | .e29 | .m11 | .m29 => true
  | _ => false

def Mode.ofNat? : Nat → Option Mode
  | 0 => some .n11 | 1 => some .n29 | 2 => some .nf29 | 3 => some .e11
  | 4 => some .e29 | 5 => some .m11 | 6 => some .m29 | _ => none

def Mode.toNat : Mode → Nat
  | .n11 => 0 | .n29 => 1 | .nf29 => 2 | .e11 => 3 | .e29 => 4 | .m11 => 5 | .m29 => 6

/-- Keyword arguments of `Address(...)`. `mode = none` stands for a value that is not an
    `AddressingMode` member. `physId`/`funcId` are not type-checked by the code; the model
    restricts them to `None` or a non-negative int. -/
structure AddrArgs where
  mode   : Option Mode
  txid   : PyVal := .none
  rxid   : PyVal := .none
  ta     : PyVal := .none
  sa     : PyVal := .none
  ae     : PyVal := .none
  physId : Option Nat := none
  funcId : Option Nat := none
  rxOnly : Bool := false
  txOnly : Bool := false
  deriving DecidableEq, Repr, Inhabited

/-- A constructed (validated) `Address` object. -/
structure Half where
  mode   : Mode
  txid   : Option Nat
  rxid   : Option Nat
  ta     : Option Nat
  sa     : Option Nat
  ae     : Option Nat
  physId : Nat
  funcId : Nat
  rxOnly : Bool
  txOnly : Bool
  deriving DecidableEq, Repr, Inhabited

/-- `x & 0x1FFF0000` -/
def mask2816 (x : Nat) : Nat := x / 65536 % 8192 * 65536

/-- value check of the three address bytes: `None` or an int in 0..255. -/
def byteOk (v : PyVal) : Bool := v.isNone || (v.isInt && 0 ≤ v.intVal && v.intVal ≤ 0xFF)

/-- value check of txid / rxid. -/
def idOk (is29 : Bool) (v : PyVal) : Bool :=
  v.isNone || (v.isInt && 0 ≤ v.intVal && (is29 || v.intVal ≤ 0x7FF))

def optNat (v : PyVal) : Option Nat := if v.isNone then none else some v.intVal.toNat

/-- `Address.validate`, mode-specific presence rules (in the order of the source). -/
def presenceOk (a : AddrArgs) (m : Mode) : Bool :=
  match m with
  | .n11 | .n29 =>
      !(a.rxid.isNone && !a.txOnly) && !(a.txid.isNone && !a.rxOnly) && !(a.rxid.pyEq a.txid)
  | .nf29 => !(a.ta.isNone || a.sa.isNone)
  | .e11 | .e29 =>
      (a.rxOnly || !(a.ta.isNone || a.txid.isNone)) &&
      (a.txOnly || !(a.sa.isNone || a.rxid.isNone)) && !(a.rxid.pyEq a.txid)
  | .m11 =>
      !a.ae.isNone && !(a.rxid.isNone && !a.txOnly) && !(a.txid.isNone && !a.rxOnly)
        && !(a.rxid.pyEq a.txid)
  | .m29 => !(a.ta.isNone || a.sa.isNone || a.ae.isNone)

def validateAddr (a : AddrArgs) : Bool :=
  match a.mode with
  | none => false
  | some m =>
    !(a.rxOnly && a.txOnly) && presenceOk a m &&
    byteOk a.ta && byteOk a.sa && byteOk a.ae && idOk m.is29 a.txid && idOk m.is29 a.rxid

/-- `Address(...)`: `ValueError` or the constructed object. -/
def mkAddress (a : AddrArgs) : Except PyExc Half :=
  match a.mode with
  | none => .error .ValueError
  | some m =>
    if validateAddr a then
      let (p, f) := match m with
        | .nf29 => ((a.physId.map mask2816).getD 0x18DA0000, (a.funcId.map mask2816).getD 0x18DB0000)
        | .m29  => ((a.physId.map mask2816).getD 0x18CE0000, (a.funcId.map mask2816).getD 0x18CD0000)
        | _ => (0, 0)
      .ok { mode := m, txid := optNat a.txid, rxid := optNat a.rxid, ta := optNat a.ta,
            sa := optNat a.sa, ae := optNat a.ae, physId := p, funcId := f,
            rxOnly := a.rxOnly, txOnly := a.txOnly }
    else .error .ValueError

namespace Half

def txId (h : Half) (t : Tat) : Nat :=
  match h.mode with
  | .nf29 | .m29 =>
      (if t = .physical then h.physId else h.funcId) + (h.ta.getD 0) * 256 + (h.sa.getD 0)
  | _ => h.txid.getD 0

def rxId (h : Half) (t : Tat) : Nat :=
  match h.mode with
  | .nf29 | .m29 =>
      (if t = .physical then h.physId else h.funcId) + (h.sa.getD 0) * 256 + (h.ta.getD 0)
  | _ => h.rxid.getD 0

def txPrefix (h : Half) : Bytes :=
  match h.mode with
  | .e11 | .e29 => [u8 (h.ta.getD 0)]
  | .m11 | .m29 => [u8 (h.ae.getD 0)]
  | _ => []

def rxPrefixSize (h : Half) : Nat := if h.mode.hasPrefix then 1 else 0

def txExtByte (h : Half) : Option Nat :=
  match h.mode with
  | .e11 | .e29 => h.ta
  | .m11 | .m29 => h.ae
  | _ => none

def rxExtByte (h : Half) : Option Nat :=
  match h.mode with
  | .e11 | .e29 => h.sa
  | .m11 | .m29 => h.ae
  | _ => none

/-- the `_is_for_me_*` predicate selected by the constructor. -/
def isForMe (h : Half) (m : CanMsg) : Bool :=
  if h.mode.is29 != m.ext then false else
  match h.mode with
  | .n11 | .n29 => some m.id == h.rxid
  | .e11 | .e29 =>
      if m.data.length > 0 then some m.id == h.rxid && some (byteAt m.data 0) == h.sa else false
  | .nf29 =>
      (mask2816 m.id == h.physId || mask2816 m.id == h.funcId) &&
        some (m.id / 256 % 256) == h.sa && some (m.id % 256) == h.ta
  | .m11 =>
      if m.data.length > 0 then some m.id == h.rxid && some (byteAt m.data 0) == h.ae else false
  | .m29 =>
      if m.data.length > 0 then
        (mask2816 m.id == h.physId || mask2816 m.id == h.funcId) &&
          some (m.id / 256 % 256) == h.sa && some (m.id % 256) == h.ta &&
          some (byteAt m.data 0) == h.ae
      else false

end Half

/-- What a layer holds: the transmit half and the receive half
    (the same object for a symmetric `Address`). -/
structure Addr where
  tx : Half
  rx : Half
  deriving DecidableEq, Repr, Inhabited

/-- `AsymmetricAddress(tx_addr, rx_addr)`. -/
def mkAsym (tx rx : Half) : Except PyExc Addr :=
  if !tx.txOnly then .error .ValueError
  else if !rx.rxOnly then .error .ValueError
  else .ok { tx := tx, rx := rx }

/-- `set_address`: a symmetric address must not be partial. -/
def mkSym (h : Half) : Except PyExc Addr :=
  if h.rxOnly || h.txOnly then .error .ValueError else .ok { tx := h, rx := h }

end Isotp
