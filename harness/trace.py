"""Structured view of (lines_in, out_lines) + projection helpers shared by the property modules."""
from props.base import parse_out, ev_tx, ev_err, unhex


class Rec:
    __slots__ = ('k', 'toks', 'op', 'layer', 'events', 'result', 'status', 'raw')

    def __init__(self, k, line_in, line_out):
        self.k = k
        self.toks = line_in.split()
        self.op = self.toks[0] if self.toks else ''
        self.layer = None
        if self.op in ('send', 'frame', 'process', 'recv', 'stop_sending', 'stop_receiving', 'reset', 'genclose') and len(self.toks) > 1:
            self.layer = int(self.toks[1])
        evs, res, st = parse_out(line_out)
        self.events = [parse_event(e) for e in evs]
        self.result = res
        self.status = st
        self.raw = line_out


def parse_event(e):
    if e.startswith('tx@'):
        d = ev_tx(e)
        d['k'] = 'tx'
        return d
    if e.startswith('err@'):
        d = ev_err(e)
        d['k'] = 'err'
        return d
    if e.startswith('rx@'):
        t, i, ext, hx = e[3:].split(':')
        return {'k': 'rx', 't': int(t), 'id': int(i), 'ext': ext == '1', 'data': unhex(hx)}
    if e.startswith('rxn@'):
        return {'k': 'rxn', 't': int(e[4:])}
    if e.startswith('done:'):
        _, i, ok = e.split(':')
        return {'k': 'done', 'id': int(i), 'ok': ok == '1'}
    if e.startswith('deliver:'):
        return {'k': 'deliver', 'data': unhex(e[8:])}
    if e.startswith('pull:'):
        _, i, n = e.split(':')
        return {'k': 'pull', 'id': int(i), 'n': int(n)}
    if e == 'txw':
        return {'k': 'txw'}
    return {'k': '?', 'raw': e}


def records(lines_in, out, sc=None):
    recs = [Rec(k, lines_in[k], out[k] if k < len(out) else '') for k in range(len(lines_in))]
    if sc is None or not any('_o' in op for op in sc.get('ops', ())) or len(sc['ops']) != len(recs):
        return recs
    # transmit-only passes were mixed in next to full passes (PropBase.mix_partial_passes): give the judges that reason with op indices the
    # shape of the scenario as generated - one record per original op, the events of its passes in order, the state after the last one
    grouped = []
    for op, r in zip(sc['ops'], recs):
        o = op.get('_o', r.k)
        if grouped and grouped[-1].k == o:
            g = grouped[-1]
            g.events = g.events + r.events
            g.status = r.status
            if not (op.get('rx') is False):
                g.toks, g.result, g.raw = r.toks, r.result, r.raw
        else:
            r.k = o
            grouped.append(r)
    return grouped


def layer_cfg(sc, i=0):
    for op in sc['ops']:
        if op['op'] == 'layer' and op['i'] == i:
            return op
    return None


def project_events(out_line, keep, status_keys=(), drop_err_name=False, drop_times=False, drop_result=False):
    """generic projection: keep only the listed event kinds and status keys"""
    parts = out_line.split('|')
    if len(parts) != 3:
        return out_line
    evs = []
    for e in parts[0].split(';'):
        if not e:
            continue
        kind = e.split('@')[0].split(':')[0]
        if kind not in keep:
            continue
        if kind == 'err' and drop_err_name:
            e = 'err'
        elif drop_times and '@' in e:
            head, rest = e.split('@', 1)
            e = head + ':' + rest.split(':', 1)[1] if ':' in rest else head
        evs.append(e)
    st = ' '.join(kv for kv in parts[2].split() if kv.split('=')[0] in status_keys)
    return '%s|%s|%s' % (';'.join(evs), '' if drop_result else parts[1], st)
