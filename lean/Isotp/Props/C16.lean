import Isotp.Proofs.C16
/-
  C16 — "Configuration is validated up front" (validation half).

  `Address`, `AsymmetricAddress` and the params dictionary accept exactly the combinations
  and value ranges the documentation lists and reject everything else with `ValueError`.
  The documentation-level predicates (`Spec.docValidAddress`, `Spec.docValidParams`) live in
  Isotp/Spec/Config.lean; helper lemmas in Isotp/Proofs/C16.lean.

  Scope notes.
  * Every statement quantifies over *all* `AddrArgs` / `ParamArgs`, i.e. over every `PyVal`
    (None, bool, int, finite float, nan, ±inf, str, other object) in every field.
  * 29-bit identifiers: neither the documentation nor the code bounds `txid`/`rxid` above in
    the 29-bit modes; `Spec.isCanId` says so explicitly (see `addr_29bit_id_unbounded`).
  * The two float products of `Params.validate` are evaluated by Python and handed to the
    model (`ParamArgs.prod`, `ParamArgs.ovrScaledFinite`, DESIGN §3.1); the theorems are
    parametric in them. Consequently ints so large that Python's int→float conversion raises
    `OverflowError` inside `validate()` (e.g. `override_receiver_stmin = 10**400`) are outside
    what these theorems cover (reported as a finding).
-/
namespace Isotp.C16
open Isotp Isotp.Spec

/-- only used to let `decide` check the concrete examples below -/
local instance : DecidableEq (Except PyExc Half) := fun a b =>
  match a, b with
  | .ok x, .ok y => if h : x = y then isTrue (h ▸ rfl) else isFalse (fun e => h (Except.ok.inj e))
  | .error x, .error y => if h : x = y then isTrue (h ▸ rfl) else isFalse (fun e => h (Except.error.inj e))
  | .ok _, .error _ => isFalse (fun e => nomatch e)
  | .error _, .ok _ => isFalse (fun e => nomatch e)

local instance : DecidableEq (Except PyExc Addr) := fun a b =>
  match a, b with
  | .ok x, .ok y => if h : x = y then isTrue (h ▸ rfl) else isFalse (fun e => h (Except.ok.inj e))
  | .error x, .error y => if h : x = y then isTrue (h ▸ rfl) else isFalse (fun e => h (Except.error.inj e))
  | .ok _, .error _ => isFalse (fun e => nomatch e)
  | .error _, .ok _ => isFalse (fun e => nomatch e)

/-! ## 1–2. Address -/

/-- `Address.validate` accepts exactly what addressing.rst documents. -/
theorem validateAddr_iff_doc (a : AddrArgs) : validateAddr a = Spec.docValidAddress a :=
  validateAddr_eq_doc a

/-- A refused `Address(...)` raises `ValueError`, never anything else. -/
theorem mkAddress_error_is_ValueError (a : AddrArgs) (e : PyExc)
    (h : mkAddress a = .error e) : e = .ValueError :=
  mkAddress_error a e h

/-- `Address(...)` returns an object exactly for the documented-valid arguments, and the
    object stores the given values (`docHalf`: mode, the five optional ints, the 29-bit
    bases of the fixed modes, the two flags). -/
theorem mkAddress_ok_iff (a : AddrArgs) (h : Half) :
    mkAddress a = .ok h ↔
      ∃ m, a.mode = some m ∧ Spec.docValidAddress a = true ∧ h = docHalf a m := by
  rw [← validateAddr_eq_doc]
  exact mkAddress_ok_iff' a h

/-- Total: either an object or `ValueError`, decided by the documented predicate. -/
theorem mkAddress_rejects_iff (a : AddrArgs) :
    mkAddress a = .error .ValueError ↔ Spec.docValidAddress a = false := by
  rw [← validateAddr_eq_doc]
  unfold mkAddress
  cases hm : a.mode with
  | none => simp [validateAddr, hm]
  | some m => cases hv : validateAddr a <;> simp

/-- What the table promises, read off the constructed object: the parameters required for
    (mode, kind) are present; address bytes are ≤ 0xFF; 11-bit identifiers are ≤ 0x7FF;
    in the modes that use them `txid ≠ rxid`. -/
theorem mkAddress_ok_facts (a : AddrArgs) (h : Half) (hk : mkAddress a = .ok h) :
    ∃ k, Spec.kindOf h.rxOnly h.txOnly = some k ∧
      (∀ p ∈ Spec.required h.mode k, (halfField h p).isSome = true) ∧
      (∀ p ∈ [AParam.ta, .sa, .ae], ∀ n, halfField h p = some n → n ≤ 0xFF) ∧
      (Spec.is11bit h.mode = true →
        ∀ p ∈ [AParam.txid, .rxid], ∀ n, halfField h p = some n → n ≤ 0x7FF) ∧
      (Spec.usesIds h.mode = true → ∀ i j, h.txid = some i → h.rxid = some j → i ≠ j) := by
  obtain ⟨m, hm, hv, rfl⟩ := (mkAddress_ok_iff a h).1 hk
  exact docHalf_facts a m hm hv

/-! ### non-vacuity: one accepted and one rejected `Address(...)` per mode -/

-- Normal_11bits
example : mkAddress { mode := some .n11, txid := .int 0x456, rxid := .int 0x123 } =
    .ok { mode := .n11, txid := some 0x456, rxid := some 0x123, ta := none, sa := none, ae := none,
          physId := 0, funcId := 0, rxOnly := false, txOnly := false } := by decide
example : mkAddress { mode := some .n11, txid := .int 0x456 } = .error .ValueError := by decide  -- rxid missing
example : mkAddress { mode := some .n11, txid := .int 0x800, rxid := .int 1 } = .error .ValueError := by decide
example : mkAddress { mode := some .n11, txid := .int 5, rxid := .int 5 } = .error .ValueError := by decide
example : mkAddress { mode := some .n11, txid := .int 1, rxid := .bool true } = .error .ValueError := by decide -- True == 1
example : docValidAddress { mode := some .n11, txid := .int 0x456, txOnly := true } = true := by decide
example : docValidAddress { mode := some .n11, rxid := .int 0x123, rxOnly := true } = true := by decide
example : docValidAddress { mode := some .n11, txid := .int 1, rxid := .int 2, rxOnly := true, txOnly := true } = false := by decide
example : docValidAddress { mode := some .n11, txid := .float 1 1, rxid := .int 2 } = false := by decide
example : docValidAddress { mode := some .n11, txid := .str 0, rxid := .int 2 } = false := by decide
-- a provided-but-unneeded byte is still range-checked
example : docValidAddress { mode := some .n11, txid := .int 1, rxid := .int 2, ta := .int 256 } = false := by decide
-- Normal_29bits (no upper bound on the identifier)
theorem addr_29bit_id_unbounded :
    docValidAddress { mode := some .n29, txid := .int (2 ^ 40), rxid := .int 1 } = true := by decide
example : docValidAddress { mode := some .n29, txid := .int (-1), rxid := .int 1 } = false := by decide
-- NormalFixed_29bits
example : mkAddress { mode := some .nf29, ta := .int 0xAA, sa := .int 0x55 } =
    .ok { mode := .nf29, txid := none, rxid := none, ta := some 0xAA, sa := some 0x55, ae := none,
          physId := 0x18DA0000, funcId := 0x18DB0000, rxOnly := false, txOnly := false } := by decide
example : mkAddress { mode := some .nf29, ta := .int 0xAA } = .error .ValueError := by decide
example : docValidAddress { mode := some .nf29, ta := .int 0xAA, sa := .int 0x55, txOnly := true } = true := by decide
example : docValidAddress { mode := some .nf29, ta := .none, sa := .int 0x55, rxOnly := true } = false := by decide
-- Extended_11bits / Extended_29bits
example : docValidAddress { mode := some .e11, txid := .int 0x456, rxid := .int 0x123, ta := .int 0xAA, sa := .int 0x55 } = true := by decide
example : docValidAddress { mode := some .e11, txid := .int 0x456, rxid := .int 0x123, ta := .int 0xAA } = false := by decide
example : docValidAddress { mode := some .e11, txid := .int 0x456, ta := .int 0xAA, txOnly := true } = true := by decide
example : docValidAddress { mode := some .e11, rxid := .int 0x123, sa := .int 0x55, rxOnly := true } = true := by decide
example : docValidAddress { mode := some .e11, rxid := .int 0x123, ta := .int 0x55, rxOnly := true } = false := by decide
example : docValidAddress { mode := some .e29, txid := .int 0x12345678, rxid := .int 0x123, ta := .int 0, sa := .int 255 } = true := by decide
example : docValidAddress { mode := some .e29, txid := .int 0x12345678, rxid := .int 0x123, ta := .int 0, sa := .int (-1) } = false := by decide
-- Mixed_11bits
example : docValidAddress { mode := some .m11, txid := .int 0x456, rxid := .int 0x123, ae := .int 0x99 } = true := by decide
example : docValidAddress { mode := some .m11, txid := .int 0x456, rxid := .int 0x123 } = false := by decide
example : docValidAddress { mode := some .m11, rxid := .int 0x123, ae := .int 0x99, rxOnly := true } = true := by decide
-- Mixed_29bits
example : mkAddress { mode := some .m29, ta := .int 0xAA, sa := .int 0x55, ae := .int 0x99, physId := some 0x1F123456 } =
    .ok { mode := .m29, txid := none, rxid := none, ta := some 0xAA, sa := some 0x55, ae := some 0x99,
          physId := 0x1F120000, funcId := 0x18CD0000, rxOnly := false, txOnly := false } := by decide
example : docValidAddress { mode := some .m29, ta := .int 0xAA, sa := .int 0x55, txOnly := true } = false := by decide
-- not an AddressingMode
example : mkAddress { mode := none, txid := .int 1, rxid := .int 2 } = .error .ValueError := by decide

/-! ## 3. AsymmetricAddress and symmetric addresses -/

/-- `AsymmetricAddress(tx, rx)` is accepted exactly when `tx` is a `tx_only` address and `rx`
    an `rx_only` one; the result holds the two halves. -/
theorem mkAsym_iff (tx rx : Half) (a : Addr) :
    mkAsym tx rx = .ok a ↔ tx.txOnly = true ∧ rx.rxOnly = true ∧ a = { tx := tx, rx := rx } := by
  unfold mkAsym
  cases tx.txOnly <;> cases rx.rxOnly <;> simp [eq_comm]

theorem mkAsym_error_is_ValueError (tx rx : Half) (e : PyExc)
    (h : mkAsym tx rx = .error e) : e = .ValueError := by
  unfold mkAsym at h
  cases h1 : tx.txOnly <;> cases h2 : rx.rxOnly <;> simp [h1, h2] at h <;> exact h.symm

theorem mkAsym_rejects_iff (tx rx : Half) :
    mkAsym tx rx = .error .ValueError ↔ ¬ (tx.txOnly = true ∧ rx.rxOnly = true) := by
  unfold mkAsym
  cases tx.txOnly <;> cases rx.rxOnly <;> simp

/-- A symmetric address (`set_address(Address)`) must be a full address. -/
theorem mkSym_iff (h : Half) (a : Addr) :
    mkSym h = .ok a ↔ h.rxOnly = false ∧ h.txOnly = false ∧ a = { tx := h, rx := h } := by
  unfold mkSym
  cases h.rxOnly <;> cases h.txOnly <;> simp [eq_comm]

theorem mkSym_error_is_ValueError (h : Half) (e : PyExc)
    (he : mkSym h = .error e) : e = .ValueError := by
  unfold mkSym at he
  cases h1 : h.rxOnly <;> cases h2 : h.txOnly <;> simp [h1, h2] at he <;> exact he.symm

/-- End to end: the two halves of an accepted `AsymmetricAddress` built from keyword
    arguments satisfy the Partial-Tx resp. Partial-Rx column of the table. -/
theorem asym_from_args (ta ra : AddrArgs) (tx rx : Half) (a : Addr)
    (h1 : mkAddress ta = .ok tx) (h2 : mkAddress ra = .ok rx) (h3 : mkAsym tx rx = .ok a) :
    Spec.docValidAddress ta = true ∧ Spec.docValidAddress ra = true ∧
    Spec.kindOf ta.rxOnly ta.txOnly = some .txOnly ∧ Spec.kindOf ra.rxOnly ra.txOnly = some .rxOnly := by
  obtain ⟨m1, hm1, hv1, rfl⟩ := (mkAddress_ok_iff ta tx).1 h1
  obtain ⟨m2, hm2, hv2, rfl⟩ := (mkAddress_ok_iff ra rx).1 h2
  obtain ⟨ht, hr, -⟩ := (mkAsym_iff _ _ a).1 h3
  simp only [docHalf] at ht hr
  refine ⟨hv1, hv2, ?_, ?_⟩
  · have := hv1
    unfold docValidAddress at this
    cases hrx : ta.rxOnly <;> simp_all [kindOf]
  · have := hv2
    unfold docValidAddress at this
    cases htx : ra.txOnly <;> simp_all [kindOf]

-- the example of addressing.rst: NormalFixed_29bits for transmission, Mixed_11bits for reception
example :
    (do let tx ← mkAddress { mode := some .nf29, ta := .int 0xAA, sa := .int 0x55, txOnly := true }
        let rx ← mkAddress { mode := some .m11, rxid := .int 0x123, ae := .int 0x99, rxOnly := true }
        mkAsym tx rx).isOk = true := by decide
example :
    (do let tx ← mkAddress { mode := some .nf29, ta := .int 0xAA, sa := .int 0x55 }   -- not tx_only
        let rx ← mkAddress { mode := some .m11, rxid := .int 0x123, ae := .int 0x99, rxOnly := true }
        mkAsym tx rx) = .error .ValueError := by decide
example :
    (do let h ← mkAddress { mode := some .n11, txid := .int 1, rxid := .int 2 }
        mkSym h).isOk = true := by decide
example :
    (do let h ← mkAddress { mode := some .n11, txid := .int 1, txOnly := true }
        mkSym h) = .error .ValueError := by decide

/-! ## 4. Params -/

/-- `Params.validate` accepts exactly what implementation.rst documents. -/
theorem validateParams_iff_doc (p : ParamArgs) : validateParams p = Spec.docValidParams p :=
  validateParams_eq_doc p

-- accepted
example : docValidParams {} = true := by decide                                   -- the defaults
example : docValidParams
    { stmin := .int 0xFF, blocksize := .int 0, txPadding := .int 0xAA,
      txDl := .int 64, txMinLen := .int 12, canFd := .bool true, brs := .bool true,
      overrideStmin := .float 1 1000, wftmax := .int 5, defaultTat := .int 1 } = true := by decide
example : docValidParams
    { txDl := .int 8, rlBitrate := .int 320, rlWindow := .float 1 5, prod := .float 64 1 } = true := by decide                                     -- exactly one frame per window
example : docValidParams { overrideStmin := .int 0 } = true := by decide
-- rejected: wrong type
example : docValidParams { stmin := .float 1 1 } = false := by decide
example : docValidParams { canFd := .int 1 } = false := by decide
example : docValidParams { tFc := .float 1000 1 } = false := by decide
example : docValidParams { overrideStmin := .bool true } = false := by decide
example : docValidParams { txDl := .none } = false := by decide
example : docValidParams { rlWindow := .str 0 } = false := by decide
-- rejected: out of range
example : docValidParams { stmin := .int 256 } = false := by decide
example : docValidParams { blocksize := .int (-1) } = false := by decide
example : docValidParams { txPadding := .int 256 } = false := by decide
example : docValidParams { txDl := .int 10 } = false := by decide
example : docValidParams { txMinLen := .int 9 } = false := by decide
example : docValidParams { txDl := .int 8, txMinLen := .int 12 } = false := by decide   -- min length above the link size
example : docValidParams { tCf := .int (-1) } = false := by decide
example : docValidParams { wftmax := .int (-1) } = false := by decide
example : docValidParams { maxFrameSize := .int (-1) } = false := by decide
example : docValidParams { defaultTat := .int 2 } = false := by decide
example : docValidParams { rlBitrate := .int 0 } = false := by decide
example : docValidParams { rlWindow := .int 0 } = false := by decide
example : docValidParams { rlWindow := .posInf, prod := .posInf } = false := by decide
example : docValidParams { rlWindow := .nan, prod := .nan } = false := by decide
example : docValidParams { overrideStmin := .float (-1) 10 } = false := by decide
example : docValidParams { overrideStmin := .posInf } = false := by decide
example : docValidParams { overrideStmin := .float 1 1, ovrScaledFinite := false } = false := by decide
example : docValidParams
    { txDl := .int 8, rlBitrate := .int 315, rlWindow := .float 1 5, prod := .float 63 1 } = false := by decide                                    -- 63 bits < one 8-byte frame
example : docValidParams
    { txDl := .int 64, rlBitrate := .int 1000, rlWindow := .float 1 2, prod := .float 500 1 } = false := by decide

/-! ## 5. Accepted params give a valid `Cfg` -/

/-- If `Params.validate` accepts `p`, the configuration record the layer then runs with
    (`cfgOfParams`: integer fields as stored, `rlBitMax = ⌊bitrate * window⌋` computed exactly
    from the product) satisfies `Cfg.valid`, the hypothesis of the protocol theorems.
    `floatWf p.prod` is the data invariant of `PyVal.float` (denominator > 0). -/
theorem accepted_params_give_valid_cfg (p : ParamArgs) (ovrNs : Option Nat) (winNs : Nat)
    (hwf : floatWf p.prod) (h : validateParams p = true) :
    (cfgOfParams p ovrNs winNs).valid = true :=
  cfgOfParams_valid p ovrNs winNs hwf h

/-- The same from the documentation side. -/
theorem doc_params_give_valid_cfg (p : ParamArgs) (ovrNs : Option Nat) (winNs : Nat)
    (hwf : floatWf p.prod) (h : Spec.docValidParams p = true) :
    (cfgOfParams p ovrNs winNs).valid = true :=
  cfgOfParams_valid p ovrNs winNs hwf (by rw [validateParams_eq_doc]; exact h)

/-- The individual range facts, for use without going through `Cfg`. -/
theorem accepted_params_ranges (p : ParamArgs) (h : validateParams p = true) :
    txDlOk p.txDl = true ∧ validTxDl p.txDl.intVal.toNat = true ∧
    p.stmin.intVal.toNat ≤ 255 ∧ p.blocksize.intVal.toNat ≤ 255 ∧
    (∀ n, optNat p.txPadding = some n → n ≤ 255) ∧
    (∀ m, optNat p.txMinLen = some m → validMinLen m = true ∧ m ≤ p.txDl.intVal.toNat) :=
  params_ranges p h

-- the hypotheses are satisfiable, and the invariant is needed
example : floatWf ({} : ParamArgs).prod ∧ validateParams {} = true := by decide
example : (cfgOfParams {} none 200000000).valid = true := by decide
example : (cfgOfParams {} none 200000000).rlBitMax = 20000000 := by decide
example : (cfgOfParams { prod := .float 129 2 } none 0).rlBitMax = 64 := by decide   -- ⌊64.5⌋
example : validateParams { prod := .float 5 0 } = true ∧
    (cfgOfParams { prod := .float 5 0 } none 0).valid = false := by decide            -- ill-formed float (den = 0)

end Isotp.C16

#print axioms Isotp.C16.validateAddr_iff_doc
#print axioms Isotp.C16.mkAddress_error_is_ValueError
#print axioms Isotp.C16.mkAddress_ok_iff
#print axioms Isotp.C16.mkAddress_rejects_iff
#print axioms Isotp.C16.mkAddress_ok_facts
#print axioms Isotp.C16.addr_29bit_id_unbounded
#print axioms Isotp.C16.mkAsym_iff
#print axioms Isotp.C16.mkAsym_error_is_ValueError
#print axioms Isotp.C16.mkAsym_rejects_iff
#print axioms Isotp.C16.mkSym_iff
#print axioms Isotp.C16.mkSym_error_is_ValueError
#print axioms Isotp.C16.asym_from_args
#print axioms Isotp.C16.validateParams_iff_doc
#print axioms Isotp.C16.accepted_params_give_valid_cfg
#print axioms Isotp.C16.doc_params_give_valid_cfg
#print axioms Isotp.C16.accepted_params_ranges
