import Isotp.Proofs.C09
/-
  C09 — Addressing: only my frames are accepted; mirrored peers understand each other.

  Reference definitions: `Isotp/Spec/Addressing.lean` (written from doc/source/isotp/addressing.rst).
  Helper lemmas: `Isotp/Proofs/C09.lean`.

  Reading guide
  * §1  the model's `is_for_me` is the documented reception condition (all modes, all parameters,
        no validity hypothesis); `Address(...)` only builds well-formed addresses.
  * §2  a frame that is not for me is never given to `_process_rx`: the rx loop treats it exactly
        like the same clock advance without a frame (only the `.rx` trace entry and the
        `received` counter differ), one frame (`ignored_frame*`) or a whole inbox
        (`ignored_inbox`); a frame that is for me is given to `_process_rx` (`accepted_frame`).
  * §3  every frame built by `_make_tx_msg` / `_make_flow_control` / the transmit FSM carries the
        documented identifier, identifier type and payload prefix; invariant for the standby
        message; the same for a whole `process()` call and for every reachable state.
  * §4  documented frames are accepted by the mirrored address.
  * §5  Functional target address type in `send()`.
-/
namespace Isotp.C09
open Isotp Isotp.State Isotp.Spec

/-! ## Fixtures used by the non-vacuity examples (the examples of addressing.rst) -/

/-- NormalFixed_29bits, source_address 0x55, target_address 0xAA. -/
def exFixed : Half :=
  { mode := .nf29, txid := none, rxid := none, ta := some 0xAA, sa := some 0x55, ae := none,
    physId := 0x18DA0000, funcId := 0x18DB0000, rxOnly := false, txOnly := false }

/-- Extended_11bits, rxid 0x123, txid 0x456, source_address 0x55, target_address 0xAA. -/
def exExtended : Half :=
  { mode := .e11, txid := some 0x456, rxid := some 0x123, ta := some 0xAA, sa := some 0x55, ae := none,
    physId := 0, funcId := 0, rxOnly := false, txOnly := false }

/-- Mixed_29bits, source_address 0x55, target_address 0xAA, address_extension 0x99. -/
def exMixed29 : Half :=
  { mode := .m29, txid := none, rxid := none, ta := some 0xAA, sa := some 0x55, ae := some 0x99,
    physId := 0x18CE0000, funcId := 0x18CD0000, rxOnly := false, txOnly := false }

/-- a layer with the normal fixed example address and default parameters -/
def exState : State := State.init {} { tx := exFixed, rx := exFixed }

/-! ### The reference definitions reproduce the worked examples of addressing.rst -/

-- Normal fixed: `0x18DA55AA [8] 10 0A ...` is received, the flow control goes out on `0x18DAAA55`.
example : receptionCondition exFixed { id := 0x18DA55AA, ext := true, data := [0x10, 0x0A, 0, 1, 2, 3, 4] } = true := by decide
example : receptionCondition exFixed { id := 0x18DB55AA, ext := true, data := [0x02, 1, 2] } = true := by decide
example : receptionCondition exFixed { id := 0x18DA55AB, ext := true, data := [0x02, 1, 2] } = false := by decide
example : receptionCondition exFixed { id := 0x18DA55AA, ext := false, data := [0x02, 1, 2] } = false := by decide
example : emittedId exFixed .physical = 0x18DAAA55 := by decide
example : emittedId exFixed .functional = 0x18DBAA55 := by decide
example : emittedIdBitwise exFixed .physical = 0x18DAAA55 := by decide
-- Extended: `0x123 [8] 55 10 0A ...` is received, `0x456 [5] AA 30 00 08 00` is sent.
example : receptionCondition exExtended { id := 0x123, ext := false, data := [0x55, 0x10, 0x0A, 0, 1, 2, 3] } = true := by decide
example : receptionCondition exExtended { id := 0x123, ext := false, data := [0x56, 0x10, 0x0A, 0, 1, 2, 3] } = false := by decide
example : receptionCondition exExtended { id := 0x123, ext := false, data := [] } = false := by decide
example : emittedId exExtended .physical = 0x456 ∧ emittedPrefix exExtended = [0xAA] := by decide
-- Mixed 29: `0x18CE55AA [8] 99 10 0A ...` is received, `0x18CEAA55 [5] 99 30 00 08 00` is sent.
example : receptionCondition exMixed29 { id := 0x18CE55AA, ext := true, data := [0x99, 0x10, 0x0A, 0, 1, 2, 3] } = true := by decide
example : receptionCondition exMixed29 { id := 0x18CE55AA, ext := true, data := [0x98, 0x10, 0x0A, 0, 1, 2, 3] } = false := by decide
example : emittedId exMixed29 .physical = 0x18CEAA55 ∧ emittedPrefix exMixed29 = [0x99] := by decide

/-! ## §1 Reception condition -/

/-- **C09.1** For every address (every mode, every parameter value, well-formed or not) and every
    CAN frame, the model's `is_for_me` is exactly the documented reception condition: identifier
    type of the mode, identifier value / target and source address fields of the identifier, first
    payload byte. -/
theorem isForMe_iff (h : Half) (m : CanMsg) : h.isForMe m = Spec.receptionCondition h m :=
  isForMe_eq_receptionCondition h m

/-- The model's transmit identifier and payload prefix are the documented ones (all modes, both
    target address types, no hypothesis). -/
theorem txId_eq_spec (h : Half) (t : Tat) : h.txId t = Spec.emittedId h t := txId_eq_emittedId h t

theorem txPrefix_eq_spec (h : Half) : h.txPrefix = Spec.emittedPrefix h := txPrefix_eq_emittedPrefix h

/-- `Address(...)` only returns well-formed addresses (`Half.wf`: address bytes ≤ 0xFF, 11-bit ids
    ≤ 0x7FF, bases restricted to bits 28..16, not both partial flags, the presence table of the
    documentation, `txid ≠ rxid`). -/
theorem mkAddress_wf (a : AddrArgs) (h : Half) (hk : mkAddress a = .ok h) : h.wf = true :=
  wf_of_mkAddress a h hk

example : mkAddress { mode := some .nf29, ta := .int 0xAA, sa := .int 0x55 } = .ok exFixed := by rfl

/-- For a well-formed address the arithmetic form of the emitted identifier (`base + 256·TA + SA`,
    which is what the model computes) is the bitwise form of address.py
    (`bits28_16 | (target_address << 8) | source_address`). -/
theorem emittedId_bitwise (h : Half) (t : Tat) (hw : h.wf = true) :
    Spec.emittedId h t = Spec.emittedIdBitwise h t := emittedId_eq_bitwise h t hw

example : exFixed.wf = true := by decide

/-! ## §2 A frame that is not for me changes nothing, reports nothing, disturbs nothing -/

/-- **C09.3a** One iteration of the rx loop of `process` on a frame that does not meet the
    reception condition: `_process_rx` is not called; the loop continues (or, with `do_tx` and a
    time-driven transmit FSM, returns requesting another pass) from `skipFrame s dt m rest`, and of
    the statistics only `received` is incremented (`processed` and `frames` are untouched). -/
theorem ignored_frame (doTx : Bool) (s : State) (st : Stats) (dt : Nat) (m : CanMsg)
    (rest : List (Nat × CanMsg)) (h : Spec.receptionCondition s.addr.rx m = false) :
    rxLoop doTx s st ((dt, m) :: rest) =
      if doTx && (skipFrame s dt m rest).txTimeDriven then
        (skipFrame s dt m rest, { st with received := st.received + 1 }, true)
      else rxLoop doTx (skipFrame s dt m rest) { st with received := st.received + 1 } rest :=
  rxLoop_ignored doTx s st dt m rest (by rw [isForMe_iff]; exact h)

example : Spec.receptionCondition exState.addr.rx { id := 0x18DA55AB, ext := true, data := [2, 1, 2] } = false := by
  decide

/-- **C09.3a'** (the other direction of "if and only if") A frame that meets the reception
    condition is given to `_process_rx` (in the state reached after reading it), and is counted
    in `processed`. -/
theorem accepted_frame (doTx : Bool) (s : State) (st : Stats) (dt : Nat) (m : CanMsg)
    (rest : List (Nat × CanMsg)) (h : Spec.receptionCondition s.addr.rx m = true) :
    rxLoop doTx s st ((dt, m) :: rest) =
      (let r := (skipFrame s dt m rest).processRx m
       let st1 : Stats := { st with received := st.received + 1, processed := st.processed + 1 }
       let st' : Stats := if r.2.2 then { st1 with frames := st1.frames + 1 } else st1
       if r.2.1 then (r.1, st', false)
       else if doTx && r.1.txTimeDriven then (r.1, st', true)
       else rxLoop doTx r.1 st' rest) :=
  rxLoop_accepted doTx s st dt m rest (by rw [isForMe_iff]; exact h)

example : Spec.receptionCondition exState.addr.rx { id := 0x18DA55AA, ext := true, data := [2, 1, 2] } = true := by
  decide

/-- **C09.3b** `skipFrame` (what happened to the state while the foreign frame was read) and `tick`
    (the same clock advance and `_check_timeouts_rx` with no frame at all) agree on every field of
    the state except the trace `log` and the bus-side `inbox`: whatever values are put in these two
    fields, the states are equal. In particular the whole receive FSM, the receive queue, the
    pending flow control, the transmit FSM, timers and the exception slot are those of `tick`. -/
theorem ignored_frame_state (s : State) (dt : Nat) (m : CanMsg) (rest : List (Nat × CanMsg))
    (L : List Ev) (I : List (Nat × CanMsg)) :
    { skipFrame s dt m rest with log := L, inbox := I } = { tick s dt with log := L, inbox := I } :=
  skipFrame_eq_tick s dt m rest L I

/-- **C09.3c** The fields named by the property, one by one. -/
theorem ignored_frame_fields (s : State) (dt : Nat) (m : CanMsg) (rest : List (Nat × CanMsg)) :
    let a := skipFrame s dt m rest
    let b := tick s dt
    a.rxState = b.rxState ∧ a.rxBuf = b.rxBuf ∧ a.rxFrameLen = b.rxFrameLen ∧ a.lastSeq = b.lastSeq ∧
    a.rxBlockCnt = b.rxBlockCnt ∧ a.actualRxdl = b.actualRxdl ∧ a.timerCf = b.timerCf ∧
    a.pendingFc = b.pendingFc ∧ a.pendingFcStatus = b.pendingFcStatus ∧ a.rxQueue = b.rxQueue ∧
    a.txState = b.txState ∧ a.txQueue = b.txQueue ∧ a.active = b.active ∧ a.standby = b.standby ∧
    a.lastFc = b.lastFc ∧ a.exc = b.exc ∧ a.now = b.now ∧ a.addr = b.addr ∧ a.cfg = b.cfg ∧
    a.inbox = rest := by
  intro a b
  have h := skipFrame_eq_tick s dt m rest [] []
  have hi : a.inbox = rest := by
    simp only [a, skipFrame, checkTimeoutsRx, emit, State.error, stopReceiving]
    by_cases hto : s.timerCf.timedOut (s.now + dt) = true
    · simp only [hto, ↓reduceIte]
    · simp only [hto, Bool.false_eq_true, ↓reduceIte]
  refine ⟨?_, ?_, ?_, ?_, ?_, ?_, ?_, ?_, ?_, ?_, ?_, ?_, ?_, ?_, ?_, ?_, ?_, ?_, ?_, hi⟩
  · have e := congrArg State.rxState h; exact e
  · have e := congrArg State.rxBuf h; exact e
  · have e := congrArg State.rxFrameLen h; exact e
  · have e := congrArg State.lastSeq h; exact e
  · have e := congrArg State.rxBlockCnt h; exact e
  · have e := congrArg State.actualRxdl h; exact e
  · have e := congrArg State.timerCf h; exact e
  · have e := congrArg State.pendingFc h; exact e
  · have e := congrArg State.pendingFcStatus h; exact e
  · have e := congrArg State.rxQueue h; exact e
  · have e := congrArg State.txState h; exact e
  · have e := congrArg State.txQueue h; exact e
  · have e := congrArg State.active h; exact e
  · have e := congrArg State.standby h; exact e
  · have e := congrArg State.lastFc h; exact e
  · have e := congrArg State.exc h; exact e
  · have e := congrArg State.now h; exact e
  · have e := congrArg State.addr h; exact e
  · have e := congrArg State.cfg h; exact e

/-- **C09.3d** The trace: the foreign frame contributes exactly its `.rx` entry. The events that
    the clock advance itself produces (`pre`: nothing, or one `ConsecutiveFrameTimeoutError` of a
    reception whose timer ran out, at the new time) are the same with and without the frame;
    no `deliver`, no other error. -/
theorem ignored_frame_log (s : State) (dt : Nat) (m : CanMsg) (rest : List (Nat × CanMsg)) :
    ∃ pre : List Ev,
      (tick s dt).log = pre ++ s.log ∧
      (skipFrame s dt m rest).log = pre ++ Ev.rx (s.now + dt) m :: s.log ∧
      (pre = [] ∨ pre = [Ev.err (s.now + dt) .ConsecutiveFrameTimeout]) := by
  unfold skipFrame tick checkTimeoutsRx
  simp only [emit, State.error, stopReceiving]
  by_cases hto : s.timerCf.timedOut (s.now + dt) = true
  · exact ⟨[Ev.err (s.now + dt) .ConsecutiveFrameTimeout], by simp [hto]⟩
  · exact ⟨[], by simp [hto]⟩

/-- **C09.3e** A whole burst of foreign frames. If no frame of the inbox meets the reception
    condition (and the transmit FSM has no time-driven work that would make the loop return
    early), the rx loop of `process` ends in a state that agrees, on every field except the trace
    and the inbox, with simply waiting for the same delays (`idleFor`: clock advance and
    `_check_timeouts_rx` each time); it does not ask for another pass, and of the statistics only
    `received` moved (by the number of frames). -/
theorem ignored_inbox (doTx : Bool) (s : State) (st : Stats) (inbox : List (Nat × CanMsg))
    (hall : ∀ x ∈ inbox, Spec.receptionCondition s.addr.rx x.2 = false)
    (htd : (doTx && s.txTimeDriven) = false) :
    Agree (rxLoop doTx s st inbox).1 (idleFor s (inbox.map (·.1))).checkTimeoutsRx ∧
    (rxLoop doTx s st inbox).2 = ({ st with received := st.received + inbox.length }, false) :=
  rxLoop_all_ignored doTx inbox s st (fun x hx => by rw [isForMe_iff]; exact hall x hx) htd

example : (∀ x ∈ [(5, ({ id := 0x18DA55AB, ext := true, data := [2, 1, 2] } : CanMsg)),
                  (7, { id := 0x123, ext := false, data := [0x10, 0x0A, 1, 2, 3, 4, 5, 6] })],
      Spec.receptionCondition exState.addr.rx x.2 = false) ∧ (true && exState.txTimeDriven) = false := by
  decide

/-! ## §3 Emitted frames carry the documented identifier, identifier type and prefix -/

/-- **C09.4a** `_make_tx_msg`: identifier as requested, identifier type of the transmit address,
    the given bytes are a prefix of the (padded) data. -/
theorem emit_id_prefix (c : Cfg) (a : Addr) (arbId : Nat) (d : Bytes) (msg : CanMsg)
    (h : makeTxMsg c a arbId d = some msg) :
    msg.id = arbId ∧ msg.ext = a.tx.mode.is29 ∧ d <+: msg.data :=
  makeTxMsg_spec c a arbId d msg h

example : ∃ msg, makeTxMsg {} exState.addr 0x18DAAA55 [2, 1, 2] = some msg := ⟨_, rfl⟩

/-- **C09.4b** Flow Control frames: physical identifier, identifier type, prefix. -/
theorem emit_flowControl (c : Cfg) (a : Addr) (status : Nat) (msg : CanMsg)
    (h : makeFlowControl c a status = some msg) : Spec.EmittedFrameOk a.tx .physical msg :=
  makeFlowControl_ok c a status msg h

example : ∃ msg, makeFlowControl {} exState.addr 0 = some msg := ⟨_, rfl⟩

/-- **C09.4c** Start of a transmission (Single Frame or First Frame), sent at once or parked in
    `standby` by the rate limiter: the frame is the documented one for `startTat s r`, i.e. the
    request's target address type for a Single Frame and Physical for a First Frame.
    The address is not changed; a standby message is either the one that was already there or
    the new documented frame. -/
theorem emit_startTx (s : State) (r : Req) (allowed : Nat) (s' : State) (out : Option CanMsg)
    (h : s.startTx r allowed = (s', out)) :
    s'.addr = s.addr ∧
    (∀ msg, s'.standby = some msg →
        s.standby = some msg ∨ Spec.EmittedFrameOk s.addr.tx (startTat s r) msg) ∧
    (∀ msg, out = some msg → Spec.EmittedFrameOk s.addr.tx (startTat s r) msg) :=
  startTx_spec s r allowed s' out h

/-- **C09.4d** Consecutive Frames: physical identifier, identifier type, prefix. -/
theorem emit_transmitCf (s : State) (allowed : Nat) (s' : State) (out : Option CanMsg) (imm : Bool)
    (h : s.transmitCf allowed = (s', out, imm)) :
    s'.addr = s.addr ∧ ∀ msg, out = some msg → Spec.EmittedFrameOk s.addr.tx .physical msg :=
  ⟨(transmitCf_spec s allowed s' out imm h).1.1, (transmitCf_spec s allowed s' out imm h).2⟩

/-- Invariant: the message parked by the rate limiter, if any, is a documented frame of the
    transmit address (for the Physical or the Functional target address type). -/
def StandbyOk (s : State) : Prop :=
  ∀ msg, s.standby = some msg → Spec.EmittedFrameOkAny s.addr.tx msg

/-- the initial state satisfies the invariant -/
theorem standbyOk_init (c : Cfg) (a : Addr) : StandbyOk (State.init c a) := by
  intro msg h; simp [State.init] at h

/-- `startTx` establishes / preserves the invariant. -/
theorem standbyOk_startTx (s : State) (r : Req) (allowed : Nat) (hs : StandbyOk s) :
    StandbyOk (s.startTx r allowed).1 := by
  generalize hres : s.startTx r allowed = res
  obtain ⟨s', out⟩ := res
  obtain ⟨ha, hsb, _⟩ := startTx_spec s r allowed s' out hres
  intro msg hm
  simp only [] at hm ⊢
  rw [ha]
  rcases hsb msg hm with h | h
  · exact hs msg h
  · exact any_of_startTat _ _ _ _ h

/-- **C09.4e** `_process_tx` preserves the invariant and the address. -/
theorem standbyOk_processTx (s : State) (hs : StandbyOk s) :
    StandbyOk s.processTx.1 ∧ s.processTx.1.addr = s.addr := by
  generalize hres : s.processTx = res
  obtain ⟨s', out, imm⟩ := res
  obtain ⟨⟨⟨ha, hsb⟩, _⟩, _⟩ := processTx_spec s s' out imm hres
  refine ⟨?_, ha⟩
  intro msg hm
  simp only [] at hm ⊢
  rw [ha]
  rcases hsb msg hm with h | h
  · exact hs msg h
  · exact h

/-- **C09.4f** Every frame that `_process_tx` hands to the driver (Flow Control, Single Frame,
    First Frame, Consecutive Frame, or a released standby frame) carries the documented
    identifier for the Physical or the Functional target address type, the identifier type of the
    mode, and starts with the documented prefix byte. -/
theorem emit_processTx (s : State) (hs : StandbyOk s) (msg : CanMsg)
    (h : s.processTx.2.1 = some msg) : Spec.EmittedFrameOkAny s.addr.tx msg := by
  generalize hres : s.processTx = res at h
  obtain ⟨s', out, imm⟩ := res
  obtain ⟨_, ho⟩ := processTx_spec s s' out imm hres
  rcases ho msg h with h' | h'
  · exact hs msg h'
  · exact h'

example : StandbyOk exState := standbyOk_init _ _

/-- **C09.4g** A whole `process()` call: the invariant and the address are preserved, and every
    frame handed to `txfn` during the call (the new `.tx` entries of the trace) is a documented
    frame of the transmit address. -/
theorem emit_process (s : State) (doRx doTx : Bool) (hs : StandbyOk s) :
    (s.process doRx doTx).1.addr = s.addr ∧ StandbyOk (s.process doRx doTx).1 ∧
    ∀ t m, Ev.tx t m ∈ (s.process doRx doTx).1.log →
      Ev.tx t m ∈ s.log ∨ Spec.EmittedFrameOkAny s.addr.tx m := by
  have hg : Good s.addr s.log s := ⟨rfl, hs, fun _ _ h => Or.inl h⟩
  obtain ⟨ha, hsb, hl⟩ := process_good s doRx doTx hg
  refine ⟨ha, ?_, hl⟩
  intro msg hm
  rw [ha]
  exact hsb msg hm

/-- **C09.4h** In every state reachable from a freshly constructed layer through the public
    operations (and the micro-steps of `process`), every frame that was handed to `txfn` and the
    frame parked in `standby` are documented frames of the transmit address. No hypothesis on the
    address or the parameters. -/
theorem reachable_frames_ok (c : Cfg) (a : Addr) (s : State) (hr : Reach c a s) :
    s.addr = a ∧ StandbyOk s ∧ ∀ t m, Ev.tx t m ∈ s.log → Spec.EmittedFrameOkAny a.tx m := by
  obtain ⟨ha, hsb, hl⟩ := reach_good c a s hr
  refine ⟨ha, ?_, ?_⟩
  · intro msg hm; rw [ha]; exact hsb msg hm
  · intro t m hm
    rcases hl t m hm with h | h
    · simp at h
    · exact h

example : Reach {} exState.addr
    (((exState.send { id := 0, size := 3, src := [1, 2, 3], tat := some .functional }).1).process true true).1 :=
  Reach.process _ _ (Reach.send _ Reach.init)

/-- a concrete run: a 3-byte functional request on the normal fixed example address -/
def exRun : State :=
  (((exState.send { id := 0, size := 3, src := [1, 2, 3], tat := some .functional }).1).process true true).1

-- it hands exactly one frame to `txfn`: identifier `0x18DB<TA><SA>`, 29-bit, Single Frame
example : exRun.log.filterMap (fun e => match e with | .tx _ m => some (m.id, m.ext, m.data) | _ => none)
    = [(0x18DBAA55, true, [3, 1, 2, 3])] := by decide +kernel

/-! ## §4 Mirrored peers understand each other -/

/-- In the Normal, Extended and Mixed-11 schemes the Functional target address type uses the same
    identifier as the Physical one (`txid`); only NormalFixed_29bits and Mixed_29bits have a
    distinct functional identifier. -/
theorem functional_same_id (h : Half) (hm : h.mode ≠ .nf29 ∧ h.mode ≠ .m29) :
    Spec.emittedId h .functional = Spec.emittedId h .physical := by
  unfold emittedId; cases hmode : h.mode <;> simp_all [scheme]

example : exExtended.mode ≠ .nf29 ∧ exExtended.mode ≠ .m29 := by decide

/-- **C09.5a** (specification level) For a well-formed address that can transmit, every frame that
    is as the documentation says emitted frames are — for either target address type — meets the
    documented reception condition of the mirrored address. -/
theorem mirror_accepts_spec (h : Half) (t : Tat) (msg : CanMsg) (hw : h.txWf = true)
    (hm : Spec.EmittedFrameOk h t msg) : Spec.receptionCondition (Spec.mirror h) msg = true :=
  mirror_receives h t msg hw hm

/-- **C09.5b** (model level) A frame with `id = h.txId tat`, `ext = h.mode.is29`,
    `data = h.txPrefix ++ rest` is accepted by `is_for_me` of the mirrored address, for both
    target address types and all seven modes. -/
theorem mirror_accepts (h : Half) (t : Tat) (msg : CanMsg) (rest : Bytes) (hw : h.txWf = true)
    (hid : msg.id = h.txId t) (hext : msg.ext = h.mode.is29) (hdata : msg.data = h.txPrefix ++ rest) :
    (Spec.mirror h).isForMe msg = true :=
  mirror_isForMe h t msg hw
    (prefix_of_emittedOk h t msg hid hext (by rw [hdata]; exact List.prefix_append _ _))

example : exFixed.txWf = true ∧ exExtended.txWf = true ∧ exMixed29.txWf = true := by decide
example : (Spec.mirror exFixed).isForMe { id := 0x18DBAA55, ext := true, data := [2, 1, 2] } = true := by decide

/-- `Address(...)` without `rx_only=True` gives an address to which `mirror_accepts` applies. -/
theorem mkAddress_txWf (a : AddrArgs) (h : Half) (hk : mkAddress a = .ok h) (hr : a.rxOnly = false) :
    h.txWf = true := by
  have hw := wf_of_mkAddress a h hk
  have : h.rxOnly = a.rxOnly := by
    unfold mkAddress at hk
    split at hk
    · simp at hk
    · split at hk
      · injection hk with hk; subst hk; rfl
      · simp at hk
  simp [Half.txWf, hw, this, hr]

/-- **C09.5c** Every frame `_process_tx` emits is accepted by a layer configured with the mirrored
    address (transmit address well-formed, standby invariant). -/
theorem processTx_accepted_by_mirror (s : State) (hs : StandbyOk s) (hw : s.addr.tx.txWf = true)
    (msg : CanMsg) (h : s.processTx.2.1 = some msg) :
    (Spec.mirror s.addr.tx).isForMe msg = true := by
  rcases emit_processTx s hs msg h with h' | h'
  · exact mirror_isForMe _ _ _ hw h'
  · exact mirror_isForMe _ _ _ hw h'

/-- **C09.5d** For a layer built on a well-formed transmit address, every frame ever handed to
    `txfn` in a reachable state is accepted by a layer configured with the mirrored address. -/
theorem reachable_accepted_by_mirror (c : Cfg) (a : Addr) (s : State) (hr : Reach c a s)
    (hw : a.tx.txWf = true) (t : Nat) (m : CanMsg) (hm : Ev.tx t m ∈ s.log) :
    (Spec.mirror a.tx).isForMe m = true := by
  rcases (reachable_frames_ok c a s hr).2.2 t m hm with h | h
  · exact mirror_isForMe _ _ _ hw h
  · exact mirror_isForMe _ _ _ hw h

/-! ## §5 Functional target address type -/

/-- **C09.6a** `send()` with the Functional target address type and a payload that does not fit a
    Single Frame (`len + 1` — `+ 2` when `tx_data_length ≠ 8` — `+ prefix > tx_data_length`):
    `ValueError`, and the state (in particular the queue) is unchanged. -/
theorem functional_send_rejected (s : State) (a : SendArgs)
    (htat : a.tat.getD s.cfg.defaultTat = .functional)
    (hbig : a.size.toNat + (if s.cfg.txDl = 8 then 1 else 2) + s.txPrefixLen > s.cfg.txDl) :
    s.send a = (s, some .ValueError) := by
  unfold send
  simp only [htat]
  split
  · rfl
  · split
    · rfl
    · simp [hbig]

example : (exState.send { id := 0, size := 8, src := [], tat := some .functional }).2 = some .ValueError := by
  decide

/-- **C09.6b** Otherwise (size in range, fits) the request is queued with `tat = functional`. -/
theorem functional_send_queued (s : State) (a : SendArgs)
    (htat : a.tat.getD s.cfg.defaultTat = .functional)
    (h0 : 0 ≤ a.size) (h1 : a.size ≤ 0xFFFFFFFF)
    (hfit : a.size.toNat + (if s.cfg.txDl = 8 then 1 else 2) + s.txPrefixLen ≤ s.cfg.txDl) :
    s.send a =
      ({ s with txQueue := s.txQueue ++
          [{ id := a.id, size := a.size.toNat, src := a.src, tat := .functional, instr := a.instr }] },
       if s.cfg.blocking then some .BlockingSendTimeout else none) := by
  unfold send
  simp only [htat]
  have h0' : ¬ a.size < 0 := by omega
  have h1' : ¬ a.size > 0xFFFFFFFF := by omega
  have hfit' : ¬ (a.size.toNat + (if s.cfg.txDl = 8 then 1 else 2) + s.txPrefixLen > s.cfg.txDl) := by omega
  simp only [h0', h1', hfit', if_false, decide_false, Bool.and_false, Bool.false_eq_true]
  split <;> rfl

example : (0 : Int) ≤ 7 ∧ (7 : Int) ≤ 0xFFFFFFFF ∧
    (7 : Int).toNat + (if exState.cfg.txDl = 8 then 1 else 2) + exState.txPrefixLen ≤ exState.cfg.txDl := by
  decide

/-- A request accepted by `send()` with the Functional type is transmitted as a Single Frame
    (validated parameters: `Cfg.valid`). -/
theorem functional_fits_single_frame (s : State) (r : Req) (hv : s.cfg.valid = true)
    (hfit : r.size + (if s.cfg.txDl = 8 then 1 else 2) + s.txPrefixLen ≤ s.cfg.txDl) :
    sendsSingleFrame s r = true := by
  unfold sendsSingleFrame
  simp only [Cfg.valid, Bool.and_eq_true, decide_eq_true_eq] at hv
  obtain ⟨⟨⟨⟨⟨_, _⟩, _⟩, _⟩, hmin⟩, _⟩ := hv
  have hr : r.remaining ≤ r.size := by unfold Req.remaining; omega
  cases hm : s.cfg.txMinLen with
  | none => simp only [Option.getD_none, decide_eq_true_eq]; split <;> split at hfit <;> omega
  | some m =>
    simp only [hm, Bool.and_eq_true, decide_eq_true_eq] at hmin
    simp only [Option.getD_some, decide_eq_true_eq]
    split <;> split at hfit <;> omega

/-- **C09.6c** `startTx` for such a request uses the functional identifier: the frame it sends
    (or parks in standby) has `id = txId functional`, the identifier type of the mode and the
    documented prefix. -/
theorem functional_startTx (s : State) (r : Req) (allowed : Nat) (hv : s.cfg.valid = true)
    (htat : r.tat = .functional)
    (hfit : r.size + (if s.cfg.txDl = 8 then 1 else 2) + s.txPrefixLen ≤ s.cfg.txDl)
    (msg : CanMsg)
    (hm : (s.startTx r allowed).2 = some msg ∨
          ((s.startTx r allowed).1.standby = some msg ∧ s.standby = none)) :
    msg.id = s.addr.tx.txId .functional ∧ msg.ext = s.addr.tx.mode.is29 ∧
      s.addr.tx.txPrefix <+: msg.data := by
  generalize hres : s.startTx r allowed = res at hm
  obtain ⟨s', out⟩ := res
  obtain ⟨_, hsb, ho⟩ := startTx_spec s r allowed s' out hres
  simp only [] at hm
  have ht : startTat s r = .functional := by
    unfold startTat; rw [functional_fits_single_frame s r hv hfit, htat]; rfl
  rw [ht] at hsb ho
  have hok : Spec.EmittedFrameOk s.addr.tx .functional msg := by
    rcases hm with hm | ⟨hm, hn⟩
    · exact ho msg hm
    · rcases hsb msg hm with h | h
      · rw [hn] at h; cases h
      · exact h
  rw [txId_eq_emittedId, txPrefix_eq_emittedPrefix, ← uses29bitIds_eq]
  exact hok

example : exState.cfg.valid = true := by decide

end Isotp.C09

#print axioms Isotp.C09.isForMe_iff
#print axioms Isotp.C09.txId_eq_spec
#print axioms Isotp.C09.txPrefix_eq_spec
#print axioms Isotp.C09.mkAddress_wf
#print axioms Isotp.C09.emittedId_bitwise
#print axioms Isotp.C09.ignored_frame
#print axioms Isotp.C09.accepted_frame
#print axioms Isotp.C09.ignored_frame_state
#print axioms Isotp.C09.ignored_frame_fields
#print axioms Isotp.C09.ignored_frame_log
#print axioms Isotp.C09.ignored_inbox
#print axioms Isotp.C09.emit_id_prefix
#print axioms Isotp.C09.emit_flowControl
#print axioms Isotp.C09.emit_startTx
#print axioms Isotp.C09.emit_transmitCf
#print axioms Isotp.C09.standbyOk_init
#print axioms Isotp.C09.standbyOk_startTx
#print axioms Isotp.C09.standbyOk_processTx
#print axioms Isotp.C09.emit_processTx
#print axioms Isotp.C09.emit_process
#print axioms Isotp.C09.reachable_frames_ok
#print axioms Isotp.C09.functional_same_id
#print axioms Isotp.C09.mirror_accepts_spec
#print axioms Isotp.C09.mirror_accepts
#print axioms Isotp.C09.mkAddress_txWf
#print axioms Isotp.C09.processTx_accepted_by_mirror
#print axioms Isotp.C09.reachable_accepted_by_mirror
#print axioms Isotp.C09.functional_send_rejected
#print axioms Isotp.C09.functional_send_queued
#print axioms Isotp.C09.functional_fits_single_frame
#print axioms Isotp.C09.functional_startTx
