import Isotp.Proofs.Duplex
/-
  C10 — Full duplex: concurrent send and receive never disturb each other.

  The endpoint theorems (the sender emits the reference segmentation: C01/C02; the receiver reassembles
  every well-formed stream with arbitrary own transmissions interleaved: C03/C06) are proved elsewhere.
  What is specific to full duplex is the INTERFERENCE of the two directions inside one layer, through the
  two shared fields
    * `lastFc`    (`last_flow_control_frame`): depth-1 mailbox of a received Flow Control — written by
                  `processRx`, consumed by `processTx`, but also cleared by `stopReceiving`
                  (`_stop_receiving` → `_stop_sending_flow_control`), although it belongs to the
                  transmit direction;
    * `pendingFc` (`pending_flow_control_tx`): requested by the receive side, served by `processTx`
                  before anything else — and then the pass returns early, mailbox untouched.
  This file proves that the alternation discipline of `process()` with `do_tx = true` (H-dotx) makes this
  sharing harmless, states exactly what holds without it, and exhibits the schedule (using the public
  flag `do_tx = False`) on which a received Flow Control IS lost.

  Sections: 1 `rxLoop_stops_at_fc` · 2 `mailbox_consumed_first` · 3 `MailboxInv` / `fc_never_lost`
  (+ the false unrestricted statement and its witness) · 4 `end_of_process_mailbox_empty` ·
  5 frame conditions between the directions · 6 `no_wedge_duplex`.
  Helper lemmas: `Isotp/Proofs/Duplex.lean` (namespace `Isotp.Duplex`), `Proofs/Fc.lean`, `Proofs/Timers.lean`.
-/
namespace Isotp.C10
open Isotp State Duplex

/-! ## concrete layer used by the non-vacuity examples and the witnesses

  Layer A (tx id 0x123, rx id 0x456, default parameters: blocksize 8, STmin 0, 8-byte frames) sends a
  20-byte message to its peer B while B sends a 10-byte message to A. -/

def h11 : Half := { mode := .n11, txid := some 0x123, rxid := some 0x456, ta := none, sa := none, ae := none,
                    physId := 0, funcId := 0, rxOnly := false, txOnly := false }
def addr : Addr := { tx := h11, rx := h11 }
def cfg : Cfg := {}
/-- a frame from the peer B -/
def fromB (d : Bytes) : CanMsg := { id := 0x456, ext := false, data := d }

/-- B's First Frame (10 bytes announced, 6 carried) -/
def ffB : CanMsg := fromB [0x10, 10, 1, 2, 3, 4, 5, 6]
/-- B's last Consecutive Frame (the remaining 4 bytes) -/
def cfB : CanMsg := fromB [0x21, 7, 8, 9, 10]
/-- B's ContinueToSend for A's transmission (BS = 0, STmin = 0) -/
def ctsB : CanMsg := fromB [0x30, 0, 0]

def a0 : State := State.init cfg addr
/-- `send(20 bytes)` -/
def a1 : State := (a0.send { id := 1, size := 20, src := List.replicate 20 0x55 }).1
/-- `process()`: A's First Frame goes out, A waits for B's Flow Control -/
def a2 : State := (a1.process true true).1
/-- B's First Frame arrives -/
def a3 : State := a2.pushFrame 0 ffB
/-- `process()`: First Frame read, A's ContinueToSend sent: A is now in WAIT_CF **and** WAIT_FC -/
def dup : State := (a3.process true true).1
/-- the bus delivers B's ContinueToSend and then B's last Consecutive Frame -/
def dupIn : State := (dup.pushFrame 0 ctsB).pushFrame 0 cfB

example : dup.rxState = .waitCf ∧ dup.txState = .waitFc ∧ dup.lastFc = none ∧ dup.pendingFc = false ∧
    dup.timerCf.start = some 0 ∧ dup.timerFc.start = some 0 := by decide
example : dupIn.inbox = [(0, ctsB), (0, cfB)] := by decide
example : fcOf dupIn ctsB = some ⟨0, 0, 0⟩ ∧ fcOf dupIn cfB = none := by decide

/-! ## 1. `rxLoop` stops at a Flow Control -/

/-- **rxLoop_stops_at_fc.** If the head `m` of the inbox is for me and decodes to a Flow Control `fc`,
    `rxLoop` returns right after `processRx`: the state is the arrival state (clock advanced, frame
    logged, N_Cr checked) with `lastFc := some fc`; no re-run is requested by `rxLoop` itself (third
    component `false`); statistics count one frame received and processed. -/
theorem rxLoop_stops_at_fc (doTx : Bool) (s : State) (st : Stats) (dt : Nat) (m : CanMsg)
    (rest : List (Nat × CanMsg)) (fc : FcFrame) (hme : s.addr.rx.isForMe m = true)
    (hfc : fcOf s m = some fc) :
    rxLoop doTx s st ((dt, m) :: rest) =
      ({ s.rxArrive dt m rest with lastFc := some fc },
       { st with received := st.received + 1, processed := st.processed + 1 }, false) :=
  Duplex.rxLoop_stops_at_fc doTx s st dt m rest fc hme (by rw [fcOf_rxArrive]; exact hfc)

/-- … in particular the rest of the inbox is untouched — no further frame is read before the tx loop has
    run — and the mailbox holds the Flow Control -/
theorem rxLoop_stops_at_fc_inbox (doTx : Bool) (s : State) (st : Stats) (dt : Nat) (m : CanMsg)
    (rest : List (Nat × CanMsg)) (fc : FcFrame) (hme : s.addr.rx.isForMe m = true)
    (hfc : fcOf s m = some fc) :
    (rxLoop doTx s st ((dt, m) :: rest)).1.inbox = rest ∧
    (rxLoop doTx s st ((dt, m) :: rest)).1.lastFc = some fc ∧
    (rxLoop doTx s st ((dt, m) :: rest)).2.2 = false := by
  rw [rxLoop_stops_at_fc doTx s st dt m rest fc hme hfc]
  exact ⟨rxArrive_inbox s dt m rest, rfl, rfl⟩

/-- `fcOf` is what `processRx` does with a Flow Control: mailbox written, immediate tx pass required -/
theorem processRx_flow_control (s : State) (m : CanMsg) (fc : FcFrame) (h : fcOf s m = some fc) :
    s.processRx m = ({ s with lastFc := some fc }, true, false) := processRx_fc h

example : dupIn.addr.rx.isForMe ctsB = true ∧ fcOf dupIn ctsB = some ⟨0, 0, 0⟩ := by decide
example : (rxLoop true dupIn {} dupIn.inbox).1.inbox = [(0, cfB)] ∧
    (rxLoop true dupIn {} dupIn.inbox).1.lastFc = some ⟨0, 0, 0⟩ :=
  let h := rxLoop_stops_at_fc_inbox true dupIn {} 0 ctsB [(0, cfB)] ⟨0, 0, 0⟩ (by decide) (by decide)
  ⟨h.1, h.2.1⟩

/-! ## 2. The mailbox is consumed first — except behind a pending Flow Control -/

/-- **mailbox_consumed_first (one pass).** `processTx` always leaves `lastFc = none`, EXCEPT when it
    returns early from the pending-FC branch: then a Flow Control was pending (`pendingFc = true`), the
    mailbox is unchanged, and the pass returns `immediate_rx_required = true` (or raised an exception:
    `pendingFcStatus` unset / frame not buildable). -/
theorem mailbox_consumed_first (s : State) :
    s.processTx.1.lastFc = none ∨
    (s.pendingFc = true ∧ s.processTx.1.lastFc = s.lastFc ∧
      (s.processTx.2.2 = true ∨ s.processTx.1.exc.isSome = true)) :=
  processTx_lastFc s

/-- without a Flow Control to send, the pass consumes the mailbox through the Overflow branch … -/
theorem mailbox_consumed_overflow (s : State) (fc : FcFrame) (hp : s.pendingFc = false)
    (hfc : s.lastFc = some fc) (h2 : fc.status = 2) :
    s.processTx = ((({ s with lastFc := none } : State).stopSending false).error .Overflow, none, false) :=
  processTx_consumes_overflow s fc hp hfc h2

/-- … or through `handleFc`, and then goes on like a fresh pass (N_Bs check, state machine) -/
theorem mailbox_consumed_handleFc (s : State) (fc : FcFrame) (hp : s.pendingFc = false)
    (hfc : s.lastFc = some fc) (h2 : fc.status ≠ 2) :
    s.processTx = (Fc.afterTimeout (({ s with lastFc := none } : State).handleFc fc)).processTx :=
  processTx_consumes_handle s fc hp hfc h2

/-- **mailbox_consumed_first (tx loop).** After `txLoop` with at least one unit of fuel: the mailbox is
    empty, or — only if a Flow Control was pending at its entry — the mailbox is unchanged and the loop
    returned with `run_process` requested (third component) or with an exception. -/
theorem txLoop_mailbox (f : Nat) (s : State) (n : Nat) :
    (txLoop (f + 1) s n).1.lastFc = none ∨
    (s.pendingFc = true ∧ (txLoop (f + 1) s n).1.lastFc = s.lastFc ∧
      ((txLoop (f + 1) s n).2.2.1 = true ∨ (txLoop (f + 1) s n).1.exc.isSome = true)) := by
  have := txLoopT_lastFc f s n
  rw [txLoopT_fst] at this
  exact this

/-- no exception, no re-run requested: the mailbox is empty after the tx loop -/
theorem txLoop_mailbox_empty (f : Nat) (s : State) (n : Nat) (he : (txLoop (f + 1) s n).1.exc = none)
    (hr : (txLoop (f + 1) s n).2.2.1 = false) : (txLoop (f + 1) s n).1.lastFc = none := by
  rcases txLoop_mailbox f s n with h | ⟨-, -, h | h⟩
  · exact h
  · rw [hr] at h; cases h
  · rw [he] at h; cases h

/-- the early return does happen: Flow Control pending and mailbox full ⇒ the mailbox survives the pass -/
def bothSet : State := { dup with pendingFc := true, lastFc := some ⟨0, 0, 0⟩ }
example : bothSet.processTx.1.lastFc = some ⟨0, 0, 0⟩ ∧ bothSet.processTx.2.2 = true ∧
    bothSet.processTx.2.1.map (·.data) = some [0x30, 8, 0] := by decide
/-- … and without a pending Flow Control it is consumed (ContinueToSend honoured: TRANSMIT_CF) -/
def mailSet : State := { dup with lastFc := some ⟨0, 0, 0⟩ }
example : mailSet.processTx.1.lastFc = none ∧ mailSet.processTx.1.txState = .transmitCf := by decide
example : mailSet.pendingFc = false ∧ mailSet.lastFc = some ⟨0, 0, 0⟩ := by decide
/-- an Overflow Flow Control in the mailbox: consumed by the Overflow branch, transmission failed -/
def ovflSet : State := { dup with lastFc := some ⟨2, 0, 0⟩ }
example : ovflSet.pendingFc = false ∧ ovflSet.processTx.1.lastFc = none ∧ ovflSet.processTx.1.txState = .idle ∧
    ovflSet.processTx.1.log.take 2 = [.err 0 .Overflow, .done 1 false] := by decide
/-- the tx loop on `mailSet`: no exception, no re-run requested, two Consecutive Frames, mailbox empty -/
example : (txLoop 5 mailSet 0).1.exc = none ∧ (txLoop 5 mailSet 0).2.2.1 = false ∧
    (txLoop 5 mailSet 0).2.1 = 2 ∧ (txLoop 5 mailSet 0).1.lastFc = none := by decide +kernel
/-- … and on `bothSet`: the loop returns after one pass with `run_process` requested, mailbox still full -/
example : (txLoop 5 bothSet 0).1.lastFc = some ⟨0, 0, 0⟩ ∧ (txLoop 5 bothSet 0).2.2.1 = true ∧
    (txLoop 5 bothSet 0).2.1 = 1 := by decide +kernel

/-! ## 3. The key invariant and `fc_never_lost`

  `Duplex.processT` is `process` instrumented with the list of its `processRx` / `processTx` call points
  (`Call.rx s m` / `Call.tx s`: the function is about to be applied to state `s`), in order; erasing the
  list gives back the model function (`process_trace_erasure`). `Duplex.TraceOk` says:
    * every `processRx` call finds `lastFc = none ∧ pendingFc = false` (`MailboxInv`);
    * a `processRx` call on a Flow Control is immediately followed by a `processTx` call whose state
      still has this Flow Control in the mailbox;
    * every `processTx` call finds `pendingFc = true → lastFc = none` (`MailboxExcl`). -/

/-- the instrumentation is faithful: forgetting the call points gives `process` -/
theorem process_trace_erasure (s : State) (doRx doTx : Bool) :
    (processT s doRx doTx).1 = s.process doRx doTx := processT_fst s doRx doTx

/-- **MailboxInv is an invariant of `process(do_rx, do_tx = true)`**, for every inbox, every fuel
    (no "enough fuel" or "no exception" side condition is needed). -/
theorem mailbox_inv_process (s : State) (doRx : Bool) (h : MailboxInv s) :
    MailboxInv (s.process doRx true).1 := process_mail s doRx h

/-- **fc_never_lost.** From a state with an empty mailbox and no Flow Control pending, with
    `do_tx = true`: all call points of the `process` call satisfy `TraceOk`. -/
theorem fc_never_lost (s : State) (doRx : Bool) (h : MailboxInv s) :
    TraceOk (processT s doRx true).2 := (processT_ok s doRx h).2

/-- under H-dotx (every `process` call has `do_tx = true`) `MailboxInv` holds between any two
    operations of the layer … -/
theorem mailbox_inv_reachable {s : State} (h : ReachTx s) : MailboxInv s := h.mailboxInv

/-- … hence `fc_never_lost` holds for every `process(·, true)` call of every H-dotx run -/
theorem fc_never_lost_reachable {s : State} (h : ReachTx s) (doRx : Bool) :
    TraceOk (processT s doRx true).2 := fc_never_lost s doRx h.mailboxInv

/-- `TraceOk` read at a `processRx` call: the mailbox is empty and nothing is pending at that moment, so
    a `stopReceiving` inside this call (reception complete, aborted, …) destroys nothing -/
theorem processRx_call_mailbox_empty (s : State) (doRx : Bool) (h : MailboxInv s) (s' : State) (m : CanMsg)
    (hc : Call.rx s' m ∈ (processT s doRx true).2) : s'.lastFc = none ∧ s'.pendingFc = false :=
  (fc_never_lost s doRx h).mem hc

/-- `TraceOk` read at a `processTx` call: never a full mailbox behind a pending Flow Control -/
theorem processTx_call_no_early_return (s : State) (doRx : Bool) (h : MailboxInv s) (s' : State)
    (hc : Call.tx s' ∈ (processT s doRx true).2) : s'.pendingFc = true → s'.lastFc = none :=
  (fc_never_lost s doRx h).mem hc

/-- `TraceOk` read at a Flow Control: the call right after the `processRx` that stored `fc` is a
    `processTx` call — before any other `processRx` call and inside the same `process` call — applied to
    a state `s₂` with `lastFc = some fc` and `pendingFc = false`; by `mailbox_consumed_overflow` /
    `mailbox_consumed_handleFc` this pass consumes `fc` (Overflow branch or `handleFc`). -/
theorem fc_consumed_by_next_pass (s : State) (doRx : Bool) (h : MailboxInv s)
    (pre rest : List Call) (s₁ : State) (m : CanMsg) (fc : FcFrame)
    (htr : (processT s doRx true).2 = pre ++ Call.rx s₁ m :: rest) (hfc : fcOf s₁ m = some fc) :
    ∃ s₂ rest', rest = Call.tx s₂ :: rest' ∧ s₂.lastFc = some fc ∧ s₂.pendingFc = false ∧
      (fc.status = 2 →
        s₂.processTx = ((({ s₂ with lastFc := none } : State).stopSending false).error .Overflow, none, false)) ∧
      (fc.status ≠ 2 →
        s₂.processTx = (Fc.afterTimeout (({ s₂ with lastFc := none } : State).handleFc fc)).processTx) := by
  have h1 := fc_never_lost s doRx h
  rw [htr] at h1
  obtain ⟨s₂, rest', hr, hl, hp⟩ := h1.fc_next hfc
  exact ⟨s₂, rest', hr, hl, hp, mailbox_consumed_overflow s₂ fc hp hl, mailbox_consumed_handleFc s₂ fc hp hl⟩

/-! ### non-vacuity: the layer in WAIT_CF and WAIT_FC, inbox = [FC for my transmission, last CF of my
    reception] -/

example : MailboxInv dupIn := ⟨by decide, by decide⟩
example : ReachTx dupIn :=
  .pushFrame _ _ (.pushFrame _ _ (.process true (.pushFrame _ _ (.process true (.send _ (.init cfg addr))))))

/-- what the call points look like on `dupIn`: the Flow Control is read, the very next call is the
    `processTx` pass that honours it (two Consecutive Frames follow, STmin = 0), and B's Consecutive Frame
    is still in the inbox when `process` returns (it is read by the next call) -/
example : ((processT dupIn true true).2.map fun c => match c with
      | .rx s m => (0, s.lastFc.isSome, m.data)
      | .tx s => (1, s.lastFc.isSome, [])) =
    [(0, false, [0x30, 0, 0]), (1, true, []), (1, false, []), (1, false, [])] := by decide +kernel

example : (dupIn.process true true).1.txState = .idle ∧ (dupIn.process true true).1.rxState = .waitCf ∧
    (dupIn.process true true).1.inbox = [(0, cfB)] ∧
    ((dupIn.process true true).1.log.take 3).map (fun e => match e with | .tx _ m => m.data | _ => []) =
      [[0x22, 0x55, 0x55, 0x55, 0x55, 0x55, 0x55, 0x55], [],
       [0x21, 0x55, 0x55, 0x55, 0x55, 0x55, 0x55, 0x55]] := by decide +kernel

/-- both directions complete: A's request is completed with success, B's payload is delivered intact -/
example : ((dupIn.process true true).1.process true true).1.rxQueue = [[1, 2, 3, 4, 5, 6, 7, 8, 9, 10]] ∧
    ((dupIn.process true true).1.process true true).1.rxState = .idle ∧
    ((dupIn.process true true).1.process true true).1.txState = .idle ∧
    Ev.done 1 true ∈ ((dupIn.process true true).1.process true true).1.log := by decide +kernel

/-! ### The unrestricted statement is FALSE: a received Flow Control can be lost

  Hypothesis tested: "starting from a state with `lastFc = none`, with `do_tx = true`, no Flow Control is
  ever lost". It fails when a Flow Control is PENDING at the entry of `process` (`pendingFc = true`),
  which the public flag `do_tx = False` produces:

    1. A: `send(20 bytes)`; `process()`            → A's FF on the bus, A in WAIT_FC
    2. B's FF (10-byte message) is delivered; A: `process(do_rx=True, do_tx=False)`
                                                    → A in WAIT_CF, `pending_flow_control_tx = True`,
                                                      nothing sent                         (state `w0`)
    3. B's ContinueToSend for A's message is delivered; A: `process()`:
         rx loop : reads the FC → mailbox full, `immediate_tx_required` → break
         tx loop : pass 1 serves the PENDING Flow Control first (A's CTS goes out) and returns early with
                   `immediate_rx_required` → `run_process`; the mailbox is still full
         rx loop : (re-entered) B, which has just received A's CTS, sends its last CF; `rxfn` returns it;
                   reception complete → `_stop_receiving` → `_stop_sending_flow_control`
                   → `last_flow_control_frame = None`: **B's ContinueToSend is destroyed unread**
         tx loop : WAIT_FC, mailbox empty: nothing happens.
       A's transmission stays in WAIT_FC until N_Bs expires (FlowControlTimeoutError), although B
       answered in time. In the model the frames that `rxfn` will return are the inbox `[CTS, CF]`. -/

/-- step 2 with the non-default flag: B's First Frame read by an rx-only pass -/
def w0 : State := (a3.process true false).1
/-- the bus then delivers B's ContinueToSend and (after A's ContinueToSend) B's last Consecutive Frame -/
def wIn : State := (w0.pushFrame 0 ctsB).pushFrame 0 cfB

example : w0.rxState = .waitCf ∧ w0.txState = .waitFc ∧ w0.lastFc = none ∧ w0.pendingFc = true ∧
    w0.pendingFcStatus = some 0 := by decide
example : wIn.inbox = [(0, ctsB), (0, cfB)] ∧ wIn.lastFc = none := by decide

/-- the witness is reachable by public operations (one `process` call has `do_tx = false`) -/
theorem witness_reachable : Reach wIn :=
  .pushFrame _ _ (.pushFrame _ _ (.process true false (.pushFrame _ _ (.process true true
    (.send _ (.init cfg addr))))))

/-- the full statement, with only "`lastFc = none` at entry" as hypothesis -/
def C10_fc_never_lost_statement : Prop :=
  ∀ (s : State) (doRx : Bool), s.lastFc = none → TraceOk (processT s doRx true).2

/-- a `processRx` call made with a full mailbox -/
def rxOnFullMailbox : Call → Bool
  | .rx s _ => s.lastFc.isSome
  | .tx _ => false

/-- on the witness, B's Consecutive Frame is handed to `processRx` while B's ContinueToSend is still in
    the mailbox … -/
theorem witness_trace :
    ((processT wIn true true).2.map fun c => match c with
      | .rx s m => (0, s.lastFc.isSome, m.data)
      | .tx s => (1, s.lastFc.isSome, [])) =
    [(0, false, [0x30, 0, 0]), (1, true, []), (0, true, [0x21, 7, 8, 9, 10]), (1, false, [])] := by
  decide +kernel

/-- **fc_never_lost is FALSE without `pendingFc = false` at entry.** -/
theorem fc_never_lost_statement_false : ¬ C10_fc_never_lost_statement := by
  intro h
  have h1 := h wIn true (by decide)
  have h2 : (processT wIn true true).2.any rxOnFullMailbox = true := by decide +kernel
  obtain ⟨c, hc, hb⟩ := List.any_eq_true.mp h2
  have h3 := h1.mem hc
  cases c with
  | tx s => cases hb
  | rx s m =>
    have : s.lastFc = none := h3.1
    simp [rxOnFullMailbox, this] at hb

/-- … and the Flow Control is lost for good: after the call the reception is complete and delivered, the
    inbox is empty, the mailbox is empty, and the transmission is still waiting for the Flow Control
    that B did send; the only frame A has sent in this call is its own ContinueToSend. On the same
    frames WITHOUT the pending Flow Control (`dupIn`, above) both Consecutive Frames go out. -/
theorem fc_lost_witness :
    (wIn.process true true).1.txState = .waitFc ∧ (wIn.process true true).1.lastFc = none ∧
    (wIn.process true true).1.inbox = [] ∧ (wIn.process true true).1.exc = none ∧
    (wIn.process true true).2.2 = false ∧
    (wIn.process true true).1.rxQueue = [[1, 2, 3, 4, 5, 6, 7, 8, 9, 10]] ∧
    (wIn.process true true).2.1.sent = 1 ∧
    ((wIn.process true true).1.log.take 4).map (fun e => match e with
        | .tx _ m => (0, m.data) | .rx _ m => (1, m.data) | .deliver p => (2, p) | _ => (3, [])) =
      [(3, []), (2, [1, 2, 3, 4, 5, 6, 7, 8, 9, 10]), (1, [0x21, 7, 8, 9, 10]), (0, [0x30, 8, 0])] := by
  decide +kernel

/-- the transmission then dies by N_Bs timeout although the peer answered in time -/
theorem fc_lost_witness_timeout :
    Ev.err 1000000001 .FlowControlTimeout ∈
      ((((wIn.process true true).1.advance 1000000001).process true true).1.log) ∧
    Ev.done 1 false ∈ ((((wIn.process true true).1.advance 1000000001).process true true).1.log) := by
  decide +kernel

/-- a second schedule, without any pending Flow Control: two rx-only passes in a row. `dup` (mailbox
    empty, nothing pending); B's CTS delivered; `process(True, False)` stores it; B's CF delivered;
    the next `process()` starts with the rx loop (a reception is in progress), reads the CF, completes
    the reception and clears the mailbox. -/
def v1 : State := ((dup.pushFrame 0 ctsB).process true false).1
theorem fc_lost_witness_rx_only :
    v1.lastFc = some ⟨0, 0, 0⟩ ∧ v1.pendingFc = false ∧
    ((v1.pushFrame 0 cfB).process true true).1.lastFc = none ∧
    ((v1.pushFrame 0 cfB).process true true).1.txState = .waitFc ∧
    ((v1.pushFrame 0 cfB).process true true).2.1.sent = 0 := by decide +kernel

/-- **fc_never_lost_partial**: the statement with the hypothesis that excludes the witnesses —
    no Flow Control pending at the entry of the `process(·, true)` call. Under H-dotx this hypothesis
    always holds (`mailbox_inv_reachable`). What is missing with respect to the full statement: states
    entered with `pendingFc = true`, which only `process(do_tx = false)` can leave behind
    (`pending_cleared_by_any_tx_pass` below). -/
theorem fc_never_lost_partial (s : State) (doRx : Bool) (h : s.lastFc = none) (hp : s.pendingFc = false) :
    TraceOk (processT s doRx true).2 := fc_never_lost s doRx ⟨h, hp⟩

/-- split processing (`process(True, False)` / `process(False, True)`) is safe exactly when the two kinds
    of passes alternate: an rx-only pass from `MailboxInv` ends with at most one of the two fields set
    (`MailboxExcl`), and a tx-only pass from there restores `MailboxInv` -/
theorem split_processing_alternation (s : State) (h : MailboxInv s) :
    MailboxExcl (s.process true false).1 ∧ MailboxInv ((s.process true false).1.process false true).1 :=
  ⟨process_rxOnly_excl s h, process_txOnly_mail _ (process_rxOnly_excl s h)⟩

example : MailboxInv a3 := ⟨by decide, by decide⟩
example : MailboxExcl w0 ∧ ¬ MailboxInv w0 := ⟨fun _ => by decide, fun h => by have := h.2; revert this; decide⟩

/-! ## 4. The end of `process` -/

/-- **end_of_process_mailbox_empty.** After `process(do_rx, do_tx = true)` from a `MailboxInv` state:
    `lastFc = none` and `pendingFc = false`. No side condition (fuel, exception). -/
theorem end_of_process_mailbox_empty (s : State) (doRx : Bool) (h : MailboxInv s) :
    (s.process doRx true).1.lastFc = none ∧ (s.process doRx true).1.pendingFc = false :=
  mailbox_inv_process s doRx h

/-- the exact truth from an ARBITRARY entry state, `do_tx = true`:
    (a) no Flow Control is left pending, whatever happened; -/
theorem pending_cleared_by_any_tx_pass (s : State) (doRx : Bool) :
    (s.process doRx true).1.pendingFc = false := by
  obtain ⟨f, hf⟩ := processFuel_pos s
  unfold State.process
  rw [hf, ← processLoopT_fst]
  exact processLoopT_pendingFc (f + 1) doRx s {} (Or.inl (Nat.succ_pos f))

/-- (b) if the call ends normally (fuel left, no exception) the mailbox is empty — but, as the witness
    shows, possibly because `stopReceiving` emptied it. -/
theorem mailbox_empty_at_normal_end (s : State) (doRx : Bool)
    (hf : (s.process doRx true).2.2 = false) (he : (s.process doRx true).1.exc = none) :
    (s.process doRx true).1.lastFc = none := by
  unfold State.process at *
  rw [← processLoopT_fst] at *
  exact processLoopT_lastFc _ doRx s {} hf he

/-- with `do_tx = false` a Flow Control does stay pending / in the mailbox at the end (by design) -/
example : (a3.process true false).1.pendingFc = true := by decide
example : ((dup.pushFrame 0 ctsB).process true false).1.lastFc = some ⟨0, 0, 0⟩ := by decide +kernel

/-! ## 5. Frame conditions between the two directions -/

/-- `processRx` changes no transmit-side field except the mailbox: `txState`, `txQueue`, `active`,
    `standby`, `txFrameLen`, `txSeq`, `txBlockCnt`, `remoteBs`, `wftCnt`, `timerFc`, `timerStmin`, `rl`
    (and `cfg`, `addr`, `now`, `exc`) are those of `s` -/
theorem processRx_tx_fields (s : State) (m : CanMsg) :
    (s.processRx m).1.txState = s.txState ∧ (s.processRx m).1.txQueue = s.txQueue ∧
    (s.processRx m).1.active = s.active ∧ (s.processRx m).1.standby = s.standby ∧
    (s.processRx m).1.txFrameLen = s.txFrameLen ∧ (s.processRx m).1.txSeq = s.txSeq ∧
    (s.processRx m).1.txBlockCnt = s.txBlockCnt ∧ (s.processRx m).1.remoteBs = s.remoteBs ∧
    (s.processRx m).1.wftCnt = s.wftCnt ∧ (s.processRx m).1.timerFc = s.timerFc ∧
    (s.processRx m).1.timerStmin = s.timerStmin ∧ (s.processRx m).1.rl = s.rl ∧
    (s.processRx m).1.exc = s.exc := by
  have h := txView_processRx s m
  simp only [State.txView, TxView.mk.injEq] at h
  obtain ⟨-, -, -, h4, h5, h6, h7, h8, h9, h10, h11, h12, h13, h14, h15, h16⟩ := h
  exact ⟨h4, h5, h6, h7, h8, h9, h10, h11, h12, h13, h14, h15, h16⟩

/-- … and the mailbox is written only by a Flow Control; any other frame leaves it alone or clears it -/
theorem processRx_mailbox (s : State) (m : CanMsg) :
    (∀ fc, fcOf s m = some fc → (s.processRx m).1.lastFc = some fc) ∧
    (fcOf s m = none → (s.processRx m).1.lastFc = s.lastFc ∨ (s.processRx m).1.lastFc = none) :=
  ⟨fun fc h => by rw [processRx_fc h], processRx_nonfc_lastFc⟩

/-- `processTx` changes no receive-side field except `pendingFc` (cleared) and `timerCf`: `rxState`,
    `rxBuf`, `rxFrameLen`, `lastSeq`, `rxBlockCnt`, `actualRxdl`, `rxQueue`, `pendingFcStatus` and the
    inbox are those of `s` -/
theorem processTx_rx_fields (s : State) :
    s.processTx.1.rxState = s.rxState ∧ s.processTx.1.rxBuf = s.rxBuf ∧
    s.processTx.1.rxFrameLen = s.rxFrameLen ∧ s.processTx.1.lastSeq = s.lastSeq ∧
    s.processTx.1.rxBlockCnt = s.rxBlockCnt ∧ s.processTx.1.actualRxdl = s.actualRxdl ∧
    s.processTx.1.rxQueue = s.rxQueue ∧ s.processTx.1.pendingFcStatus = s.pendingFcStatus ∧
    s.processTx.1.inbox = s.inbox ∧ s.processTx.1.pendingFc = false := by
  have h := rxView_processTx_of_txPend s
  have h2 : s.txPend.1.rxState = s.rxState ∧ s.txPend.1.rxBuf = s.rxBuf ∧
      s.txPend.1.rxFrameLen = s.rxFrameLen ∧ s.txPend.1.lastSeq = s.lastSeq ∧
      s.txPend.1.rxBlockCnt = s.rxBlockCnt ∧ s.txPend.1.actualRxdl = s.actualRxdl ∧
      s.txPend.1.rxQueue = s.rxQueue ∧ s.txPend.1.pendingFcStatus = s.pendingFcStatus := by
    unfold txPend startRxCfTimer State.raise
    simp only []
    repeat' split
    all_goals simp
  simp only [State.rxView, RxView.mk.injEq] at h
  obtain ⟨-, -, -, h4, h5, h6, h7, h8, h9, -, -, h12, h13⟩ := h
  obtain ⟨g1, g2, g3, g4, g5, g6, g7, g8⟩ := h2
  exact ⟨h4.trans g1, h5.trans g2, h6.trans g3, h7.trans g4, h8.trans g5, h9.trans g6, h13.trans g7,
    h12.trans g8, processTx_inbox s, processTx_pendingFc s⟩

/-- N_Cr (`timerCf`) is touched by `processTx` only when it hands out a ContinueToSend: it is restarted
    at the current time; in every other case it is unchanged -/
theorem processTx_timerCf (s : State) :
    s.processTx.1.timerCf =
      if s.pendingFc = true ∧ s.pendingFcStatus = some 0 then { start := some s.now, timeout := s.cfg.tCf }
      else s.timerCf := by
  have h := congrArg RxView.timerCf (rxView_processTx_of_txPend s)
  simp only [State.rxView] at h
  rw [h]
  unfold txPend
  grind [State.raise, startRxCfTimer]

/-- a tx-only pass `process(do_rx = false, do_tx)` never reads the inbox, and all its call points are
    `processTx` calls -/
theorem tx_only_pass_never_reads (s : State) (doTx : Bool) :
    (s.process false doTx).1.inbox = s.inbox ∧
    ∀ c ∈ (processT s false doTx).2, ∃ s', c = Call.tx s' := by
  have h := processLoopT_txOnly s.processFuel doTx s {}
  refine ⟨?_, h.2⟩
  rw [← process_trace_erasure]
  exact h.1

example : (dupIn.process false true).1.inbox = [(0, ctsB), (0, cfB)] := (tx_only_pass_never_reads dupIn true).1

/-! ## 6. No wedged state -/

/-- a transfer in progress always has something that will end it: a running timer, a parked frame, or a
    ContinueToSend about to be handed out (which restarts N_Cr) -/
def NoWedge (s : State) : Prop :=
  (s.txState = .waitFc → s.timerFc.start.isSome = true ∧ s.timerFc.timeout = s.cfg.tFc) ∧
  (s.txState = .transmitCf → s.timerStmin.start.isSome = true) ∧
  (s.txState = .sfStandby ∨ s.txState = .ffStandby → s.standby.isSome = true) ∧
  (s.txState ≠ .idle → s.active.isSome = true) ∧
  (s.rxState = .waitCf →
    (s.timerCf.start.isSome = true ∧ s.timerCf.timeout = s.cfg.tCf) ∨
    (s.pendingFc = true ∧ s.pendingFcStatus = some 0 ∧
      s.processTx.1.timerCf = { start := some s.now, timeout := s.cfg.tCf }))

/-- **no_wedge_duplex.** In every reachable state (any operations, any `process` flags, any frames): if a
    transmission is active, the N_Bs timer runs (WAIT_FC), or the STmin timer runs (TRANSMIT_CF), or a
    frame is parked for the rate limiter (standby); if a reception is active, the N_Cr timer runs, or a
    ContinueToSend is pending whose hand-out by the next tx pass starts N_Cr. So no reachable state has
    an incomplete transfer that no timer will end. -/
theorem no_wedge_duplex {s : State} (h : Reach s) : NoWedge s := by
  have hw := h.txWf
  have ht := h.timerInv
  obtain ⟨w1, -, w3, w4, w5, -⟩ := hw
  obtain ⟨⟨⟨-, r2⟩, -, r3⟩, -⟩ := ht
  refine ⟨w1, fun hs => (w3 hs).1, w4, w5, fun hr => ?_⟩
  cases hst : s.timerCf.start with
  | some t0 => exact Or.inl ⟨rfl, r2⟩
  | none =>
    obtain ⟨hp, hps⟩ := r3 hr hst
    exact Or.inr ⟨hp, hps, processTx_restarts_timerCf s hp hps⟩

/-- under H-dotx the second alternative never shows between two operations: an active reception always
    has N_Cr running -/
theorem no_wedge_duplex_dotx {s : State} (h : ReachTx s) :
    NoWedge s ∧ (s.rxState = .waitCf → s.timerCf.start.isSome = true ∧ s.timerCf.timeout = s.cfg.tCf) := by
  have hn := no_wedge_duplex h.reach
  refine ⟨hn, fun hr => ?_⟩
  rcases hn.2.2.2.2 hr with h1 | ⟨hp, -⟩
  · exact h1
  · rw [h.mailboxInv.2] at hp; cases hp

/-- the timers do end the transfers: an expired N_Cr closes the reception at the next `rxfn` return … -/
theorem expired_rx_timer_ends_reception {s : State} (h : Reach s) (hd : RxDeadlineMissed s) :
    s.checkTimeoutsRx.rxState = .idle ∧
    s.checkTimeoutsRx.log = .err s.now .ConsecutiveFrameTimeout :: s.log := by
  rw [checkTimeoutsRx_fire s h.timerInv.1.1.2 hd]
  exact ⟨rfl, rfl⟩

/-- … and an expired N_Bs fails the transmission at the next tx pass (H-dotx state: nothing pending, mailbox
    empty): the pass goes on from the failed, idle state -/
theorem expired_tx_timer_ends_transmission {s : State} (h : ReachTx s) (hw : s.txState = .waitFc)
    (hd : TxDeadlineMissed s) :
    s.processTx = s.txTimedOutState.txFsm (s.rl.allowedBytes s.cfg.rlBitMax) ∧
    s.txTimedOutState.txState = .idle ∧ s.txTimedOutState.active = none :=
  ⟨processTx_fc_timeout s h.mailboxInv.2 hw h.reach.timerInv.2.2.2 hd
      (fun f hf => by rw [h.mailboxInv.1] at hf; cases hf),
   (txTimedOutState_fields s).1, (txTimedOutState_fields s).2.2.1⟩

/-- non-vacuity: the full-duplex state is reachable under H-dotx, both transfers are active, both timers
    run -/
example : ReachTx dup :=
  .process true (.pushFrame _ _ (.process true (.send _ (.init cfg addr))))
example : dup.rxState = .waitCf ∧ dup.txState = .waitFc ∧ dup.timerCf.start.isSome = true ∧
    dup.timerFc.start.isSome = true := by decide
/-- … and the other alternative of `NoWedge` (ContinueToSend pending, N_Cr restarted by its hand-out) is
    what the rx-only pass leaves -/
example : w0.rxState = .waitCf ∧ w0.pendingFc = true ∧ w0.pendingFcStatus = some 0 ∧
    w0.processTx.1.timerCf.start = some 0 := by decide
example : RxDeadlineMissed (dup.advance 1000000001) := ⟨0, by decide, Or.inl (by decide)⟩
example : TxDeadlineMissed (dup.advance 1000000001) := ⟨0, by decide, Or.inl (by decide)⟩

end Isotp.C10

#print axioms Isotp.C10.rxLoop_stops_at_fc
#print axioms Isotp.C10.rxLoop_stops_at_fc_inbox
#print axioms Isotp.C10.processRx_flow_control
#print axioms Isotp.C10.mailbox_consumed_first
#print axioms Isotp.C10.mailbox_consumed_overflow
#print axioms Isotp.C10.mailbox_consumed_handleFc
#print axioms Isotp.C10.txLoop_mailbox
#print axioms Isotp.C10.txLoop_mailbox_empty
#print axioms Isotp.C10.process_trace_erasure
#print axioms Isotp.C10.mailbox_inv_process
#print axioms Isotp.C10.fc_never_lost
#print axioms Isotp.C10.mailbox_inv_reachable
#print axioms Isotp.C10.fc_never_lost_reachable
#print axioms Isotp.C10.processRx_call_mailbox_empty
#print axioms Isotp.C10.processTx_call_no_early_return
#print axioms Isotp.C10.fc_consumed_by_next_pass
#print axioms Isotp.C10.witness_reachable
#print axioms Isotp.C10.witness_trace
#print axioms Isotp.C10.fc_never_lost_statement_false
#print axioms Isotp.C10.fc_lost_witness
#print axioms Isotp.C10.fc_lost_witness_timeout
#print axioms Isotp.C10.fc_lost_witness_rx_only
#print axioms Isotp.C10.fc_never_lost_partial
#print axioms Isotp.C10.split_processing_alternation
#print axioms Isotp.C10.end_of_process_mailbox_empty
#print axioms Isotp.C10.pending_cleared_by_any_tx_pass
#print axioms Isotp.C10.mailbox_empty_at_normal_end
#print axioms Isotp.C10.processRx_tx_fields
#print axioms Isotp.C10.processRx_mailbox
#print axioms Isotp.C10.processTx_rx_fields
#print axioms Isotp.C10.processTx_timerCf
#print axioms Isotp.C10.tx_only_pass_never_reads
#print axioms Isotp.C10.no_wedge_duplex
#print axioms Isotp.C10.no_wedge_duplex_dotx
#print axioms Isotp.C10.expired_rx_timer_ends_reception
#print axioms Isotp.C10.expired_tx_timer_ends_transmission
